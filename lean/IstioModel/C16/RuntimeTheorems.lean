import IstioModel.C16.RuntimeSys

/-!
C16 - theorems about the abstract runtime (`Model.lean`): a derived collection driven by arbitrary
interleavings of source changes and queue processing.

* `state_correct_partial`  at quiescence the contents equal the transformation of the current inputs,
                           for every history and schedule that respects `DisjointAtApply` (`runOK`)
* `StateCorrect`, `key_move_witness`   the statement without that hypothesis is false (finding F6)
* `state_correct_key_preserving`       unconditional for KEY-PRESERVING one-to-one collections (output key = input key);
                                       `one_to_one_by_value_witness`: a one-to-one collection keyed by a field of the input has F6 too
* `stream_wellformed`, `late_subscriber_accepted`   the emitted stream, for early and late subscribers
* `deps_complete`, `changed_result_is_recomputed`   dependency tracking
-/
namespace IstioModel.C16
open AMap

theorem exec_append (T : Transform) (s : Sys) (r1 r2 : List Act) :
    exec T s (r1 ++ r2) = exec T (exec T s r1) r2 := by
  simp [exec, List.foldl_append]

theorem runOK_append (T : Transform) (s : Sys) (r1 r2 : List Act) :
    runOK T s (r1 ++ r2) = (runOK T s r1 && runOK T (exec T s r1) r2) := by
  induction r1 generalizing s with
  | nil => simp [runOK, exec]
  | cons a r1 ih => simp [runOK, exec, ih, Bool.and_assoc]

theorem mem_specContents {T : Transform} {prim sec : List Obj} {k : Key} {v : Val} :
    (k, v) ∈ specContents T prim sec ↔ ∃ o ∈ prim, (k, v) ∈ transform T sec o := by
  simp [specContents, List.mem_flatMap]

/-- At a quiescent point reached along a run respecting DisjointAtApply, every input is up to date. -/
theorem quiescent_upToDate {T : Transform} {s : Sys} (h : SysInv T s) (hq : s.quiescent = true) (i : Key) :
    UpToDate T s.prim s.sec s.col i := by
  simp only [Sys.quiescent, Bool.and_eq_true, List.isEmpty_iff] at hq
  apply h.m.clean i
  · rw [hq.1]; rintro ⟨e, he, _⟩; simp at he
  · rw [hq.2]; rintro ⟨b, hb, _⟩; simp at hb

theorem contents_eq_spec {T : Transform} {s : Sys} (h : SysInv T s) (hq : s.quiescent = true) :
    MapEq s.col.outputs (specContents T s.prim s.sec) := by
  intro k
  cases hl : lookup (specContents T s.prim s.sec) k with
  | some v =>
    obtain ⟨o, ho, hkv⟩ := mem_specContents.1 (lookup_some_mem hl)
    have hu := quiescent_upToDate h hq o.key
    simp only [UpToDate, oget_of_mem h.srcP ho] at hu
    exact hu.2.2 (k, v) hkv
  | none =>
    cases ho : lookup s.col.outputs k with
    | none => rfl
    | some w =>
      exfalso
      obtain ⟨i, ks, hi, hk⟩ := h.m.col.sup k (by simp [ho])
      have hu := quiescent_upToDate h hq i
      simp only [UpToDate] at hu
      cases hp : oget s.prim i with
      | none => simp only [hp] at hu; rw [hu.1] at hi; simp at hi
      | some o =>
        simp only [hp] at hu
        rw [hu.1] at hi
        simp only [Option.some.injEq] at hi
        subst hi
        obtain ⟨v, hv⟩ := mem_newKeysOf.1 hk
        have hm : (k, v) ∈ specContents T s.prim s.sec := mem_specContents.2 ⟨o, oget_mem hp, hv⟩
        have : k ∈ keys (specContents T s.prim s.sec) := by
          simp only [keys, List.mem_map]; exact ⟨(k, v), hm, rfl⟩
        have := lookup_isSome_of_mem_keys this
        rw [hl] at this; simp at this

/-- **state_correct (partial)**: after any sequence of source changes (add/update/delete, atomic
    batches) and any scheduling of the two handler pumps, processed one batch at a time, whenever
    the queues are empty the derived collection's contents (`List`, hence `GetKey`) equal the
    transformation applied to the current inputs - provided every applied item respected the
    library contract `DisjointAtApply` (`runOK`). -/
theorem state_correct_partial (T : Transform) (run : List Act)
    (hok : runOK T {} run = true) (hq : (exec T {} run).quiescent = true) :
    MapEq (exec T {} run).col.outputs
      (specContents T (exec T {} run).prim (exec T {} run).sec) :=
  contents_eq_spec (sysInv_exec (sysInv_init T) run hok) hq

/-- `GetKey` at quiescence. -/
theorem getKey_correct (T : Transform) (run : List Act) (hok : runOK T {} run = true)
    (hq : (exec T {} run).quiescent = true) (k : Key) :
    lookup (exec T {} run).col.outputs k = specGet T (exec T {} run).prim (exec T {} run).sec k :=
  state_correct_partial T run hok hq k

/-- The full statement of the property's first sentence for this runtime: no `DisjointAtApply`
    hypothesis, only the unique-key contract on the *final* inputs. -/
def StateCorrect : Prop :=
  ∀ (T : Transform) (run : List Act), (exec T {} run).quiescent = true →
    uniqueKeysB T (exec T {} run).prim (exec T {} run).sec = true →
    MapEq (exec T {} run).col.outputs (specContents T (exec T {} run).prim (exec T {} run).sec)

/-- The key-move history: `k` is produced by `n1/a`; `n1/b` takes it over and is applied first, then
    `n1/a` releases it (two `UpdateObject` calls; also one atomic `Reset` batch in this order). -/
def keyMoveT : Transform := { multi := true }
def keyMoveRun : List Act :=
  [ .envP [.set { ns := "n1", name := "a", outs := ["k"] }], .envP [.set { ns := "n1", name := "b" }],
    .procP, .procP,
    .envP [.set { ns := "n1", name := "b", outs := ["k"] }], .envP [.set { ns := "n1", name := "a" }],
    .procP, .procP ]
def keyMoveRunAtomic : List Act :=
  [ .envP [.set { ns := "n1", name := "a", outs := ["k"] }, .set { ns := "n1", name := "b" }], .procP,
    .envP [.set { ns := "n1", name := "b", outs := ["k"] }, .set { ns := "n1", name := "a" }], .procP ]

/-- **key_move_witness** (finding F6): the full statement is false.  After the key-move history the
    queues are empty, the final inputs satisfy the unique-key contract, the specification contains
    `k` (from `n1/b`), and the collection does not. Replayed on the real krt by the corpus cases
    `krt.f6-*.ops`. -/
theorem key_move_witness : ¬ StateCorrect := by
  intro h
  have := h keyMoveT keyMoveRun (by decide) (by decide) "k"
  revert this
  decide

/-- The same with both changes in one atomic batch: no intermediate input state ever violates the
    unique-key contract. -/
theorem key_move_witness_atomic :
    (exec keyMoveT {} keyMoveRunAtomic).quiescent = true ∧
    lookup (exec keyMoveT {} keyMoveRunAtomic).col.outputs "k" = none ∧
    (lookup (specContents keyMoveT (exec keyMoveT {} keyMoveRunAtomic).prim
      (exec keyMoveT {} keyMoveRunAtomic).sec) "k").isSome = true := by decide

/-- The witness violates `DisjointAtApply` (as it must, by `state_correct_partial`). -/
theorem key_move_not_disjoint : runOK keyMoveT {} keyMoveRun = false := by decide

/-- After the key move the stale mapping makes a later recompute deliver a Delete of an unknown
    (empty) key: the emitted stream is not well formed either. -/
theorem key_move_ghost_delete :
    monitorB (exec keyMoveT {} (keyMoveRun ++
        [.envP [.set { ns := "n1", name := "b" }], .procP])).out
      (exec keyMoveT {} (keyMoveRun ++ [.envP [.set { ns := "n1", name := "b" }], .procP])).col.outputs
      = false := by decide

/-- **stream_wellformed**: under the same hypothesis, at every moment (quiescent or not) the stream
    delivered so far satisfies the property's stream clause and replays to the current contents. -/
theorem stream_wellformed (T : Transform) (run : List Act) (hok : runOK T {} run = true) :
    WellFormed (exec T {} run).out ∧ MapEq (replay (exec T {} run).out) (exec T {} run).col.outputs := by
  have h := sysInv_exec (sysInv_init T) run hok
  exact ⟨h.stream.wf, h.stream.rep⟩

/-- ... hence the verified monitor accepts it. -/
theorem stream_accepted (T : Transform) (run : List Act) (hok : runOK T {} run = true) :
    monitorB (exec T {} run).out (exec T {} run).col.outputs = true :=
  (monitorB_iff _ _).2 (stream_wellformed T run hok)

theorem exec_out_prefix (T : Transform) (s : Sys) (run : List Act) :
    ∃ t, (exec T s run).out = s.out ++ t := by
  induction run generalizing s with
  | nil => exact ⟨[], by simp [exec]⟩
  | cons a run ih =>
    obtain ⟨t, ht⟩ := ih (step T s a)
    have : ∃ u, (step T s a).out = s.out ++ u := by
      cases a with
      | envP ops => exact ⟨[], by simp [step]⟩
      | envS ops => exact ⟨[], by simp [step]⟩
      | procP => exact ⟨_, rfl⟩
      | procS => exact ⟨_, rfl⟩
    obtain ⟨u, hu⟩ := this
    refine ⟨u ++ t, ?_⟩
    simp only [exec, List.foldl_cons] at ht ⊢
    rw [ht, hu, List.append_assoc]

/-- **Late registration** (`RegisterBatch(f, runExistingState = true)` at any moment): the initial
    Adds of the contents held at registration time followed by everything delivered afterwards is
    accepted against the later contents. -/
theorem late_subscriber_accepted (T : Transform) (run1 run2 : List Act)
    (hok : runOK T {} (run1 ++ run2) = true) :
    ∃ t, (exec T {} (run1 ++ run2)).out = (exec T {} run1).out ++ t ∧
      monitorB (addsOf (exec T {} run1).col.outputs ++ t) (exec T {} (run1 ++ run2)).col.outputs = true := by
  rw [runOK_append, Bool.and_eq_true] at hok
  have h1 := sysInv_exec (sysInv_init T) run1 hok.1
  have h2 := sysInv_exec h1 run2 hok.2
  obtain ⟨t, ht⟩ := exec_out_prefix T (exec T {} run1) run2
  rw [exec_append]
  refine ⟨t, ht, ?_⟩
  rw [monitorB_late_iff _ h1.stream.nd]
  have wf2 := h2.stream.wf
  have rep2 := h2.stream.rep
  rw [ht] at wf2 rep2
  rw [WellFormed, wellFormedFrom_append] at wf2
  rw [replay, replayFrom_append] at rep2
  exact ⟨(wellFormedFrom_congr h1.stream.rep t).1 wf2.2,
         MapEq.trans (MapEq.symm (replayFrom_congr h1.stream.rep t)) rep2⟩

/-! ## dependency tracking -/

/-- **deps_complete**: if some recorded filter of input `i` matches the old or the new version of a
    changed object - in particular when the object starts or stops matching - `i` is in the set
    `changedInputKeys` of inputs that are recomputed. -/
theorem deps_complete (deps : AMap (List Dep)) (b : List SrcEv) (i : Key) (ds : List Dep) (d : Dep)
    (e : SrcEv) (o : Obj) (hl : lookup deps i = some ds) (hd : d ∈ ds) (he : e ∈ b)
    (ho : e.old = some o ∨ e.new = some o) (hm : d.matches o = true) :
    i ∈ changedInputKeys deps b := by
  apply mem_changedInputKeys_of_hit
  refine ⟨e, he, ?_⟩
  simp only [hl, Option.getD_some, objectChanged, List.any_eq_true]
  refine ⟨d, hd, o, ?_, hm⟩
  rcases ho with ho | ho <;> simp [SrcEv.items, ho]

/-- "starts or stops matching" form. -/
theorem deps_complete_start_stop (deps : AMap (List Dep)) (b : List SrcEv) (i : Key) (ds : List Dep)
    (d : Dep) (old new : Obj) (hl : lookup deps i = some ds) (hd : d ∈ ds)
    (he : (⟨some old, some new⟩ : SrcEv) ∈ b) (hchg : d.matches old ≠ d.matches new) :
    i ∈ changedInputKeys deps b := by
  cases h1 : d.matches old with
  | true => exact deps_complete deps b i ds d _ old hl hd he (Or.inl rfl) h1
  | false =>
    cases h2 : d.matches new with
    | true => exact deps_complete deps b i ds d _ new hl hd he (Or.inr rfl) h2
    | false => rw [h1, h2] at hchg; exact absurd rfl hchg

/-- Semantic completeness: if a batch of changes of the fetched collection changes the result of
    the transformation of input `o` (whose recorded dependencies are those of its last run), then
    `o` is recomputed. -/
theorem changed_result_is_recomputed (T : Transform) (sec : List Obj) (hs : SrcOK sec)
    (ops : List SrcOp) (o : Obj) (deps : AMap (List Dep))
    (hl : lookup deps o.key = some (depsOf T sec o))
    (hne : transform T (srcSteps sec ops) o ≠ transform T sec o) :
    o.key ∈ changedInputKeys deps (srcEvents sec ops) := by
  apply Classical.byContradiction
  intro hnot
  apply hne
  apply (transform_unchanged_of_no_hit hs ops o ?_).1
  intro e he
  cases hc : objectChanged (depsOf T sec o) e with
  | false => rfl
  | true =>
    exfalso
    apply hnot
    apply mem_changedInputKeys_of_hit
    exact ⟨e, he, by simp [hl, hc]⟩

/-! ## key-preserving one-to-one collections need no hypothesis -/

/-- every recorded mapping of a one-to-one collection is (at most) the input's own key -/
def OneToOne (c : Col) : Prop := ∀ p ∈ c.mappings, ∀ k ∈ p.2, k = p.1

theorem mem_erase {α : Type} {m : AMap α} {k : Key} {p : Key × α} (h : p ∈ erase m k) : p ∈ m := by
  induction m with
  | nil => simp [erase] at h
  | cons q m ih =>
    obtain ⟨c, v⟩ := q
    simp only [erase] at h
    by_cases hk : k = c
    · simp only [hk, if_true] at h; rw [← hk] at h; exact List.mem_cons_of_mem _ (ih h)
    · simp only [hk, if_false, List.mem_cons] at h
      rcases h with h | h
      · subst h; simp
      · exact List.mem_cons_of_mem _ (ih h)

theorem newKeys_single {T : Transform} (hT : T.multi = false ∧ T.byVal = false) (sec : List Obj) (i : Obj) {k : Key}
    (h : k ∈ newKeysOf T sec i) : k = i.key := by
  obtain ⟨v, hv⟩ := mem_newKeysOf.1 h
  simp only [transform, outKeys, hT.1, hT.2] at hv
  split at hv
  · simp at hv
  · simp only [Bool.false_eq_true, if_false, List.map_cons, List.map_nil, List.mem_singleton,
      Prod.mk.injEq] at hv
    exact hv.1

theorem oneToOne_item {T : Transform} (hT : T.multi = false ∧ T.byVal = false) (sec : List Obj) {c : Col}
    (h : OneToOne c) (it : Item) :
    itemOK T sec c it = true ∧ OneToOne (applyItem T sec c it) := by
  cases it with
  | delete k =>
    refine ⟨rfl, ?_⟩
    intro p hp
    simp only [applyItem, deleteCol_mappings] at hp
    exact h p (mem_erase hp)
  | recompute i =>
    constructor
    · simp only [itemOK, List.all_eq_true, Bool.or_eq_true, beq_iff_eq, Bool.not_eq_true',
        List.contains_eq_mem, decide_eq_false_iff_not]
      intro p hp
      by_cases hpi : p.1 = i.key
      · exact Or.inl hpi
      · right
        intro k hk hkp
        have h1 := newKeys_single hT sec i hk
        have h2 := h p hp k hkp
        exact hpi (h2.symm.trans h1)
    · intro p hp
      simp only [applyItem, recomputeCol_mappings, AMap.set, List.mem_cons] at hp
      rcases hp with hp | hp
      · subst hp; intro k hk; exact newKeys_single hT sec i hk
      · exact h p (mem_erase hp)

theorem oneToOne_items {T : Transform} (hT : T.multi = false ∧ T.byVal = false) (sec : List Obj) (its : List Item) {c : Col}
    (h : OneToOne c) : itemsOK T sec c its = true ∧ OneToOne (applyItems T sec c its) := by
  induction its generalizing c with
  | nil => exact ⟨rfl, h⟩
  | cons it its ih =>
    obtain ⟨h1, h2⟩ := oneToOne_item hT sec h it
    obtain ⟨h3, h4⟩ := ih h2
    exact ⟨by simp [itemsOK, h1, h3], by simpa [applyItems] using h4⟩

theorem runOK_of_single {T : Transform} (hT : T.multi = false ∧ T.byVal = false) (s : Sys) (h : OneToOne s.col)
    (run : List Act) : runOK T s run = true := by
  induction run generalizing s with
  | nil => rfl
  | cons a run ih =>
    obtain ⟨h1, h2⟩ := oneToOne_items hT s.sec (actItems s a) h
    simp only [runOK, h1, Bool.true_and]
    apply ih
    cases a <;> simp only [step] <;> first | exact h | exact h2

/-- **state_correct for key-preserving one-to-one collections** (`krt.NewCollection` whose output key is the
    input's key; NOT every `NewCollection`: see `one_to_one_by_value_witness`): no hypothesis at all - for
    every history and every schedule, at quiescence the contents equal the transformation of the
    current inputs, and the stream is well formed. -/
theorem state_correct_key_preserving (T : Transform) (hT : T.multi = false ∧ T.byVal = false) (run : List Act)
    (hq : (exec T {} run).quiescent = true) :
    MapEq (exec T {} run).col.outputs (specContents T (exec T {} run).prim (exec T {} run).sec) :=
  state_correct_partial T run (runOK_of_single hT {} (by intro p hp; simp at hp) run) hq

theorem stream_wellformed_key_preserving (T : Transform) (hT : T.multi = false ∧ T.byVal = false) (run : List Act) :
    WellFormed (exec T {} run).out ∧ MapEq (replay (exec T {} run).out) (exec T {} run).col.outputs :=
  stream_wellformed T run (runOK_of_single hT {} (by intro p hp; simp at hp) run)

/-- A one-to-one collection whose output key is a FIELD of the input (`val/<i.val>`) has finding F6 as well:
    `b` takes the value `g` (new parent applied first), then `a` gives it up: the queues are empty, the
    inputs still produce `val/g` (from `b`), the unique-key contract holds for the final inputs, and the
    collection is empty. Confirmed on the real `krt.NewCollection` (corpus `krt.f6-one-to-one-by-value.ops`). -/
def byValT : Transform := { byVal := true }
def byValRun : List Act :=
  [ .envP [.set { ns := "n1", name := "a", val := "g" }], .envP [.set { ns := "n1", name := "b", val := "x" }],
    .procP, .procP,
    .envP [.set { ns := "n1", name := "b", val := "g" }], .envP [.set { ns := "n1", name := "a", val := "y" }],
    .procP, .procP ]

theorem one_to_one_by_value_witness :
    (exec byValT {} byValRun).quiescent = true ∧
    uniqueKeysB byValT (exec byValT {} byValRun).prim (exec byValT {} byValRun).sec = true ∧
    lookup (exec byValT {} byValRun).col.outputs "val/g" = none ∧
    (lookup (specContents byValT (exec byValT {} byValRun).prim (exec byValT {} byValRun).sec) "val/g").isSome = true ∧
    runOK byValT {} byValRun = false := by decide

/-! ## the other order: the old parent releases the key in an earlier change than the one in which the new parent
    takes it, with no quiescent point in between.  The input-level discipline `Disciplined` rejects this history
    (it only looks at who claimed what since the last quiescent point), but the queue applies the two batches
    in order, `runOK` holds under both schedules and the contents are right: such moves are NOT in the known
    class F6 - the stream `krtf6` compares them on the normally judged lines. -/

def oldFirstSetup : List Act :=
  [ .envP [.set { ns := "n1", name := "a", outs := ["k"] }], .envP [.set { ns := "n1", name := "b" }], .procP, .procP ]
def oldFirstLate : List Act :=   -- both changes are queued before the first one is processed
  oldFirstSetup ++ [ .envP [.set { ns := "n1", name := "a" }], .envP [.set { ns := "n1", name := "b", outs := ["k"] }],
    .procP, .procP ]
def oldFirstEager : List Act :=
  oldFirstSetup ++ [ .envP [.set { ns := "n1", name := "a" }], .procP,
    .envP [.set { ns := "n1", name := "b", outs := ["k"] }], .procP ]
def oldDeletedFirst : List Act :=  -- the old parent is deleted, the new parent adopts the key at once
  oldFirstSetup ++ [ .envP [.del "n1/a"], .envP [.set { ns := "n1", name := "b", outs := ["k"] }], .procP, .procP ]

theorem old_parent_first_accepted :
    [oldFirstLate, oldFirstEager, oldDeletedFirst].all (fun run =>
      runOK keyMoveT {} run &&
      (exec keyMoveT {} run).quiescent &&
      (lookup (exec keyMoveT {} run).col.outputs "k").isSome &&
      decide (lookup (exec keyMoveT {} run).col.outputs "k" =
        lookup (specContents keyMoveT (exec keyMoveT {} run).prim (exec keyMoveT {} run).sec) "k")) = true := by
  decide

/-! ## non-vacuity: a non-trivial run that satisfies the hypotheses -/

def exT : Transform := { multi := true, fetches := [[.label]], gate := true }
def exRun : List Act :=
  [ .envP [.set { ns := "n1", name := "a", sel := [("l", "1")], outs := ["k1", "k2"], val := "v" }],
    .envS [.set { ns := "n1", name := "x", labels := [("l", "1")], val := "w" }],
    .procS, .procP,
    .envS [.set { ns := "n1", name := "x", labels := [("l", "2")], val := "w" }],   -- stops matching
    .procS,
    .envS [.set { ns := "n1", name := "x", labels := [("l", "1")], val := "w2" }],  -- starts matching
    .envP [.set { ns := "n1", name := "a", sel := [("l", "1")], outs := ["k2"], val := "v" }],
    .procP, .procS,
    -- k1 moves to another parent after the old parent released it
    .envP [.set { ns := "n2", name := "b", outs := ["k1"], sel := [("l", "1")], val := "u" }], .procP ]

example : runOK exT {} exRun = true := by decide
example : (exec exT {} exRun).quiescent = true := by decide
example : ((exec exT {} exRun).col.outputs.map (·.1)) = ["k1", "k2"] := by decide
example : (exec exT {} exRun).out.length = 6 := by decide

end IstioModel.C16
