import IstioModel.C16.Spec

/-
C16 - executable model of the bookkeeping of a derived krt collection
(pkg/kube/krt/collection.go, `manyCollection`), for a transformation that interprets a
`Transform` (Spec.lean).

Go sources modelled:
  collection.go  multiIndex{inputs,outputs,mappings}; dependencyState.objectDependencies;
                 onPrimaryInputEvent (re-read the latest object of every event's key);
                 handleChangedPrimaryInputEvents (delete branch; recompute branch: mappings,
                 per-key diff to Add/Update/Delete, Equal suppression, index maintenance,
                 the zero-valued Delete when a mapped key has no output and assertions are off);
                 onSecondaryDependencyEvent; dependencyState.changedInputKeys (full scan branch);
                 objectChanged (old OR new object matches a recorded filter);
                 collectionIndex.update / delete / Lookup
  static.go      updateObject / DeleteObject / Reset as sources of event batches
  filter.go      filter.Matches (through `FetchSpec.matches`)

Conventions: a Go map is an association list read through `AMap.lookup`; a Go set of keys is a
duplicate-free list; `for k := range set` iterates in list order (any order gives the same map
and, per key, the same events).  Scheduling: one FIFO of primary batches, one FIFO of secondary
batches (the two handler pumps feeding the collection's single queue); `Act.procP` / `Act.procS`
pop one batch and process it atomically with respect to source changes.
Not modelled: `DiscardResult`, `WithObjectAugmentation`, the reverse-index optimisation of
`changedInputKeys` (indexedDependencies: a pre-filter of the full scan), handler registration races.
Core Lean only.
-/
namespace IstioModel.C16
open AMap

/-! ## Source collections (krt.StaticCollection) -/

def oget : List Obj → Key → Option Obj
  | [], _ => none
  | o :: l, k => if k = o.key then some o else oget l k

def odel : List Obj → Key → List Obj
  | [], _ => []
  | o :: l, k => if k = o.key then odel l k else o :: odel l k

def oset (l : List Obj) (o : Obj) : List Obj := o :: odel l o.key

/-- `UpdateObject` / `DeleteObject`. -/
inductive SrcOp where
  | set (o : Obj)
  | del (k : Key)
  deriving DecidableEq, Repr, Inhabited

/-- `krt.Event[Obj]` of a source collection: Add = (none, some), Update = (some, some),
    Delete = (some, none). -/
structure SrcEv where
  old : Option Obj
  new : Option Obj
  deriving DecidableEq, Repr, Inhabited

/-- `GetKey(ev.Latest())`. -/
def SrcEv.key (e : SrcEv) : Key :=
  match e.new, e.old with
  | some o, _ => o.key
  | none, some o => o.key
  | none, none => ""

/-- `ev.Event == controllers.EventDelete`. -/
def SrcEv.isDelete (e : SrcEv) : Bool := e.new.isNone

/-- `ev.Items()`. -/
def SrcEv.items (e : SrcEv) : List Obj := e.old.toList ++ e.new.toList

def srcStep (l : List Obj) : SrcOp → List Obj
  | .set o => oset l o
  | .del k => odel l k

/-- The events `updateObject` / `DeleteObject` distribute (deleting a missing object: none). -/
def srcEvent (l : List Obj) : SrcOp → List SrcEv
  | .set o => [⟨oget l o.key, some o⟩]
  | .del k =>
    match oget l k with
    | none => []
    | some old => [⟨some old, none⟩]

def srcSteps (l : List Obj) (ops : List SrcOp) : List Obj := ops.foldl srcStep l

/-- Events of a list of changes applied atomically (one `Reset`, or one batch of a derived parent). -/
def srcEvents : List Obj → List SrcOp → List SrcEv
  | _, [] => []
  | l, op :: ops => srcEvent l op ++ srcEvents (srcStep l op) ops

/-! ## State of the derived collection -/

/-- A recorded dependency (`dependency{filter}`): the fetch, with the input whose fields it captured. -/
structure Dep where
  i : Obj
  f : FetchSpec
  deriving DecidableEq, Repr, Inhabited

/-- `dep.filter.Matches(o, false)`. -/
def Dep.matches (d : Dep) (o : Obj) : Bool := d.f.matches d.i o

/-- The fetches the transformation function performs for input `i` (it returns right after the
    first fetch when gated). -/
def depsOf (T : Transform) (sec : List Obj) (i : Obj) : List Dep :=
  match T.fetches with
  | [] => []
  | f :: rest =>
    if T.gate && (fetch sec i f).isEmpty then [⟨i, f⟩] else (f :: rest).map (fun g => ⟨i, g⟩)

structure Col where
  /-- `collectionState.inputs` -/
  inputs   : AMap Obj := []
  /-- `collectionState.outputs` -/
  outputs  : FinMap := []
  /-- `collectionState.mappings` -/
  mappings : AMap (List Key) := []
  /-- `dependencyState.objectDependencies` -/
  deps     : AMap (List Dep) := []
  /-- one `collectionIndex.index` (extract = namespace of the output) -/
  index    : AMap (List Key) := []
  deriving Repr, Inhabited

/-! ### index maintenance -/

/-- `sets.DeleteCleanupLast(c.index, extract(o), oKey)`. -/
def idxDel (ix : AMap (List Key)) (v : Val) (k : Key) : AMap (List Key) :=
  match lookup ix (outNs v) with
  | none => ix
  | some ks =>
    if (ks.filter (fun x => x != k)).isEmpty then erase ix (outNs v)
    else set ix (outNs v) (ks.filter (fun x => x != k))

/-- `sets.InsertOrNew(c.index, extract(o), oKey)`. -/
def idxIns (ix : AMap (List Key)) (v : Val) (k : Key) : AMap (List Key) :=
  match lookup ix (outNs v) with
  | none => set ix (outNs v) [k]
  | some ks => if ks.contains k then ix else set ix (outNs v) (k :: ks)

/-- `collectionIndex.update(ev, oKey)`; `k` is the map key the loop is at. -/
def idxUpdate (ix : AMap (List Key)) (k : Key) : Event → AMap (List Key)
  | .add _ v => idxIns ix v k
  | .update _ old new => idxIns (idxDel ix old k) new k
  | .delete _ old => idxDel ix old k

/-- `collectionIndex.Lookup`. -/
def idxLookup (c : Col) (ik : String) : FinMap :=
  ((lookup c.index ik).getD []).filterMap (fun k => (lookup c.outputs k).map (fun v => (k, v)))

/-! ### the per-key diff of `handleChangedPrimaryInputEvents` -/

/-- The event of one iteration of `for key := range allKeys`.  Last case: the key is in the old
    mapping but has no output and no new result; with assertions disabled the code emits a Delete
    whose Old is the zero value (a subscriber sees key "" and an empty object). -/
def keyEvent (results outputs : FinMap) (key : Key) : Option Event :=
  match lookup results key, lookup outputs key with
  | some n, some o => if n = o then none else some (.update key o n)
  | some n, none => some (.add key n)
  | none, some o => some (.delete key o)
  | none, none => some (.delete "" "")

/-- `outputs` after that iteration. -/
def keyOutputs (results outputs : FinMap) (key : Key) : FinMap :=
  match lookup results key with
  | some n => if lookup outputs key = some n then outputs else set outputs key n
  | none => erase outputs key

def stepKey (results : FinMap) (c : Col) (key : Key) : Col :=
  { c with
    outputs := keyOutputs results c.outputs key
    index := match keyEvent results c.outputs key with
      | none => c.index
      | some e => idxUpdate c.index key e }

def loopCol (results : FinMap) (c : Col) (ks : List Key) : Col := ks.foldl (stepKey results) c

def loopEvs (results : FinMap) : Col → List Key → List Event
  | _, [] => []
  | c, k :: ks => (keyEvent results c.outputs k).toList ++ loopEvs results (stepKey results c k) ks

def dedup : List Key → List Key
  | [] => []
  | k :: l => if l.contains k then dedup l else k :: dedup l

/-- What `onPrimaryInputEvent` hands to `handleChangedPrimaryInputEvents` for one event. -/
inductive Item where
  /-- Add/Update event whose object still exists: transformed again on the latest object -/
  | recompute (i : Obj)
  /-- Delete event, or the object is gone -/
  | delete (key : Key)
  deriving DecidableEq, Repr, Inhabited

def Item.key : Item → Key
  | .recompute i => i.key
  | .delete k => k

/-- `onPrimaryInputEvent`: re-read the latest object from the parent. -/
def refresh (prim : List Obj) (e : SrcEv) : Item :=
  match oget prim e.key with
  | none => .delete e.key
  | some o => if e.isDelete then .delete e.key else .recompute o

def newKeysOf (T : Transform) (sec : List Obj) (i : Obj) : List Key := dedup ((transform T sec i).map (·.1))

def oldKeysOf (c : Col) (iKey : Key) : List Key := (lookup c.mappings iKey).getD []

def allKeysOf (T : Transform) (sec : List Obj) (c : Col) (i : Obj) : List Key :=
  newKeysOf T sec i ++ (oldKeysOf c i.key).filter (fun k => !(newKeysOf T sec i).contains k)

/-- Recompute branch, before the per-key loop: dependencies, mappings and inputs are replaced. -/
def recordCol (T : Transform) (sec : List Obj) (c : Col) (i : Obj) : Col :=
  { c with
    deps := set c.deps i.key (depsOf T sec i)
    mappings := set c.mappings i.key (newKeysOf T sec i)
    inputs := set c.inputs i.key i }

def recomputeCol (T : Transform) (sec : List Obj) (c : Col) (i : Obj) : Col :=
  loopCol (transform T sec i) (recordCol T sec c i) (allKeysOf T sec c i)

def recomputeEvs (T : Transform) (sec : List Obj) (c : Col) (i : Obj) : List Event :=
  loopEvs (transform T sec i) (recordCol T sec c i) (allKeysOf T sec c i)

/-- Delete branch, one mapped key (`if !f { continue }`). -/
def delKey (c : Col) (oKey : Key) : Col :=
  match lookup c.outputs oKey with
  | none => c
  | some old => { c with outputs := erase c.outputs oKey, index := idxDel c.index old oKey }

def delKeyEvs : Col → List Key → List Event
  | _, [] => []
  | c, k :: ks =>
    (match lookup c.outputs k with
     | none => []
     | some old => [Event.delete k old]) ++ delKeyEvs (delKey c k) ks

def forgetCol (c : Col) (iKey : Key) : Col :=
  { c with
    mappings := erase c.mappings iKey
    inputs := erase c.inputs iKey
    deps := erase c.deps iKey }

def deleteCol (c : Col) (iKey : Key) : Col := forgetCol ((oldKeysOf c iKey).foldl delKey c) iKey

def deleteEvs (c : Col) (iKey : Key) : List Event := delKeyEvs c (oldKeysOf c iKey)

/-- One item of `handleChangedPrimaryInputEvents`. -/
def applyItem (T : Transform) (sec : List Obj) (c : Col) : Item → Col
  | .recompute i => recomputeCol T sec c i
  | .delete k => deleteCol c k

def itemEvs (T : Transform) (sec : List Obj) (c : Col) : Item → List Event
  | .recompute i => recomputeEvs T sec c i
  | .delete k => deleteEvs c k

def applyItems (T : Transform) (sec : List Obj) (c : Col) (items : List Item) : Col :=
  items.foldl (applyItem T sec) c

def itemsEvs (T : Transform) (sec : List Obj) : Col → List Item → List Event
  | _, [] => []
  | c, it :: its => itemEvs T sec c it ++ itemsEvs T sec (applyItem T sec c it) its

/-- **DisjointAtApply** for one item: the output keys the item is about to record are not in the
    recorded mapping of any *other* input. -/
def itemOK (T : Transform) (sec : List Obj) (c : Col) : Item → Bool
  | .delete _ => true
  | .recompute i =>
    c.mappings.all (fun p => p.1 == i.key || (newKeysOf T sec i).all (fun k => !p.2.contains k))

def itemsOK (T : Transform) (sec : List Obj) : Col → List Item → Bool
  | _, [] => true
  | c, it :: its => itemOK T sec c it && itemsOK T sec (applyItem T sec c it) its

/-! ### secondary events -/

/-- `objectChanged(dependencies, source, ev, preFiltered=false)`: some recorded filter matches the
    old or the new object. -/
def objectChanged (deps : List Dep) (e : SrcEv) : Bool :=
  deps.any (fun d => e.items.any (fun o => d.matches o))

/-- `dependencyState.changedInputKeys` (full scan): the inputs with a dependency hit by some event. -/
def changedInputKeys (deps : AMap (List Dep)) (evs : List SrcEv) : List Key :=
  dedup ((deps.filter (fun p => evs.any (fun e => objectChanged p.2 e))).map (·.1))

/-- `onSecondaryDependencyEvent`: the events handed to `handleChangedPrimaryInputEvents`. A vanished
    input yields one Delete per mapped key that still has an output. -/
def secItems (prim : List Obj) (c : Col) (evs : List SrcEv) : List Item :=
  (changedInputKeys c.deps evs).flatMap (fun i =>
    match oget prim i with
    | some o => [Item.recompute o]
    | none => ((oldKeysOf c i).filter (fun k => (lookup c.outputs k).isSome)).map (fun _ => Item.delete i))

/-! ## The system: sources, queues, collection, emitted stream -/

structure Sys where
  prim : List Obj := []
  sec  : List Obj := []
  /-- batches distributed by the primary collection, not yet processed -/
  qP   : List (List SrcEv) := []
  /-- batches distributed by the fetched collection, not yet processed -/
  qS   : List (List SrcEv) := []
  col  : Col := {}
  /-- every event distributed to subscribers so far -/
  out  : List Event := []
  deriving Repr, Inhabited

inductive Act where
  /-- the primary collection changes (one batch) -/
  | envP (ops : List SrcOp)
  /-- the fetched collection changes (one batch) -/
  | envS (ops : List SrcOp)
  /-- the collection's queue runs the oldest primary batch -/
  | procP
  /-- the collection's queue runs the oldest secondary batch -/
  | procS
  deriving DecidableEq, Repr, Inhabited

def enqueue (q : List (List SrcEv)) (b : List SrcEv) : List (List SrcEv) :=
  if b.isEmpty then q else q ++ [b]

/-- The items a processing step applies (empty for environment steps). -/
def actItems (s : Sys) : Act → List Item
  | .procP => match s.qP with
    | [] => []
    | b :: _ => b.map (refresh s.prim)
  | .procS => match s.qS with
    | [] => []
    | b :: _ => secItems s.prim s.col b
  | _ => []

def step (T : Transform) (s : Sys) (a : Act) : Sys :=
  match a with
  | .envP ops => { s with prim := srcSteps s.prim ops, qP := enqueue s.qP (srcEvents s.prim ops) }
  | .envS ops => { s with sec := srcSteps s.sec ops, qS := enqueue s.qS (srcEvents s.sec ops) }
  | .procP =>
    { s with qP := s.qP.tail
             col := applyItems T s.sec s.col (actItems s .procP)
             out := s.out ++ itemsEvs T s.sec s.col (actItems s .procP) }
  | .procS =>
    { s with qS := s.qS.tail
             col := applyItems T s.sec s.col (actItems s .procS)
             out := s.out ++ itemsEvs T s.sec s.col (actItems s .procS) }

def exec (T : Transform) (s : Sys) (run : List Act) : Sys := run.foldl (step T) s

/-- **DisjointAtApply** along a run. -/
def runOK (T : Transform) : Sys → List Act → Bool
  | _, [] => true
  | s, a :: run => itemsOK T s.sec s.col (actItems s a) && runOK T (step T s a) run

def Sys.quiescent (s : Sys) : Bool := s.qP.isEmpty && s.qS.isEmpty

end IstioModel.C16
