import IstioModel.C16.Monitor

/-
C16 - specification of `krt.JoinCollection` (pkg/kube/krt/join.go): "Key conflicts are resolved by
picking the item produced by the first collections in the list of input collections."
Core Lean only.
-/
namespace IstioModel.C16

/-- An object of a joined collection: key, namespace (the join is indexed by it), canonical rendering. -/
structure JObj where
  key : Key
  ns  : String
  tok : Val
  name : String := ""
  val : String := ""
  deriving DecidableEq, Repr, Inhabited

def jget : List JObj → Key → Option JObj
  | [], _ => none
  | o :: l, k => if k = o.key then some o else jget l k

def jdel : List JObj → Key → List JObj
  | [], _ => []
  | o :: l, k => if k = o.key then jdel l k else o :: jdel l k

def jset (l : List JObj) (o : JObj) : List JObj := o :: jdel l o.key

/-- The objects of the join: those of the first collection, then those of the second whose key
    is not taken, and so on. -/
def joinObjs : List (List JObj) → List JObj
  | [] => []
  | c :: cs => c ++ (joinObjs cs).filter (fun o => (jget c o.key).isNone)

/-- `join.List()` as a map. -/
def joinContents (cols : List (List JObj)) : FinMap := (joinObjs cols).map (fun o => (o.key, o.tok))

/-- `join.GetKey`. -/
def joinGet (cols : List (List JObj)) (k : Key) : Option Val := AMap.lookup (joinContents cols) k

/-- `Index.Lookup` of the namespace index on the join. -/
def joinLookup (cols : List (List JObj)) (ns : String) : FinMap :=
  ((joinObjs cols).filter (fun o => o.ns == ns)).map (fun o => (o.key, o.tok))

/-! ### `krt.JoinWithMergeCollection` with the harness's merge function: the objects of one key, in
    collection order, are merged into one object whose value joins theirs with `+`; the merge
    function returns nil (no object) when the first value is `v3`. -/

def mergeKeys (cols : List (List JObj)) : List Key :=
  (cols.flatMap (fun c => c.map (·.key))).eraseDups

def mergeOne (cols : List (List JObj)) (k : Key) : Option JObj :=
  match cols.filterMap (fun c => jget c k) with
  | [] => none
  | o :: rest =>
    if o.val == "v3" then none
    else
      let v := "+".intercalate ((o :: rest).map (·.val))
      some { key := k, ns := o.ns, name := o.name, val := v, tok := o.ns ++ ";" ++ o.name ++ ";;;;;" ++ v }

def mergeObjs (cols : List (List JObj)) : List JObj := (mergeKeys cols).filterMap (mergeOne cols)

def mergeContents (cols : List (List JObj)) : FinMap := (mergeObjs cols).map (fun o => (o.key, o.tok))

def mergeLookup (cols : List (List JObj)) (ns : String) : FinMap :=
  ((mergeObjs cols).filter (fun o => o.ns == ns)).map (fun o => (o.key, o.tok))

/-! ### `krt.NestedJoinWithMergeCollection` (stream `joinn`): the merge runs over the collections that are
    currently members of the outer collection, in the (undefined) order of its `List()`; the harness's
    merge function is order independent (values sorted) and never nil for a non-empty input. -/

def nmergeOne (cols : List (List JObj)) (k : Key) : Option JObj :=
  match cols.filterMap (fun c => jget c k) with
  | [] => none
  | o :: rest =>
    let vs := (o :: rest).map (·.val)
    let v := "+".intercalate (vs.mergeSort (fun a b => decide (a ≤ b)))
    some { key := k, ns := o.ns, name := o.name, val := v, tok := o.ns ++ ";" ++ o.name ++ ";;;;;" ++ v }

def nmergeObjs (cols : List (List JObj)) : List JObj := (mergeKeys cols).filterMap (nmergeOne cols)

end IstioModel.C16
