import IstioModel.Common.Wire
import IstioModel.C16.Driver

/-!
Driver parts for the streams `misc` and `idxc` (shapes of the krt API that the other streams do not reach).

`misc`: `NewStaticCollection(initial vals)` as primary input, a `krt.NewStatic` singleton `cfg` changed with
`Set` (also to nil and to an object with another key: `toEvents`), a one-to-one derived collection whose
transformation uses `FetchOne(cfg)`, `index.Fetch(valueIndex(sec), i.val)`,
`PartialFetchComparable(sec, o ↦ o.ns.l1, FilterKey(i.ref))` and `DiscardResult()` (for inputs named `c`
while `cfg.val = v3`: those keys keep an earlier result, they are only checked for well-formedness),
subscribers that unregister (`unsub`).

    case <n> misc
    p.set <obj> | p.del <key>        (before `start`: the initial values of the static collection)
    s.set <obj> | s.del <key> | x.set <obj>|nil | start | sync
    sub <name> <kind> | unsub <name> | list | get <key> | stream <name> <event>*

`idxc`: `index.AsCollection()` of a multi-key index (the `outs` of the objects) over a static collection and a
derived collection grouped by it.

    case <n> idxc
    p.set | p.del | p.reset | start | sync | sub | list | get <tag> | ilist | iget <tag> | stream
-/
namespace IstioModel.C16
open IstioModel.Wire

structure MiscState where
  started : Bool := false
  prim : List Obj := []
  sec  : List Obj := []
  /-- the collection `PartialFetchComparable` reads (the transformation has no other dependency on it) -/
  third : List Obj := []
  cfg  : Option Obj := none
  /-- nothing changed since the last barrier -/
  quiet : Bool := false
  /-- what the discarding inputs must keep: the contents at the quiescent point right before discarding began
      (`none`: discarding began with changes in flight, the kept results are unknown) -/
  retained : Option FinMap := none
  subs : AMap FinMap := []
  xsubs : AMap FinMap := []
  /-- subscribers of the NewStatic singleton whose handler was unregistered: its contents at that moment -/
  xfrozen : AMap FinMap := []
  /-- subscribers registered without existing state while results were being discarded: what they hold
      for the keys of the discarding inputs is an unknown earlier result, those keys are not checked -/
  blind : List String := []
  /-- unregistered subscribers: the specification and the mask at that moment -/
  frozen : AMap (FinMap × Bool) := []

def miscVal (cfg : Option Obj) (sec third : List Obj) (i : Obj) : Val :=
  i.ns ++ "|" ++ i.key ++ ":" ++ i.val ++ "|cfg=" ++
    (match cfg with
     | none => "-"
     | some c => c.key ++ ":" ++ c.val) ++ "|" ++
    renderFetch (sec.filter (fun o => o.val == i.val)) ++ "|p=" ++
    (match ogetD third i.ref with
     | none => "-"
     | some o => o.ns ++ "." ++ (lget o.labels "l1").getD "")

def miscContents (m : MiscState) : FinMap := m.prim.map (fun i => (i.key, miscVal m.cfg m.sec m.third i))

def cfgContents (m : MiscState) : FinMap :=
  match m.cfg with
  | none => []
  | some c => [(c.key, c.token)]

/-- `DiscardResult()` is called for these keys: they keep an earlier result -/
def miscDiscarding (m : MiscState) : Bool :=
  match m.cfg with
  | some c => c.val == "v3"
  | none => false

def miscMasked (discarding : Bool) (k : Key) : Bool := discarding && k.endsWith "/c"

/-- what `List` / `GetKey` must show: the discarding inputs keep the result they had when discarding began
    (if known), the others follow the specification -/
def miscExpected (m : MiscState) : FinMap :=
  let disc := miscDiscarding m
  match m.retained with
  | some r =>
    (miscContents m).filterMap (fun kv =>
      if miscMasked disc kv.1 then (AMap.lookup r kv.1).map (fun v => (kv.1, v)) else some kv)
  | none => restrictMap (fun k => !miscMasked disc k) (miscContents m)

/-- keys whose current value is not known (input created while its results are discarded, or discarding
    began with changes in flight) -/
def miscUnknown (m : MiscState) (k : Key) : Bool :=
  miscMasked (miscDiscarding m) k &&
    (match m.retained with
     | some r => (AMap.lookup r k).isNone
     | none => true)

def mutate (m : MiscState) : MiscState := { m with quiet := false }

def miscVerdict (m0 : FinMap) (es : List Event) (final : FinMap) (disc blind : Bool) : String :=
  let p := fun k => !miscMasked disc k && !(blind && k.endsWith "/c")
  let v := showVerdict (restrictMap p m0) (restrictStream p es) (restrictMap p final)
  if v != "accept" then v
  else if blind || (runB (restrictMap (miscMasked disc) m0) (restrictStream (miscMasked disc) es)).isSome then "accept"
  else "reject:discarded-key-stream-ill-formed"

def stepMisc (m : MiscState) (toks : List String) : MiscState × String :=
  match toks with
  | "case" :: _ => ({}, "ok")
  | ["p.set", o] =>
    match parseObj o with
    | none => (m, "bad-op")
    | some o => ({ (mutate m) with prim := osetD m.prim o }, "ok")
  | ["p.del", k] =>
    -- a deleted input loses its kept result (a new one created while discarding shows its first result)
    ({ (mutate m) with prim := odelD m.prim k, retained := m.retained.map (fun r => AMap.erase r k) }, "ok")
  | ["s.set", o] =>
    match parseObj o with
    | none => (m, "bad-op")
    | some o => ({ (mutate m) with sec := osetD m.sec o }, "ok")
  | ["s.del", k] => ({ (mutate m) with sec := odelD m.sec k }, "ok")
  | ["t.set", o] =>
    match parseObj o with
    | none => (m, "bad-op")
    | some o => ({ (mutate m) with third := osetD m.third o }, "ok")
  | ["t.del", k] => ({ (mutate m) with third := odelD m.third k }, "ok")
  | ["x.set", o] =>
    let newCfg : Option (Option Obj) := if o == "nil" then some none else (parseObj o).map some
    match newCfg with
    | none => (m, "bad-op")
    | some c =>
      let m' : MiscState := { m with cfg := c }
      let was := miscDiscarding m
      let now := miscDiscarding m'
      let ret := if now && !was then (if m.quiet && m.started then some (miscContents m) else none)
                 else if !now then none else m.retained
      ({ (mutate m') with retained := ret }, "ok")
  | ["start"] => ({ (mutate m) with started := true }, "ok")
  | ["sync"] => ({ m with quiet := true }, "ok")
  | ["xsub", name, kind] =>
    ({ m with xsubs := AMap.set m.xsubs name (if kind == "nostate" then cfgContents m else []) }, "ok")
  | "xstream" :: name :: evs =>
    ({ m with quiet := true }, "xstream " ++ match parseEvents evs, AMap.lookup m.xsubs name with
      | some es, some m0 => showVerdict m0 es ((AMap.lookup m.xfrozen name).getD (cfgContents m))
      | none, _ => "reject:malformed-event"
      | _, none => "unknown-subscriber")
  | ["xunsub", name] =>
    (if (AMap.lookup m.xsubs name).isSome && (AMap.lookup m.xfrozen name).isNone
      then { m with quiet := true, xfrozen := AMap.set m.xfrozen name (cfgContents m) } else { m with quiet := true }, "ok")
  | ["sub", name, kind] =>
    if !m.started then (m, "ok")
    else
      let m1 := mutate m
      let base := if kind == "nostate" then miscContents m else []
      let bl := if kind == "nostate" && miscDiscarding m then name :: m.blind else m.blind
      ({ m1 with subs := AMap.set m.subs name base, blind := bl }, "ok")
  | ["unsub", name] =>
    if !m.started then (m, "ok")
    else ({ m with quiet := true, frozen := AMap.set m.frozen name (miscContents m, miscDiscarding m) }, "ok")
  | ["list"] =>
    if !m.started then (m, "list not-started")
    else ({ m with quiet := true }, "list " ++ showMap (restrictMap (fun k => !miscUnknown m k) (miscExpected m)))
  | ["get", k] =>
    if !m.started then (m, "get not-started")
    else if miscUnknown m k then ({ m with quiet := true }, "get masked")
    else ({ m with quiet := true }, "get " ++ match AMap.lookup (miscExpected m) k with
      | none => "none"
      | some v => v)
  | "stream" :: name :: evs =>
    if !m.started then (m, "stream not-started") else
    ({ m with quiet := true }, "stream " ++ match parseEvents evs, AMap.lookup m.subs name with
      | some es, some m0 =>
        (match AMap.lookup m.frozen name with
         | some fz => miscVerdict m0 es fz.1 fz.2 (m.blind.contains name)
         | none => miscVerdict m0 es (miscContents m) (miscDiscarding m) (m.blind.contains name))
      | none, _ => "reject:malformed-event"
      | _, none => "unknown-subscriber")
  | _ => (m, "bad-op")

/-! ### idxc -/

structure IdxcState where
  started : Bool := false
  prim : List Obj := []
  subs : AMap FinMap := []

def idxcTags (prim : List Obj) : List String := dedupS (prim.flatMap (·.outs))

/-- the group of one tag: `[key=val,...]` of the objects that carry it -/
def idxcGroup (prim : List Obj) (t : String) : Val := renderFetch (prim.filter (fun o => o.outs.contains t))

def idxcContents (x : IdxcState) : FinMap := (idxcTags x.prim).map (fun t => (t, idxcGroup x.prim t))

def stepIdxc (x : IdxcState) (toks : List String) : IdxcState × String :=
  match toks with
  | "case" :: _ => ({}, "ok")
  | ["p.set", o] =>
    match parseObj o with
    | none => (x, "bad-op")
    | some o => ({ x with prim := osetD x.prim o }, "ok")
  | ["p.del", k] => ({ x with prim := odelD x.prim k }, "ok")
  | "p.reset" :: os => ({ x with prim := (os.filterMap parseObj).foldl osetD [] }, "ok")
  | ["start"] => ({ x with started := true }, "ok")
  | ["sync"] => (x, "ok")
  | ["sub", name, kind] =>
    if !x.started then (x, "ok")
    else ({ x with subs := AMap.set x.subs name (if kind == "nostate" then idxcContents x else []) }, "ok")
  | ["icsub", _] => (x, "ok")     -- a handler on the index collection itself (its events are Add / Delete only, by
  | ["icunsub", _] => (x, "ok")   -- design not a well-formed stream): only "nothing arrives after UnregisterHandler" is judged
  | ["list"] => if !x.started then (x, "list not-started") else (x, "list " ++ showMap (idxcContents x))
  | ["ilist"] => if !x.started then (x, "ilist not-started") else (x, "ilist " ++ showMap (idxcContents x))
  | ["get", k] =>
    if !x.started then (x, "get not-started") else
    (x, "get " ++ match AMap.lookup (idxcContents x) k with
      | none => "none"
      | some v => v)
  | ["iget", k] =>
    if !x.started then (x, "iget not-started") else
    (x, "iget " ++ match AMap.lookup (idxcContents x) k with
      | none => "none"
      | some v => v)
  | "stream" :: name :: evs =>
    if !x.started then (x, "stream not-started") else
    (x, "stream " ++ match parseEvents evs, AMap.lookup x.subs name with
      | some es, some m0 => showVerdict m0 es (idxcContents x)
      | none, _ => "reject:malformed-event"
      | _, none => "unknown-subscriber")
  | _ => (x, "bad-op")

/-! ### inf: an informer-backed collection (`krt.NewInformer[*v1.ConfigMap]` on the fake kube client), its
    namespace index, its own subscribers and a derived collection.

    case <n> inf
    k.create <ns> <name> <val> | k.update <ns> <name> <val> | k.delete <ns> <name>     ok | exists | notfound
    sync | sub <name> <kind> | isub <name> <kind>
    list | get <key> | ilist | ilookup <ns> | stream <name> <event>* | istream <name> <event>* -/

structure InfState where
  objs : AMap (String × String) := []     -- key ↦ (namespace, value)
  subs : AMap FinMap := []
  isubs : AMap FinMap := []
  ifrozen : AMap FinMap := []
  only1 : Bool := false

/-- the objects the informer holds: all, or (cases flagged `fn`: `NewFilteredInformer` with a namespace
    filter) those of namespace n1 -/
def infVisible (x : InfState) : AMap (String × String) :=
  if x.only1 then x.objs.filter (fun kv => kv.2.1 == "n1") else x.objs

def infContents (x : InfState) : FinMap := (infVisible x).map (fun kv => (kv.1, kv.2.2))
/-- the derived collection: `d:<value>`, and for objects named `a` a mark when `<ns>/b` exists
    (`krt.ResourceExists`) -/
def infDerived (x : InfState) : FinMap :=
  (infVisible x).map (fun kv => (kv.1, "d:" ++ kv.2.2 ++
    (if kv.1 == kv.2.1 ++ "/a" && (AMap.lookup (infVisible x) (kv.2.1 ++ "/b")).isSome then "+b" else "")))

def stepInf (x : InfState) (toks : List String) : InfState × String :=
  match toks with
  | "case" :: rest => ({ only1 := rest.contains "fn" }, "ok")
  | ["k.create", ns, name, val] =>
    let k := ns ++ "/" ++ name
    if (AMap.lookup x.objs k).isSome then (x, "exists")
    else ({ x with objs := AMap.set x.objs k (ns, val) }, "ok")
  | ["k.update", ns, name, val] =>
    let k := ns ++ "/" ++ name
    if (AMap.lookup x.objs k).isSome then ({ x with objs := AMap.set x.objs k (ns, val) }, "ok")
    else (x, "notfound")
  | ["k.delete", ns, name] =>
    let k := ns ++ "/" ++ name
    if (AMap.lookup x.objs k).isSome then ({ x with objs := AMap.erase x.objs k }, "ok")
    else (x, "notfound")
  | ["sync"] => (x, "ok")
  | ["sub", name, kind] =>
    ({ x with subs := AMap.set x.subs name (if kind == "nostate" then infDerived x else []) }, "ok")
  | ["isub", name, kind] =>
    -- informer.go: "runExistingState is NOT respected here": the informer always replays what it holds
    ({ x with isubs := AMap.set x.isubs name (if kind == "never" then infContents x else []) }, "ok")
  | ["list"] => (x, "list " ++ showMap (infDerived x))
  | ["ilist"] => (x, "ilist " ++ showMap (infContents x))
  | ["get", k] =>
    (x, "get " ++ match AMap.lookup (infDerived x) k with
      | none => "none"
      | some v => v)
  | ["ilookup", ns] =>
    (x, "ilookup " ++ showMap (((infVisible x).filter (fun kv => kv.2.1 == ns)).map (fun kv => (kv.1, kv.2.2))))
  | "stream" :: name :: evs =>
    (x, "stream " ++ match parseEvents evs, AMap.lookup x.subs name with
      | some es, some m0 => showVerdict m0 es (infDerived x)
      | none, _ => "reject:malformed-event"
      | _, none => "unknown-subscriber")
  | "istream" :: name :: evs =>
    (x, "istream " ++ match parseEvents evs, AMap.lookup x.isubs name with
      | some es, some m0 => showVerdict m0 es ((AMap.lookup x.ifrozen name).getD (infContents x))
      | none, _ => "reject:malformed-event"
      | _, none => "unknown-subscriber")
  | ["iunsub", name] =>
    (if (AMap.lookup x.isubs name).isSome && (AMap.lookup x.ifrozen name).isNone
      then { x with ifrozen := AMap.set x.ifrozen name (infContents x) } else x, "ok")
  | _ => (x, "bad-op")

end IstioModel.C16
