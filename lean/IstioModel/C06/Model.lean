/-
C06 - executable model of the xDS response cache.

Go sources modelled (istio/istio, pilot/pkg/model):
  typed_xds_cache.go   lruCache.{Add, Get, Clear, ClearAll, Flush, onEvict, updateConfigIndex,
                       clearConfigIndex}, newLru, disabledCache
  xds_cache.go         XdsCacheImpl.{Add, Get, Clear, ClearAll}, NewXdsCache, the ticker body of Run
  hashicorp/golang-lru/v2/simplelru (v2.0.7)  LRU.{Add, Get, Remove, removeOldest} as used above

Conventions
* The model is polymorphic in the key type `K`, the config identifier type `C` (a `ConfigHash`; the
  hash is assumed injective on the configs in play) and the value type `V` (`*discovery.Resource`;
  the cache never inspects it except for `nil`, here `none`).
* `simplelru.LRU` (hash map + doubly linked list) is the list `store`, **most recently used first**;
  the Go `Keys()` order (oldest first) is the reverse.  Keys are unique in the list (theorem
  `keys_nodup`).
* `configIndex : map[ConfigHash]sets.Set[K]` is a list of edges `(config, key)` read as a set (no
  empty sets can exist in the Go map: `InsertOrNew` / `DeleteCleanupLast`).
* `CacheToken(pushReq.Start.UnixNano())` is a `Nat`; `pushReq == nil` or a zero `Start` is `none`.
  `time.Now().UnixNano()` of `Clear` / `ClearAll` is the explicit input `now`.
* `Clear` ranges over two Go maps (random iteration order); the only thing that depends on the order
  is the order in which the removed entries are appended to `evictQueue`.  That order is the explicit
  input `ord` (any list: keys named in `ord` come first, in that order, the rest follow in store
  order), so the model is a function and theorems hold for every order.
* A failed Go type assertion (`k.(uint64)` on a string key) is the explicit result `none` of the
  `Impl` operations ("crash").
-/
namespace IstioModel.C06

/-- `cacheValue` together with its key. -/
structure Entry (K C V : Type) where
  key   : K
  val   : Option V
  token : Nat
  deps  : List C
  deriving Repr

/-- `lruCache[K]`. -/
structure Cache (K C V : Type) where
  cap    : Nat                      -- size of the simplelru store
  store  : List (Entry K C V)       -- most recently used first
  token  : Nat
  index  : List (C × K)             -- configIndex as a set of edges
  evictQ : List (K × List C)        -- evictQueue, in append order
  deriving Repr

section
variable {K C V : Type} [DecidableEq K] [DecidableEq C]

/-- `items[key]`. -/
def find? (k : K) : List (Entry K C V) → Option (Entry K C V)
  | [] => none
  | e :: es => if e.key = k then some e else find? k es

/-- remove the element(s) with key `k` from the recency list. -/
def eraseKey (k : K) : List (Entry K C V) → List (Entry K C V)
  | [] => []
  | e :: es => if e.key = k then eraseKey k es else e :: eraseKey k es

/-- `simplelru.LRU.Get` side effect: `MoveToFront`. -/
def promote (k : K) (s : List (Entry K C V)) : List (Entry K C V) :=
  match find? k s with
  | some e => e :: eraseKey k s
  | none => s

/-- `updateConfigIndex`. -/
def addEdges (k : K) (deps : List C) (index : List (C × K)) : List (C × K) :=
  deps.map (fun d => (d, k)) ++ index

/-- `newLru`: `features.XDSCacheMaxSize <= 0` means 20000. -/
def effCap (maxSize : Int) : Nat := if maxSize ≤ 0 then 20000 else maxSize.toNat

/-- `newTypedXdsCache`. -/
def Cache.new (cap : Nat) : Cache K C V :=
  { cap := cap, store := [], token := 0, index := [], evictQ := [] }

/-- the `onEvict` record of the entry dropped by `removeOldest` (none when the list is empty). -/
def evictRecord (s : List (Entry K C V)) : List (K × List C) :=
  match s.getLast? with
  | some o => [(o.key, o.deps)]
  | none => []

/-- `lruCache.Add`.  `start = none`: nil request or zero `Start`. -/
def Cache.add (c : Cache K C V) (k : K) (v : Option V) (start : Option Nat) (deps : List C) : Cache K C V :=
  match start with
  | none => c
  | some tok =>
    if tok < c.token then c
    else
      match find? k c.store with
      | some cur =>
        -- `l.store.Get(k)` has already moved the entry to the front
        if tok ≤ cur.token then { c with store := cur :: eraseKey k c.store }
        else
          { c with store := { key := k, val := v, token := tok, deps := deps } :: eraseKey k c.store
                   token := tok
                   index := addEdges k deps c.index
                   evictQ := c.evictQ ++ [(k, cur.deps)] }
      | none =>
        if c.cap < c.store.length + 1 then
          -- `simplelru.Add`: PushFront, then removeOldest -> onEvict
          { c with store := ({ key := k, val := v, token := tok, deps := deps } :: c.store).dropLast
                   token := tok
                   index := addEdges k deps c.index
                   evictQ := c.evictQ ++ evictRecord ({ key := k, val := v, token := tok, deps := deps } :: c.store) }
        else
          { c with store := { key := k, val := v, token := tok, deps := deps } :: c.store
                   token := tok
                   index := addEdges k deps c.index }

/-- `lruCache.Get`: new state (recency is updated even for a nil value). -/
def Cache.get (c : Cache K C V) (k : K) : Cache K C V :=
  { c with store := promote k c.store }

/-- `lruCache.Get`: returned value (`get(key, 0)`: the token comparison `cv.token >= 0` is always true). -/
def Cache.getVal (c : Cache K C V) (k : K) : Option V :=
  match find? k c.store with
  | some e => e.val
  | none => none

/-- keys referenced in the index by one of the configs `cs`. -/
def refKeys (cs : List C) (index : List (C × K)) : List K :=
  (index.filter (fun p => decide (p.1 ∈ cs))).map (fun p => p.2)

/-- order in which a batch of removed entries reaches `onEvict`: keys of `ord` first. -/
def orderBatch : List K → List (Entry K C V) → List (Entry K C V)
  | [], rem => rem
  | k :: ks, rem =>
    match find? k rem with
    | some e => e :: orderBatch ks (eraseKey k rem)
    | none => orderBatch ks rem

/-- `lruCache.Clear`. -/
def Cache.clear (c : Cache K C V) (now : Nat) (cs : List C) (ord : List K) : Cache K C V :=
  { c with token := now
           store := c.store.filter (fun e => !decide (e.key ∈ refKeys cs c.index))
           index := c.index.filter (fun p => !decide (p.1 ∈ cs))
           evictQ := c.evictQ ++
             (orderBatch ord (c.store.filter (fun e => decide (e.key ∈ refKeys cs c.index)))).map
               (fun e => (e.key, e.deps)) }

/-- `lruCache.ClearAll` (`newCap` = `newLru`'s reading of `features.XDSCacheMaxSize` at that moment). -/
def Cache.clearAll (_c : Cache K C V) (now : Nat) (newCap : Nat) : Cache K C V :=
  { cap := newCap, store := [], token := now, index := [], evictQ := [] }

/-- `clearConfigIndex` (its `l.store.Get(k)` moves a live `k` to the front). -/
def clearConfigIndex (c : Cache K C V) (k : K) (old : List C) : Cache K C V :=
  match find? k c.store with
  | some cur =>
    { c with store := cur :: eraseKey k c.store
             index := c.index.filter (fun p => !(decide (p.2 = k) && decide (p.1 ∈ old) && !decide (p.1 ∈ cur.deps))) }
  | none =>
    { c with index := c.index.filter (fun p => !(decide (p.2 = k) && decide (p.1 ∈ old))) }

def flushQueue (q : List (K × List C)) (c : Cache K C V) : Cache K C V :=
  match q with
  | [] => c
  | x :: xs => flushQueue xs (clearConfigIndex c x.1 x.2)

/-- `lruCache.Flush`. -/
def Cache.flush (c : Cache K C V) : Cache K C V :=
  { flushQueue c.evictQ c with evictQ := [] }

/-! ### Operations of one typed cache (used for the history theorems) -/

inductive Op (K C V : Type) where
  | add (k : K) (v : Option V) (start : Option Nat) (deps : List C)
  | get (k : K)
  | clear (now : Nat) (cs : List C) (ord : List K)
  | clearAll (now : Nat) (newCap : Nat)
  | flush

def Cache.step (c : Cache K C V) : Op K C V → Cache K C V
  | .add k v start deps => c.add k v start deps
  | .get k => c.get k
  | .clear now cs ord => c.clear now cs ord
  | .clearAll now newCap => c.clearAll now newCap
  | .flush => c.flush

def Cache.run (c : Cache K C V) : List (Op K C V) → Cache K C V
  | [] => c
  | op :: ops => (c.step op).run ops

/-! ### `XdsCacheImpl`: four typed caches and the dispatch on the entry type -/

inductive Ty
  | cds | eds | rds | sds
  deriving DecidableEq, Repr

def Ty.all : List Ty := [.cds, .eds, .rds, .sds]

/-- `XdsCacheImpl` plus the global `features.XDSCacheMaxSize`; `none` is a `disabledCache`. -/
structure Impl (K C V : Type) where
  cds : Option (Cache K C V)
  eds : Option (Cache K C V)
  rds : Option (Cache K C V)
  sds : Option (Cache K C V)
  maxSize : Int

def Impl.typed (x : Impl K C V) : Ty → Option (Cache K C V)
  | .cds => x.cds | .eds => x.eds | .rds => x.rds | .sds => x.sds

def Impl.setTyped (x : Impl K C V) (t : Ty) (c : Option (Cache K C V)) : Impl K C V :=
  match t with
  | .cds => { x with cds := c } | .eds => { x with eds := c }
  | .rds => { x with rds := c } | .sds => { x with sds := c }

/-- `NewXdsCache` (`cdsOn` / `rdsOn`: `features.EnableCDSCaching` / `EnableRDSCaching`). -/
def Impl.new (maxSize : Int) (cdsOn rdsOn : Bool) : Impl K C V :=
  { cds := if cdsOn then some (Cache.new (effCap maxSize)) else none
    eds := some (Cache.new (effCap maxSize))
    rds := if rdsOn then some (Cache.new (effCap maxSize)) else none
    sds := some (Cache.new (effCap maxSize))
    maxSize := maxSize }

/-- What the cache reads of an `XdsCacheEntry`. `ty = none`: a `Type()` string outside
    {cds, eds, rds, sds}; `keyIsString`: dynamic type of `Key()` (string or uint64). -/
structure EntryDesc (K C : Type) where
  ty : Option Ty
  key : K
  keyIsString : Bool
  deps : List C
  cacheable : Bool

inductive Dispatch
  | skip | crash | to (t : Ty)
  deriving DecidableEq, Repr

/-- the common prefix of `XdsCacheImpl.Add` / `Get`. -/
def dispatch (d : EntryDesc K C) : Dispatch :=
  if !d.cacheable then .skip
  else match d.ty with
    | none => .skip
    | some .sds => if d.keyIsString then .to .sds else .crash
    | some t => if d.keyIsString then .crash else .to t

/-- `XdsCacheImpl.Add`; `none` = panic. -/
def Impl.add (x : Impl K C V) (d : EntryDesc K C) (v : Option V) (start : Option Nat) : Option (Impl K C V) :=
  match dispatch d with
  | .skip => some x
  | .crash => none
  | .to t => some (x.setTyped t ((x.typed t).map (fun c => c.add d.key v start d.deps)))

/-- `XdsCacheImpl.Get`; `none` = panic, otherwise new state and returned value. -/
def Impl.get (x : Impl K C V) (d : EntryDesc K C) : Option (Impl K C V × Option V) :=
  match dispatch d with
  | .skip => some (x, none)
  | .crash => none
  | .to t =>
    match x.typed t with
    | none => some (x, none)
    | some c => some (x.setTyped t (some (c.get d.key)), c.getVal d.key)

/-- the four clock readings of one `Clear` / `ClearAll` call and the four eviction orders. -/
structure Nows where
  cds : Nat
  eds : Nat
  rds : Nat
  sds : Nat

def Nows.at (n : Nows) : Ty → Nat
  | .cds => n.cds | .eds => n.eds | .rds => n.rds | .sds => n.sds

/-- `XdsCacheImpl.Clear`; `isPA c` = the config is of kind PeerAuthentication. -/
def Impl.clear (isPA : C → Bool) (x : Impl K C V) (now : Nows) (cs : List C) (ord : Ty → List K) : Impl K C V :=
  { x with
    cds := x.cds.map (fun c => c.clear now.cds cs (ord .cds))
    eds := x.eds.map (fun c => if cs.any isPA then c.clearAll now.eds (effCap x.maxSize) else c.clear now.eds cs (ord .eds))
    rds := x.rds.map (fun c => c.clear now.rds cs (ord .rds))
    sds := x.sds.map (fun c => c.clear now.sds cs (ord .sds)) }

/-- `XdsCacheImpl.ClearAll`. -/
def Impl.clearAll (x : Impl K C V) (now : Nows) : Impl K C V :=
  { x with
    cds := x.cds.map (fun c => c.clearAll now.cds (effCap x.maxSize))
    eds := x.eds.map (fun c => c.clearAll now.eds (effCap x.maxSize))
    rds := x.rds.map (fun c => c.clearAll now.rds (effCap x.maxSize))
    sds := x.sds.map (fun c => c.clearAll now.sds (effCap x.maxSize)) }

/-- one tick of `XdsCacheImpl.Run`. -/
def Impl.flush (x : Impl K C V) : Impl K C V :=
  { x with cds := x.cds.map Cache.flush, eds := x.eds.map Cache.flush
           rds := x.rds.map Cache.flush, sds := x.sds.map Cache.flush }

/-- `lruCache.Snapshot`: `store.Get` on every key, oldest first (the debug accessor mutates recency, under a read lock). -/
def Cache.snapshot (c : Cache K C V) : Cache K C V :=
  (c.store.reverse.map (fun e => e.key)).foldl (fun c k => c.get k) c

/-- `XdsCacheImpl.Snapshot`. -/
def Impl.snapshot (x : Impl K C V) : Impl K C V :=
  { x with cds := x.cds.map Cache.snapshot, eds := x.eds.map Cache.snapshot
           rds := x.rds.map Cache.snapshot, sds := x.sds.map Cache.snapshot }

/-- assignment to the global `features.XDSCacheMaxSize` (read again by every `ClearAll`). -/
def Impl.setMaxSize (x : Impl K C V) (n : Int) : Impl K C V := { x with maxSize := n }

end
end IstioModel.C06
