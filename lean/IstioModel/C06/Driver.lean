import IstioModel.Common.Wire
import IstioModel.C06.Model

/-!
Line-protocol driver for C06, stream `cache` (see harness/c06/main.go for the grammar).

    case <n> <maxsize> <cdsOn> <rdsOn>
    add <type> <key> <cacheable> <deps> <val|nil> <start|zero|nilreq>
    get <type> <key> <cacheable>
    clear <time> <cfgs> [<ord-cds> <ord-eds> <ord-rds> <ord-sds>]
    clearall <time>
    flush
    maxsize <int>

Keys are `u<digits>` (uint64) or `s<text>` (string); configs are `<KIND>/<ns>/<name>` tokens; times
are logical (`Nat`).  Every answer is `<result> <state of the four typed caches>`.
-/
namespace IstioModel.C06
open IstioModel.Wire

abbrev SImpl := Impl String String String
abbrev SCache := Cache String String String

structure DState where
  impl : SImpl
  lastClear : Nat
  addTimes : List Nat
  conns : List String := []     -- stream `writers`: connection ids of the current case
  world : Bool := false         -- streams `keys` / `writers`: a world exists

def DState.init : DState := { impl := Impl.new 0 true true, lastClear := 0, addTimes := [] }

def Ty.ofTok : String → Option Ty
  | "cds" => some .cds | "eds" => some .eds | "rds" => some .rds | "sds" => some .sds | _ => none

def Ty.tok : Ty → String
  | .cds => "cds" | .eds => "eds" | .rds => "rds" | .sds => "sds"

def listTok (t : String) : List String := if t == "-" then [] else t.splitOn ","

def tokList (l : List String) : String := if l.isEmpty then "-" else ",".intercalate l

def sortDedup (l : List String) : List String :=
  let s := l.mergeSort (fun a b => !(b < a))
  s.foldr (fun x acc => match acc with
    | y :: _ => if x = y then acc else x :: acc
    | [] => [x]) []

def depsTok (l : List String) : String := if l.isEmpty then "-" else "+".intercalate l

/-- `kind == PeerAuthentication` on config tokens. -/
def isPA (c : String) : Bool :=
  match c.splitOn "/" with
  | [k, _, _] => k == "PA"
  | _ => false

def showEntry (e : Entry String String String) : String :=
  s!"{e.key}:{e.token}:{e.val.getD "nil"}:{depsTok e.deps}"

def showCache : Option SCache → String
  | none => "off"
  | some c =>
    let st := tokList (c.store.reverse.map showEntry)   -- oldest first, like simplelru.Keys()
    let ix := tokList (sortDedup (c.index.map (fun p => s!"{p.1}>{p.2}")))
    let q := tokList (c.evictQ.map (fun p => s!"{p.1}:{depsTok p.2}"))
    s!"t={c.token};s={st};i={ix};q={q}"

def showImpl (x : SImpl) : String :=
  " ".intercalate (Ty.all.map (fun t => s!"{t.tok}[{showCache (x.typed t)}]"))

def parseInt (t : String) : Option Int :=
  if t.startsWith "-" then (t.drop 1).toString.toNat?.map (fun n => -(n : Int)) else t.toNat?.map (fun n => (n : Int))

def mkDesc (ty key cacheable : String) (deps : List String) : EntryDesc String String :=
  { ty := Ty.ofTok ty, key := key, keyIsString := key.startsWith "s", deps := deps, cacheable := tokBool cacheable }

def keyOk (key : String) : Bool :=
  (key.startsWith "s") || (key.startsWith "u" && ((key.drop 1).toString.toNat?).isSome)

def bad (s : DState) : DState × String := (s, "bad-op")

def doClear (s : DState) (time cfgs : String) (ord : Ty → List String) : DState × String :=
  match time.toNat? with
  | none => bad s
  | some t =>
    if t ≤ s.lastClear || s.addTimes.contains t then bad s
    else
      let x := Impl.clear isPA s.impl ⟨t, t, t, t⟩ (listTok cfgs) ord
      ({ s with impl := x, lastClear := t }, s!"ok {showImpl x}")

def step (s : DState) (toks : List String) : DState × String :=
  match toks with
  | ["case", _, maxsize, cdsOn, rdsOn] =>
    match parseInt maxsize with
    | none => (DState.init, "bad-op")
    | some m =>
      let x : SImpl := Impl.new m (tokBool cdsOn) (tokBool rdsOn)
      ({ impl := x, lastClear := 0, addTimes := [] }, s!"ok {showImpl x}")
  | ["add", ty, key, cacheable, deps, val, start] =>
    if !keyOk key then bad s else
    let st : Option (Option Nat) :=
      if start == "zero" || start == "nilreq" then some none else start.toNat?.map some
    match st with
    | none => bad s
    | some st =>
      let v := if val == "nil" then none else some val
      let s1 := match st with
        | some t => { s with addTimes := t :: s.addTimes }
        | none => s
      match Impl.add s.impl (mkDesc ty key cacheable (listTok deps)) v st with
      | none => (s1, s!"crash {showImpl s.impl}")
      | some x => ({ s1 with impl := x }, s!"ok {showImpl x}")
  | ["get", ty, key, cacheable] =>
    if !keyOk key then bad s else
    match Impl.get s.impl (mkDesc ty key cacheable []) with
    | none => (s, s!"crash {showImpl s.impl}")
    | some (x, r) =>
      let res := match r with
        | some v => s!"hit:{v}"
        | none => "miss"
      ({ s with impl := x }, s!"{res} {showImpl x}")
  | ["clear", time, cfgs] => doClear s time cfgs (fun _ => [])
  | ["clear", time, cfgs, oc, oe, or_, os] =>
    doClear s time cfgs (fun t => match t with
      | .cds => listTok oc | .eds => listTok oe | .rds => listTok or_ | .sds => listTok os)
  | ["clearall", time] =>
    match time.toNat? with
    | none => bad s
    | some t =>
      if t ≤ s.lastClear || s.addTimes.contains t then bad s
      else
        let x := Impl.clearAll s.impl ⟨t, t, t, t⟩
        ({ s with impl := x, lastClear := t }, s!"ok {showImpl x}")
  | ["unresolved"] => (s, "timing-unresolved")
  -- `XdsCacheImpl.Snapshot()`: every typed cache reads all its values through `store.Get`, oldest key first; promoting
  -- every key in that order restores the recency order, so the state is unchanged (`Impl.snapshot`, `snapshot_id`)
  | ["snapshot"] =>
    let x := Impl.snapshot s.impl
    let n := Ty.all.foldl (fun acc t => acc + (match x.typed t with | some c => c.store.length | none => 0)) 0
    ({ s with impl := x }, s!"n={n} {showImpl x}")
  | ["keys", ty] =>
    let n := match Ty.ofTok ty with
      | some t => (match s.impl.typed t with | some c => c.store.length | none => 0)
      | none => 0
    (s, s!"n={n} {showImpl s.impl}")
  | ["flush"] =>
    let x := Impl.flush s.impl
    ({ s with impl := x }, s!"ok {showImpl x}")
  | ["maxsize", n] =>
    match parseInt n with
    | none => bad s
    | some m =>
      let x := Impl.setMaxSize s.impl m
      ({ s with impl := x }, s!"ok {showImpl x}")
  -- stream `keys`: the spec side of KeyComplete (theorem `cache_invisible`): generation with a warm shared
  -- cache equals generation from scratch, for every pair of proxies
  | ["case", _, _, _] => ({ s with world := true }, "ok")
  | ["pair", _, _] => if s.world then (s, "eq") else bad s
  | ["seq", _] => if s.world then (s, "eq") else bad s
  | ["pairm", _, _] => if s.world then (s, "eq") else bad s
  -- stream `writers`: the spec side of the writer discipline (theorem `never_stale`): after any sequence of
  -- real request / push / config-dump writers and accepted changes, a reader with the current snapshot gets
  -- from the shared cache what generation from scratch yields
  | ["case", _, _] => ({ s with conns := [], world := true }, "ok")
  | ["connect", id, _] => if s.world then ({ s with conns := id :: s.conns }, "ok") else bad s
  | ["connect", id, _, _] => if s.world then ({ s with conns := id :: s.conns }, "ok") else bad s
  | ["toggle", _] => if s.world then (s, "ok") else bad s
  | ["epupdate", _, _] => if s.world then (s, "ok") else bad s
  | ["epnew", _, _] => if s.world then (s, "ok") else bad s
  | ["epcache", _, _] => if s.world then (s, "ok") else bad s
  | ["addrupdate", _] => if s.world then (s, "ok") else bad s
  | ["epdelete", _] => if s.world then (s, "ok") else bad s
  | ["epdelshard", _] => if s.world then (s, "ok") else bad s
  | ["epprune", _] => if s.world then (s, "ok") else bad s
  | ["queue"] => if s.world then (s, "ok") else bad s
  | ["pushstale", id] => if s.conns.contains id then (s, "ok") else bad s
  | ["meshchange", _] => if s.world then (s, "ok") else bad s
  | ["forcepush", _] => if s.world then (s, "ok") else bad s
  | ["dumptypes", id] => if s.conns.contains id then (s, "ok") else bad s
  | ["request", id, ty] =>
    if s.conns.contains id && ["cds", "eds", "rds", "sds"].contains ty then (s, "ok") else bad s
  | ["change", _, _] => if s.world then (s, "ok") else bad s
  | ["push", id] => if s.conns.contains id then (s, "ok") else bad s
  | ["warm", id] => if s.conns.contains id then (s, "ok") else bad s
  | ["dump", id] => if s.conns.contains id then (s, "ok") else bad s
  | ["check", id] => if s.conns.contains id then (s, "eq") else bad s
  | "case" :: _ => (DState.init, "bad-op")
  | _ => bad s

end IstioModel.C06
