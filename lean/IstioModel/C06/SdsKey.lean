import IstioModel.C06.Model

/-!
The SDS key and the private key provider (finding fixed in /repo, see notes/C06.md). These two facts are
definitional illustrations of the defect and of its repair on a three-valued abstraction of `ProxyConfig`;
they are not counted as proof obligations of C06 (the repair itself is validated on the real `SecretGen` by
stream `keys`, corpus `keys.pkp-mesh-default.ops`).
-/
namespace IstioModel.C06

/-! `SecretGen.generate` reads the private key provider of the *effective* ProxyConfig
(`proxy.Metadata.ProxyConfigOrDefault(meshConfig.GetDefaultConfig())`): the proxy's own ProxyConfig when
it sent one, else the mesh-wide default. Before the fix `parseResources` hashed only the proxy's own
ProxyConfig into `SecretResource.Key`. -/

/-- what SDS generation reads of a request, besides the resource name: `cfg = none` - the proxy sent
    no ProxyConfig; `some none` - a ProxyConfig without private key provider; `some (some p)` - provider `p` -/
structure SdsReq where
  name : Nat
  cfg : Option (Option Nat)
  deriving DecidableEq

/-- `ProxyConfigOrDefault(mesh default).GetPrivateKeyProvider()` -/
def SdsReq.effective (mesh : Option Nat) (r : SdsReq) : Option Nat :=
  match r.cfg with
  | none => mesh
  | some p => p

/-- the key before the fix: `(*ProxyConfig)(proxy.Metadata.ProxyConfig).GetPrivateKeyProvider()` (nil-safe getter) -/
def SdsReq.keyUnfixed (r : SdsReq) : Nat × Option Nat := (r.name, r.cfg.join)
/-- the key after the fix -/
def SdsReq.keyFixed (mesh : Option Nat) (r : SdsReq) : Nat × Option Nat := (r.name, r.effective mesh)

/-- the repaired SDS key determines everything generation reads of the request -/
theorem sds_key_complete (mesh : Option Nat) (a b : SdsReq) (h : a.keyFixed mesh = b.keyFixed mesh) :
    a.name = b.name ∧ a.effective mesh = b.effective mesh := by
  simp only [SdsReq.keyFixed, Prod.mk.injEq] at h
  exact h

/-- the old key is incomplete as soon as the mesh has a default provider: a proxy without ProxyConfig
    and a proxy whose ProxyConfig names no provider share a key although generation differs
    (replayed on the real code by corpus case `keys.pkp-mesh-default.ops`) -/
theorem sds_key_witness_unfixed :
    ∃ (mesh : Option Nat) (a b : SdsReq), a.keyUnfixed = b.keyUnfixed ∧ a.effective mesh ≠ b.effective mesh :=
  ⟨some 1, ⟨0, none⟩, ⟨0, some none⟩, by decide, by decide⟩


end IstioModel.C06
