import IstioModel.C06.Model

/-! Helper lemmas about the recency list and the single-step invariants (not counted as obligations). -/
set_option linter.unusedSectionVars false
namespace IstioModel.C06

section
variable {K C V : Type} [DecidableEq K] [DecidableEq C]

theorem find?_some {k : K} {s : List (Entry K C V)} {e : Entry K C V} (h : find? k s = some e) :
    e ∈ s ∧ e.key = k := by
  induction s with
  | nil => simp [find?] at h
  | cons a as ih =>
    unfold find? at h
    by_cases hk : a.key = k
    · simp [hk] at h; subst h; exact ⟨List.mem_cons_self, hk⟩
    · simp [hk] at h; exact ⟨List.mem_cons_of_mem _ (ih h).1, (ih h).2⟩

theorem find?_none {k : K} {s : List (Entry K C V)} (h : find? k s = none) :
    ∀ e ∈ s, e.key ≠ k := by
  induction s with
  | nil => intro e he; cases he
  | cons a as ih =>
    unfold find? at h
    by_cases hk : a.key = k
    · simp [hk] at h
    · simp [hk] at h
      intro e he
      rcases List.mem_cons.mp he with rfl | he
      · exact hk
      · exact ih h e he

theorem find?_isSome_of_mem {k : K} {s : List (Entry K C V)} {e : Entry K C V} (he : e ∈ s) (hk : e.key = k) :
    ∃ e', find? k s = some e' := by
  cases h : find? k s with
  | some e' => exact ⟨e', rfl⟩
  | none => exact absurd hk (find?_none h e he)

theorem mem_eraseKey {k : K} {s : List (Entry K C V)} {e : Entry K C V} :
    e ∈ eraseKey k s ↔ e ∈ s ∧ e.key ≠ k := by
  induction s with
  | nil => simp [eraseKey]
  | cons a as ih =>
    unfold eraseKey
    by_cases hk : a.key = k
    · simp only [hk, if_true, ih, List.mem_cons]
      constructor
      · intro h; exact ⟨Or.inr h.1, h.2⟩
      · rintro ⟨h | h, h2⟩
        · subst h; exact absurd hk h2
        · exact ⟨h, h2⟩
    · simp only [hk, if_false, List.mem_cons, ih]
      constructor
      · rintro (h | h)
        · subst h; exact ⟨Or.inl rfl, hk⟩
        · exact ⟨Or.inr h.1, h.2⟩
      · rintro ⟨h | h, h2⟩
        · exact Or.inl h
        · exact Or.inr ⟨h, h2⟩

theorem eraseKey_sublist (k : K) (s : List (Entry K C V)) : (eraseKey k s).Sublist s := by
  induction s with
  | nil => exact List.Sublist.slnil
  | cons a as ih =>
    unfold eraseKey
    by_cases hk : a.key = k
    · simp only [hk, if_true]; exact List.Sublist.cons _ ih
    · simp only [hk, if_false]; exact List.Sublist.cons_cons _ ih

theorem eraseKey_length_lt {k : K} {s : List (Entry K C V)} {e : Entry K C V} (h : find? k s = some e) :
    (eraseKey k s).length + 1 ≤ s.length := by
  induction s with
  | nil => simp [find?] at h
  | cons a as ih =>
    unfold find? at h
    unfold eraseKey
    by_cases hk : a.key = k
    · simp only [hk, if_true, List.length_cons]
      have := (eraseKey_sublist k as).length_le
      omega
    · simp only [hk, if_false] at h ⊢
      simp only [List.length_cons]
      have := ih h
      omega

/-- keys are pairwise distinct in the recency list -/
def KeysNodup (s : List (Entry K C V)) : Prop := s.Pairwise (fun a b => a.key ≠ b.key)

theorem KeysNodup.sublist {s t : List (Entry K C V)} (h : KeysNodup s) (hs : t.Sublist s) : KeysNodup t :=
  List.Pairwise.sublist hs h

theorem KeysNodup.eq_of_key {s : List (Entry K C V)} (h : KeysNodup s) {a b : Entry K C V}
    (ha : a ∈ s) (hb : b ∈ s) (hk : a.key = b.key) : a = b := by
  induction s with
  | nil => cases ha
  | cons x xs ih =>
    have hp := List.pairwise_cons.mp h
    rcases List.mem_cons.mp ha with rfl | ha' <;> rcases List.mem_cons.mp hb with rfl | hb'
    · rfl
    · exact absurd hk (hp.1 b hb')
    · exact absurd hk.symm (hp.1 a ha')
    · exact ih hp.2 ha' hb'

theorem KeysNodup.cons_erase {s : List (Entry K C V)} (h : KeysNodup s) (e : Entry K C V) :
    KeysNodup (e :: eraseKey e.key s) := by
  apply List.pairwise_cons.mpr
  refine ⟨?_, h.sublist (eraseKey_sublist _ _)⟩
  intro b hb
  exact fun hk => (mem_eraseKey.mp hb).2 hk.symm

theorem KeysNodup.cons_new {s : List (Entry K C V)} (h : KeysNodup s) (e : Entry K C V)
    (hn : find? e.key s = none) : KeysNodup (e :: s) := by
  apply List.pairwise_cons.mpr
  refine ⟨?_, h⟩
  intro b hb hk
  exact find?_none hn b hb hk.symm

/-- moving the found entry to the front keeps the membership (needs unique keys). -/
theorem mem_front {k : K} {s : List (Entry K C V)} {cur e : Entry K C V} (hn : KeysNodup s)
    (h : find? k s = some cur) : e ∈ cur :: eraseKey k s ↔ e ∈ s := by
  have hc := find?_some h
  simp only [List.mem_cons, mem_eraseKey]
  constructor
  · rintro (rfl | h2)
    · exact hc.1
    · exact h2.1
  · intro he
    by_cases hk : e.key = k
    · exact Or.inl (hn.eq_of_key he hc.1 (hk.trans hc.2.symm))
    · exact Or.inr ⟨he, hk⟩

theorem mem_promote {k : K} {s : List (Entry K C V)} {e : Entry K C V} (hn : KeysNodup s) :
    e ∈ promote k s ↔ e ∈ s := by
  unfold promote
  cases h : find? k s with
  | none => simp
  | some cur => exact mem_front hn h

theorem KeysNodup.front {k : K} {s : List (Entry K C V)} {cur : Entry K C V} (hn : KeysNodup s)
    (h : find? k s = some cur) : KeysNodup (cur :: eraseKey k s) := by
  have := hn.cons_erase cur
  rwa [(find?_some h).2] at this

theorem KeysNodup.promote {k : K} {s : List (Entry K C V)} (hn : KeysNodup s) : KeysNodup (promote k s) := by
  unfold C06.promote
  cases h : find? k s with
  | none => exact hn
  | some cur => exact hn.front h

/-- lookups see the same entries after a move to the front. -/
theorem find?_eq_of_mem_iff {s t : List (Entry K C V)} (hs : KeysNodup s) (ht : KeysNodup t)
    (h : ∀ e, e ∈ t ↔ e ∈ s) (k : K) : find? k t = find? k s := by
  cases h1 : find? k s with
  | none =>
    cases h2 : find? k t with
    | none => rfl
    | some e =>
      have := find?_some h2
      exact absurd this.2 (find?_none h1 e ((h e).mp this.1))
  | some e =>
    have he := find?_some h1
    obtain ⟨e', h2⟩ := find?_isSome_of_mem ((h e).mpr he.1) he.2
    have he' := find?_some h2
    rw [h2, ht.eq_of_key he'.1 ((h e).mpr he.1) (he'.2.trans he.2.symm)]

/-! ### single-step invariants -/

/-- every live entry is indexed under each of its dependent configs -/
def IndexComplete (c : Cache K C V) : Prop :=
  ∀ e ∈ c.store, ∀ d ∈ e.deps, (d, e.key) ∈ c.index

/-- the representation invariant of `lruCache`. -/
structure Inv (c : Cache K C V) : Prop where
  idx : IndexComplete c
  nodup : KeysNodup c.store
  cap : c.store.length ≤ c.cap

theorem Inv.new (cap : Nat) : Inv (Cache.new cap : Cache K C V) :=
  ⟨fun e he => (by cases he), List.Pairwise.nil, Nat.zero_le _⟩

theorem mem_addEdges {k : K} {deps : List C} {index : List (C × K)} {p : C × K} :
    p ∈ addEdges k deps index ↔ (p.2 = k ∧ p.1 ∈ deps) ∨ p ∈ index := by
  unfold addEdges
  simp only [List.mem_append, List.mem_map]
  constructor
  · rintro (⟨d, hd, rfl⟩ | h)
    · exact Or.inl ⟨rfl, hd⟩
    · exact Or.inr h
  · rintro (⟨h1, h2⟩ | h)
    · exact Or.inl ⟨p.1, h2, by rw [← h1]⟩
    · exact Or.inr h

theorem Inv.front {c : Cache K C V} (h : Inv c) {k : K} {cur : Entry K C V} (hf : find? k c.store = some cur) :
    Inv { c with store := cur :: eraseKey k c.store } := by
  refine ⟨?_, h.nodup.front hf, ?_⟩
  · intro e he d hd
    exact h.idx e ((mem_front h.nodup hf).mp he) d hd
  · have := eraseKey_length_lt hf
    have := h.cap
    simp only [List.length_cons]; omega

theorem Inv.add {c : Cache K C V} (h : Inv c) (k : K) (v : Option V) (start : Option Nat) (deps : List C) :
    Inv (c.add k v start deps) := by
  unfold Cache.add
  split
  · exact h
  · rename_i tok
    split
    · exact h
    · split
      · rename_i cur hf
        split
        · exact h.front hf
        · refine ⟨?_, ?_, ?_⟩
          · intro e he d hd
            rcases List.mem_cons.mp he with rfl | he'
            · exact mem_addEdges.mpr (Or.inl ⟨rfl, hd⟩)
            · exact mem_addEdges.mpr (Or.inr (h.idx e (mem_eraseKey.mp he').1 d hd))
          · exact h.nodup.cons_erase { key := k, val := v, token := tok, deps := deps }
          · have := eraseKey_length_lt hf
            have := h.cap
            simp only [List.length_cons]; omega
      · rename_i hf
        have hn : KeysNodup ({ key := k, val := v, token := tok, deps := deps } :: c.store) :=
          h.nodup.cons_new { key := k, val := v, token := tok, deps := deps } hf
        split
        · refine ⟨?_, hn.sublist (List.dropLast_sublist _), ?_⟩
          · intro e he d hd
            rcases List.mem_cons.mp (List.dropLast_subset _ he) with rfl | he'
            · exact mem_addEdges.mpr (Or.inl ⟨rfl, hd⟩)
            · exact mem_addEdges.mpr (Or.inr (h.idx e he' d hd))
          · have := h.cap
            simp only [List.length_dropLast, List.length_cons]; omega
        · rename_i hc
          refine ⟨?_, hn, ?_⟩
          · intro e he d hd
            rcases List.mem_cons.mp he with rfl | he'
            · exact mem_addEdges.mpr (Or.inl ⟨rfl, hd⟩)
            · exact mem_addEdges.mpr (Or.inr (h.idx e he' d hd))
          · simp only [List.length_cons]; omega

theorem Inv.get {c : Cache K C V} (h : Inv c) (k : K) : Inv (c.get k) := by
  unfold Cache.get C06.promote
  split
  · rename_i cur hf; exact h.front hf
  · exact h

theorem mem_refKeys {cs : List C} {index : List (C × K)} {k : K} :
    k ∈ refKeys cs index ↔ ∃ d, d ∈ cs ∧ (d, k) ∈ index := by
  unfold refKeys
  simp only [List.mem_map, List.mem_filter, decide_eq_true_eq]
  constructor
  · rintro ⟨p, ⟨hp, hd⟩, rfl⟩; exact ⟨p.1, hd, hp⟩
  · rintro ⟨d, hd, hp⟩; exact ⟨(d, k), ⟨hp, hd⟩, rfl⟩

theorem Inv.clear {c : Cache K C V} (h : Inv c) (now : Nat) (cs : List C) (ord : List K) :
    Inv (c.clear now cs ord) := by
  unfold Cache.clear
  refine ⟨?_, h.nodup.sublist List.filter_sublist, ?_⟩
  · intro e he d hd
    simp only [List.mem_filter, Bool.not_eq_true', decide_eq_false_iff_not] at he
    simp only [List.mem_filter, Bool.not_eq_true', decide_eq_false_iff_not]
    refine ⟨h.idx e he.1 d hd, ?_⟩
    intro hdc
    exact he.2 (mem_refKeys.mpr ⟨d, hdc, h.idx e he.1 d hd⟩)
  · have := h.cap
    have := List.length_filter_le (fun e : Entry K C V => !decide (e.key ∈ refKeys cs c.index)) c.store
    simp only; omega

theorem Inv.clearAll (c : Cache K C V) (now newCap : Nat) : Inv (c.clearAll now newCap) :=
  ⟨fun e he => (by cases he), List.Pairwise.nil, Nat.zero_le _⟩

theorem Inv.clearConfigIndex {c : Cache K C V} (h : Inv c) (k : K) (old : List C) :
    Inv (clearConfigIndex c k old) := by
  unfold C06.clearConfigIndex
  split
  · rename_i cur hf
    have hi := h.front hf
    refine ⟨?_, hi.nodup, hi.cap⟩
    intro e he d hd
    have hes : e ∈ c.store := (mem_front h.nodup hf).mp he
    simp only [List.mem_filter, Bool.not_eq_true', Bool.and_eq_false_imp, Bool.and_eq_true,
      decide_eq_true_eq, Bool.not_eq_false', and_imp]
    refine ⟨h.idx e hes d hd, ?_⟩
    intro hk _
    have hc := find?_some hf
    have : e = cur := h.nodup.eq_of_key hes hc.1 (hk.trans hc.2.symm)
    subst this
    exact hd
  · rename_i hf
    refine ⟨?_, h.nodup, h.cap⟩
    intro e he d hd
    simp only [List.mem_filter, Bool.not_eq_true', Bool.and_eq_false_imp, decide_eq_true_eq,
      decide_eq_false_iff_not]
    refine ⟨h.idx e he d hd, ?_⟩
    intro hk
    exact absurd hk (find?_none hf e he)

theorem Inv.flushQueue (q : List (K × List C)) {c : Cache K C V} (h : Inv c) : Inv (flushQueue q c) := by
  induction q generalizing c with
  | nil => exact h
  | cons x xs ih => exact ih (h.clearConfigIndex x.1 x.2)

theorem Inv.flush {c : Cache K C V} (h : Inv c) : Inv c.flush := by
  have := h.flushQueue c.evictQ
  exact ⟨this.idx, this.nodup, this.cap⟩

theorem Inv.step {c : Cache K C V} (h : Inv c) (op : Op K C V) : Inv (c.step op) := by
  cases op with
  | add k v start deps => exact h.add k v start deps
  | get k => exact h.get k
  | clear now cs ord => exact h.clear now cs ord
  | clearAll now newCap => exact Inv.clearAll c now newCap
  | flush => exact h.flush

theorem Inv.run {c : Cache K C V} (h : Inv c) (ops : List (Op K C V)) : Inv (c.run ops) := by
  induction ops generalizing c with
  | nil => exact h
  | cons op ops ih => exact ih (h.step op)

/-! ### provenance of stored entries and of the token -/

theorem mem_front_imp {k : K} {s : List (Entry K C V)} {cur e : Entry K C V}
    (h : find? k s = some cur) (he : e ∈ cur :: eraseKey k s) : e ∈ s := by
  rcases List.mem_cons.mp he with rfl | h2
  · exact (find?_some h).1
  · exact (mem_eraseKey.mp h2).1

theorem mem_add_store {c : Cache K C V} {k : K} {v : Option V} {start : Option Nat} {deps : List C}
    {e : Entry K C V} (he : e ∈ (c.add k v start deps).store) :
    e ∈ c.store ∨ ∃ tok, start = some tok ∧ c.token ≤ tok ∧
      e = { key := k, val := v, token := tok, deps := deps } := by
  unfold Cache.add at he
  split at he
  · exact Or.inl he
  · rename_i tok
    split at he
    · exact Or.inl he
    · rename_i hlt
      have hle : c.token ≤ tok := Nat.le_of_not_lt hlt
      split at he
      · rename_i cur hf
        split at he
        · exact Or.inl (mem_front_imp hf he)
        · rcases List.mem_cons.mp he with rfl | h2
          · exact Or.inr ⟨tok, rfl, hle, rfl⟩
          · exact Or.inl (mem_eraseKey.mp h2).1
      · split at he
        · rcases List.mem_cons.mp (List.dropLast_subset _ he) with rfl | h2
          · exact Or.inr ⟨tok, rfl, hle, rfl⟩
          · exact Or.inl h2
        · rcases List.mem_cons.mp he with rfl | h2
          · exact Or.inr ⟨tok, rfl, hle, rfl⟩
          · exact Or.inl h2

theorem add_token_ge (c : Cache K C V) (k : K) (v : Option V) (start : Option Nat) (deps : List C) :
    c.token ≤ (c.add k v start deps).token := by
  unfold Cache.add
  split
  · exact Nat.le_refl _
  · split
    · exact Nat.le_refl _
    · rename_i hlt
      have := Nat.le_of_not_lt hlt
      split
      · split
        · exact Nat.le_refl _
        · exact this
      · split <;> exact this

theorem mem_get_store {c : Cache K C V} {k : K} {e : Entry K C V} (he : e ∈ (c.get k).store) : e ∈ c.store := by
  unfold Cache.get C06.promote at he
  split at he
  · rename_i cur hf; exact mem_front_imp hf he
  · exact he

theorem mem_clear_store {c : Cache K C V} {now : Nat} {cs : List C} {ord : List K} {e : Entry K C V}
    (he : e ∈ (c.clear now cs ord).store) : e ∈ c.store ∧ e.key ∉ refKeys cs c.index := by
  unfold Cache.clear at he
  simpa only [List.mem_filter, Bool.not_eq_true', decide_eq_false_iff_not] using he

theorem mem_clearConfigIndex_store {c : Cache K C V} {k : K} {old : List C} {e : Entry K C V}
    (he : e ∈ (clearConfigIndex c k old).store) : e ∈ c.store := by
  unfold C06.clearConfigIndex at he
  split at he
  · rename_i cur hf; exact mem_front_imp hf he
  · exact he

theorem clearConfigIndex_token (c : Cache K C V) (k : K) (old : List C) :
    (clearConfigIndex c k old).token = c.token := by
  unfold C06.clearConfigIndex; split <;> rfl

theorem mem_flushQueue_store (q : List (K × List C)) {c : Cache K C V} {e : Entry K C V}
    (he : e ∈ (flushQueue q c).store) : e ∈ c.store := by
  induction q generalizing c with
  | nil => exact he
  | cons x xs ih => exact mem_clearConfigIndex_store (ih he)

theorem flushQueue_token (q : List (K × List C)) (c : Cache K C V) : (flushQueue q c).token = c.token := by
  induction q generalizing c with
  | nil => rfl
  | cons x xs ih => exact (ih _).trans (clearConfigIndex_token c x.1 x.2)

theorem mem_flush_store {c : Cache K C V} {e : Entry K C V} (he : e ∈ c.flush.store) : e ∈ c.store :=
  mem_flushQueue_store c.evictQ he

theorem flush_token (c : Cache K C V) : c.flush.token = c.token := flushQueue_token c.evictQ c

/-- a unique-keyed list finds each of its members. -/
theorem find?_of_mem {s : List (Entry K C V)} (hn : KeysNodup s) {e : Entry K C V} (he : e ∈ s) :
    find? e.key s = some e := by
  obtain ⟨e', h⟩ := find?_isSome_of_mem he rfl
  have := find?_some h
  rw [h, hn.eq_of_key this.1 he this.2]

theorem getVal_some {c : Cache K C V} {k : K} {v : V} (h : c.getVal k = some v) :
    ∃ e ∈ c.store, e.key = k ∧ e.val = some v := by
  unfold Cache.getVal at h
  split at h
  · rename_i e hf; exact ⟨e, (find?_some hf).1, (find?_some hf).2, h⟩
  · cases h

end
end IstioModel.C06
