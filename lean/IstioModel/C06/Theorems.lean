import IstioModel.C06.Lemmas
import IstioModel.C06.SdsKey

/-!
C06 - theorems about the xDS cache model (`Model.lean`).

All history theorems are by induction over **arbitrary operation sequences** (`Cache.run`): any number
of writers, readers, invalidators and flush ticks, in any interleaving - every cache method runs under
the cache mutex, so an interleaving of goroutines is a sequence of operations.

* `index_complete`, `keys_nodup`, `cap_bound`     representation invariants of every reachable state
* `clear_effective`, `get_after_clear_miss`       targeted invalidation removes every dependent entry
* `stale_writer_rejected_*`, `fresh_writer_stored` the two token checks of `Add`
* `never_stale_token`                              no stored entry is older than an invalidation of a dependency
* `never_stale`, `cache_invisible`                 coherent writers: every stored value comes from a snapshot agreeing with
                                                   the current world on its declared deps; with `KeyDetermines`, `Get`
                                                   returns what a fresh generation returns for the asking proxy
* `versioned_key_witness`                          stale-but-unreachable entries (key versioning), entries are not claimed fresh
* `never_stale_incoherent_witness`                 the discipline is necessary (model-level witness, cf. F8)
* `key_injective_invisible`, `key_incomplete_witness`  sharing across proxies is exactly key (in)completeness
* `index_justified`, `flush_no_leak`                after `Flush` the reverse index holds exactly the live dependencies
* `impl_*`, `proj`, `projRun`                       `XdsCacheImpl`: explicit projection to the single-cache model, lifted
                                                   `impl_never_stale` / `impl_cache_invisible`, PeerAuthentication => EDS ClearAll
-/
set_option linter.unusedSectionVars false
namespace IstioModel.C06

section
variable {K C V : Type} [DecidableEq K] [DecidableEq C]

/-! ## Representation invariants of every reachable state -/

/-- Every live entry is indexed under each of its dependent configs, after any operation sequence
    (the lazy `evictQueue` cleanup of `Flush` never removes a live edge). -/
theorem index_complete (cap : Nat) (ops : List (Op K C V)) :
    ∀ e ∈ ((Cache.new cap).run ops).store, ∀ d ∈ e.deps,
      (d, e.key) ∈ ((Cache.new cap).run ops).index :=
  ((Inv.new cap).run ops).idx

/-- same statement from an arbitrary state that satisfies the invariant (e.g. in the middle of a run) -/
theorem index_complete_from {c : Cache K C V} (h : Inv c) (ops : List (Op K C V)) :
    IndexComplete (c.run ops) := (h.run ops).idx

/-- The recency list never holds two entries with the same key (so the list is a faithful image of
    simplelru's map + linked list). -/
theorem keys_nodup (cap : Nat) (ops : List (Op K C V)) :
    ((Cache.new cap).run ops).store.Pairwise (fun a b => a.key ≠ b.key) :=
  ((Inv.new cap).run ops).nodup

/-- The store never exceeds its capacity. -/
theorem cap_bound (cap : Nat) (ops : List (Op K C V)) :
    ((Cache.new cap).run ops).store.length ≤ ((Cache.new cap).run ops).cap :=
  ((Inv.new cap).run ops).cap

/-- `Flush` (and `Get`) change neither the set of stored entries nor any stored value. -/
theorem flush_keeps_entries {c : Cache K C V} (h : Inv c) (e : Entry K C V) :
    e ∈ c.flush.store ↔ e ∈ c.store := by
  constructor
  · exact mem_flush_store
  · intro he
    -- membership is preserved by each `clearConfigIndex`
    have key : ∀ (q : List (K × List C)) (c : Cache K C V), Inv c → e ∈ c.store → e ∈ (flushQueue q c).store := by
      intro q
      induction q with
      | nil => intro c _ h; exact h
      | cons x xs ih =>
        intro c hc hm
        apply ih _ (hc.clearConfigIndex x.1 x.2)
        unfold C06.clearConfigIndex
        split
        · rename_i cur hf; exact (mem_front hc.nodup hf).mpr hm
        · exact hm
    exact key c.evictQ c h he

/-! ## Clear is effective -/

/-- After `Clear cs` no entry that depends on any `c ∈ cs` remains, and the token is the clear time. -/
theorem clear_effective {c : Cache K C V} (h : IndexComplete c) (now : Nat) (cs : List C) (ord : List K) :
    (∀ e ∈ (c.clear now cs ord).store, ∀ d ∈ e.deps, d ∉ cs) ∧ (c.clear now cs ord).token = now := by
  refine ⟨?_, rfl⟩
  intro e he d hd hdc
  have := mem_clear_store he
  exact this.2 (mem_refKeys.mpr ⟨d, hdc, h e this.1 d hd⟩)

/-- ... in every reachable state, whatever happened before. -/
theorem clear_effective_reachable (cap : Nat) (ops : List (Op K C V)) (now : Nat) (cs : List C) (ord : List K) :
    ∀ e ∈ (((Cache.new cap).run ops).clear now cs ord).store, ∀ d ∈ e.deps, d ∉ cs :=
  (clear_effective (index_complete cap ops) now cs ord).1

/-- `ClearAll` empties the store and takes the clear time as token. -/
theorem clearAll_effective (c : Cache K C V) (now newCap : Nat) :
    (c.clearAll now newCap).store = [] ∧ (c.clearAll now newCap).token = now := ⟨rfl, rfl⟩

/-- A `Get` right after `Clear cs` misses for every key whose entry depended on some `c ∈ cs`. -/
theorem get_after_clear_miss {c : Cache K C V} (h : Inv c) (now : Nat) (cs : List C) (ord : List K)
    (e : Entry K C V) (he : e ∈ c.store) (d : C) (hd : d ∈ e.deps) (hdc : d ∈ cs) :
    (c.clear now cs ord).getVal e.key = none := by
  cases hv : (c.clear now cs ord).getVal e.key with
  | none => rfl
  | some v =>
    obtain ⟨e', he', hk, _⟩ := getVal_some hv
    have hm := mem_clear_store he'
    have : e' = e := h.nodup.eq_of_key hm.1 he hk
    subst this
    exact absurd hdc ((clear_effective h.idx now cs ord).1 e' he' d hd)

/-- The eviction order input `ord` (Go map iteration order) influences nothing but the order of the
    evict queue. -/
theorem clear_order_irrelevant (c : Cache K C V) (now : Nat) (cs : List C) (ord ord' : List K) :
    (c.clear now cs ord).store = (c.clear now cs ord').store ∧
    (c.clear now cs ord).index = (c.clear now cs ord').index ∧
    (c.clear now cs ord).token = (c.clear now cs ord').token := ⟨rfl, rfl, rfl⟩

/-! ## The two token checks of Add -/

/-- `Add` with a token below the cache token is a no-op. -/
theorem stale_writer_rejected_cache_token (c : Cache K C V) (k : K) (v : Option V) (tok : Nat) (deps : List C)
    (h : tok < c.token) : c.add k v (some tok) deps = c := by
  unfold Cache.add; simp [h]

/-- `Add` without a request or with a zero `Start` is a no-op. -/
theorem no_start_rejected (c : Cache K C V) (k : K) (v : Option V) (deps : List C) :
    c.add k v none deps = c := rfl

/-- `Add` with a token not above the current entry's token changes no entry, no value, not the token,
    not the index, not the evict queue (it only refreshes the recency of the key, as the lookup does). -/
theorem stale_writer_rejected_entry_token {c : Cache K C V} (hinv : Inv c) (k : K) (v : Option V) (tok : Nat)
    (deps : List C) (cur : Entry K C V) (hf : find? k c.store = some cur) (h : tok ≤ cur.token) :
    (c.add k v (some tok) deps).token = c.token ∧
    (c.add k v (some tok) deps).index = c.index ∧
    (c.add k v (some tok) deps).evictQ = c.evictQ ∧
    (∀ e, e ∈ (c.add k v (some tok) deps).store ↔ e ∈ c.store) ∧
    (∀ k', (c.add k v (some tok) deps).getVal k' = c.getVal k') := by
  by_cases hlt : tok < c.token
  · rw [stale_writer_rejected_cache_token c k v tok deps hlt]
    exact ⟨rfl, rfl, rfl, fun _ => Iff.rfl, fun _ => rfl⟩
  · have hadd : c.add k v (some tok) deps = { c with store := cur :: eraseKey k c.store } := by
      unfold Cache.add; simp [hlt, hf, h]
    rw [hadd]
    refine ⟨rfl, rfl, rfl, fun e => mem_front hinv.nodup hf, ?_⟩
    intro k'
    unfold Cache.getVal
    rw [find?_eq_of_mem_iff hinv.nodup (hinv.nodup.front hf) (fun e => mem_front hinv.nodup hf) k']

/-- **stale_writer_rejected.** `Add` with a token below the cache token, or not above the token of the
    entry currently stored under the key, is a no-op on the content: token, index, evict queue, the set of
    entries and every lookup result are unchanged. -/
theorem stale_writer_rejected {c : Cache K C V} (hinv : Inv c) (k : K) (v : Option V) (tok : Nat) (deps : List C)
    (h : tok < c.token ∨ ∃ cur, find? k c.store = some cur ∧ tok ≤ cur.token) :
    (c.add k v (some tok) deps).token = c.token ∧
    (c.add k v (some tok) deps).index = c.index ∧
    (c.add k v (some tok) deps).evictQ = c.evictQ ∧
    (∀ e, e ∈ (c.add k v (some tok) deps).store ↔ e ∈ c.store) ∧
    (∀ k', (c.add k v (some tok) deps).getVal k' = c.getVal k') := by
  rcases h with h | ⟨cur, hf, h⟩
  · rw [stale_writer_rejected_cache_token c k v tok deps h]
    exact ⟨rfl, rfl, rfl, fun _ => Iff.rfl, fun _ => rfl⟩
  · exact stale_writer_rejected_entry_token hinv k v tok deps cur hf h

/-- Non-vacuity of acceptance: a writer whose token is not below the cache token and above the
    current entry's token is stored and served. -/
theorem fresh_writer_stored {c : Cache K C V} (hcap : 1 ≤ c.cap) (k : K) (v : Option V) (tok : Nat) (deps : List C)
    (h1 : ¬ tok < c.token) (h2 : ∀ cur, find? k c.store = some cur → cur.token < tok) :
    (c.add k v (some tok) deps).getVal k = v ∧ (c.add k v (some tok) deps).token = tok := by
  unfold Cache.add
  simp only [h1, if_false]
  cases hf : find? k c.store with
  | some cur =>
    have := h2 cur hf
    have hn : ¬ tok ≤ cur.token := by omega
    simp [hn, Cache.getVal, find?]
  | none =>
    by_cases hc : c.cap < c.store.length + 1
    · have hne : c.store ≠ [] := by
        intro h0; rw [h0] at hc; simp at hc; omega
      simp [hc, Cache.getVal, List.dropLast_cons_of_ne_nil hne, find?]
    · simp [hc, Cache.getVal, find?]

/-- `Get` is read-only on the content: it changes no lookup result, token, index or queue. -/
theorem get_readonly {c : Cache K C V} (hinv : Inv c) (k : K) :
    (c.get k).token = c.token ∧ (c.get k).index = c.index ∧ (c.get k).evictQ = c.evictQ ∧
    (∀ k', (c.get k).getVal k' = c.getVal k') := by
  refine ⟨rfl, rfl, rfl, ?_⟩
  intro k'
  unfold Cache.getVal Cache.get
  rw [find?_eq_of_mem_iff hinv.nodup hinv.nodup.promote (fun e => mem_promote hinv.nodup) k']

/-- `Snapshot()` (a debug accessor that reads through `store.Get`) is read-only on the content as well. -/
theorem snapshot_readonly {c : Cache K C V} (hinv : Inv c) :
    Inv c.snapshot ∧ c.snapshot.token = c.token ∧ c.snapshot.index = c.index ∧ c.snapshot.evictQ = c.evictQ ∧
    (∀ k', c.snapshot.getVal k' = c.getVal k') := by
  unfold Cache.snapshot
  generalize (c.store.reverse.map fun e => e.key) = ks
  induction ks generalizing c with
  | nil => exact ⟨hinv, rfl, rfl, rfl, fun _ => rfl⟩
  | cons k ks ih =>
    have h1 := get_readonly hinv k
    obtain ⟨i2, t2, x2, q2, g2⟩ := ih (hinv.get k)
    refine ⟨i2, t2.trans h1.1, x2.trans h1.2.1, q2.trans h1.2.2.1, fun k' => (g2 k').trans (h1.2.2.2 k')⟩

/-! ## Ghost history: invalidation events and their times -/

/-- An accepted change: the time `Clear`/`ClearAll` read from the clock and what it covered
    (`none` = everything). -/
structure Inval (C : Type) where
  time : Nat
  cover : Option (List C)

def Inval.covers (i : Inval C) (d : C) : Bool :=
  match i.cover with
  | none => true
  | some cs => decide (d ∈ cs)

def Op.inval : Op K C V → List (Inval C)
  | .clear now cs _ => [⟨now, some cs⟩]
  | .clearAll now _ => [⟨now, none⟩]
  | _ => []

/-- the invalidation history of an operation sequence, oldest first -/
def histOf : List (Op K C V) → List (Inval C)
  | [] => []
  | op :: ops => op.inval ++ histOf ops

/-- `AllOps P hist ops`: every operation satisfies the side condition `P` w.r.t. the invalidations
    executed before it. -/
def AllOps (P : List (Inval C) → Op K C V → Prop) (hist : List (Inval C)) : List (Op K C V) → Prop
  | [] => True
  | op :: ops => P hist op ∧ AllOps P (hist ++ op.inval) ops

/-- The wall clock is monotone: an invalidation never reads a time below an earlier one. (Writers'
    tokens are unconstrained here.) -/
def MonoClock (hist : List (Inval C)) : Op K C V → Prop
  | .clear now _ _ => ∀ i ∈ hist, i.time ≤ now
  | .clearAll now _ => ∀ i ∈ hist, i.time ≤ now
  | _ => True

/-- Ghost invariant: the cache token dominates every invalidation time, and every stored entry's
    token dominates the time of every invalidation that covered one of its dependencies. -/
structure TokInv (c : Cache K C V) (hist : List (Inval C)) : Prop where
  inv : Inv c
  tok : ∀ i ∈ hist, i.time ≤ c.token
  ent : ∀ e ∈ c.store, ∀ d ∈ e.deps, ∀ i ∈ hist, i.covers d = true → i.time ≤ e.token

theorem TokInv.step {c : Cache K C V} {hist : List (Inval C)} (h : TokInv c hist) (op : Op K C V)
    (hm : MonoClock hist op) : TokInv (c.step op) (hist ++ op.inval) := by
  refine ⟨h.inv.step op, ?_, ?_⟩
  · intro i hi
    cases op with
    | add k v start deps =>
      simp only [Op.inval, List.append_nil] at hi
      exact Nat.le_trans (h.tok i hi) (add_token_ge c k v start deps)
    | get k => simp only [Op.inval, List.append_nil] at hi; exact h.tok i hi
    | flush =>
      simp only [Op.inval, List.append_nil] at hi
      simp only [Cache.step, flush_token]; exact h.tok i hi
    | clear now cs ord =>
      simp only [Op.inval, List.mem_append, List.mem_singleton] at hi
      rcases hi with hi | rfl
      · exact hm i hi
      · exact Nat.le_refl _
    | clearAll now newCap =>
      simp only [Op.inval, List.mem_append, List.mem_singleton] at hi
      rcases hi with hi | rfl
      · exact hm i hi
      · exact Nat.le_refl _
  · intro e he d hd i hi hc
    cases op with
    | add k v start deps =>
      simp only [Op.inval, List.append_nil] at hi
      rcases mem_add_store he with ho | ⟨tok, _, hle, rfl⟩
      · exact h.ent e ho d hd i hi hc
      · exact Nat.le_trans (h.tok i hi) hle
    | get k =>
      simp only [Op.inval, List.append_nil] at hi
      exact h.ent e (mem_get_store he) d hd i hi hc
    | flush =>
      simp only [Op.inval, List.append_nil] at hi
      exact h.ent e (mem_flush_store he) d hd i hi hc
    | clear now cs ord =>
      simp only [Op.inval, List.mem_append, List.mem_singleton] at hi
      rcases hi with hi | rfl
      · exact h.ent e (mem_clear_store he).1 d hd i hi hc
      · have := (clear_effective h.inv.idx now cs ord).1 e he d hd
        simp [Inval.covers] at hc
        exact absurd hc this
    | clearAll now newCap => cases he

theorem TokInv.run {c : Cache K C V} {hist : List (Inval C)} (h : TokInv c hist) (ops : List (Op K C V))
    (hm : AllOps MonoClock hist ops) : TokInv (c.run ops) (hist ++ histOf ops) := by
  induction ops generalizing c hist with
  | nil => simpa [histOf, Cache.run] using h
  | cons op ops ih =>
    have := ih (h.step op hm.1) hm.2
    simpa [histOf, Cache.run, List.append_assoc] using this

/-- **never_stale (token form).** Under any interleaving of Get/Add/Clear/ClearAll/Flush/eviction by any
    number of writers with arbitrary tokens, a stored entry is never older than the latest invalidation
    of one of its dependencies (`lastClear d ≤ τ`), and the cache token dominates every invalidation
    time. Only the monotone clock of the invalidations is assumed. -/
theorem never_stale_token (cap : Nat) (ops : List (Op K C V)) (hm : AllOps MonoClock [] ops) :
    (∀ e ∈ ((Cache.new cap).run ops).store, ∀ d ∈ e.deps, ∀ i ∈ histOf ops,
        i.covers d = true → i.time ≤ e.token) ∧
    (∀ i ∈ histOf ops, i.time ≤ ((Cache.new cap).run ops).token) := by
  have h0 : TokInv (Cache.new cap : Cache K C V) [] :=
    ⟨Inv.new cap, fun i hi => (by cases hi), fun e he => (by cases he)⟩
  have := h0.run ops hm
  simp only [List.nil_append] at this
  exact ⟨this.ent, this.tok⟩

/-! ## The coherent-writer discipline and cache invisibility -/

/-- The system around the cache, as far as the property needs it.
    `A` proxies/requests; `read a` the part of a request that generation reads; `X` config contents;
    `W n` the world (content of every config) after `n` accepted changes; `depsOf r S` the configs the entry
    declares (`DependentConfigs()`) when generated for `r` on snapshot `S`; `gen r S` the generator on snapshot `S`; `key a S` the cache key computed
    for request `a` **on snapshot `S`**.

    Generation may read configs that `depsOf` does NOT name (the real CDS/RDS generators do: PeerAuthentication,
    the set of applicable DestinationRules/VirtualServices/EnvoyFilters, ...): the real keys then carry a version
    or the names of those configs (`peerAuthVersion`, DR/VS/EF names), so that an entry generated before such a
    change stays stored but can no longer be *reached*. This is what `KeyDetermines` states; nothing below claims
    that stored entries are fresh.

    The declared dependency list may depend on the snapshot (`depsOf r S`: the applicable DestinationRules,
    VirtualServices, EnvoyFilters are found in the snapshot), as the real `DependentConfigs()` does.

    `globals` is the set G of inputs that are neither declared nor versioned in a key and are invalidated by
    `ClearAll` only (in istiod: MeshConfig, mesh networks, the ambient `Address` index, the removal of an endpoint
    shard / every `Forced` push). The discipline demands that they change at `ClearAll` only. -/
structure Discipline (K C V A R X : Type) where
  key : A → (C → X) → K
  read : A → R
  depsOf : R → (C → X) → List C
  gen : R → (C → X) → V
  W : Nat → C → X
  globals : List C

variable {A R X : Type}

/-- **KeyDetermines** (the system hypothesis; validated on the real key functions, `Cacheable()` and
    `DependentConfigs()` by streams `keys` and `writers`, not proved): if the snapshot `S` an entry was generated
    from for request `a` and the snapshot `S'` of a reader `b` agree on the entry's declared dependencies, and
    the two keys - each computed on its own snapshot - are equal, then generation for `b` on `S'` yields what was
    generated for `a` on `S`. It contains key completeness across proxies (`S = S'`) and key versioning of every
    config generation reads beyond the declared dependencies **and beyond the global inputs `G`**: the two
    snapshots are only compared when they agree on `G` (an input that nothing but `ClearAll` invalidates - the
    mesh config, say - is neither declared nor in any key; quantifying over snapshots that differ in it would make
    the hypothesis false for the real system, see `D2`). -/
def Discipline.KeyDetermines (D : Discipline K C V A R X) : Prop :=
  ∀ a b S S', (∀ g ∈ D.globals, S g = S' g) → (∀ d ∈ D.depsOf (D.read a) S, S d = S' d) →
    D.key a S = D.key b S' → D.gen (D.read a) S = D.gen (D.read b) S'

/-- What one writer / invalidator must respect (side condition of an operation, relative to the
    invalidations executed before it).

    * a writer stores, under the key of its request `a` computed on its snapshot `W snap` (`snap` =
      number of accepted changes its data reflects), with the dependencies `depsOf (read a) (W snap)`, the value
      generated from that snapshot, and its token is **older than every already executed invalidation of
      one of its dependencies - and every already executed `ClearAll` - that the snapshot does not reflect** -
      this is what "the token is read no later than the snapshot" gives;
    * an invalidation reads a monotone clock, and a `Clear cs` changes the content of the configs in
      `cs` only **and of no global input** (`ClearAll` may change everything: the inputs in `globals` change at
      `ClearAll` only). -/
def Coherent (D : Discipline K C V A R X) (hist : List (Inval C)) : Op K C V → Prop
  | .add k v (some tok) deps =>
    v = none ∨ ∃ a snap, k = D.key a (D.W snap) ∧ deps = D.depsOf (D.read a) (D.W snap) ∧ snap ≤ hist.length ∧
      v = some (D.gen (D.read a) (D.W snap)) ∧
      ∀ j (hj : j < hist.length), snap ≤ j →
        ((∃ d ∈ deps, (hist[j]).covers d = true) ∨ (hist[j]).cover = none) → tok < (hist[j]).time
  | .clear now cs _ =>
    (∀ i ∈ hist, i.time ≤ now) ∧ (∀ d, d ∉ cs → D.W (hist.length + 1) d = D.W hist.length d) ∧
      ∀ g ∈ D.globals, D.W (hist.length + 1) g = D.W hist.length g
  | .clearAll now _ => ∀ i ∈ hist, i.time ≤ now
  | _ => True

theorem Coherent.mono {D : Discipline K C V A R X} {hist : List (Inval C)} {op : Op K C V}
    (h : Coherent D hist op) : MonoClock hist op := by
  cases op with
  | clear now cs ord => exact h.1
  | clearAll now newCap => exact h
  | add k v start deps => trivial
  | get k => trivial
  | flush => trivial

/-- frame condition of the world sequence w.r.t. the history -/
def Frame (D : Discipline K C V A R X) (hist : List (Inval C)) : Prop :=
  ∀ j (hj : j < hist.length), ∀ d, (hist[j]).covers d = false → D.W (j + 1) d = D.W j d

theorem world_stable {D : Discipline K C V A R X} {hist : List (Inval C)} (hf : Frame D hist)
    (snap : Nat) (deps : List C)
    (hun : ∀ j (hj : j < hist.length), snap ≤ j → ∀ d ∈ deps, (hist[j]).covers d = false) :
    ∀ m, snap + m ≤ hist.length → ∀ d ∈ deps, D.W (snap + m) d = D.W snap d := by
  intro m
  induction m with
  | zero => intro _ d _; rfl
  | succ m ih =>
    intro hle d hd
    have hj : snap + m < hist.length := by omega
    have h1 := hf (snap + m) hj d (hun (snap + m) hj (by omega) d hd)
    have h2 := ih (by omega) d hd
    rw [← h2, ← h1]; rfl

/-- frame condition for the global inputs: only a `ClearAll` changes them -/
def GFrame (D : Discipline K C V A R X) (hist : List (Inval C)) : Prop :=
  ∀ j (hj : j < hist.length), (hist[j]).cover ≠ none → ∀ g ∈ D.globals, D.W (j + 1) g = D.W j g

theorem globals_stable {D : Discipline K C V A R X} {hist : List (Inval C)} (hf : GFrame D hist)
    (snap : Nat) (hun : ∀ j (hj : j < hist.length), snap ≤ j → (hist[j]).cover ≠ none) :
    ∀ m, snap + m ≤ hist.length → ∀ g ∈ D.globals, D.W (snap + m) g = D.W snap g := by
  intro m
  induction m with
  | zero => intro _ g _; rfl
  | succ m ih =>
    intro hle g hg
    have hj : snap + m < hist.length := by omega
    have h1 := hf (snap + m) hj (hun (snap + m) hj (by omega)) g hg
    have h2 := ih (by omega) g hg
    rw [← h2, ← h1]; rfl

theorem GFrame.snoc {D : Discipline K C V A R X} {hist : List (Inval C)} (hf : GFrame D hist)
    (x : Inval C) (hx : x.cover ≠ none → ∀ g ∈ D.globals, D.W (hist.length + 1) g = D.W hist.length g) :
    GFrame D (hist ++ [x]) := by
  intro j hj hc g hg
  simp only [List.length_append, List.length_singleton] at hj
  by_cases hlt : j < hist.length
  · rw [List.getElem_append_left hlt] at hc
    exact hf j hlt hc g hg
  · have : j = hist.length := by omega
    subst this
    rw [List.getElem_append_right (Nat.le_refl _)] at hc
    simp only [Nat.sub_self, List.getElem_cons_zero] at hc
    exact hx hc g hg

/-- Ghost invariant of the disciplined system: every stored value was generated, for some request `a` and from
    some snapshot `S`, under the key `key a S`, and `S` **agrees with the current world on every declared
    dependency** of the entry **and on every global input**. (Not: "is what generation yields now" - see
    `Discipline`.) -/
structure FreshInv (D : Discipline K C V A R X) (c : Cache K C V) (hist : List (Inval C)) : Prop where
  tokinv : TokInv c hist
  frame : Frame D hist
  gframe : GFrame D hist
  origin : ∀ e ∈ c.store, ∀ v, e.val = some v →
    ∃ a S, e.key = D.key a S ∧ e.deps = D.depsOf (D.read a) S ∧ v = D.gen (D.read a) S ∧
      (∀ d ∈ e.deps, S d = D.W hist.length d) ∧ ∀ g ∈ D.globals, S g = D.W hist.length g

theorem Frame.snoc_clear {D : Discipline K C V A R X} {hist : List (Inval C)} (hf : Frame D hist)
    (x : Inval C) (hx : ∀ d, x.covers d = false → D.W (hist.length + 1) d = D.W hist.length d) :
    Frame D (hist ++ [x]) := by
  intro j hj d hc
  simp only [List.length_append, List.length_singleton] at hj
  by_cases hlt : j < hist.length
  · rw [List.getElem_append_left hlt] at hc
    exact hf j hlt d hc
  · have : j = hist.length := by omega
    subst this
    rw [List.getElem_append_right (Nat.le_refl _)] at hc
    simp only [Nat.sub_self, List.getElem_cons_zero] at hc
    exact hx d hc

theorem FreshInv.step {D : Discipline K C V A R X} {c : Cache K C V}
    {hist : List (Inval C)} (h : FreshInv D c hist) (op : Op K C V) (hc : Coherent D hist op) :
    FreshInv D (c.step op) (hist ++ op.inval) := by
  have htok := h.tokinv.step op hc.mono
  cases op with
  | get k =>
    refine ⟨htok, by simpa [Op.inval] using h.frame, by simpa [Op.inval] using h.gframe, ?_⟩
    intro e he v hv
    simpa [Op.inval] using h.origin e (mem_get_store he) v hv
  | flush =>
    refine ⟨htok, by simpa [Op.inval] using h.frame, by simpa [Op.inval] using h.gframe, ?_⟩
    intro e he v hv
    simpa [Op.inval] using h.origin e (mem_flush_store he) v hv
  | clearAll now newCap =>
    refine ⟨htok, ?_, ?_, fun e he => by cases he⟩
    · exact h.frame.snoc_clear ⟨now, none⟩ (fun d hcv => by simp [Inval.covers] at hcv)
    · exact h.gframe.snoc ⟨now, none⟩ (fun hne => absurd rfl hne)
  | clear now cs ord =>
    refine ⟨htok, ?_, ?_, ?_⟩
    · apply h.frame.snoc_clear ⟨now, some cs⟩
      intro d hcv
      simp [Inval.covers] at hcv
      exact hc.2.1 d hcv
    · exact h.gframe.snoc ⟨now, some cs⟩ (fun _ => hc.2.2)
    · intro e he v hv
      obtain ⟨a, S, hk, hd, hgen, hag, hgl⟩ := h.origin e (mem_clear_store he).1 v hv
      refine ⟨a, S, hk, hd, hgen, ?_, ?_⟩
      · intro d hdm
        simp only [Op.inval, List.length_append, List.length_singleton]
        -- the surviving entry depends on nothing that was cleared: the new world agrees on its dependencies
        rw [hag d hdm]
        exact (hc.2.1 d ((clear_effective h.tokinv.inv.idx now cs ord).1 e he d hdm)).symm
      · intro g hg
        simp only [Op.inval, List.length_append, List.length_singleton]
        rw [hgl g hg]
        exact (hc.2.2 g hg).symm
  | add k v start deps =>
    refine ⟨htok, by simpa [Op.inval] using h.frame, by simpa [Op.inval] using h.gframe, ?_⟩
    intro e he w hw
    simp only [Op.inval, List.append_nil]
    rcases mem_add_store he with ho | ⟨tok, hst, hle, rfl⟩
    · exact h.origin e ho w hw
    · subst hst
      simp only at hw
      rcases hc with hnone | ⟨a, snap, hk, hdeps, hsn, hval, hcoh⟩
      · rw [hnone] at hw; cases hw
      · -- every executed invalidation that the snapshot does not reflect is too new to cover a dependency
        have hun : ∀ j (hj : j < hist.length), snap ≤ j → ∀ d ∈ deps, (hist[j]).covers d = false := by
          intro j hj hsj d hd
          cases hcv : (hist[j]).covers d with
          | false => rfl
          | true =>
            have h1 := hcoh j hj hsj (Or.inl ⟨d, hd, hcv⟩)
            have h2 := h.tokinv.tok (hist[j]) (List.getElem_mem hj)
            omega
        -- ... and no `ClearAll` at all was executed that the snapshot does not reflect
        have hng : ∀ j (hj : j < hist.length), snap ≤ j → (hist[j]).cover ≠ none := by
          intro j hj hsj hcn
          have h1 := hcoh j hj hsj (Or.inr hcn)
          have h2 := h.tokinv.tok (hist[j]) (List.getElem_mem hj)
          omega
        rw [hval] at hw
        injection hw with hw
        refine ⟨a, D.W snap, hk, hdeps, hw.symm, ?_, ?_⟩
        · intro d hd
          have := world_stable h.frame snap deps hun (hist.length - snap) (by omega) d hd
          rw [← this]
          congr 1
          omega
        · intro g hg
          have := globals_stable h.gframe snap hng (hist.length - snap) (by omega) g hg
          rw [← this]
          congr 1
          omega

theorem FreshInv.run {D : Discipline K C V A R X} {c : Cache K C V}
    {hist : List (Inval C)} (h : FreshInv D c hist) (ops : List (Op K C V))
    (hc : AllOps (Coherent D) hist ops) : FreshInv D (c.run ops) (hist ++ histOf ops) := by
  induction ops generalizing c hist with
  | nil => simpa [histOf, Cache.run] using h
  | cons op ops ih =>
    have := ih (h.step op hc.1) hc.2
    simpa [histOf, Cache.run, List.append_assoc] using this

theorem FreshInv.init (D : Discipline K C V A R X) (cap : Nat) : FreshInv D (Cache.new cap) [] :=
  ⟨⟨Inv.new cap, fun i hi => (by cases hi), fun e he => (by cases he)⟩,
   fun j hj => (by cases hj), fun j hj => (by cases hj), fun e he => (by cases he)⟩

/-- **never_stale.** With coherent writers, in every reachable state every stored value was generated (for
    some request, under the entry's key) from a snapshot that **agrees with the current world on every declared
    dependency of the entry and on every global input** - under any interleaving of Get/Add/Clear/ClearAll/Flush/eviction by any number of
    writers. No hypothesis about the generator or the key is needed for this; it does not say the value is what
    generation yields now (generation may read more than it declares, see `KeyDetermines`). -/
theorem never_stale (D : Discipline K C V A R X) (cap : Nat)
    (ops : List (Op K C V)) (hc : AllOps (Coherent D) [] ops) :
    ∀ e ∈ ((Cache.new cap).run ops).store, ∀ v, e.val = some v →
      ∃ a S, e.key = D.key a S ∧ e.deps = D.depsOf (D.read a) S ∧ v = D.gen (D.read a) S ∧
        (∀ d ∈ e.deps, S d = D.W (histOf ops).length d) ∧ ∀ g ∈ D.globals, S g = D.W (histOf ops).length g := by
  have := (FreshInv.init D cap).run ops hc
  simp only [List.nil_append] at this
  exact this.origin

/-- **cache_invisible.** Under `KeyDetermines`: whatever `Get` returns for proxy `b` - asking with the key it
    computes on the *current* world - is exactly what a fresh generation for `b` on the current world returns.
    (Readers that key on an older snapshot are not covered.) The inputs in `D.globals` may change - at `ClearAll`,
    which the discipline demands (`Coherent`): the Forced-push, MeshConfig, networks, `Address` and `DeleteShard`
    invalidations are inside this theorem, see `global_input_witness`. -/
theorem cache_invisible (D : Discipline K C V A R X) (hkd : D.KeyDetermines)
    (cap : Nat) (ops : List (Op K C V)) (hc : AllOps (Coherent D) [] ops) (b : A) (v : V)
    (hget : ((Cache.new cap).run ops).getVal (D.key b (D.W (histOf ops).length)) = some v) :
    v = D.gen (D.read b) (D.W (histOf ops).length) := by
  obtain ⟨e, he, hk, hv⟩ := getVal_some hget
  obtain ⟨a, S, hka, hd, hgen, hag, hgl⟩ := never_stale D cap ops hc e he v hv
  rw [hgen]
  exact hkd a b S _ hgl (fun d hdm => hag d (hd ▸ hdm)) (hka.symm.trans hk)

/-! ## Sharing across proxies is exactly key (in)completeness -/

/-- an insertion under another key never becomes visible to a lookup -/
theorem getVal_add_other {c : Cache K C V} (h : Inv c) (k k' : K) (hne : k' ≠ k) (v : Option V)
    (start : Option Nat) (deps : List C) (v' : V)
    (hget : (c.add k v start deps).getVal k' = some v') : c.getVal k' = some v' := by
  obtain ⟨e, he, hk, hv⟩ := getVal_some hget
  rcases mem_add_store he with ho | ⟨tok, _, _, rfl⟩
  · unfold Cache.getVal
    have := find?_of_mem h.nodup ho
    rw [hk] at this
    rw [this]; exact hv
  · exact absurd hk.symm hne

/-- **key_injective_invisible.** If, on a snapshot, the key is injective on what generation reads (hypothesis
    `hkey`, the part of `KeyDetermines` that concerns two proxies on one snapshot), two requests that differ in a
    read attribute have different keys, and an entry inserted for one never becomes visible to a lookup for
    the other. -/
theorem key_injective_invisible (D : Discipline K C V A R X) (S : C → X)
    (hkey : ∀ a b, D.key a S = D.key b S → D.read a = D.read b) (a b : A) (hdiff : D.read a ≠ D.read b) :
    D.key a S ≠ D.key b S ∧
    ∀ (c : Cache K C V), Inv c → ∀ v start deps v',
      (c.add (D.key a S) v start deps).getVal (D.key b S) = some v' → c.getVal (D.key b S) = some v' := by
  have hne : D.key a S ≠ D.key b S := fun h => hdiff (hkey a b h)
  exact ⟨hne, fun c hc v start deps v' hget => getVal_add_other hc _ _ hne.symm v start deps v' hget⟩

end

/-! ## Witnesses (concrete, `Nat` everywhere) -/

/-- A world with one interesting config `0` whose content is the number of accepted changes;
    the generated value is that content; the key is the request itself. -/
def D0 : Discipline Nat Nat Nat Nat Nat Nat :=
  { key := fun a _ => a, read := fun a => a, depsOf := fun _ _ => [0], gen := fun _ S => S 0,
    W := fun n d => if d = 0 then n else 0, globals := [] }

theorem D0_keyDetermines : D0.KeyDetermines := by
  intro a b S S' _ hag hk
  exact hag 0 (by simp [D0])

/-- a writer that only promises to have generated from *some* earlier snapshot (no relation between
    its token and that snapshot) -/
def Uncoordinated (D : Discipline Nat Nat Nat Nat Nat Nat) (hist : List (Inval Nat)) : Op Nat Nat Nat → Prop
  | .add k v (some _) deps =>
    v = none ∨ ∃ a snap, k = D.key a (D.W snap) ∧ deps = D.depsOf (D.read a) (D.W snap) ∧ snap ≤ hist.length ∧
      v = some (D.gen (D.read a) (D.W snap))
  | .clear now cs _ =>
    (∀ i ∈ hist, i.time ≤ now) ∧ (∀ d, d ∉ cs → D.W (hist.length + 1) d = D.W hist.length d) ∧
      ∀ g ∈ D.globals, D.W (hist.length + 1) g = D.W hist.length g
  | .clearAll now _ => ∀ i ∈ hist, i.time ≤ now
  | _ => True

/-- the statement of `cache_invisible` with the token clause of the discipline dropped -/
def InvisibleWithoutTokenDiscipline : Prop :=
  ∀ (cap : Nat) (ops : List (Op Nat Nat Nat)), AllOps (Uncoordinated D0) [] ops → ∀ (b v : Nat),
    ((Cache.new cap).run ops).getVal (D0.key b (D0.W (histOf ops).length)) = some v →
      v = D0.gen (D0.read b) (D0.W (histOf ops).length)

/-- The schedule behind observation F8: the writer takes its snapshot (version 0), the change is
    accepted and `Clear` runs at time 10, the writer reads the clock (11) and stores its value: the
    token check passes and the stale value is served. -/
def staleSchedule : List (Op Nat Nat Nat) :=
  [.clear 10 [0] [], .add 7 (some 0) (some 11) [0], .get 7]

/-- **never_stale_incoherent_witness.** Without the token clause of the discipline the cache is not
    invisible (although `D0` satisfies `KeyDetermines`): a writer that reads its
    snapshot before the clock stores a stale entry. -/
theorem never_stale_incoherent_witness : ¬ InvisibleWithoutTokenDiscipline := by
  intro h
  have hadm : AllOps (Uncoordinated D0) [] staleSchedule := by
    refine ⟨⟨fun i hi => (by cases hi), ?_, fun g hg => (by cases hg)⟩, ?_, trivial, trivial⟩
    · intro d hd
      have : d ≠ 0 := by simpa using hd
      simp [D0, this]
    · exact Or.inr ⟨7, 0, rfl, rfl, by simp [Op.inval], by simp [D0]⟩
  have hv := h 3 staleSchedule hadm 7 0 (by decide)
  simp [D0, staleSchedule, histOf, Op.inval] at hv

/-- the same schedule with a coherent token (9, read before the Clear at 10) is rejected -/
example : ((Cache.new 3 : Cache Nat Nat Nat).run
    [.clear 10 [0] [], .add 7 (some 0) (some 9) [0], .get 7]).getVal 7 = none := by decide

/-- non-vacuity of `cache_invisible`: a coherent schedule that stores, invalidates, stores again and serves -/
example : AllOps (Coherent D0) [] ([.add 7 (some 0) (some 5) [0], .get 7, .clear 10 [0] [7],
    .add 7 (some 0) (some 5) [0], .add 7 (some 1) (some 10) [0], .flush, .get 7] : List (Op Nat Nat Nat)) := by
  refine ⟨Or.inr ⟨7, 0, rfl, rfl, by simp, by simp [D0], fun j hj => by simp at hj⟩, trivial, ?_, ?_, ?_, trivial, trivial, trivial⟩
  · refine ⟨fun i hi => (by cases hi), ?_, fun g hg => (by cases hg)⟩
    intro d hd
    have : d ≠ 0 := by simpa using hd
    simp [D0, this, Op.inval]
  · refine Or.inr ⟨7, 0, rfl, rfl, by simp [Op.inval], by simp [D0], ?_⟩
    intro j hj _ _
    simp [Op.inval] at hj
    subst hj
    simp [Op.inval]
  · refine Or.inr ⟨7, 1, rfl, rfl, by simp [Op.inval], by simp [D0], ?_⟩
    intro j hj hsj
    simp [Op.inval] at hj
    omega

example : ((Cache.new 3 : Cache Nat Nat Nat).run [.add 7 (some 0) (some 5) [0], .get 7, .clear 10 [0] [7],
    .add 7 (some 0) (some 5) [0], .add 7 (some 1) (some 10) [0], .flush, .get 7]).getVal 7 = some 1 := by decide

/-- A key that forgets an attribute generation reads (here: the key is constant). -/
def Dbad : Discipline Nat Nat Nat Nat Nat Nat :=
  { key := fun _ _ => 0, read := fun a => a, depsOf := fun _ _ => [], gen := fun r _ => r, W := fun _ _ => 0,
    globals := [] }

/-- **key_incomplete_witness.** With an incomplete key (`KeyDetermines` fails), proxy 2 is served the resource
    generated for proxy 1 although every writer is coherent. -/
theorem key_incomplete_witness :
    ¬ Dbad.KeyDetermines ∧
    AllOps (Coherent Dbad) [] ([.add (Dbad.key 1 (Dbad.W 0)) (some (Dbad.gen (Dbad.read 1) (Dbad.W 0))) (some 5) []] : List (Op Nat Nat Nat)) ∧
    ((Cache.new 3 : Cache Nat Nat Nat).run
      [.add (Dbad.key 1 (Dbad.W 0)) (some (Dbad.gen (Dbad.read 1) (Dbad.W 0))) (some 5) []]).getVal (Dbad.key 2 (Dbad.W 0)) = some 1 ∧
    Dbad.gen (Dbad.read 2) (Dbad.W 0) = 2 := by
  refine ⟨?_, ?_, by decide, rfl⟩
  · intro h
    have := h 1 2 (fun _ => 0) (fun _ => 0) (fun _ _ => rfl) (fun _ _ => rfl) rfl
    simp [Dbad] at this
  · exact ⟨Or.inr ⟨1, 0, rfl, rfl, by simp, rfl, fun j hj => by simp at hj⟩, trivial⟩

/-! ### Key versioning: a stale entry may stay stored, it is unreachable

`D1`: generation reads config `0` (declared) **and config `1` (not declared)** - like the real CDS generator reads
PeerAuthentication without naming it in `DependentConfigs()`; the key carries the version of config `1` - like
`peerAuthVersion` in `clusterCache.Key`. -/

def D1 : Discipline (Nat × Nat) Nat (Nat × Nat) Nat Nat Nat :=
  { key := fun a S => (a, S 1), read := fun a => a, depsOf := fun _ _ => [0], gen := fun _ S => (S 0, S 1),
    W := fun n d => if d = 1 then n else 0, globals := [] }

theorem D1_keyDetermines : D1.KeyDetermines := by
  intro a b S S' _ hag hk
  have h0 : S 0 = S' 0 := hag 0 (by simp [D1])
  have h1 : S 1 = S' 1 := by simpa [D1] using congrArg Prod.snd hk
  simp [D1, h0, h1]

/-- `D1`'s generator is NOT local to its declared dependencies (the hypothesis the previous formulation needed) -/
theorem D1_not_genLocal :
    ¬ ∀ r S S', (∀ d ∈ D1.depsOf r S, S d = S' d) → D1.gen r S = D1.gen r S' := by
  intro h
  have := h 0 (fun _ => 0) (fun d => if d = 1 then 1 else 0) (by simp [D1])
  simp [D1] at this

/-- The schedule: an entry is generated on world 0; config `1` changes and `Clear [1]` runs (the entry does not
    declare `1`, so it survives). -/
def versionedSchedule : List (Op (Nat × Nat) Nat (Nat × Nat)) :=
  [.add (7, 0) (some (0, 0)) (some 5) [0], .clear 10 [1] []]

/-- **versioned_key_witness.** The schedule is coherent; afterwards the entry generated on the OLD world is still
    stored (it is *not* what generation yields now), but a reader keying on the current world misses it - exactly as
    `cache_invisible` promises - while a reader keying on the old world would still hit it. -/
theorem versioned_key_witness :
    AllOps (Coherent D1) [] versionedSchedule ∧
    ((Cache.new 3 : Cache (Nat × Nat) Nat (Nat × Nat)).run versionedSchedule).store.length = 1 ∧
    ((Cache.new 3 : Cache (Nat × Nat) Nat (Nat × Nat)).run versionedSchedule).getVal (D1.key 7 (D1.W 1)) = none ∧
    ((Cache.new 3 : Cache (Nat × Nat) Nat (Nat × Nat)).run versionedSchedule).getVal (D1.key 7 (D1.W 0)) = some (0, 0) ∧
    D1.gen (D1.read 7) (D1.W 1) = (0, 1) := by
  refine ⟨⟨Or.inr ⟨7, 0, by simp [D1], rfl, by simp, by simp [D1], fun j hj => by simp at hj⟩, ⟨fun i hi => (by cases hi), ?_, fun g hg => (by cases hg)⟩, trivial⟩,
    by decide, by decide, by decide, by simp [D1]⟩
  intro d hd
  have : d ≠ 1 := by simpa using hd
  simp [D1, this, Op.inval]

/-! ### Global inputs: neither declared nor versioned in the key, invalidated by `ClearAll` only

`D2`: generation reads config `0` (declared) **and config `1` (global: not declared, not in the key)** - like every
real generator reads MeshConfig, the mesh networks or the ambient `Address` index. A change of config `1` comes with
`ClearAll` (`Forced` push, `ConfigUpdate` of kind `Address`, `DeleteShard`). -/

def D2 : Discipline Nat Nat (Nat × Nat) Nat Nat Nat :=
  { key := fun a _ => a, read := fun a => a, depsOf := fun _ _ => [0], gen := fun _ S => (S 0, S 1),
    W := fun n d => if d = 1 then n else 0, globals := [1] }

theorem D2_keyDetermines : D2.KeyDetermines := by
  intro a b S S' hgl hag hk
  have h0 : S 0 = S' 0 := hag 0 (by simp [D2])
  have h1 : S 1 = S' 1 := hgl 1 (by simp [D2])
  simp [D2, h0, h1]

/-- the hypothesis quantified over ALL pairs of snapshots (the previous formulation) is false for `D2` - as it is
    for istiod -/
theorem D2_not_keyDetermines_unrestricted :
    ¬ ∀ a b S S', (∀ d ∈ D2.depsOf (D2.read a) S, S d = S' d) → D2.key a S = D2.key b S' →
        D2.gen (D2.read a) S = D2.gen (D2.read b) S' := by
  intro h
  have := h 7 7 (fun _ => 0) (fun d => if d = 1 then 1 else 0) (by simp [D2]) rfl
  simp [D2] at this

/-- an entry is generated on world 0; the global input changes and `ClearAll` runs; a writer that started before
    the `ClearAll` (token 5) arrives late with its old value; a new writer generates on world 1; a reader asks -/
def globalSchedule : List (Op Nat Nat (Nat × Nat)) :=
  [.add 7 (some (0, 0)) (some 5) [0], .clearAll 10 3, .add 7 (some (0, 0)) (some 5) [0],
   .add 7 (some (0, 1)) (some 10) [0], .get 7]

/-- the same change of the global input announced by a targeted `Clear` of another config only -/
def globalScheduleBad : List (Op Nat Nat (Nat × Nat)) :=
  [.add 7 (some (0, 0)) (some 5) [0], .clear 10 [5] [], .get 7]

/-- **global_input_witness.** The schedule that changes a global input at `ClearAll` is coherent, `D2` satisfies
    `KeyDetermines`, so `cache_invisible` applies: the reader gets what generation yields on the NEW world (the late
    writer was rejected). The same change announced by a targeted `Clear` is not coherent - and there the reader is
    served the value generated on the old world. -/
theorem global_input_witness :
    AllOps (Coherent D2) [] globalSchedule ∧
    ((Cache.new 3 : Cache Nat Nat (Nat × Nat)).run globalSchedule).getVal (D2.key 7 (D2.W 1)) = some (0, 1) ∧
    D2.gen (D2.read 7) (D2.W 1) = (0, 1) ∧
    ¬ AllOps (Coherent D2) [] globalScheduleBad ∧
    ((Cache.new 3 : Cache Nat Nat (Nat × Nat)).run globalScheduleBad).getVal (D2.key 7 (D2.W 1)) = some (0, 0) := by
  refine ⟨⟨?_, ?_, ?_, ?_, trivial, trivial⟩, by decide, by simp [D2], ?_, by decide⟩
  · exact Or.inr ⟨7, 0, rfl, rfl, by simp, by simp [D2], fun j hj => by simp at hj⟩
  · intro i hi; cases hi
  · refine Or.inr ⟨7, 0, rfl, rfl, by simp [Op.inval], by simp [D2], ?_⟩
    intro j hj _ _
    simp [Op.inval] at hj
    subst hj
    simp [Op.inval]
  · refine Or.inr ⟨7, 1, rfl, rfl, by simp [Op.inval], by simp [D2], ?_⟩
    intro j hj hsj
    simp [Op.inval] at hj
    omega
  · intro h
    have := h.2.1.2.2 1 (by simp [D2])
    simp [D2, Op.inval] at this

/-! ## The reverse index does not leak: every edge is live or pending in the evict queue -/

section
variable {K C V : Type} [DecidableEq K] [DecidableEq C]

/-- an index edge is backed by a live entry -/
def LiveEdge (s : List (Entry K C V)) (p : C × K) : Prop := ∃ e ∈ s, e.key = p.2 ∧ p.1 ∈ e.deps
/-- ... or by a pending item of the evict queue -/
def QueuedEdge (q : List (K × List C)) (p : C × K) : Prop := ∃ x ∈ q, x.1 = p.2 ∧ p.1 ∈ x.2

/-- no index edge is orphaned: each is backed by a live entry or a pending queue item -/
def Justified (c : Cache K C V) : Prop := ∀ p ∈ c.index, LiveEdge c.store p ∨ QueuedEdge c.evictQ p

theorem QueuedEdge.append_left {q q' : List (K × List C)} {p : C × K} (h : QueuedEdge q p) : QueuedEdge (q ++ q') p := by
  obtain ⟨x, hx, h1, h2⟩ := h
  exact ⟨x, List.mem_append_left _ hx, h1, h2⟩

theorem mem_dropLast_or_last {α : Type} (l : List α) (x : α) (hx : x ∈ l) :
    x ∈ l.dropLast ∨ l.getLast? = some x := by
  induction l with
  | nil => cases hx
  | cons a as ih =>
    cases as with
    | nil =>
      have : x = a := by simpa using hx
      subst this; right; rfl
    | cons b bs =>
      rcases List.mem_cons.mp hx with rfl | h
      · left; simp [List.dropLast]
      · rcases ih h with h1 | h1
        · left; simp only [List.dropLast_cons_cons, List.mem_cons]; exact Or.inr h1
        · right; simpa [List.getLast?_cons_cons] using h1

theorem mem_orderBatch {ord : List K} {rem : List (Entry K C V)} (hn : KeysNodup rem) {x : Entry K C V}
    (hx : x ∈ rem) : x ∈ orderBatch ord rem := by
  induction ord generalizing rem with
  | nil => exact hx
  | cons k ks ih =>
    unfold orderBatch
    cases hf : find? k rem with
    | none => exact ih hn hx
    | some e =>
      have he := find?_some hf
      by_cases hk : x.key = k
      · have : x = e := hn.eq_of_key hx he.1 (hk.trans he.2.symm)
        subst this; exact List.mem_cons_self
      · exact List.mem_cons_of_mem _ (ih (hn.sublist (eraseKey_sublist _ _)) (mem_eraseKey.mpr ⟨hx, hk⟩))

theorem Justified.add {c : Cache K C V} (hi : Inv c) (h : Justified c) (k : K) (v : Option V) (start : Option Nat)
    (deps : List C) : Justified (c.add k v start deps) := by
  unfold Cache.add
  split
  · exact h
  · rename_i tok
    split
    · exact h
    · split
      · rename_i cur hf
        have hc := find?_some hf
        split
        · intro p hp
          rcases h p hp with ⟨e, he, h1, h2⟩ | hq
          · exact Or.inl ⟨e, (mem_front hi.nodup hf).mpr he, h1, h2⟩
          · exact Or.inr hq
        · intro p hp
          rcases mem_addEdges.mp hp with ⟨h1, h2⟩ | hp'
          · exact Or.inl ⟨_, List.mem_cons_self, h1.symm, h2⟩
          · rcases h p hp' with ⟨e, he, h1, h2⟩ | hq
            · by_cases hk : e.key = k
              · have : e = cur := hi.nodup.eq_of_key he hc.1 (hk.trans hc.2.symm)
                subst this
                exact Or.inr ⟨(k, e.deps), by simp, by simpa using hk.symm.trans h1, h2⟩
              · exact Or.inl ⟨e, List.mem_cons_of_mem _ (mem_eraseKey.mpr ⟨he, hk⟩), h1, h2⟩
            · exact Or.inr hq.append_left
      · rename_i hf
        split
        · intro p hp
          rcases mem_addEdges.mp hp with ⟨h1, h2⟩ | hp'
          · -- the new entry is at the front; it survives dropLast unless it is also the last, i.e. the store was empty
            rcases mem_dropLast_or_last ({ key := k, val := v, token := tok, deps := deps } :: c.store) _ List.mem_cons_self with hd | hl
            · exact Or.inl ⟨_, hd, h1.symm, h2⟩
            · refine Or.inr ⟨(k, deps), ?_, h1.symm, h2⟩
              simp only [evictRecord, hl, List.mem_append, List.mem_singleton]
              exact Or.inr trivial
          · rcases h p hp' with ⟨e, he, h1, h2⟩ | hq
            · rcases mem_dropLast_or_last ({ key := k, val := v, token := tok, deps := deps } :: c.store) e (List.mem_cons_of_mem _ he) with hd | hl
              · exact Or.inl ⟨e, hd, h1, h2⟩
              · refine Or.inr ⟨(e.key, e.deps), ?_, h1, h2⟩
                simp only [evictRecord, hl, List.mem_append, List.mem_singleton]
                exact Or.inr trivial
            · exact Or.inr hq.append_left
        · intro p hp
          rcases mem_addEdges.mp hp with ⟨h1, h2⟩ | hp'
          · exact Or.inl ⟨_, List.mem_cons_self, h1.symm, h2⟩
          · rcases h p hp' with ⟨e, he, h1, h2⟩ | hq
            · exact Or.inl ⟨e, List.mem_cons_of_mem _ he, h1, h2⟩
            · exact Or.inr hq

theorem Justified.get {c : Cache K C V} (hi : Inv c) (h : Justified c) (k : K) : Justified (c.get k) := by
  intro p hp
  rcases h p hp with ⟨e, he, h1, h2⟩ | hq
  · exact Or.inl ⟨e, (mem_promote hi.nodup).mpr he, h1, h2⟩
  · exact Or.inr hq

theorem Justified.clear {c : Cache K C V} (hi : Inv c) (h : Justified c) (now : Nat) (cs : List C) (ord : List K) :
    Justified (c.clear now cs ord) := by
  intro p hp
  unfold Cache.clear at hp ⊢
  simp only [List.mem_filter] at hp
  rcases h p hp.1 with ⟨e, he, h1, h2⟩ | hq
  · by_cases hv : e.key ∈ refKeys cs c.index
    · refine Or.inr ⟨(e.key, e.deps), ?_, h1, h2⟩
      simp only [List.mem_append, List.mem_map]
      refine Or.inr ⟨e, mem_orderBatch (hi.nodup.sublist List.filter_sublist) ?_, rfl⟩
      simp only [List.mem_filter, decide_eq_true_eq]
      exact ⟨he, hv⟩
    · refine Or.inl ⟨e, ?_, h1, h2⟩
      simp only [List.mem_filter, Bool.not_eq_true', decide_eq_false_iff_not]
      exact ⟨he, hv⟩
  · exact Or.inr hq.append_left

/-- loop invariant of `Flush`: every edge is live or backed by a *not yet processed* queue item -/
theorem flushQueue_justified (q : List (K × List C)) (c : Cache K C V) (hi : Inv c)
    (h : ∀ p ∈ c.index, LiveEdge c.store p ∨ QueuedEdge q p) :
    ∀ p ∈ (flushQueue q c).index, LiveEdge (flushQueue q c).store p := by
  induction q generalizing c with
  | nil =>
    intro p hp
    rcases h p hp with hl | ⟨x, hx, _⟩
    · exact hl
    · cases hx
  | cons x xs ih =>
    apply ih (clearConfigIndex c x.1 x.2) (hi.clearConfigIndex x.1 x.2)
    intro p hp
    unfold C06.clearConfigIndex at hp ⊢
    split at hp
    · rename_i cur hf
      have hc := find?_some hf
      simp only [List.mem_filter, Bool.not_eq_true', Bool.and_eq_false_imp, Bool.and_eq_true,
        decide_eq_true_eq, Bool.not_eq_false', and_imp] at hp
      rcases h p hp.1 with ⟨e, he, h1, h2⟩ | ⟨y, hy, h1, h2⟩
      · exact Or.inl ⟨e, (mem_front hi.nodup hf).mpr he, h1, h2⟩
      · rcases List.mem_cons.mp hy with rfl | hy'
        · exact Or.inl ⟨cur, List.mem_cons_self, hc.2.trans h1, hp.2 h1.symm h2⟩
        · exact Or.inr ⟨y, hy', h1, h2⟩
    · rename_i hf
      simp only [List.mem_filter, Bool.not_eq_true', Bool.and_eq_false_imp, decide_eq_true_eq,
        decide_eq_false_iff_not] at hp
      rcases h p hp.1 with hl | ⟨y, hy, h1, h2⟩
      · exact Or.inl hl
      · rcases List.mem_cons.mp hy with rfl | hy'
        · exact absurd h2 (hp.2 h1.symm)
        · exact Or.inr ⟨y, hy', h1, h2⟩

theorem Justified.flush {c : Cache K C V} (hi : Inv c) (h : Justified c) :
    ∀ p ∈ c.flush.index, LiveEdge c.flush.store p :=
  flushQueue_justified c.evictQ c hi h

theorem Justified.step {c : Cache K C V} (hi : Inv c) (h : Justified c) (op : Op K C V) : Justified (c.step op) := by
  cases op with
  | add k v start deps => exact h.add hi k v start deps
  | get k => exact h.get hi k
  | clear now cs ord => exact h.clear hi now cs ord
  | clearAll now newCap => intro p hp; cases hp
  | flush => intro p hp; exact Or.inl (h.flush hi p hp)

theorem Justified.run {c : Cache K C V} (hi : Inv c) (h : Justified c) (ops : List (Op K C V)) : Justified (c.run ops) := by
  induction ops generalizing c with
  | nil => exact h
  | cons op ops ih => exact ih (hi.step op) (h.step hi op)

/-- **index_justified.** In every reachable state every edge of the reverse index is backed by a live
    entry or by a pending item of the evict queue. -/
theorem index_justified (cap : Nat) (ops : List (Op K C V)) :
    ∀ p ∈ ((Cache.new cap).run ops).index,
      (∃ e ∈ ((Cache.new cap).run ops).store, e.key = p.2 ∧ p.1 ∈ e.deps) ∨
      (∃ x ∈ ((Cache.new cap).run ops).evictQ, x.1 = p.2 ∧ p.1 ∈ x.2) :=
  Justified.run (Inv.new cap) (fun p hp => by cases hp) ops

/-- **flush_no_leak.** After `Flush`, whatever happened before, the reverse index holds exactly the
    live dependencies: nothing leaks (and, by `index_complete`, nothing is missing). -/
theorem flush_no_leak (cap : Nat) (ops : List (Op K C V)) :
    ∀ p ∈ ((Cache.new cap).run ops).flush.index,
      ∃ e ∈ ((Cache.new cap).run ops).flush.store, e.key = p.2 ∧ p.1 ∈ e.deps :=
  Justified.flush ((Inv.new cap).run ops) (index_justified cap ops)

end

/-! ## XdsCacheImpl: dispatch and the PeerAuthentication rule -/

section
variable {K C V : Type} [DecidableEq K] [DecidableEq C]

inductive IOp (K C V : Type) where
  | add (d : EntryDesc K C) (v : Option V) (start : Option Nat)
  | get (d : EntryDesc K C)
  | clear (now : Nows) (cs : List C) (ord : Ty → List K)
  | clearAll (now : Nows)
  | flush
  | setMaxSize (n : Int)

/-- one call on `XdsCacheImpl`; a panic (failed type assertion) happens before any mutation -/
def Impl.step (isPA : C → Bool) (x : Impl K C V) : IOp K C V → Impl K C V
  | .add d v start => (x.add d v start).getD x
  | .get d => ((x.get d).map (fun p => p.1)).getD x
  | .clear now cs ord => Impl.clear isPA x now cs ord
  | .clearAll now => x.clearAll now
  | .flush => x.flush
  | .setMaxSize n => x.setMaxSize n

def Impl.run (isPA : C → Bool) (x : Impl K C V) : List (IOp K C V) → Impl K C V
  | [] => x
  | op :: ops => (Impl.step isPA x op).run isPA ops

theorem typed_setTyped_same (x : Impl K C V) (t : Ty) (c : Option (Cache K C V)) :
    (x.setTyped t c).typed t = c := by cases t <;> rfl

theorem typed_setTyped_other (x : Impl K C V) (t t' : Ty) (c : Option (Cache K C V)) (h : t' ≠ t) :
    (x.setTyped t c).typed t' = x.typed t' := by
  cases t <;> cases t' <;> first | rfl | exact absurd rfl h

theorem map_run_nil (o : Option (Cache K C V)) : o.map (fun c => c.run []) = o := by
  cases o <;> rfl

/-- **Explicit projection.** What one call on `XdsCacheImpl` does to the typed cache `t`, as operations of the
    single-cache model (`maxSize` = the value of `features.XDSCacheMaxSize` at the call). -/
def proj (isPA : C → Bool) (maxSize : Int) (t : Ty) : IOp K C V → List (Op K C V)
  | .add d v start => if dispatch d = .to t then [.add d.key v start d.deps] else []
  | .get d => if dispatch d = .to t then [.get d.key] else []
  | .clear now cs ord =>
    if t = .eds ∧ cs.any isPA = true then [.clearAll now.eds (effCap maxSize)]
    else [.clear (now.at t) cs (ord t)]
  | .clearAll now => [.clearAll (now.at t) (effCap maxSize)]
  | .flush => [.flush]
  | .setMaxSize _ => []

def maxSizeAfter (m : Int) : IOp K C V → Int
  | .setMaxSize n => n
  | _ => m

/-- the single-cache history of typed cache `t` under a sequence of `XdsCacheImpl` calls -/
def projRun (isPA : C → Bool) (m : Int) (t : Ty) : List (IOp K C V) → List (Op K C V)
  | [] => []
  | op :: rest => proj isPA m t op ++ projRun isPA (maxSizeAfter m op) t rest

theorem impl_step_maxSize (isPA : C → Bool) (x : Impl K C V) (op : IOp K C V) :
    (Impl.step isPA x op).maxSize = maxSizeAfter x.maxSize op := by
  cases op with
  | add d v start =>
    simp only [Impl.step, Impl.add, maxSizeAfter]
    cases dispatch d with
    | skip => rfl
    | crash => rfl
    | to t => cases t <;> rfl
  | get d =>
    simp only [Impl.step, Impl.get, maxSizeAfter]
    cases dispatch d with
    | skip => rfl
    | crash => rfl
    | to t =>
      cases hc : x.typed t with
      | none => simp [hc]
      | some c => cases t <;> simp [hc, Impl.setTyped]
  | clear now cs ord => rfl
  | clearAll now => rfl
  | flush => rfl
  | setMaxSize n => rfl

/-- **Projection.** Every call on `XdsCacheImpl` acts on each typed cache exactly as the operations `proj`
    names (so every single-cache theorem applies to each of the four caches); a disabled cache stays disabled. -/
theorem impl_step_typed (isPA : C → Bool) (x : Impl K C V) (op : IOp K C V) (t : Ty) :
    (Impl.step isPA x op).typed t = (x.typed t).map (fun c => c.run (proj isPA x.maxSize t op)) := by
  cases op with
  | add d v start =>
    cases hd : dispatch d with
    | skip => simp [Impl.step, Impl.add, proj, hd, map_run_nil]
    | crash => simp [Impl.step, Impl.add, proj, hd, map_run_nil]
    | to t' =>
      by_cases ht : t = t'
      · subst ht
        simp only [Impl.step, Impl.add, proj, hd, Option.getD_some, typed_setTyped_same, if_true]
        cases x.typed t <;> rfl
      · have hne : Dispatch.to t' ≠ Dispatch.to t := fun h => ht (by injection h with h; exact h.symm)
        simp only [Impl.step, Impl.add, proj, hd, Option.getD_some, typed_setTyped_other _ _ _ _ ht, hne, if_false,
          map_run_nil]
  | get d =>
    cases hd : dispatch d with
    | skip => simp [Impl.step, Impl.get, proj, hd, map_run_nil]
    | crash => simp [Impl.step, Impl.get, proj, hd, map_run_nil]
    | to t' =>
      by_cases ht : t = t'
      · subst ht
        cases hc : x.typed t with
        | none => simp [Impl.step, Impl.get, proj, hd, hc]
        | some c => simp [Impl.step, Impl.get, proj, hd, hc, typed_setTyped_same, Cache.run, Cache.step]
      · have hne : Dispatch.to t' ≠ Dispatch.to t := fun h => ht (by injection h with h; exact h.symm)
        cases hc : x.typed t' with
        | none => simp [Impl.step, Impl.get, proj, hd, hc, hne, map_run_nil]
        | some c => simp [Impl.step, Impl.get, proj, hd, hc, hne, typed_setTyped_other _ _ _ _ ht, map_run_nil]
  | clear now cs ord =>
    cases t with
    | eds =>
      by_cases hpa : cs.any isPA = true
      · simp only [Impl.step, Impl.clear, Impl.typed, proj, hpa, if_true, and_self]
        cases x.eds <;> rfl
      · simp only [Impl.step, Impl.clear, Impl.typed, proj, hpa, Nows.at]
        cases x.eds <;> simp [Cache.run, Cache.step]
    | cds => simp only [Impl.step, Impl.clear, Impl.typed, proj, Nows.at]; cases x.cds <;> simp [Cache.run, Cache.step]
    | rds => simp only [Impl.step, Impl.clear, Impl.typed, proj, Nows.at]; cases x.rds <;> simp [Cache.run, Cache.step]
    | sds => simp only [Impl.step, Impl.clear, Impl.typed, proj, Nows.at]; cases x.sds <;> simp [Cache.run, Cache.step]
  | clearAll now =>
    cases t
    · simp only [Impl.step, Impl.clearAll, Impl.typed, proj, Nows.at]; cases x.cds <;> rfl
    · simp only [Impl.step, Impl.clearAll, Impl.typed, proj, Nows.at]; cases x.eds <;> rfl
    · simp only [Impl.step, Impl.clearAll, Impl.typed, proj, Nows.at]; cases x.rds <;> rfl
    · simp only [Impl.step, Impl.clearAll, Impl.typed, proj, Nows.at]; cases x.sds <;> rfl
  | flush =>
    cases t
    · simp only [Impl.step, Impl.flush, Impl.typed, proj]; cases x.cds <;> rfl
    · simp only [Impl.step, Impl.flush, Impl.typed, proj]; cases x.eds <;> rfl
    · simp only [Impl.step, Impl.flush, Impl.typed, proj]; cases x.rds <;> rfl
    · simp only [Impl.step, Impl.flush, Impl.typed, proj]; cases x.sds <;> rfl
  | setMaxSize n =>
    cases t <;> simp [Impl.step, Impl.setMaxSize, Impl.typed, proj, map_run_nil]

theorem Cache.run_append (c : Cache K C V) (a b : List (Op K C V)) : c.run (a ++ b) = (c.run a).run b := by
  induction a generalizing c with
  | nil => rfl
  | cons op ops ih => exact ih (c.step op)

/-- **Projection of whole histories.** After any sequence of calls on `XdsCacheImpl`, each typed cache is the
    single-cache model run on its projected history `projRun`: the four caches are four independent
    instances of the single-cache model. -/
theorem impl_run_typed (isPA : C → Bool) (x : Impl K C V) (iops : List (IOp K C V)) (t : Ty) :
    (Impl.run isPA x iops).typed t = (x.typed t).map (fun c => c.run (projRun isPA x.maxSize t iops)) := by
  induction iops generalizing x with
  | nil => exact (map_run_nil _).symm
  | cons op rest ih =>
    simp only [Impl.run, projRun]
    rw [ih (Impl.step isPA x op), impl_step_typed, impl_step_maxSize]
    cases x.typed t with
    | none => rfl
    | some c => simp [Cache.run_append]

/-- the representation invariant holds in every typed cache of every reachable `XdsCacheImpl` state -/
def ImplInv (x : Impl K C V) : Prop := ∀ t c, x.typed t = some c → Inv c

theorem ImplInv.step {isPA : C → Bool} {x : Impl K C V} (h : ImplInv x) (op : IOp K C V) :
    ImplInv (Impl.step isPA x op) := by
  intro t c hc
  rw [impl_step_typed] at hc
  cases hx : x.typed t with
  | none => rw [hx] at hc; cases hc
  | some c0 =>
    rw [hx] at hc
    simp only [Option.map_some, Option.some.injEq] at hc
    rw [← hc]
    exact (h t c0 hx).run _

theorem impl_index_complete (isPA : C → Bool) (maxSize : Int) (cdsOn rdsOn : Bool) (ops : List (IOp K C V)) :
    ImplInv (Impl.run isPA (Impl.new maxSize cdsOn rdsOn : Impl K C V) ops) := by
  have h0 : ImplInv (Impl.new maxSize cdsOn rdsOn : Impl K C V) := by
    intro t c hc
    cases t <;> simp only [Impl.new, Impl.typed] at hc
    · cases cdsOn <;> simp at hc; rw [← hc]; exact Inv.new _
    · simp at hc; rw [← hc]; exact Inv.new _
    · cases rdsOn <;> simp at hc; rw [← hc]; exact Inv.new _
    · simp at hc; rw [← hc]; exact Inv.new _
  generalize (Impl.new maxSize cdsOn rdsOn : Impl K C V) = x at h0
  induction ops generalizing x with
  | nil => exact h0
  | cons op ops ih => exact ih _ (h0.step op)

/-- the typed caches of a fresh `XdsCacheImpl` -/
theorem impl_new_typed (maxSize : Int) (cdsOn rdsOn : Bool) (t : Ty) (c : Cache K C V)
    (h : (Impl.new maxSize cdsOn rdsOn : Impl K C V).typed t = some c) : c = Cache.new (effCap maxSize) := by
  cases t <;> simp only [Impl.new, Impl.typed] at h
  · cases cdsOn <;> simp at h; exact h.symm
  · simp at h; exact h.symm
  · cases rdsOn <;> simp at h; exact h.symm
  · simp at h; exact h.symm

/-- every reachable typed cache of `XdsCacheImpl` is the single-cache model run on its projected history -/
theorem impl_reachable_typed (isPA : C → Bool) (maxSize : Int) (cdsOn rdsOn : Bool) (iops : List (IOp K C V))
    (t : Ty) (c : Cache K C V)
    (hc : (Impl.run isPA (Impl.new maxSize cdsOn rdsOn : Impl K C V) iops).typed t = some c) :
    c = (Cache.new (effCap maxSize)).run (projRun isPA maxSize t iops) := by
  rw [impl_run_typed] at hc
  cases hx : (Impl.new maxSize cdsOn rdsOn : Impl K C V).typed t with
  | none => rw [hx] at hc; cases hc
  | some c0 =>
    rw [hx] at hc
    simp only [Option.map_some, Option.some.injEq] at hc
    rw [← hc, impl_new_typed maxSize cdsOn rdsOn t c0 hx]
    rfl

variable {A R X : Type}

/-- The projection of one `XdsCacheImpl.Clear` is coherent for typed cache `t` as soon as the plain `Clear` of
    that cache would be - including the PeerAuthentication case, where EDS runs `ClearAll` instead (which only
    needs the monotone clock). -/
theorem proj_clear_coherent (D : Discipline K C V A R X) (isPA : C → Bool) (m : Int) (t : Ty)
    (hist : List (Inval C)) (now : Nows) (cs : List C) (ord : Ty → List K)
    (h : Coherent D hist (.clear (now.at t) cs (ord t) : Op K C V)) :
    AllOps (Coherent D) hist (proj isPA m t (.clear now cs ord : IOp K C V)) := by
  simp only [proj]
  by_cases hpa : t = .eds ∧ cs.any isPA = true
  · simp only [hpa, and_self, if_true]
    have : now.at t = now.eds := by rw [hpa.1]; rfl
    exact ⟨by rw [← this]; exact h.1, trivial⟩
  · simp only [hpa, if_false]
    exact ⟨h, trivial⟩

/-- **never_stale lifted to `XdsCacheImpl`.** For every sequence of calls on `XdsCacheImpl` whose projected
    history of typed cache `t` is coherent, every value stored in that cache was generated from a snapshot that
    agrees with the current world on the entry's declared dependencies and on the global inputs. -/
theorem impl_never_stale (D : Discipline K C V A R X) (isPA : C → Bool)
    (maxSize : Int) (cdsOn rdsOn : Bool) (iops : List (IOp K C V)) (t : Ty) (c : Cache K C V)
    (hc : (Impl.run isPA (Impl.new maxSize cdsOn rdsOn : Impl K C V) iops).typed t = some c)
    (hcoh : AllOps (Coherent D) [] (projRun isPA maxSize t iops)) :
    ∀ e ∈ c.store, ∀ v, e.val = some v →
      ∃ a S, e.key = D.key a S ∧ e.deps = D.depsOf (D.read a) S ∧ v = D.gen (D.read a) S ∧
        (∀ d ∈ e.deps, S d = D.W (histOf (projRun isPA maxSize t iops)).length d) ∧
        ∀ g ∈ D.globals, S g = D.W (histOf (projRun isPA maxSize t iops)).length g := by
  rw [impl_reachable_typed isPA maxSize cdsOn rdsOn iops t c hc]
  exact never_stale D _ _ hcoh

/-- **cache_invisible lifted to `XdsCacheImpl`** (including the dispatch on the entry type, disabled caches and
    the PeerAuthentication => EDS `ClearAll` rule, all inside `projRun`). -/
theorem impl_cache_invisible (D : Discipline K C V A R X) (hkd : D.KeyDetermines) (isPA : C → Bool) (maxSize : Int) (cdsOn rdsOn : Bool) (iops : List (IOp K C V))
    (t : Ty) (c : Cache K C V)
    (hc : (Impl.run isPA (Impl.new maxSize cdsOn rdsOn : Impl K C V) iops).typed t = some c)
    (hcoh : AllOps (Coherent D) [] (projRun isPA maxSize t iops)) (b : A) (v : V)
    (hget : c.getVal (D.key b (D.W (histOf (projRun isPA maxSize t iops)).length)) = some v) :
    v = D.gen (D.read b) (D.W (histOf (projRun isPA maxSize t iops)).length) := by
  rw [impl_reachable_typed isPA maxSize cdsOn rdsOn iops t c hc] at hget
  exact cache_invisible D hkd _ _ hcoh b v hget

/-- **`XdsCacheImpl.Clear` is effective in all four caches**; a PeerAuthentication among the cleared
    configs empties the EDS cache entirely. -/
theorem impl_clear_effective (isPA : C → Bool) {x : Impl K C V} (h : ImplInv x) (now : Nows) (cs : List C)
    (ord : Ty → List K) :
    (∀ t c, (Impl.clear isPA x now cs ord).typed t = some c → ∀ e ∈ c.store, ∀ d ∈ e.deps, d ∉ cs) ∧
    (cs.any isPA = true → ∀ c, (Impl.clear isPA x now cs ord).eds = some c → c.store = []) := by
  constructor
  · intro t c hc e he d hd
    cases t with
    | eds =>
      simp only [Impl.clear, Impl.typed] at hc
      cases hx : x.eds with
      | none => rw [hx] at hc; cases hc
      | some c0 =>
        rw [hx] at hc
        simp only [Option.map_some, Option.some.injEq] at hc
        by_cases hpa : cs.any isPA = true
        · simp only [hpa, if_true] at hc; rw [← hc] at he; cases he
        · simp only [hpa] at hc
          rw [← hc] at he
          exact (clear_effective (h .eds c0 hx).idx now.eds cs (ord .eds)).1 e he d hd
    | cds =>
      simp only [Impl.clear, Impl.typed] at hc
      cases hx : x.cds with
      | none => rw [hx] at hc; cases hc
      | some c0 =>
        rw [hx] at hc
        simp only [Option.map_some, Option.some.injEq] at hc
        rw [← hc] at he
        exact (clear_effective (h .cds c0 hx).idx now.cds cs (ord .cds)).1 e he d hd
    | rds =>
      simp only [Impl.clear, Impl.typed] at hc
      cases hx : x.rds with
      | none => rw [hx] at hc; cases hc
      | some c0 =>
        rw [hx] at hc
        simp only [Option.map_some, Option.some.injEq] at hc
        rw [← hc] at he
        exact (clear_effective (h .rds c0 hx).idx now.rds cs (ord .rds)).1 e he d hd
    | sds =>
      simp only [Impl.clear, Impl.typed] at hc
      cases hx : x.sds with
      | none => rw [hx] at hc; cases hc
      | some c0 =>
        rw [hx] at hc
        simp only [Option.map_some, Option.some.injEq] at hc
        rw [← hc] at he
        exact (clear_effective (h .sds c0 hx).idx now.sds cs (ord .sds)).1 e he d hd
  · intro hpa c hc
    simp only [Impl.clear] at hc
    cases hx : x.eds with
    | none => rw [hx] at hc; cases hc
    | some c0 =>
      rw [hx] at hc
      simp only [Option.map_some, hpa, if_true, Option.some.injEq] at hc
      rw [← hc]; rfl

/-- the dispatch never sends an entry to a cache of another type, and crashes exactly on a key whose
    dynamic type does not fit the cache -/
theorem dispatch_spec (d : EntryDesc K C) :
    (dispatch d = .crash ↔ d.cacheable = true ∧
        ((d.ty = some .sds ∧ d.keyIsString = false) ∨
         (∃ t, d.ty = some t ∧ t ≠ .sds ∧ d.keyIsString = true))) ∧
    (∀ t, dispatch d = .to t → d.ty = some t ∧ d.cacheable = true) := by
  unfold dispatch
  cases hc : d.cacheable <;> cases ht : d.ty with
  | none => simp
  | some t => cases t <;> cases hk : d.keyIsString <;> simp

end
end IstioModel.C06
