import IstioModel.C19.Spec

/-
C19 - executable model of the injection decision.

Go sources modelled (istio/istio):
  pkg/kube/inject/inject.go        injectRequired
  pkg/kube/inject/initializer.go   IgnoredNamespaces
  k8s.io/apimachinery              metav1.LabelSelectorAsSelector, labels.NewRequirement,
                                   Requirement.Matches, content.IsLabelKey / IsLabelValue /
                                   IsDNS1123Subdomain  (the selector-matching sub-function)

Two levels: `model` works on the abstract `Row` (the finite domain that the harness enumerates
against the real function: T-gen); `injectRequiredC` works on concrete pods and configurations
(label / annotation maps, namespace string, selector lists) and is compared with the real function
on random inputs (T-diff, stream `decide`).  `Theorems.concrete_refines_abstract` links the two.
-/
namespace IstioModel.C19

/-! ### Abstract level -/

def Val.all : List Val := [.absent, .tru, .fls, .empty, .other]
def Pol.all : List Pol := [.enabled, .disabled, .other]
def boolAll : List Bool := [false, true]

def Val.toNat : Val → Nat
  | .absent => 0 | .tru => 1 | .fls => 2 | .empty => 3 | .other => 4

def Pol.toNat : Pol → Nat
  | .enabled => 0 | .disabled => 1 | .other => 2

/-- Every row of the abstract domain (2·2·5·5·2·2·3 = 1200). -/
def Row.all : List Row :=
  boolAll.flatMap fun hn => boolAll.flatMap fun ns => Val.all.flatMap fun l => Val.all.flatMap fun a =>
  boolAll.flatMap fun nv => boolAll.flatMap fun al => Pol.all.map fun p =>
    { hostNet := hn, nsIgnored := ns, label := l, ann := a, never := nv, always := al, policy := p }

/-- Position of a row in the generated table (the harness uses the same mixed-radix index). -/
def Row.idx (r : Row) : Nat :=
  (((((r.hostNet.toNat * 2 + r.nsIgnored.toNat) * 5 + r.label.toNat) * 5 + r.ann.toNat) * 2
    + r.never.toNat) * 2 + r.always.toNat) * 3 + r.policy.toNat

/-- Bit `i` of a table encoded as one numeral. -/
def bitAt (bits : Nat) (i : Nat) : Bool := (bits >>> i) % 2 == 1

/-- `p` holds on every row (computable; used with `decide +kernel`). -/
def allRows (p : Row → Bool) : Bool := Row.all.all p

/-- Value class of the Go variable `objectSelector`: the label if the key is present, else
    `annos[key]`, which reads as "" when the annotation is absent. -/
def objectSelector (r : Row) : Val :=
  match r.label with
  | .absent => (match r.ann with | .absent => .empty | a => a)
  | l => l

/-- The two Go locals `useDefault`, `inject`. -/
structure Vars where
  useDefault : Bool
  inject     : Bool
  deriving DecidableEq, Repr

/-- `switch objectSelector { case "true" / "false" / "" / default }`. -/
def switchObjectSelector : Val → Vars
  | .tru => { useDefault := false, inject := true }
  | .fls => { useDefault := false, inject := false }
  | .empty => { useDefault := true, inject := false }
  | _ => { useDefault := true, inject := false }        -- default: warn, fall back to the policy

/-- The `NeverInjectSelector` loop (`hit` = some entry is valid, non-empty and matches). -/
def neverLoop (v : Vars) (hit : Bool) : Vars :=
  if v.useDefault && hit then { useDefault := false, inject := false } else v

/-- The `AlwaysInjectSelector` loop. -/
def alwaysLoop (v : Vars) (hit : Bool) : Vars :=
  if v.useDefault && hit then { useDefault := false, inject := true } else v

/-- `switch config.Policy`. -/
def switchPolicy : Pol → Vars → Bool
  | .other, _ => false                                   -- default: "Auto injection disabled!"
  | .disabled, v => if v.useDefault then false else v.inject
  | .enabled, v => if v.useDefault then true else v.inject

/-- `injectRequired`, branch for branch, on the abstract row. -/
def model (r : Row) : Bool :=
  if r.hostNet then false
  else if r.nsIgnored then false
  else
    let v0 := switchObjectSelector (objectSelector r)
    let v1 := neverLoop v0 r.never
    let v2 := alwaysLoop v1 r.always
    switchPolicy r.policy v2

/-! ### Concrete level -/

abbrev KV := List (String × String)

/-- Go map read (`m[k]` with the comma-ok form); keys are distinct in a Go map. -/
def lookup : KV → String → Option String
  | [], _ => none
  | (k, v) :: rest, key => if k = key then some v else lookup rest key

/-- `metav1.LabelSelectorRequirement`. -/
structure Expr where
  key  : String
  op   : String
  vals : List String
  deriving DecidableEq, Repr

/-- `metav1.LabelSelector`. -/
structure Sel where
  ml    : KV := []
  exprs : List Expr := []
  deriving DecidableEq, Repr

inductive Op
  | equals | isIn | notIn | exist | notExist
  deriving DecidableEq, Repr

/-- `labels.Requirement`. -/
structure Req where
  key  : String
  op   : Op
  vals : List String
  deriving DecidableEq, Repr

def extChar (c : Char) : Bool := c.isAlphanum || c == '-' || c == '_' || c == '.'

/-- `^([A-Za-z0-9][-A-Za-z0-9_.]*)?[A-Za-z0-9]$` (labelKeyFmt). -/
def nameFmt (s : List Char) : Bool :=
  match s with
  | [] => false
  | c :: _ => c.isAlphanum && (s.getLast?.getD c).isAlphanum && s.all extChar

/-- `strings.Split(s, sep)` for a one-character separator (structural, so that the kernel can
    evaluate it). -/
def splitChars (sep : Char) : List Char → List (List Char)
  | [] => [[]]
  | c :: cs =>
    if c = sep then [] :: splitChars sep cs
    else match splitChars sep cs with
      | [] => [[c]]
      | h :: t => (c :: h) :: t

def lowerNum (c : Char) : Bool := c.isLower || c.isDigit

/-- `^[a-z0-9]([-a-z0-9]*[a-z0-9])?$` (dns1123LabelFmt). -/
def dnsLabelFmt (s : List Char) : Bool :=
  match s with
  | [] => false
  | c :: _ => lowerNum c && lowerNum (s.getLast?.getD c) && s.all (fun x => lowerNum x || x == '-')

/-- `IsDNS1123Subdomain`. -/
def isDNS1123Subdomain (s : String) : Bool :=
  s.utf8ByteSize ≤ 253 && (splitChars '.' s.toList).all dnsLabelFmt

/-- `content.IsLabelKey` returns no error. -/
def isLabelKey (s : String) : Bool :=
  match splitChars '/' s.toList with
  | [name] => (String.ofList name).utf8ByteSize ≤ 63 && nameFmt name
  | [pre, name] =>
    !pre.isEmpty && isDNS1123Subdomain (String.ofList pre) && (String.ofList name).utf8ByteSize ≤ 63 && nameFmt name
  | _ => false

/-- `content.IsLabelValue` returns no error. -/
def isLabelValue (s : String) : Bool :=
  s.utf8ByteSize ≤ 63 && (s = "" || nameFmt s.toList)

/-- `labels.NewRequirement` returns no error. -/
def reqValid (r : Req) : Bool :=
  isLabelKey r.key &&
  (match r.op with
   | .isIn | .notIn => !r.vals.isEmpty
   | .equals => r.vals.length == 1
   | .exist | .notExist => r.vals.isEmpty) &&
  r.vals.all isLabelValue

def Op.ofString : String → Option Op
  | "In" => some .isIn
  | "NotIn" => some .notIn
  | "Exists" => some .exist
  | "DoesNotExist" => some .notExist
  | _ => none

/-- The requirements of a selector, `none` when `LabelSelectorAsSelector` returns an error
    (an unknown operator or an invalid requirement anywhere; order independent). -/
def exprReq (e : Expr) : Option Req :=
  match Op.ofString e.op with
  | none => none
  | some op => let r : Req := { key := e.key, op := op, vals := e.vals }; if reqValid r then some r else none

def mlReq (kv : String × String) : Option Req :=
  let r : Req := { key := kv.1, op := .equals, vals := [kv.2] }
  if reqValid r then some r else none

def allSome {α : Type} : List (Option α) → Option (List α)
  | [] => some []
  | none :: _ => none
  | some a :: rest => (allSome rest).map (a :: ·)

def compileSel (s : Sel) : Option (List Req) :=
  allSome (s.ml.map mlReq ++ s.exprs.map exprReq)

/-- `Requirement.Matches`. -/
def Req.matches (r : Req) (labels : KV) : Bool :=
  match r.op with
  | .equals | .isIn => (match lookup labels r.key with | none => false | some v => r.vals.contains v)
  | .notIn => (match lookup labels r.key with | none => true | some v => !r.vals.contains v)
  | .exist => (lookup labels r.key).isSome
  | .notExist => (lookup labels r.key).isNone

inductive SelStatus
  | err | empty | hit | miss
  deriving DecidableEq, Repr

/-- One iteration of the selector loops of `injectRequired`: error -> skipped, `Empty()` ->
    skipped, else `Matches`. -/
def selStatus (s : Sel) (labels : KV) : SelStatus :=
  match compileSel s with
  | none => .err
  | some reqs => if reqs.isEmpty then .empty else if reqs.all (·.matches labels) then .hit else .miss

/-- The loop: stops at the first selector that is valid, non-empty and matches. -/
def anyHit (sels : List Sel) (labels : KV) : Bool :=
  sels.any fun s => selStatus s labels == .hit

structure Cfg where
  policy : String := ""
  never  : List Sel := []
  always : List Sel := []
  deriving Repr

structure Pod where
  hostNet : Bool := false
  ns      : String := ""
  labels  : KV := []
  annos   : KV := []
  deriving Repr

/-- `label.SidecarInject.Name` = `annotation.SidecarInject.Name`. -/
def injectKey : String := "sidecar.istio.io/inject"

/-- `inject.IgnoredNamespaces` (sorted). -/
def ignoredNamespaces : List String :=
  ["kube-node-lease", "kube-public", "kube-system", "local-path-storage"]

/-- The Go local `objectSelector`: the label when its key is present, else `annos[key]`. -/
def objectSelectorC (pod : Pod) : String :=
  match lookup pod.labels injectKey with
  | some l => l
  | none => (lookup pod.annos injectKey).getD ""

def switchObjectSelectorC (objSel : String) : Vars :=
  if objSel = "true" then { useDefault := false, inject := true }
  else if objSel = "false" then { useDefault := false, inject := false }
  else if objSel = "" then { useDefault := true, inject := false }
  else { useDefault := true, inject := false }

def switchPolicyC (policy : String) (v : Vars) : Bool :=
  if policy = "disabled" then (if v.useDefault then false else v.inject)
  else if policy = "enabled" then (if v.useDefault then true else v.inject)
  else false

/-- `injectRequired(ignored, config, &pod.Spec, pod.ObjectMeta)`, branch for branch. -/
def injectRequiredC (ignored : List String) (cfg : Cfg) (pod : Pod) : Bool :=
  if pod.hostNet then false
  else if ignored.contains pod.ns then false
  else
    let v0 := switchObjectSelectorC (objectSelectorC pod)
    let v1 := neverLoop v0 (anyHit cfg.never pod.labels)
    let v2 := alwaysLoop v1 (anyHit cfg.always pod.labels)
    switchPolicyC cfg.policy v2

/-- Abstraction of a concrete input to its row. -/
def Val.ofOpt : Option String → Val
  | none => .absent
  | some s => if s = "true" then .tru else if s = "false" then .fls else if s = "" then .empty else .other

def Pol.ofString (s : String) : Pol :=
  if s = "enabled" then .enabled else if s = "disabled" then .disabled else .other

def abstractRow (ignored : List String) (cfg : Cfg) (pod : Pod) : Row :=
  { hostNet := pod.hostNet
    nsIgnored := ignored.contains pod.ns
    label := Val.ofOpt (lookup pod.labels injectKey)
    ann := Val.ofOpt (lookup pod.annos injectKey)
    never := anyHit cfg.never pod.labels
    always := anyHit cfg.always pod.labels
    policy := Pol.ofString cfg.policy }

end IstioModel.C19
