import IstioModel.C19.Theorems
import IstioModel.C19.Monitor
import IstioModel.Generated.C19Table

/-!
# C19 - the decision table generated from /repo, and the property theorems about it

`IstioModel/Generated/C19Table.lean` is rewritten on every check run by `harness/c19 table`: the
REAL `inject.injectRequired` is evaluated on a real `corev1.PodSpec` / `metav1.ObjectMeta` /
`inject.Config` realising every row of the abstract domain; bit `Row.idx r` of `Gen.implBits` is the
result on row `r`.  `injectImpl` below reads that table, so every theorem in this file is a
kernel-checked statement about what the real function returned on **all 1200 rows** in this run.
-/
namespace IstioModel.C19

/-- The real `injectRequired` on the abstract row `r` (read from the generated table). -/
def injectImpl (r : Row) : Bool := bitAt Gen.implBits r.idx

/-- The table has one bit per row: 1200 rows, nothing beyond. -/
theorem table_shape : Gen.nRows = Row.all.length ∧ Gen.implBits < 2 ^ Gen.nRows := by decide +kernel

/-- **T-gen, exhaustive.** The real function equals the documented cascade on every row. -/
theorem inject_table_eq_spec (r : Row) : injectImpl r = specDecision r :=
  eq_of_beq (forall_rows (p := fun r => injectImpl r == specDecision r) (by decide +kernel) r)

/-- The real function equals the branch-for-branch model on every row. -/
theorem model_eq_impl (r : Row) : model r = injectImpl r :=
  eq_of_beq (forall_rows (p := fun r => model r == injectImpl r) (by decide +kernel) r)

/-- The constants of the concrete model are those of the code: label and annotation key, the
    ignored namespaces (sorted), the two legal policy strings. -/
theorem constants_tie :
    Gen.injectLabelKey = injectKey ∧ Gen.injectAnnotationKey = injectKey ∧
    Gen.ignoredNamespaces = ignoredNamespaces ∧
    Pol.ofString Gen.policyEnabled = .enabled ∧ Pol.ofString Gen.policyDisabled = .disabled := by
  decide +kernel

/-- The container names the monitors treat as owned by the injector are the code's constants
    `ProxyContainerName`, `InitContainerName`, `ValidationContainerName`, `EnableCoreDumpName`. -/
theorem reserved_names_tie : Gen.reservedContainerNames = reservedNames := by decide +kernel

/-- **Determinism / "determined only by".** The harness rebuilt the table under every realisation
    variant (fields outside the listed inputs varied: pod name, owner, other labels and
    annotations incl. a status annotation, hostPID/IPC, DNS policy, containers, volumes, config
    templates/aliases; other ignored / non-ignored namespace names; other garbage label values and
    illegal policy strings; selectors realised through expressions, preceded by invalid and empty
    entries; no selector at all instead of a non-matching one; a second evaluation at the end; all DNS policies with
    hostPID/IPC; every irrelevant field drawn per row; nil label / annotation maps with selectors that match through the
    absence of a key):
    every variant gives the same answer on every row. -/
theorem decision_deterministic (m : Nat) (hm : m ∈ Gen.variantBits) (r : Row) :
    bitAt m r.idx = injectImpl r := by
  have h : ∀ m ∈ Gen.variantBits, m = Gen.implBits := by decide +kernel
  rw [h m hm]; rfl

/-- Exactly the ten named variants were generated (canonical + nine). -/
theorem variants_present : Gen.variantBits.length = 10 ∧ Gen.variantNames.length = 10 := by
  decide +kernel

/-! ## The precedence, clause by clause, about the real function (all rows) -/

/-- 1. Host networking: never injected, whatever else is set. -/
theorem host_network_never (r : Row) (h : r.hostNet = true) : injectImpl r = false := by
  rw [inject_table_eq_spec]; exact spec_host_network r h

/-- 2. Ignored system namespaces: never injected. -/
theorem ignored_namespace_never (r : Row) (h : r.nsIgnored = true) : injectImpl r = false := by
  rw [inject_table_eq_spec]; exact spec_ignored_namespace r h

/-- Edge decision (from the code): an illegal policy value disables injection, even for label "true". -/
theorem illegal_policy_never (r : Row) (h : r.policy = .other) : injectImpl r = false := by
  rw [inject_table_eq_spec]; exact spec_illegal_policy r h

/-- 3. Label "true" injects on every eligible row; label "false" never injects. -/
theorem label_true_injects (r : Row) (he : Eligible r) (h : r.label = .tru) : injectImpl r = true := by
  rw [inject_table_eq_spec]; exact spec_verdict r he true (podVerdict_label_true r h)

theorem label_false_never (r : Row) (h : r.label = .fls) : injectImpl r = false := by
  rw [inject_table_eq_spec]
  by_cases he : Eligible r
  · exact spec_verdict r he false (podVerdict_label_false r h)
  · unfold Eligible at he
    simp only [not_and, Classical.not_not] at he
    cases h1 : r.hostNet
    · cases h2 : r.nsIgnored
      · exact spec_illegal_policy r (by simpa using he h1 h2)
      · exact spec_ignored_namespace r h2
    · exact spec_host_network r h1

/-- 3 over 4. When the label key is present the annotation has no influence at all. -/
theorem label_over_annotation (r : Row) (h : r.label ≠ .absent) (a : Val) :
    injectImpl { r with ann := a } = injectImpl r := by
  rw [inject_table_eq_spec, inject_table_eq_spec]; exact spec_label_over_annotation r h a

/-- Edge decision (from the code): a present but unrecognised label ("" or garbage) falls through
    to selectors / policy exactly as if neither label nor annotation were set - the annotation is
    not consulted. -/
theorem unrecognised_label_ignores_annotation (r : Row) (h : r.label = .empty ∨ r.label = .other) :
    injectImpl r = injectImpl { r with label := .absent, ann := .absent } := by
  rw [inject_table_eq_spec, inject_table_eq_spec]
  rcases h with h | h <;> simp [specDecision, podVerdict, h]

/-- 4. Without a label, annotation "true" injects on every eligible row, "false" never injects. -/
theorem annotation_true_injects (r : Row) (he : Eligible r) (h : r.label = .absent) (ha : r.ann = .tru) :
    injectImpl r = true := by
  rw [inject_table_eq_spec]; exact spec_verdict r he true (podVerdict_annotation_true r h ha)

theorem annotation_false_never (r : Row) (he : Eligible r) (h : r.label = .absent) (ha : r.ann = .fls) :
    injectImpl r = false := by
  rw [inject_table_eq_spec]; exact spec_verdict r he false (podVerdict_annotation_false r h ha)

/-- 3/4 over 5. A pod whose label or annotation gives a verdict is decided without the selectors. -/
theorem annotation_over_selectors (r : Row) (v : Bool) (h : podVerdict r = some v) (nv al : Bool) :
    injectImpl { r with never := nv, always := al } = injectImpl r := by
  rw [inject_table_eq_spec, inject_table_eq_spec]; exact spec_verdict_over_selectors r v h nv al

/-- 5a over 5b. A matching NeverInjectSelector wins over a matching AlwaysInjectSelector. -/
theorem never_over_always (r : Row) (h : podVerdict r = none) (hn : r.never = true) :
    injectImpl r = false := by
  rw [inject_table_eq_spec]; exact spec_never_over_always r h hn

/-- 5 over 6. A matching AlwaysInjectSelector injects under both legal policies. -/
theorem selectors_over_policy (r : Row) (he : Eligible r) (h : podVerdict r = none)
    (hn : r.never = false) (ha : r.always = true) : injectImpl r = true := by
  rw [inject_table_eq_spec]; exact spec_always_over_policy r he h hn ha

/-- 6. Otherwise the namespace policy decides. -/
theorem policy_default (r : Row) (he : Eligible r) (h : podVerdict r = none)
    (hn : r.never = false) (ha : r.always = false) : injectImpl r = decide (r.policy = .enabled) := by
  rw [inject_table_eq_spec]; exact spec_policy_default r he h hn ha

/-! ## The statement read literally, and where the code deviates from it

The property text orders the inputs "host networking and ignored namespaces (never), the pod's inject label, else
its inject annotation, else never/always-inject selectors, else the namespace policy".  Read literally: a label that
gives no verdict passes the question on to the annotation, and a pod that says "true" is injected whatever the
policy string is.  The real function (and therefore `specDecision`) deviates from that reading in exactly two places;
the deviation is a theorem about the generated table, not a comment. -/

/-- The verdict of the pod under the literal reading: label, *else* annotation. -/
def literalVerdict (r : Row) : Option Bool :=
  match r.label with
  | .tru => some true
  | .fls => some false
  | _ =>
    match r.ann with
    | .tru => some true
    | .fls => some false
    | _ => none

/-- The cascade under the literal reading (an illegal policy counts as "not enabled" at the last step only). -/
def literalDecision (r : Row) : Bool :=
  if r.hostNet then false
  else if r.nsIgnored then false
  else match literalVerdict r with
    | some v => v
    | none =>
      if r.never then false
      else if r.always then true
      else decide (r.policy = .enabled)

/-- The statement at full, literal strength about the real function. -/
def FullStatement : Prop := ∀ r : Row, injectImpl r = literalDecision r

/-- The literal statement is **false** of the real code. Witness 1: a garbage label shadows the annotation (label
    "yes", annotation "true", policy disabled: literal reading injects, the code does not). -/
theorem full_statement_witness : ¬ FullStatement := by
  intro h
  have := h { hostNet := false, nsIgnored := false, label := .other, ann := .tru,
              never := false, always := false, policy := .disabled }
  revert this
  decide +kernel

/-- Witness 2: an illegal policy value disables injection even for label "true". -/
theorem full_statement_witness_policy :
    injectImpl { hostNet := false, nsIgnored := false, label := .tru, ann := .absent,
                 never := false, always := false, policy := .other } = false ∧
    literalDecision { hostNet := false, nsIgnored := false, label := .tru, ann := .absent,
                      never := false, always := false, policy := .other } = true := by
  decide +kernel

/-- ... and these are the only deviations: on every row with a legal policy whose label is absent, "true" or
    "false", the real function decides exactly as the statement reads (`..._partial` of `FullStatement`). -/
theorem full_statement_partial (r : Row) (hp : r.policy ≠ .other)
    (hl : r.label = .absent ∨ r.label = .tru ∨ r.label = .fls) : injectImpl r = literalDecision r := by
  have h := forall_rows (p := fun r => (r.policy == .other) || (r.label == .empty) || (r.label == .other) ||
      (injectImpl r == literalDecision r)) (by decide +kernel) r
  simp only [Bool.or_eq_true, beq_iff_eq] at h
  rcases h with ((h | h) | h) | h
  · exact absurd h hp
  · rcases hl with hl | hl | hl <;> simp [hl] at h
  · rcases hl with hl | hl | hl <;> simp [hl] at h
  · exact h

/-- The concrete model (tied to the real function by the `decide` stream) and the real function's
    table agree through the abstraction: for every concrete input, the model's answer is the
    table entry of its abstract row. -/
theorem concrete_eq_table (ign : List String) (cfg : Cfg) (pod : Pod) :
    injectRequiredC ign cfg pod = injectImpl (abstractRow ign cfg pod) := by
  rw [concrete_refines_abstract, model_eq_impl]

/-- Non-vacuity of the clauses: an eligible row with label "true", annotation "false", a matching
    never-selector and policy disabled exists, and the real function injected it. -/
example : let r : Row := { hostNet := false, nsIgnored := false, label := .tru, ann := .fls,
                           never := true, always := false, policy := .disabled }
    Eligible r ∧ injectImpl r = true := by decide +kernel

example : let r : Row := { hostNet := false, nsIgnored := false, label := .other, ann := .tru,
                           never := false, always := false, policy := .disabled }
    Eligible r ∧ podVerdict r = none ∧ injectImpl r = false := by decide +kernel

end IstioModel.C19
