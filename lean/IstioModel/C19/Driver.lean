import IstioModel.Common.Wire
import IstioModel.C19.Model
import IstioModel.C19.Monitor

/-! Line-protocol driver for C19 (streams `decide`, `inject`). See harness/c19. -/
namespace IstioModel.C19
open IstioModel.Wire

structure DState where
  pod : Pod := {}
  cfg : Cfg := {}
  -- inject stream: the observation being read and the pod under construction
  obs : Obs := {}
  cur : Option (String × RPod) := none

def DState.init : DState := {}

def parseExprs : List String → Option (List Expr)
  | [] => some []
  | k :: o :: v :: rest => (parseExprs rest).map ({ key := dec k, op := dec o, vals := decList v } :: ·)
  | _ => none

def parseSel : List String → Option Sel
  | mlk :: mlv :: rest =>
    (parseExprs rest).map fun es => { ml := (decList mlk).zip (decList mlv), exprs := es }
  | _ => none

def SelStatus.tok : SelStatus → String
  | .err => "err" | .empty => "empty" | .hit => "hit" | .miss => "miss"

def step (s : DState) (toks : List String) : DState × String :=
  match toks with
  | "case" :: _ => (DState.init, "ok")
  | ["pod", hn, ns, lk, lv, ak, av] =>
    ({ s with pod := { hostNet := tokBool hn, ns := dec ns, labels := (decList lk).zip (decList lv),
                       annos := (decList ak).zip (decList av) } }, "ok")
  | ["policy", p] => ({ s with cfg := { s.cfg with policy := dec p } }, "ok")
  | "never" :: rest =>
    match parseSel rest with
    | none => (s, "bad-op")
    | some sel => ({ s with cfg := { s.cfg with never := s.cfg.never ++ [sel] } }, (selStatus sel s.pod.labels).tok)
  | "always" :: rest =>
    match parseSel rest with
    | none => (s, "bad-op")
    | some sel => ({ s with cfg := { s.cfg with always := s.cfg.always ++ [sel] } }, (selStatus sel s.pod.labels).tok)
  | "irr" :: _ => (s, "ok")   -- fields outside the listed inputs: the model has no place for them
  | ["eval"] => (s, boolTok (injectRequiredC ignoredNamespaces s.cfg s.pod))
  -- inject stream (trace written by `harness/c19 exec inject`)
  | "src" :: _ => (s, "ok")
  | "feat" :: _ => (s, "ok")
  | "row" :: _ => (s, "ok")
  | ["begin", which] => ({ s with cur := some (which, {}) }, "ok")
  | [tag, name, image, cmd, args, ports, digest] =>
    match s.cur with
    | none => (s, "bad-op")
    | some (w, p) =>
      let c : CtrObs := { core := { name := dec name, image := dec image, command := decList cmd, args := decList args,
                                    ports := decList ports }, digest := digest }
      if tag == "c" then ({ s with cur := some (w, { p with containers := p.containers ++ [c] }) }, "ok")
      else if tag == "i" then ({ s with cur := some (w, { p with inits := p.inits ++ [c] }) }, "ok")
      else (s, "bad-op")
  | ["v", name, digest] =>
    match s.cur with
    | none => (s, "bad-op")
    | some (w, p) => ({ s with cur := some (w, { p with volumes := p.volumes ++ [{ name := dec name, digest := digest }] }) }, "ok")
  | ["e", name, digest] =>
    match s.cur with
    | none => (s, "bad-op")
    | some (w, p) => ({ s with cur := some (w, { p with ephemerals := p.ephemerals ++ [{ name := dec name, digest := digest }] }) }, "ok")
  | ["m", metaD, specD] =>
    match s.cur with
    | none => (s, "bad-op")
    | some (w, p) => ({ s with cur := some (w, { p with metaD := metaD, specD := specD }) }, "ok")
  | ["inj", cs, is, vs] =>
    match s.cur with
    | none => (s, "bad-op")
    | some (w, p) => ({ s with cur := some (w, { p with injC := decList cs, injI := decList is, injV := decList vs }) }, "ok")
  | ["end"] =>
    match s.cur with
    | none => (s, "bad-op")
    | some (w, p) =>
      let o := s.obs
      let o' := if w == "orig" then { o with orig := some p } else if w == "once" then { o with once := some p }
                else if w == "twice" then { o with twice := some p } else o
      ({ s with obs := o', cur := none }, "ok")
  | "status" :: st :: _ => ({ s with obs := { s.obs with status := st } }, "ok")
  -- `refusal` closes the decision inputs (pod / policy / never / always lines before it): the documented decision of
  -- this admission is the concrete model of the cascade on them (= specDecision of their abstraction, `concrete_eq_spec`)
  | ["refusal", r] =>
    ({ s with obs := { s.obs with refusal := r, expect := some (injectRequiredC ignoredNamespaces s.cfg s.pod) } }, "ok")
  | ["check"] => (s, (judge s.obs).render)
  | _ => (s, "bad-op")

end IstioModel.C19
