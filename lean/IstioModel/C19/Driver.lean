import IstioModel.Common.Wire
import IstioModel.C19.Model

/-! Line-protocol driver for C19 (streams `decide`, `inject`). See harness/c19. -/
namespace IstioModel.C19
open IstioModel.Wire

structure DState where
  pod : Pod := {}
  cfg : Cfg := {}

def DState.init : DState := {}

def parseExprs : List String → Option (List Expr)
  | [] => some []
  | k :: o :: v :: rest => (parseExprs rest).map ({ key := dec k, op := dec o, vals := decList v } :: ·)
  | _ => none

def parseSel : List String → Option Sel
  | mlk :: mlv :: rest =>
    (parseExprs rest).map fun es => { ml := (decList mlk).zip (decList mlv), exprs := es }
  | _ => none

def SelStatus.tok : SelStatus → String
  | .err => "err" | .empty => "empty" | .hit => "hit" | .miss => "miss"

def step (s : DState) (toks : List String) : DState × String :=
  match toks with
  | "case" :: _ => (DState.init, "ok")
  | ["pod", hn, ns, lk, lv, ak, av] =>
    ({ s with pod := { hostNet := tokBool hn, ns := dec ns, labels := (decList lk).zip (decList lv),
                       annos := (decList ak).zip (decList av) } }, "ok")
  | ["policy", p] => ({ s with cfg := { s.cfg with policy := dec p } }, "ok")
  | "never" :: rest =>
    match parseSel rest with
    | none => (s, "bad-op")
    | some sel => ({ s with cfg := { s.cfg with never := s.cfg.never ++ [sel] } }, (selStatus sel s.pod.labels).tok)
  | "always" :: rest =>
    match parseSel rest with
    | none => (s, "bad-op")
    | some sel => ({ s with cfg := { s.cfg with always := s.cfg.always ++ [sel] } }, (selStatus sel s.pod.labels).tok)
  | ["eval"] => (s, boolTok (injectRequiredC ignoredNamespaces s.cfg s.pod))
  | _ => (s, "bad-op")

end IstioModel.C19
