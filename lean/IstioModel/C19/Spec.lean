/-
C19 - the documented injection precedence as a short specification.

Abstract input of the decision (one `Row`): host networking, "namespace is one of the ignored
system namespaces", the value class of the pod's `sidecar.istio.io/inject` label and annotation,
"some NeverInjectSelector entry matches", "some AlwaysInjectSelector entry matches", and the
namespace policy of the injector configuration.
-/
namespace IstioModel.C19

/-- Value class of the inject label / annotation. -/
inductive Val
  | absent   -- key not present
  | tru      -- "true"
  | fls      -- "false"
  | empty    -- present, value ""
  | other    -- present, any other value ("True", "yes", "1", ...)
  deriving DecidableEq, Repr, Inhabited

/-- `Config.Policy`. -/
inductive Pol
  | enabled | disabled
  | other    -- any string except "enabled" / "disabled" (including "")
  deriving DecidableEq, Repr, Inhabited

structure Row where
  hostNet   : Bool
  nsIgnored : Bool
  label     : Val
  ann       : Val
  never     : Bool
  always    : Bool
  policy    : Pol
  deriving DecidableEq, Repr, Inhabited

/-- What the pod says about itself. The label is the newer API and wins over the annotation.
    Edge decision taken from the code (the statement is silent): a label that is *present* but is
    neither "true" nor "false" gives no verdict and the annotation is **not** consulted. -/
def podVerdict (r : Row) : Option Bool :=
  match r.label with
  | .tru => some true
  | .fls => some false
  | .empty | .other => none
  | .absent =>
    match r.ann with
    | .tru => some true
    | .fls => some false
    | _ => none

/-- The documented cascade. Edge decision taken from the code: an illegal policy value disables
    injection entirely, even for a pod labelled "true". -/
def specDecision (r : Row) : Bool :=
  if r.hostNet then false                     -- 1. host networking: never
  else if r.nsIgnored then false              -- 2. ignored system namespaces: never
  else if r.policy = .other then false        --    illegal policy: auto injection disabled
  else match podVerdict r with
    | some v => v                             -- 3./4. label, else annotation
    | none =>
      if r.never then false                   -- 5. NeverInjectSelector before ...
      else if r.always then true              --    ... AlwaysInjectSelector
      else decide (r.policy = .enabled)       -- 6. namespace policy

end IstioModel.C19
