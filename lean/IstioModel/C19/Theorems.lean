import IstioModel.C19.Model
import IstioModel.C19.Lemmas

/-!
# C19 - theorems that do not depend on the generated table

"Whether a pod is injected is determined only by, in order: host networking and ignored namespaces
(never), the pod's inject label, else its inject annotation, else never/always-inject selectors,
else the namespace policy; the same inputs always give the same decision."

* the abstract domain is enumerated completely (`Row.mem_all`), so a `decide +kernel` over
  `Row.all` is a statement about every row (`forall_rows`);
* the branch-for-branch model equals the documented cascade (`model_eq_spec`);
* the precedence clauses are proved of the specification by reasoning (no enumeration);
* the concrete model of `injectRequired` (maps, namespace strings, selector lists) factors through
  the abstract row (`concrete_refines_abstract`), hence obeys the documented cascade
  (`concrete_eq_spec`).

The tie to the real function is in `GenTie.lean` (the table generated from /repo on every run).
-/
namespace IstioModel.C19

/-! ## The enumeration is complete -/

/-- Every row of the abstract domain occurs in `Row.all`. -/
theorem Row.mem_all (r : Row) : r ∈ Row.all := by
  cases r with
  | mk hn ns l a nv al p =>
    simp only [Row.all, List.mem_flatMap, List.mem_map]
    exact ⟨hn, boolAll_complete hn, ns, boolAll_complete ns, l, Val.all_complete l, a, Val.all_complete a,
           nv, boolAll_complete nv, al, boolAll_complete al, p, Pol.all_complete p, rfl⟩

/-- Lifting lemma: a Boolean check that evaluates to `true` over `Row.all` holds for every row. -/
theorem forall_rows {p : Row → Bool} (h : allRows p = true) (r : Row) : p r = true :=
  List.all_eq_true.mp h r (Row.mem_all r)

/-- The domain has exactly 1200 rows and `Row.idx` numbers them 0..1199 in order (so the bit mask
    written by the harness has one bit per row, no collisions). -/
theorem Row.idx_enumerates : Row.all.map Row.idx = List.range 1200 := by decide +kernel

theorem Row.idx_lt (r : Row) : r.idx < 1200 := by
  have h : r.idx ∈ Row.all.map Row.idx := List.mem_map.mpr ⟨r, Row.mem_all r, rfl⟩
  rw [Row.idx_enumerates] at h
  exact List.mem_range.mp h

/-! ## Model = documented cascade -/

/-- The branch-for-branch model of `injectRequired` computes the documented cascade, on every row. -/
theorem model_eq_spec (r : Row) : model r = specDecision r := by
  have h := forall_rows (p := fun r => model r == specDecision r) (by decide +kernel) r
  exact eq_of_beq h

/-! ## Precedence clauses of the specification (proved by reasoning, for all rows) -/

/-- A row on which injection is possible at all. -/
def Eligible (r : Row) : Prop := r.hostNet = false ∧ r.nsIgnored = false ∧ r.policy ≠ .other

instance (r : Row) : Decidable (Eligible r) := by unfold Eligible; infer_instance

theorem spec_host_network (r : Row) (h : r.hostNet = true) : specDecision r = false := by
  simp [specDecision, h]

theorem spec_ignored_namespace (r : Row) (h : r.nsIgnored = true) : specDecision r = false := by
  simp [specDecision, h]

theorem spec_illegal_policy (r : Row) (h : r.policy = .other) : specDecision r = false := by
  simp [specDecision, h]

/-- On an eligible row the decision is the pod's own verdict when it has one. -/
theorem spec_verdict (r : Row) (he : Eligible r) (v : Bool) (h : podVerdict r = some v) :
    specDecision r = v := by
  obtain ⟨h1, h2, h3⟩ := he
  simp [specDecision, h1, h2, h3, h]

theorem spec_no_verdict (r : Row) (he : Eligible r) (h : podVerdict r = none) :
    specDecision r = (if r.never then false else if r.always then true else decide (r.policy = .enabled)) := by
  obtain ⟨h1, h2, h3⟩ := he
  simp [specDecision, h1, h2, h3, h]

/-- The label wins: when the label key is present the annotation is not looked at. -/
theorem spec_label_over_annotation (r : Row) (h : r.label ≠ .absent) (a : Val) :
    specDecision { r with ann := a } = specDecision r := by
  cases hl : r.label <;> simp_all [specDecision, podVerdict]

/-- Edge decision: a present but unrecognised label gives no verdict, whatever the annotation. -/
theorem podVerdict_unrecognised_label (r : Row) (h : r.label = .empty ∨ r.label = .other) :
    podVerdict r = none := by
  cases h with
  | inl h => simp [podVerdict, h]
  | inr h => simp [podVerdict, h]

/-- A pod with a verdict (label or annotation "true"/"false") is decided without the selectors. -/
theorem spec_verdict_over_selectors (r : Row) (v : Bool) (h : podVerdict r = some v) (nv al : Bool) :
    specDecision { r with never := nv, always := al } = specDecision r := by
  have h' : podVerdict { r with never := nv, always := al } = some v := by
    simpa [podVerdict] using h
  simp only [specDecision, h, h']

/-- NeverInjectSelector is consulted before AlwaysInjectSelector. -/
theorem spec_never_over_always (r : Row) (h : podVerdict r = none) (hn : r.never = true) :
    specDecision r = false := by
  simp [specDecision, h, hn]

/-- A matching AlwaysInjectSelector decides before the namespace policy (both legal policies). -/
theorem spec_always_over_policy (r : Row) (he : Eligible r) (h : podVerdict r = none)
    (hn : r.never = false) (ha : r.always = true) : specDecision r = true := by
  rw [spec_no_verdict r he h]; simp [hn, ha]

/-- Nothing else said: the namespace policy decides. -/
theorem spec_policy_default (r : Row) (he : Eligible r) (h : podVerdict r = none)
    (hn : r.never = false) (ha : r.always = false) : specDecision r = decide (r.policy = .enabled) := by
  rw [spec_no_verdict r he h]; simp [hn, ha]

/-! ## Selector matching sub-function -/

/-- The selector lists are OR'ed; invalid and empty selectors never count. -/
theorem anyHit_iff (sels : List Sel) (labels : KV) :
    anyHit sels labels = true ↔ ∃ s ∈ sels, selStatus s labels = .hit := by
  simp [anyHit, List.any_eq_true]

/-- The empty selector (which matches every label set in Kubernetes) is skipped. -/
theorem selStatus_empty_selector (labels : KV) : selStatus {} labels = .empty := by
  simp [selStatus, compileSel, allSome]

/-- A selector that fails to parse, is empty or does not match has no influence. -/
theorem anyHit_skip (s : Sel) (rest : List Sel) (labels : KV) (h : selStatus s labels ≠ .hit) :
    anyHit (s :: rest) labels = anyHit rest labels := by
  simp [anyHit, h]

/-- The outcome does not depend on the order of the selector list. -/
theorem anyHit_perm (a b : List Sel) (labels : KV) (h : ∀ s, s ∈ a ↔ s ∈ b) :
    anyHit a labels = anyHit b labels := by
  apply Bool.eq_iff_iff.mpr
  rw [anyHit_iff, anyHit_iff]
  constructor
  · rintro ⟨s, hs, hh⟩; exact ⟨s, (h s).mp hs, hh⟩
  · rintro ⟨s, hs, hh⟩; exact ⟨s, (h s).mpr hs, hh⟩

/-! ## Concrete model factors through the abstract row -/

theorem switchPolicyC_eq (p : String) (v : Vars) : switchPolicyC p v = switchPolicy (Pol.ofString p) v := by
  unfold switchPolicyC Pol.ofString
  by_cases h1 : p = "enabled"
  · subst h1; simp [switchPolicy]
  · by_cases h2 : p = "disabled"
    · subst h2; simp [switchPolicy]
    · simp [h1, h2, switchPolicy]

theorem switchObjectSelectorC_eq (o : Option String) :
    switchObjectSelectorC (o.getD "") =
      switchObjectSelector (match Val.ofOpt o with | .absent => .empty | v => v) := by
  cases o with
  | none => simp [switchObjectSelectorC, Val.ofOpt, switchObjectSelector]
  | some s =>
    simp only [Option.getD_some, switchObjectSelectorC, Val.ofOpt]
    by_cases h1 : s = "true"
    · subst h1; simp [switchObjectSelector]
    · by_cases h2 : s = "false"
      · subst h2; simp [switchObjectSelector]
      · by_cases h3 : s = ""
        · subst h3; simp [switchObjectSelector]
        · simp [h1, h2, h3, switchObjectSelector]

theorem objectSelector_refines (ign : List String) (cfg : Cfg) (pod : Pod) :
    switchObjectSelectorC (objectSelectorC pod) = switchObjectSelector (objectSelector (abstractRow ign cfg pod)) := by
  unfold objectSelectorC objectSelector abstractRow
  simp only []
  cases hl : lookup pod.labels injectKey with
  | none =>
    simp only [Val.ofOpt]
    exact switchObjectSelectorC_eq (lookup pod.annos injectKey)
  | some l =>
    have := switchObjectSelectorC_eq (some l)
    simp only [Option.getD_some] at this
    rw [this]
    simp only [Val.ofOpt]
    by_cases h1 : l = "true"
    · simp [h1]
    · by_cases h2 : l = "false"
      · simp [h2]
      · by_cases h3 : l = ""
        · simp [h3]
        · simp [h1, h2, h3]

/-- `injectRequired` on concrete inputs depends on them only through the abstract row. -/
theorem concrete_refines_abstract (ign : List String) (cfg : Cfg) (pod : Pod) :
    injectRequiredC ign cfg pod = model (abstractRow ign cfg pod) := by
  unfold injectRequiredC model
  rw [objectSelector_refines ign cfg pod, switchPolicyC_eq]
  rfl

/-- End to end: the concrete model of `injectRequired` decides by the documented cascade applied to
    the abstraction of its inputs - for every pod, namespace, configuration and selector list. -/
theorem concrete_eq_spec (ign : List String) (cfg : Cfg) (pod : Pod) :
    injectRequiredC ign cfg pod = specDecision (abstractRow ign cfg pod) := by
  rw [concrete_refines_abstract, model_eq_spec]

/-- Non-vacuity: a pod labelled "false" with annotation "true" in an enabled namespace whose labels
    match an AlwaysInjectSelector is not injected (label over annotation over selectors over policy). -/
example :
    injectRequiredC ignoredNamespaces
      { policy := "enabled", always := [{ ml := [("app", "web")] }] }
      { ns := "default", labels := [("app", "web"), (injectKey, "false")], annos := [(injectKey, "true")] } = false := by
  decide +kernel

/-- Non-vacuity: invalid and empty never-selectors are skipped, the always-selector then matches. -/
example :
    injectRequiredC ignoredNamespaces
      { policy := "disabled", never := [{}, { exprs := [⟨"app", "Bogus", []⟩] }], always := [{ exprs := [⟨"app", "In", ["web", "db"]⟩] }] }
      { ns := "default", labels := [("app", "web")] } = true := by
  decide +kernel

end IstioModel.C19
