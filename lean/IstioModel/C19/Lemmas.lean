import IstioModel.C19.Model
import IstioModel.C19.Monitor

/-! Helper lemmas of C19 (not counted as obligations). -/
namespace IstioModel.C19

theorem boolAll_complete (b : Bool) : b ∈ boolAll := by cases b <;> decide
theorem Val.all_complete (v : Val) : v ∈ Val.all := by cases v <;> decide
theorem Pol.all_complete (p : Pol) : p ∈ Pol.all := by cases p <;> decide

theorem anyHit_nil (labels : KV) : anyHit [] labels = false := rfl

theorem podVerdict_label_true (r : Row) (h : r.label = .tru) : podVerdict r = some true := by
  simp [podVerdict, h]

theorem podVerdict_label_false (r : Row) (h : r.label = .fls) : podVerdict r = some false := by
  simp [podVerdict, h]

theorem podVerdict_annotation_true (r : Row) (h : r.label = .absent) (ha : r.ann = .tru) :
    podVerdict r = some true := by
  simp [podVerdict, h, ha]

theorem podVerdict_annotation_false (r : Row) (h : r.label = .absent) (ha : r.ann = .fls) :
    podVerdict r = some false := by
  simp [podVerdict, h, ha]

theorem podVerdict_annotation_none (r : Row) (h : r.label = .absent)
    (ha : r.ann = .absent ∨ r.ann = .empty ∨ r.ann = .other) : podVerdict r = none := by
  rcases ha with ha | ha | ha <;> simp [podVerdict, h, ha]

theorem userCtrs_unowned (owned : List String) (l : List CtrObs) :
    ∀ c ∈ userCtrs owned l, c.name ∉ owned := by
  intro c hc
  simp only [userCtrs, List.mem_filter] at hc
  simpa using hc.2

theorem sublist_userCtrs {owned : List String} {u : List Ctr} {l : List CtrObs}
    (hu : ∀ c ∈ u, c.name ∉ owned) (h : u.Sublist (l.map (·.core))) :
    u.Sublist (userCtrs owned l) := by
  have h2 := h.filter (fun c => !owned.contains c.name)
  have h3 : u.filter (fun c => !owned.contains c.name) = u := by
    apply List.filter_eq_self.mpr
    intro c hc; simpa using hu c hc
  rw [h3] at h2
  exact h2

theorem sublist_userVols {owned : List String} {u l : List Vol}
    (hu : ∀ v ∈ u, v.name ∉ owned) (h : u.Sublist l) : u.Sublist (userVols owned l) := by
  have h2 := h.filter (fun v => !owned.contains v.name)
  have h3 : u.filter (fun v => !owned.contains v.name) = u := by
    apply List.filter_eq_self.mpr
    intro v hv; simpa using hu v hv
  rw [h3] at h2
  exact h2

end IstioModel.C19
