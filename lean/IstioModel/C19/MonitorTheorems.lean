import IstioModel.C19.Monitor
import IstioModel.C19.Lemmas

/-!
# C19 - the monitors are sound and complete

The Boolean checkers evaluated by the compiled driver on the observations of the real webhook path
decide exactly the Prop-level statements `Preserves` and `Idempotent`; plus the consequences of
`Preserves` a reader expects (every user container is still there with its fields, relative order
is kept, preservation composes over re-injection).
-/
namespace IstioModel.C19

theorem keepsReservedB_iff (before after : RPod) :
    keepsReservedB before after = true ↔ ∀ n ∈ before.ctrNames, n ∈ reservedNames → n ∈ after.ctrNames := by
  simp only [keepsReservedB, List.all_eq_true, Bool.or_eq_true, Bool.not_eq_true', List.contains_iff_mem]
  constructor
  · intro h n hn hr
    rcases h n hn with h | h
    · have : reservedNames.contains n = true := List.contains_iff_mem.mpr hr
      rw [this] at h; cases h
    · exact h
  · intro h n hn
    by_cases hr : n ∈ reservedNames
    · exact Or.inr (h n hn hr)
    · left
      cases hc : reservedNames.contains n
      · rfl
      · exact absurd (List.contains_iff_mem.mp hc) hr

/-- Soundness and completeness of the preservation checker. -/
theorem preservesB_iff (before after : RPod) : preservesB before after = true ↔ Preserves before after := by
  simp only [preservesB, Preserves, Bool.and_eq_true, keepsReservedB_iff]
  simp [keepsContainersB, keepsInitsB, keepsVolumesB, List.isSublist_iff_sublist, and_assoc]

/-- Soundness and completeness of the status-record checker. -/
theorem statusTruthfulB_iff (orig after : RPod) : statusTruthfulB orig after = true ↔ StatusTruthful orig after := by
  simp only [statusTruthfulB, StatusTruthful, Bool.and_eq_true, List.all_eq_true, Bool.or_eq_true, List.contains_iff_mem,
    and_assoc]
  constructor
  · rintro ⟨h1, h2, h3, h4⟩
    refine ⟨h1, h2, fun n hn ho => ?_, fun n hn ho => ?_⟩
    · rcases h3 n hn with h | h
      · exact absurd h ho
      · exact h
    · rcases h4 n hn with h | h
      · exact absurd h ho
      · exact h
  · rintro ⟨h1, h2, h3, h4⟩
    refine ⟨h1, h2, fun n hn => ?_, fun n hn => ?_⟩
    · by_cases ho : n ∈ orig.ctrNames
      · exact Or.inl ho
      · exact Or.inr (h3 n hn ho)
    · by_cases ho : n ∈ orig.volNames
      · exact Or.inl ho
      · exact Or.inr (h4 n hn ho)

/-- Soundness and completeness of the idempotence checker. -/
theorem idempotentB_iff (once twice : RPod) : idempotentB once twice = true ↔ Idempotent once twice := by
  simp [idempotentB, Idempotent]

/-- `diffComponent` reports "none" exactly when nothing differs. -/
theorem diffComponent_none_iff (a b : RPod) : diffComponent a b = "none" ↔ a = b := by
  constructor
  · intro h
    unfold diffComponent at h
    repeat' split at h
    all_goals first | (exact absurd h (by decide)) | skip
    rename_i h1 h2 h3 h4 h5 h6
    simp only [not_or, Classical.not_not, ne_eq] at h1 h2 h3 h4 h5 h6
    cases a; cases b
    simp_all
  · intro h; subst h; simp [diffComponent]

/-- Every user container of the pod is present in the result with the same name, image, command,
    args and ports. -/
theorem preserves_container_kept (before after : RPod) (h : Preserves before after)
    (c : CtrObs) (hc : c ∈ before.containers) (hu : c.core.name ∉ reservedNames) :
    ∃ c' ∈ after.containers, c'.core = c.core := by
  have hmem : c.core ∈ userCtrs reservedNames before.containers := by
    simp only [userCtrs, List.mem_filter, List.mem_map]
    exact ⟨⟨c, hc, rfl⟩, by simpa using hu⟩
  have := h.1.subset hmem
  simpa [List.mem_map] using this

theorem preserves_init_kept (before after : RPod) (h : Preserves before after)
    (c : CtrObs) (hc : c ∈ before.inits) (hu : c.core.name ∉ reservedNames) :
    ∃ c' ∈ after.inits, c'.core = c.core := by
  have hmem : c.core ∈ userCtrs reservedNames before.inits := by
    simp only [userCtrs, List.mem_filter, List.mem_map]
    exact ⟨⟨c, hc, rfl⟩, by simpa using hu⟩
  have := h.2.1.subset hmem
  simpa [List.mem_map] using this

/-- Every user volume is present in the result, unchanged. -/
theorem preserves_volume_kept (before after : RPod) (h : Preserves before after)
    (v : Vol) (hv : v ∈ before.volumes) (hu : v.name ∉ after.injV) : v ∈ after.volumes := by
  have hmem : v ∈ userVols after.injV before.volumes := by
    simp only [userVols, List.mem_filter]
    exact ⟨hv, by simpa using hu⟩
  exact h.2.2.1.subset hmem

/-- Relative order: if user container `x` comes before user container `y` in the pod (as the
    two-element sub-list `[x, y]`), it still does in the result. -/
theorem preserves_order (before after : RPod) (h : Preserves before after) (x y : Ctr)
    (hxy : [x, y].Sublist (userCtrs reservedNames before.containers)) :
    [x, y].Sublist (after.containers.map (·.core)) :=
  hxy.trans h.1

/-- Preservation composes over re-injection: if the first injection preserves the user's pod and
    the second preserves the first's result, and both results record the same injected volumes, then
    the twice-injected pod preserves the user's original pod. -/
theorem preserves_trans (orig once twice : RPod) (h1 : Preserves orig once) (h2 : Preserves once twice)
    (hv : once.injV = twice.injV) : Preserves orig twice := by
  refine ⟨?_, ?_, ?_, ?_⟩
  · exact (sublist_userCtrs (userCtrs_unowned reservedNames orig.containers) h1.1).trans h2.1
  · exact (sublist_userCtrs (userCtrs_unowned reservedNames orig.inits) h1.2.1).trans h2.2.1
  · rw [← hv]
    have hu : ∀ v ∈ userVols once.injV orig.volumes, v.name ∉ once.injV := by
      intro v hv'
      simp only [userVols, List.mem_filter] at hv'
      simpa using hv'.2
    have a := sublist_userVols hu h1.2.2.1
    have b := h2.2.2.1; rw [← hv] at b
    exact a.trans b
  · intro n hn hr
    exact h2.2.2.2 n (h1.2.2.2 n hn hr) hr

/-- A container of a reserved name the user wrote (e.g. `enable-core-dump` under a template that does not inject
    one) is still in the result. -/
theorem preserves_reserved_kept (before after : RPod) (h : Preserves before after) (n : String)
    (hn : n ∈ before.ctrNames) (hr : n ∈ reservedNames) : n ∈ after.ctrNames := h.2.2.2 n hn hr

/-- With a truthful status record the volume clause is not vacuous: a volume the record exempts is really in the
    result. -/
theorem exempt_volume_present (orig after : RPod) (hs : StatusTruthful orig after) (n : String) (h : n ∈ after.injV) :
    n ∈ after.volNames := hs.2.1 n h

/-- An idempotent re-injection trivially preserves whatever the first injection preserved. -/
theorem idempotent_preserves (orig once twice : RPod) (h1 : Preserves orig once) (hi : Idempotent once twice) :
    Preserves orig twice := by
  unfold Idempotent at hi; subst hi; exact h1

theorem nodupB_iff (l : List String) : nodupB l = true ↔ l.Nodup := by
  induction l with
  | nil => simp [nodupB]
  | cons x xs ih => simp [nodupB, ih, List.nodup_cons]

theorem preserveClause_none_iff (a b c : RPod) :
    preserveClause a b c = none ↔ preservesB a b = true ∧ preservesB a c = true := by
  unfold preserveClause preservesB
  repeat' split
  all_goals simp_all

/-- The monitors part is `okInjected` exactly when the observation is complete and the statements hold. -/
theorem judgeMonitors_ok_iff (o : Obs) :
    judgeMonitors o = .okInjected ↔
      ∃ a b c, o.orig = some a ∧ o.once = some b ∧ o.twice = some c ∧
        Preserves a b ∧ Preserves a c ∧ b.ctrNames.Nodup ∧ c.ctrNames.Nodup ∧
        b.ephemerals = a.ephemerals ∧ c.ephemerals = a.ephemerals ∧
        (a.fresh = true → StatusTruthful a b) ∧ Idempotent b c := by
  unfold judgeMonitors
  constructor
  · intro h
    split at h
    · rename_i a b c ha hb hc
      refine ⟨a, b, c, ha, hb, hc, ?_⟩
      split at h
      · simp at h
      · rename_i hp
        have hp' := (preserveClause_none_iff a b c).mp hp
        repeat' split at h
        all_goals try (simp at h; done)
        rename_i kd ke ks ki
        have kd' : nodupB b.ctrNames = true ∧ nodupB c.ctrNames = true := by
          cases h1 : nodupB b.ctrNames <;> cases h2 : nodupB c.ctrNames <;> simp_all
        have ke' : keepsEphemeralB a b = true ∧ keepsEphemeralB a c = true := by
          cases h1 : keepsEphemeralB a b <;> cases h2 : keepsEphemeralB a c <;> simp_all
        refine ⟨(preservesB_iff a b).mp hp'.1, (preservesB_iff a c).mp hp'.2, (nodupB_iff _).mp kd'.1, (nodupB_iff _).mp kd'.2,
          of_decide_eq_true ke'.1, of_decide_eq_true ke'.2, ?_, (idempotentB_iff b c).mp ?_⟩
        · intro hf
          apply (statusTruthfulB_iff a b).mp
          cases hst : statusTruthfulB a b
          · simp [hf, hst] at ks
          · rfl
        · cases hi : idempotentB b c
          · simp [hi] at ki
          · rfl
    · simp at h
  · rintro ⟨a, b, c, ha, hb, hc, h1, h2, hd1, hd2, he1, he2, h3, h4⟩
    have hp := (preserveClause_none_iff a b c).mpr ⟨(preservesB_iff a b).mpr h1, (preservesB_iff a c).mpr h2⟩
    have pe1 : keepsEphemeralB a b = true := decide_eq_true he1
    have pe2 : keepsEphemeralB a c = true := decide_eq_true he2
    have pd1 := (nodupB_iff _).mpr hd1
    have pd2 := (nodupB_iff _).mpr hd2
    have p4 := (idempotentB_iff b c).mpr h4
    have p3 : (a.fresh && !statusTruthfulB a b) = false := by
      cases hf : a.fresh
      · simp
      · simp [(statusTruthfulB_iff a b).mpr (h3 hf)]
    simp [ha, hb, hc, hp, p3, p4, pd1, pd2, pe1, pe2]

def Verdict.injOrFail : Verdict → Prop
  | .okInjected => True
  | .fail _ => True
  | _ => False

theorem judgeMonitors_injOrFail (o : Obs) : (judgeMonitors o).injOrFail := by
  unfold judgeMonitors
  split
  · split
    · exact True.intro
    · repeat' split
      all_goals exact True.intro
  · exact True.intro

/-- The monitors part only ever says `okInjected` or `fail`. -/
theorem judgeMonitors_cases (o : Obs) : judgeMonitors o = .okInjected ∨ ∃ c, judgeMonitors o = .fail c := by
  have h := judgeMonitors_injOrFail o
  cases hv : judgeMonitors o with
  | okInjected => exact Or.inl rfl
  | fail c => exact Or.inr ⟨c, rfl⟩
  | okSkipped => rw [hv] at h; exact absurd h (by simp [Verdict.injOrFail])
  | okRejected => rw [hv] at h; exact absurd h (by simp [Verdict.injOrFail])
  | okNotApplicable => rw [hv] at h; exact absurd h (by simp [Verdict.injOrFail])

/-- `OK injected` is printed only if the documented decision is known and is "inject", no refusal was due, and all
    monitors accept. -/
theorem judge_injected_sound (o : Obs) (h : judge o = .okInjected) :
    o.status = "injected" ∧ o.expect = some true ∧ o.refusal ≠ "must" ∧
    ∃ a b c, o.orig = some a ∧ o.once = some b ∧ o.twice = some c ∧
      Preserves a b ∧ Preserves a c ∧ b.ctrNames.Nodup ∧ c.ctrNames.Nodup ∧
      b.ephemerals = a.ephemerals ∧ c.ephemerals = a.ephemerals ∧
      (a.fresh = true → StatusTruthful a b) ∧ Idempotent b c := by
  unfold judge at h
  split at h
  all_goals try (simp at h; done)
  · split at h
    all_goals try (simp at h; done)
    split at h <;> simp at h
  · split at h
    all_goals try (simp at h; done)
    unfold judgeSkipped at h
    split at h
    · split at h <;> simp at h
    · simp at h
  · rename_i hs
    split at h
    all_goals try (simp at h; done)
    rename_i he
    split at h
    · simp at h
    · rename_i hr
      exact ⟨hs, he, hr, (judgeMonitors_ok_iff o).mp h⟩

/-- ... and conversely (the monitor raises no false alarm). -/
theorem judge_injected_complete (o : Obs) (a b c : RPod) (hs : o.status = "injected")
    (he : o.expect = some true) (hr : o.refusal ≠ "must")
    (ha : o.orig = some a) (hb : o.once = some b) (hc : o.twice = some c)
    (h1 : Preserves a b) (h2 : Preserves a c) (hd1 : b.ctrNames.Nodup) (hd2 : c.ctrNames.Nodup)
    (he1 : b.ephemerals = a.ephemerals) (he2 : c.ephemerals = a.ephemerals)
    (h3 : a.fresh = true → StatusTruthful a b) (h4 : Idempotent b c) :
    judge o = .okInjected := by
  have hm := (judgeMonitors_ok_iff o).mpr ⟨a, b, c, ha, hb, hc, h1, h2, hd1, hd2, he1, he2, h3, h4⟩
  unfold judge
  simp [hs, he, hr, hm]

/-- `OK skipped` is printed only if the documented decision is known and is "do not inject", and the pod came back
    unchanged. -/
theorem judge_skipped_sound (o : Obs) (h : judge o = .okSkipped) :
    o.status = "skipped" ∧ o.expect = some false ∧ ∃ a b, o.orig = some a ∧ o.once = some b ∧ Idempotent a b := by
  unfold judge at h
  split at h
  all_goals try (simp at h; done)
  · split at h
    all_goals try (simp at h; done)
    split at h <;> simp at h
  · rename_i hs
    split at h
    all_goals try (simp at h; done)
    rename_i he
    refine ⟨hs, he, ?_⟩
    unfold judgeSkipped at h
    split at h
    · rename_i a b ha hb
      split at h
      · rename_i hi
        exact ⟨a, b, ha, hb, (idempotentB_iff a b).mp hi⟩
      · simp at h
    · simp at h
  · split at h
    all_goals try (simp at h; done)
    split at h
    · simp at h
    · rcases judgeMonitors_cases o with h' | ⟨c, h'⟩ <;> rw [h'] at h <;> simp at h

/-- `OK rejected` is printed only if the documented decision is known and is "inject", and a refusal was due or allowed. -/
theorem judge_rejected_sound (o : Obs) (h : judge o = .okRejected) :
    o.status = "error" ∧ o.expect = some true ∧ o.refusal ≠ "no" := by
  unfold judge at h
  split at h
  all_goals try (simp at h; done)
  · rename_i hs
    split at h
    all_goals try (simp at h; done)
    rename_i he
    split at h
    · simp at h
    · rename_i hr
      exact ⟨hs, he, hr⟩
  · split at h
    all_goals try (simp at h; done)
    unfold judgeSkipped at h
    split at h
    · split at h <;> simp at h
    · simp at h
  · split at h
    all_goals try (simp at h; done)
    split at h
    · simp at h
    · rcases judgeMonitors_cases o with h' | ⟨c, h'⟩ <;> rw [h'] at h <;> simp at h

/-- The webhook-level decision is judged: an injected pod whose documented decision is "skip", a skipped pod whose
    documented decision is "inject", and any admission whose decision inputs are missing are rejected whatever else
    was observed. -/
theorem judge_decision_checked (o : Obs) :
    (o.status = "injected" → o.expect = some false → judge o = .fail "decision-injected-but-documented-skip") ∧
    (o.status = "skipped" → o.expect = some true → judge o = .fail "decision-skipped-but-documented-inject") ∧
    (o.status = "injected" ∨ o.status = "skipped" ∨ o.status = "error" → o.expect = none →
      judge o = .fail "no-decision-inputs") := by
  refine ⟨?_, ?_, ?_⟩
  · intro hs he; unfold judge; simp [hs, he]
  · intro hs he; unfold judge; simp [hs, he]
  · intro hs he
    unfold judge
    rcases hs with hs | hs | hs <;> simp [hs, he]

/-- `OK injected` implies that the ephemeral containers of the pod are in both results, unchanged. -/
theorem judge_ok_ephemeral_preserved (o : Obs) (h : judge o = .okInjected) :
    ∃ a b c, o.orig = some a ∧ o.once = some b ∧ o.twice = some c ∧
      b.ephemerals = a.ephemerals ∧ c.ephemerals = a.ephemerals := by
  obtain ⟨_, _, _, a, b, c, ha, hb, hc, _, _, _, _, he1, he2, _, _⟩ := judge_injected_sound o h
  exact ⟨a, b, c, ha, hb, hc, he1, he2⟩

/-- A case of the check that did not load is never a pass. -/
theorem judge_unloadable_fails (o : Obs) (h : o.status = "unloadable") : judge o = .fail "unloadable" := by
  unfold judge; simp [h]

/-! Non-vacuity: a concrete observation the monitors accept, and ones they reject. -/


def exApp : CtrObs := { core := { name := "app", image := "nginx", command := ["/app"], args := [], ports := ["http/80/TCP/0/"] }, digest := "d1" }
def exApp2 : CtrObs := { core := { name := "worker", image := "busybox", command := [], args := ["x"], ports := [] }, digest := "d2" }
def exProxy : CtrObs := { core := { name := "istio-proxy", image := "proxyv2", command := [], args := ["proxy"], ports := [] }, digest := "d3" }
def exOrig : RPod := { containers := [exApp, exApp2], volumes := [⟨"data", "v1"⟩] }
def exInit : CtrObs := { core := { name := "istio-init", image := "proxyv2", command := [], args := ["istio-iptables"], ports := [] }, digest := "d4" }
def exOnce : RPod := { containers := [exApp, exApp2, exProxy], inits := [exInit], volumes := [⟨"istio-envoy", "v2"⟩, ⟨"data", "v1"⟩],
                       injC := ["istio-proxy"], injI := ["istio-init"], injV := ["istio-envoy"] }

example : Preserves exOrig exOnce := (preservesB_iff _ _).mp (by decide +kernel)
/-- reordering user containers is rejected -/
example : ¬ Preserves exOrig { exOnce with containers := [exApp2, exApp, exProxy] } :=
  fun h => absurd ((preservesB_iff _ _).mpr h) (by decide +kernel)
/-- dropping a user volume is rejected -/
example : ¬ Preserves exOrig { exOnce with volumes := [⟨"istio-envoy", "v2"⟩] } :=
  fun h => absurd ((preservesB_iff _ _).mpr h) (by decide +kernel)
/-- changing a user container's image is rejected -/
example : ¬ Preserves exOrig { exOnce with containers := [{ exApp with core := { exApp.core with image := "other" } }, exApp2, exProxy] } :=
  fun h => absurd ((preservesB_iff _ _).mpr h) (by decide +kernel)
example : judge { status := "injected", expect := some true, orig := some exOrig, once := some exOnce, twice := some exOnce } = .okInjected := by
  decide +kernel
example : judge { status := "injected", expect := some false, orig := some exOrig, once := some exOnce, twice := some exOnce }
    = .fail "decision-injected-but-documented-skip" := by
  decide +kernel

/-- Finding F10 (before the `fix:` commits in pkg/kube/inject/webhook.go), reduced from the real run on
    fixture `proxy-override.yaml`: the user's `istio-proxy` customisation (cpu limit 3) is in the
    pod after the first injection and gone after the second - the digest of the sidecar container
    differs, everything else is equal - and the monitor rejects the observation. -/
theorem override_reinjection_witness_unfixed :
    judge { status := "injected", expect := some true, orig := some exOrig,
            once := some { exOnce with containers := [exApp, exApp2, { exProxy with digest := "limits-cpu-3" }] },
            twice := some { exOnce with containers := [exApp, exApp2, { exProxy with digest := "limits-cpu-2" }] } }
      = .fail "idempotent containers" := by
  decide +kernel

end IstioModel.C19

namespace IstioModel.C19
/-- the record is judged: a status annotation that lists a volume which is not in the pod is rejected -/
example : ¬ StatusTruthful exOrig { exOnce with injV := ["istio-envoy", "ghost"] } :=
  fun h => absurd ((statusTruthfulB_iff _ _).mpr h) (by decide +kernel)
example : StatusTruthful exOrig exOnce := (statusTruthfulB_iff _ _).mp (by decide +kernel)
/-- an added container that the record does not list is rejected -/
example : ¬ StatusTruthful exOrig { exOnce with injI := [] } :=
  fun h => absurd ((statusTruthfulB_iff _ _).mpr h) (by decide +kernel)
/-- a user container of a reserved name must not vanish -/
example : ¬ Preserves { exOrig with containers := exOrig.containers ++ [{ exApp with core := { exApp.core with name := "enable-core-dump" } }] } exOnce :=
  fun h => absurd ((preservesB_iff _ _).mpr h) (by decide +kernel)
example : judge { status := "injected", expect := none, orig := some exOrig, once := some exOnce, twice := some exOnce }
    = .fail "no-decision-inputs" := by decide +kernel
/-- a second container of a name that is already there (e.g. a second istio-proxy as init container) is rejected -/
example : judge { status := "injected", expect := some true, orig := some exOrig,
                  once := some { exOnce with inits := [exInit, exProxy] }, twice := some { exOnce with inits := [exInit, exProxy] } }
    = .fail "duplicate-container-name" := by decide +kernel
end IstioModel.C19

namespace IstioModel.C19
/-- a lost ephemeral container is rejected -/
example : judge { status := "injected", expect := some true, orig := some { exOrig with ephemerals := [⟨"debugger", "e1"⟩] },
                  once := some exOnce, twice := some exOnce } = .fail "preserve-ephemeral" := by decide +kernel
end IstioModel.C19
