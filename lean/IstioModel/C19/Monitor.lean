/-
C19 - verified monitors for the inject path (T-mon).

The real webhook path (template rendering, strategic merge, overrides re-application,
post-processing) is not modelled; it is *observed*.  The harness reduces the pod before injection,
after one injection and after a second injection to the `RPod` form below; the predicates of this
file judge those observations.  `MonitorTheorems.lean` proves the Boolean checkers sound and
complete for the Prop-level statements.

"Injecting an already injected pod changes nothing further, and injection keeps every user container
and volume, in their relative order, with image, command, arguments and ports unchanged."
-/
namespace IstioModel.C19

/-- The fields of a container the property promises to keep. `ports` are rendered
    `name/containerPort/protocol/hostPort/hostIP`. -/
structure Ctr where
  name    : String
  image   : String
  command : List String
  args    : List String
  ports   : List String
  deriving DecidableEq, Repr, Inhabited

/-- A container as observed: the promised fields plus a digest of the complete container (env,
    mounts, probes, security context, ... - used for idempotence only). -/
structure CtrObs where
  core   : Ctr
  digest : String
  deriving DecidableEq, Repr, Inhabited

structure Vol where
  name   : String
  digest : String      -- digest of the complete volume (source included)
  deriving DecidableEq, Repr, Inhabited

/-- Reduced pod. `injC/injI/injV` are the container / init container / volume names the pod's
    `sidecar.istio.io/status` annotation records as injected (empty when there is none). -/
structure RPod where
  containers : List CtrObs := []
  inits      : List CtrObs := []
  volumes    : List Vol := []
  ephemerals : List Vol := []   -- ephemeral (debug) containers: name and digest of the whole container
  metaD      : String := ""     -- digest of ObjectMeta (labels, annotations, ...)
  specD      : String := ""     -- digest of the pod spec without containers, initContainers, volumes
  injC       : List String := []
  injI       : List String := []
  injV       : List String := []
  deriving DecidableEq, Repr, Inhabited

/-- Container names the injector owns (`ProxyContainerName`, `InitContainerName`,
    `ValidationContainerName`, `EnableCoreDumpName`; tied to the code by `GenTie.constants_tie`).  A
    container of such a name in the user's pod is a customisation of the injected container - it is
    merged with the template, not preserved.  Every other container is a user container, also under
    templates that patch all containers of the pod (grpc-agent, grpc-simple). -/
def reservedNames : List String := ["istio-proxy", "istio-init", "istio-validation", "enable-core-dump"]

/-- Names of all containers of the pod (regular and init). -/
def RPod.ctrNames (p : RPod) : List String := (p.containers ++ p.inits).map (·.core.name)

def RPod.volNames (p : RPod) : List String := p.volumes.map (·.name)

/-- The user's containers: those of the list whose name the injector does not own. -/
def userCtrs (owned : List String) (l : List CtrObs) : List Ctr :=
  (l.map (·.core)).filter (fun c => !owned.contains c.name)

def userVols (owned : List String) (l : List Vol) : List Vol :=
  l.filter (fun v => !owned.contains v.name)

/-- **Preservation** (Prop level): the user's containers, init containers and volumes of `before`
    form an order-preserving sub-list (`List.Sublist`: same elements, same relative order, other
    elements may be interleaved) of the result's, where a container counts as the same only if
    name, image, command, args and ports are all equal, and a volume only if it is equal as a whole.
    A user volume that has the name of a volume the result's status annotation records as injected is
    merged with it and is not covered (that the annotation is a truthful record is `StatusTruthful`).
    A container of a reserved name is a customisation of an injected one: it is merged and may be moved, but it never
    vanishes (4th clause) - also when the template in force does not inject a container of that name. -/
def Preserves (before after : RPod) : Prop :=
  (userCtrs reservedNames before.containers).Sublist (after.containers.map (·.core)) ∧
  (userCtrs reservedNames before.inits).Sublist (after.inits.map (·.core)) ∧
  (userVols after.injV before.volumes).Sublist after.volumes ∧
  (∀ n ∈ before.ctrNames, n ∈ reservedNames → n ∈ after.ctrNames)

def keepsContainersB (before after : RPod) : Bool :=
  (userCtrs reservedNames before.containers).isSublist (after.containers.map (·.core))

def keepsInitsB (before after : RPod) : Bool :=
  (userCtrs reservedNames before.inits).isSublist (after.inits.map (·.core))

def keepsVolumesB (before after : RPod) : Bool :=
  (userVols after.injV before.volumes).isSublist after.volumes

def keepsReservedB (before after : RPod) : Bool :=
  before.ctrNames.all (fun n => !reservedNames.contains n || after.ctrNames.contains n)

/-- The checker the driver runs. -/
def preservesB (before after : RPod) : Bool :=
  keepsContainersB before after && keepsInitsB before after && keepsVolumesB before after && keepsReservedB before after

/-- **The status annotation is a truthful record** of what the injection added: every name it lists is in the pod
    (containers in either list: native sidecars), and every container / volume the pod gained is listed. -/
def StatusTruthful (orig after : RPod) : Prop :=
  (∀ n ∈ after.injC ++ after.injI, n ∈ after.ctrNames) ∧
  (∀ n ∈ after.injV, n ∈ after.volNames) ∧
  (∀ n ∈ after.ctrNames, n ∉ orig.ctrNames → n ∈ after.injC ++ after.injI) ∧
  (∀ n ∈ after.volNames, n ∉ orig.volNames → n ∈ after.injV)

def statusTruthfulB (orig after : RPod) : Bool :=
  (after.injC ++ after.injI).all (after.ctrNames.contains ·) &&
  after.injV.all (after.volNames.contains ·) &&
  after.ctrNames.all (fun n => orig.ctrNames.contains n || (after.injC ++ after.injI).contains n) &&
  after.volNames.all (fun n => orig.volNames.contains n || after.injV.contains n)

/-- No two containers of the pod (regular and init together) share a name - Kubernetes rejects such a pod. -/
def nodupB : List String → Bool
  | [] => true
  | x :: xs => !xs.contains x && nodupB xs

/-- Ephemeral containers are not the injector's business: the result has exactly the pod's, unchanged. -/
def keepsEphemeralB (before after : RPod) : Bool := decide (after.ephemerals = before.ephemerals)

/-- The pod carried no record of an earlier injection (the clause `StatusTruthful orig once` applies to first injections). -/
def RPod.fresh (p : RPod) : Bool := p.injC.isEmpty && p.injI.isEmpty && p.injV.isEmpty

/-- **Idempotence** (Prop level): the second injection returns the pod of the first, in every
    observed component (containers incl. digests of all their fields, volumes, metadata, rest of
    the spec, status record). -/
def Idempotent (once twice : RPod) : Prop := twice = once

def idempotentB (once twice : RPod) : Bool := decide (twice = once)

/-- First component in which two observations differ (diagnostics only). -/
def diffComponent (a b : RPod) : String :=
  if a.containers ≠ b.containers then "containers"
  else if a.inits ≠ b.inits then "inits"
  else if a.volumes ≠ b.volumes then "volumes"
  else if a.ephemerals ≠ b.ephemerals then "ephemerals"
  else if a.metaD ≠ b.metaD then "metadata"
  else if a.specD ≠ b.specD then "spec"
  else if a.injC ≠ b.injC ∨ a.injI ≠ b.injI ∨ a.injV ≠ b.injV then "status"
  else "none"

/-- What the harness observed for one pod. -/
structure Obs where
  status : String := ""
  /-- the documented decision for this admission (`specDecision` of the abstracted inputs, computed by the driver
      with the concrete model `injectRequiredC`); `none` when the trace carries no decision inputs -/
  expect : Option Bool := none
  /-- "must": the injector has to refuse the pod (unknown template, documented-invalid annotation value);
      "may": a repository fixture without golden output; "no": the pod has to be injected -/
  refusal : String := "no"
  orig   : Option RPod := none
  once   : Option RPod := none
  twice  : Option RPod := none
  deriving Repr

inductive Verdict
  | okInjected | okSkipped | okRejected | okNotApplicable
  | fail (clause : String)
  deriving DecidableEq, Repr

/-- The first preservation clause that fails (`none`: the pod is preserved by both injections). -/
def preserveClause (a b c : RPod) : Option String :=
  if !keepsContainersB a b then some "preserve-once-containers"
  else if !keepsInitsB a b then some "preserve-once-inits"
  else if !keepsVolumesB a b then some "preserve-once-volumes"
  else if !keepsReservedB a b then some "preserve-once-reserved"
  else if !keepsContainersB a c then some "preserve-twice-containers"
  else if !keepsInitsB a c then some "preserve-twice-inits"
  else if !keepsVolumesB a c then some "preserve-twice-volumes"
  else if !keepsReservedB a c then some "preserve-twice-reserved"
  else none

/-- The monitors on a complete observation of an injected pod. -/
def judgeMonitors (o : Obs) : Verdict :=
  match o.orig, o.once, o.twice with
  | some a, some b, some c =>
    match preserveClause a b c with
    | some cl => .fail cl
    | none =>
      if !(nodupB b.ctrNames && nodupB c.ctrNames) then .fail "duplicate-container-name"
      else if !(keepsEphemeralB a b && keepsEphemeralB a c) then .fail "preserve-ephemeral"
      else if a.fresh && !statusTruthfulB a b then .fail "status-content"
      else if !idempotentB b c then .fail ("idempotent " ++ diffComponent b c)
      else .okInjected
  | _, _, _ => .fail "incomplete-trace"

/-- A skipped pod must be handed back unchanged. -/
def judgeSkipped (o : Obs) : Verdict :=
  match o.orig, o.once with
  | some a, some b => if idempotentB a b then .okSkipped else .fail "skipped-but-changed"
  | _, _ => .fail "incomplete-trace"

/-- The judgement for one observed pod: first the outcome of the admission (skipped / refused / injected) against
    the documented decision - which has to be known: an observation without decision inputs is rejected -, then the
    monitors. A case of the check that does not load is a failure; "na" is a decision-only case whose precondition
    (the first admission injects) does not hold. -/
def judge (o : Obs) : Verdict :=
  match o.status with
  | "na" => .okNotApplicable
  | "unloadable" => .fail "unloadable"
  | "crash" => .fail "crash"
  | "bad-patch" => .fail "bad-patch"
  | "error-on-reinjection" | "crash-on-reinjection" | "bad-patch-on-reinjection" => .fail "reinjection-errors"
  | "error" =>
    match o.expect with
    | none => .fail "no-decision-inputs"
    | some false => .fail "decision-refused-but-documented-skip"
    | some true => if o.refusal = "no" then .fail "unexpected-refusal" else .okRejected
  | "skipped" =>
    match o.expect with
    | none => .fail "no-decision-inputs"
    | some true => .fail "decision-skipped-but-documented-inject"
    | some false => judgeSkipped o
  | "injected" =>
    match o.expect with
    | none => .fail "no-decision-inputs"
    | some false => .fail "decision-injected-but-documented-skip"
    | some true => if o.refusal = "must" then .fail "expected-refusal-but-injected" else judgeMonitors o
  | _ => .fail "unknown-status"

/-- The line printed for a `check` line (same vocabulary as the harness oracle). -/
def Verdict.render : Verdict → String
  | .okInjected => "OK injected"
  | .okSkipped => "OK skipped"
  | .okRejected => "OK rejected"
  | .okNotApplicable => "OK n/a"
  | .fail c => "FAIL " ++ c

end IstioModel.C19
