import IstioModel.C18.RotateLemmas

/-!
C18 part 1 - theorems about `rotateDelay`, the exact model of `rotateTime`.

Reading guide: `created`, `expire`, `now` are nanosecond instants, `L = expire - created` the
lifetime, `r` the configured grace ratio, `J` the configured jitter bound, `j` the jitter value
drawn by `rand` (any fraction with `-J ≤ j ≤ J`).  All statements hold for every well-formed
fraction (positive denominator); no range restriction on `r`, `J` is needed unless stated.
-/
namespace IstioModel.C18
open Frac

/-! ### Basic range facts -/

/-- `delay ≥ 0` always. -/
theorem delay_nonneg (created expire now : Int) (r j : Frac) : 0 ≤ rotateDelay created expire now r j := by
  unfold rotateDelay; exact le_max_right _ _

theorem jgr_wf {r j : Frac} (hr : r.Wf) (hj : j.Wf) : (jgr r j).Wf := clamp01_wf (add_wf hr hj)

/-- The grace period of a certificate with non-negative lifetime lies in `[0, L]`. -/
theorem grace_nonneg {r j : Frac} {L : Int} (hL : 0 ≤ L) : 0 ≤ grace r j L :=
  mulTrunc_nonneg (clamp01_num_nonneg _) hL

theorem grace_le_life {r j : Frac} {L : Int} (hr : r.Wf) (hj : j.Wf) (hL : 0 ≤ L) : grace r j L ≤ L :=
  mulTrunc_le (jgr_wf hr hj) (clamp01_num_nonneg _) (clamp01_num_le_den _) hL

/-- Monotone in the jitter value for `L ≥ 0`. -/
theorem grace_mono_jitter {r j1 j2 : Frac} {L : Int} (hr : r.Wf) (h1 : j1.Wf) (h2 : j2.Wf) (hL : 0 ≤ L)
    (h : j1 ≤ j2) : grace r j1 L ≤ grace r j2 L :=
  mulTrunc_mono (jgr_wf hr h1) (jgr_wf hr h2) (clamp01_num_nonneg _) hL
    (clamp01_mono (add_wf hr h1) (add_wf hr h2) (add_le_add_left hr h1 h2 h))

theorem grace_anti_jitter {r j1 j2 : Frac} {L : Int} (hr : r.Wf) (h1 : j1.Wf) (h2 : j2.Wf) (hL : L ≤ 0)
    (h : j1 ≤ j2) : grace r j2 L ≤ grace r j1 L :=
  mulTrunc_anti (jgr_wf hr h1) (jgr_wf hr h2) (clamp01_num_nonneg _) hL
    (clamp01_mono (add_wf hr h1) (add_wf hr h2) (add_le_add_left hr h1 h2 h))

/-- Monotone in the configured ratio for `L ≥ 0`. -/
theorem grace_mono_ratio {r1 r2 j : Frac} {L : Int} (h1 : r1.Wf) (h2 : r2.Wf) (hj : j.Wf) (hL : 0 ≤ L)
    (h : r1 ≤ r2) : grace r1 j L ≤ grace r2 j L :=
  mulTrunc_mono (jgr_wf h1 hj) (jgr_wf h2 hj) (clamp01_num_nonneg _) hL
    (clamp01_mono (add_wf h1 hj) (add_wf h2 hj) (add_le_add_right hj h1 h2 h))

/-! ### rotate_before_expiry -/

/-- **Renewal no later than expiry**: for every ratio, every jitter value, every lifetime `≥ 0`, the
    scheduled rotation instant `now + delay` is not after `expire` (as long as `now` itself is not). -/
theorem rotate_not_after_expiry {created expire now : Int} {r j : Frac}
    (hL : created ≤ expire) (hnow : now ≤ expire) :
    now + rotateDelay created expire now r j ≤ expire := by
  have hg : 0 ≤ grace r j (expire - created) := grace_nonneg (by omega)
  unfold rotateDelay
  rcases max_cases (expire - grace r j (expire - created) - now) 0 with ⟨h, _⟩ | ⟨h, _⟩ <;> rw [h] <;> omega

/-- Once the certificate has expired the rotation is immediate. -/
theorem expired_rotates_now {created expire now : Int} {r j : Frac}
    (hL : created ≤ expire) (hnow : expire ≤ now) : rotateDelay created expire now r j = 0 := by
  have hg : 0 ≤ grace r j (expire - created) := grace_nonneg (by omega)
  unfold rotateDelay; exact max_eq_right (by omega)

/-- ... and never before the certificate was created (the grace period is at most the lifetime). -/
theorem rotate_not_before_created {created expire now : Int} {r j : Frac} (hr : r.Wf) (hj : j.Wf)
    (hL : created ≤ expire) :
    created ≤ now + rotateDelay created expire now r j ∨ rotateDelay created expire now r j = 0 := by
  have hg : grace r j (expire - created) ≤ expire - created := grace_le_life hr hj (by omega)
  unfold rotateDelay
  rcases max_cases (expire - grace r j (expire - created) - now) 0 with ⟨h, _⟩ | ⟨h, _⟩ <;> rw [h]
  · left; omega
  · right; rfl

/-- **Strictly before expiry**.  The exact arithmetic side condition: the *smallest* admissible grace
    period, `⌊clamp(r - J)·L⌋` (= `grace r (-J) L`), is at least one nanosecond.  Then for every
    admissible jitter value the rotation instant is strictly before `expire` whenever a positive
    delay is scheduled (or `now` is still before `expire`). -/
theorem rotate_strictly_before_expiry {created expire now : Int} {r J j : Frac}
    (hr : r.Wf) (hJ : J.Wf) (hj : j.Wf) (hjit : JitterOk J j)
    (hL : created ≤ expire)
    (hside : 1 ≤ grace r J.neg (expire - created))
    (hpos : 0 < rotateDelay created expire now r j ∨ now < expire) :
    now + rotateDelay created expire now r j < expire := by
  have hg : grace r J.neg (expire - created) ≤ grace r j (expire - created) :=
    grace_mono_jitter hr (neg_wf hJ) hj (by omega) hjit.1
  unfold rotateDelay at *
  rcases max_cases (expire - grace r j (expire - created) - now) 0 with ⟨h, h'⟩ | ⟨h, h'⟩ <;> rw [h] at * <;> omega

/-- The side condition in the form of the property text: `J ≥ 0`, `r ≤ 1`, and the margin
    `(r - J)·L` is at least one nanosecond (`1 ≤ ⌊(r-J)·L⌋`, which forces `r > J` and `L > 0`). -/
theorem side_condition_of_margin {r J : Frac} {L : Int} (hr : r.Wf) (hJ : J.Wf)
    (hr1 : r ≤ Frac.one) (hJ0 : Frac.zero ≤ J) (hL : 0 ≤ L)
    (hm : 1 ≤ (r.sub J).mulTrunc L) : 1 ≤ grace r J.neg L := by
  have hr' := wf_cast hr; have hJ' := wf_cast hJ
  unfold grace jgr
  have hsub : r.add J.neg = r.sub J := rfl
  rw [hsub]
  -- r - J ≤ 1, so only the lower clamp can apply, and it cannot because the product is ≥ 1
  have hle : ¬ (r.sub J).num > ((r.sub J).den : Int) := by
    rw [le_def] at hr1 hJ0
    simp only [Frac.one, Frac.zero] at hr1 hJ0
    push_cast at hr1 hJ0
    simp only [sub, add, neg]
    push_cast
    have h1 : r.num * (J.den : Int) ≤ (r.den : Int) * (J.den : Int) := by
      have := mul_le_mul_of_nonneg_right hr1 hJ'.le
      linarith
    have h2 : 0 ≤ J.num * (r.den : Int) := mul_nonneg (by omega) hr'.le
    intro hc
    linarith
  by_cases hneg : (r.sub J).num < 0
  · exfalso
    unfold mulTrunc at hm
    have hd : (0 : Int) < ((r.sub J).den : Int) := wf_cast (sub_wf hr hJ)
    have : ((r.sub J).num * L).tdiv ((r.sub J).den : Int) ≤ 0 := by
      have h0 : (r.sub J).num * L ≤ 0 := by nlinarith
      have := Int.tdiv_nonneg (a := -((r.sub J).num * L)) (b := ((r.sub J).den : Int)) (by omega) hd.le
      rw [Int.neg_tdiv] at this; omega
    omega
  · simp only [clamp01, hle, hneg, if_false]; exact hm

theorem rotate_before_expiry {created expire now : Int} {r J j : Frac}
    (hr : r.Wf) (hJ : J.Wf) (hj : j.Wf) (hjit : JitterOk J j)
    (hr1 : r ≤ Frac.one) (hJ0 : Frac.zero ≤ J)
    (hL : created ≤ expire) (hnow : now ≤ expire) :
    0 ≤ rotateDelay created expire now r j ∧
    now + rotateDelay created expire now r j ≤ expire ∧
    (1 ≤ (r.sub J).mulTrunc (expire - created) → 0 < rotateDelay created expire now r j →
      now + rotateDelay created expire now r j < expire) :=
  ⟨delay_nonneg _ _ _ _ _, rotate_not_after_expiry hL hnow,
   fun hm hp => rotate_strictly_before_expiry hr hJ hj hjit hL
     (side_condition_of_margin hr hJ hr1 hJ0 (by omega) hm) (Or.inl hp)⟩

/-- Non-vacuity: Istio's defaults (ratio 0.5, jitter 0.01), a 24 h certificate, jitter -0.01. -/
example : let r : Frac := ⟨1, 2⟩; let J : Frac := ⟨1, 100⟩; let j : Frac := ⟨-1, 100⟩
    r.Wf ∧ J.Wf ∧ j.Wf ∧ JitterOk J j ∧ r ≤ Frac.one ∧ Frac.zero ≤ J ∧
    1 ≤ (r.sub J).mulTrunc 86400000000000 ∧
    rotateDelay 0 86400000000000 1000 r j = 44063999999000 := by decide

/-- The strictness clause of the property text ("strictly before expiry whenever the grace ratio
    exceeds the jitter") needs the side condition: with `r = 1/2 > J = 0` and a one-nanosecond
    lifetime the grace period is `⌊1/2⌋ = 0` and the rotation is scheduled exactly at expiry. -/
theorem strictness_needs_margin :
    ∃ created expire now, ∃ r J j : Frac, r.Wf ∧ J.Wf ∧ j.Wf ∧ JitterOk J j ∧ J < r ∧ created < expire ∧
      0 < rotateDelay created expire now r j ∧ now + rotateDelay created expire now r j = expire :=
  ⟨0, 1, 0, ⟨1, 2⟩, ⟨0, 1⟩, ⟨0, 1⟩, by decide⟩

/-- The weak inequality is tight when the ratio does not exceed the jitter: the jitter value `-r`
    is admissible and schedules the rotation exactly at expiry. -/
theorem rotate_at_expiry_when_ratio_le_jitter {created expire now : Int} {r J : Frac}
    (hr0 : 0 ≤ r.num) (hrJ : r ≤ J) (hnow : now ≤ expire) :
    JitterOk J r.neg ∧ now + rotateDelay created expire now r r.neg = expire := by
  constructor
  · constructor
    · rw [le_def] at *; simp only [neg] at *; nlinarith
    · rw [le_def] at *; simp only [neg] at *
      have : (0:Int) ≤ (J.den : Int) := by positivity
      have : (0:Int) ≤ (r.den : Int) := by positivity
      nlinarith [mul_nonneg hr0 ‹(0:Int) ≤ (J.den : Int)›]
  · have hz : grace r r.neg (expire - created) = 0 := by
      have hnum : (r.add r.neg).num = 0 := by simp only [add, neg]; ring
      have hden : ¬ ((0:Int) > ((r.add r.neg).den : Int)) := by
        have : (0:Int) ≤ ((r.add r.neg).den : Int) := by positivity
        omega
      unfold grace jgr clamp01 mulTrunc
      rw [hnum]
      simp [hden, hnum]
    unfold rotateDelay; rw [hz]
    rcases max_cases (expire - 0 - now) 0 with ⟨h, _⟩ | ⟨h, _⟩ <;> rw [h] <;> omega

/-! ### Corners -/

/-- A certificate that is already expired when it is created (the CA chose `NotAfter` in the past)
    is rotated immediately. -/
theorem expired_at_creation_rotates_now {created expire now : Int} {r j : Frac} (hr : r.Wf) (hj : j.Wf)
    (hL : expire ≤ created) (hnow : created ≤ now) : rotateDelay created expire now r j = 0 := by
  have h1 : grace r j (-(created - expire)) = - grace r j (created - expire) := mulTrunc_neg _ _
  have h2 : grace r j (created - expire) ≤ created - expire := grace_le_life hr hj (by omega)
  have h3 : expire - created = -(created - expire) := by ring
  unfold rotateDelay; rw [h3, h1]
  exact max_eq_right (by omega)

/-- Ratio at least `1 + J`: the clamp makes the grace period the whole lifetime for every jitter
    value, the rotation happens at `created` (immediately when `created ≤ now`). -/
theorem full_grace_when_ratio_ge_one_plus_jitter {created expire now : Int} {r J j : Frac}
    (hr : r.Wf) (hJ : J.Wf) (hj : j.Wf) (hjit : JitterOk J j) (h : Frac.one.add J ≤ r) :
    rotateDelay created expire now r j = max (created - now) 0 := by
  have hr' := wf_cast hr; have hJ' := wf_cast hJ; have hj' := wf_cast hj
  have hone : jgr r j = Frac.one ∨ ((jgr r j).num = ((jgr r j).den : Int) ∧ (jgr r j).Wf) := by
    unfold jgr clamp01
    by_cases h1 : (r.add j).num > ((r.add j).den : Int)
    · left; simp [h1]
    · right
      have h2 : ¬ (r.add j).num < 0 := by
        intro hc
        have := hjit.1
        rw [le_def] at this h
        simp only [add, neg, Frac.one] at *
        push_cast at *
        nlinarith [mul_pos hr' hj', mul_pos hr' hJ', mul_pos hj' hJ',
          mul_le_mul_of_nonneg_right this hr'.le, mul_le_mul_of_nonneg_right h hj'.le]
      simp only [h1, h2, if_false]
      refine ⟨?_, add_wf hr hj⟩
      have := hjit.1
      rw [le_def] at this h
      simp only [add, neg, Frac.one] at *
      push_cast at *
      have e1 : r.num * (j.den:Int) + j.num * (r.den:Int) ≤ (r.den:Int) * (j.den:Int) := by omega
      have a1 := mul_le_mul_of_nonneg_right this hr'.le
      have a2 := mul_le_mul_of_nonneg_right h hj'.le
      have a3 := mul_le_mul_of_nonneg_right e1 hJ'.le
      have key : (r.den:Int) * (j.den:Int) * (J.den:Int) ≤ (r.num * (j.den:Int) + j.num * (r.den:Int)) * (J.den:Int) := by
        nlinarith
      have := le_of_mul_le_mul_right key hJ'
      omega
  have hg : grace r j (expire - created) = expire - created := by
    unfold grace
    rcases hone with h1 | ⟨h1, hw⟩
    · rw [h1]; simp [mulTrunc, Frac.one]
    · unfold mulTrunc; rw [h1]
      have hd := wf_cast hw
      rw [Int.mul_comm, Int.mul_tdiv_cancel _ (ne_of_gt hd)]
  unfold rotateDelay; rw [hg]
  congr 1; ring

/-! ### The admissible interval (what the correspondence check compares the real function with) -/

/-- Every admissible jitter value gives a grace period inside the hull of the two extreme ones
    (any sign of `L`). -/
theorem grace_in_hull {r J j : Frac} {L : Int} (hr : r.Wf) (hJ : J.Wf) (hj : j.Wf) (hjit : JitterOk J j) :
    graceMin r J L ≤ grace r j L ∧ grace r j L ≤ graceMax r J L := by
  unfold graceMin graceMax
  rcases le_total 0 L with hL | hL
  · have h1 := grace_mono_jitter hr (neg_wf hJ) hj hL hjit.1
    have h2 := grace_mono_jitter hr hj hJ hL hjit.2
    exact ⟨le_trans (min_le_left _ _) h1, le_trans h2 (le_max_right _ _)⟩
  · have h1 := grace_anti_jitter hr (neg_wf hJ) hj hL hjit.1
    have h2 := grace_anti_jitter hr hj hJ hL hjit.2
    exact ⟨le_trans (min_le_right _ _) h2, le_trans h1 (le_max_left _ _)⟩

/-- The model delay for any admissible jitter and any `now` in the observation window lies in
    `[delayLo, delayHi]`. -/
theorem delay_in_interval {created expire now0 now now1 : Int} {r J j : Frac}
    (hr : r.Wf) (hJ : J.Wf) (hj : j.Wf) (hjit : JitterOk J j) (h0 : now0 ≤ now) (h1 : now ≤ now1) :
    delayLo created expire now1 r J ≤ rotateDelay created expire now r j ∧
    rotateDelay created expire now r j ≤ delayHi created expire now0 r J := by
  have ⟨ha, hb⟩ := grace_in_hull (L := expire - created) hr hJ hj hjit
  unfold delayLo delayHi rotateDelay
  constructor
  · exact max_le_max (by omega) le_rfl
  · exact max_le_max (by omega) le_rfl

theorem tol_pos (L : Int) : 0 < tol L := by
  unfold tol
  have : (0:Int) ≤ (L.natAbs : Int) / 1125899906842624 := Int.ediv_nonneg (by positivity) (by decide)
  omega

/-- Soundness of the verdict used by the driver: the model's own value is always accepted. -/
theorem inInterval_model {created expire now0 now now1 : Int} {r J j : Frac}
    (hr : r.Wf) (hJ : J.Wf) (hj : j.Wf) (hjit : JitterOk J j) (h0 : now0 ≤ now) (h1 : now ≤ now1) :
    inInterval created expire now0 now1 r J (rotateDelay created expire now r j) = true := by
  have ⟨ha, hb⟩ := delay_in_interval (created := created) (expire := expire) hr hJ hj hjit h0 h1
  have := tol_pos (expire - created)
  unfold inInterval
  simp only [Bool.and_eq_true, decide_eq_true_eq]
  constructor <;> omega

/-- Anything the verdict accepts (up to the float tolerance) still satisfies "not after expiry":
    an accepted observation `d` with `now0 ≤ expire`, lifetime `≥ 0`, obeys `now0 + d ≤ expire + tol`. -/
theorem inInterval_not_after_expiry {created expire now0 now1 : Int} {r J : Frac} {d : Int}
    (hL : created ≤ expire) (hnow : now0 ≤ expire)
    (h : inInterval created expire now0 now1 r J d = true) :
    now0 + d ≤ expire + tol (expire - created) := by
  unfold inInterval at h
  simp only [Bool.and_eq_true, decide_eq_true_eq] at h
  have hg : 0 ≤ graceMin r J (expire - created) := by
    unfold graceMin; exact le_min (grace_nonneg (by omega)) (grace_nonneg (by omega))
  have : delayHi created expire now0 r J ≤ expire - now0 := by
    unfold delayHi; exact max_le (by omega) (by omega)
  omega

/-! ### Monotonicity of the delay -/

/-- A larger configured ratio never rotates later. -/
theorem delay_anti_ratio {created expire now : Int} {r1 r2 j : Frac} (h1 : r1.Wf) (h2 : r2.Wf) (hj : j.Wf)
    (hL : created ≤ expire) (h : r1 ≤ r2) :
    rotateDelay created expire now r2 j ≤ rotateDelay created expire now r1 j := by
  have := grace_mono_ratio (L := expire - created) h1 h2 hj (by omega) h
  unfold rotateDelay; exact max_le_max (by omega) le_rfl

/-- A larger jitter value never rotates later. -/
theorem delay_anti_jitter {created expire now : Int} {r j1 j2 : Frac} (hr : r.Wf) (h1 : j1.Wf) (h2 : j2.Wf)
    (hL : created ≤ expire) (h : j1 ≤ j2) :
    rotateDelay created expire now r j2 ≤ rotateDelay created expire now r j1 := by
  have := grace_mono_jitter (L := expire - created) hr h1 h2 (by omega) h
  unfold rotateDelay; exact max_le_max (by omega) le_rfl

/-- The later `now`, the shorter the delay; the rotation instant `now + delay` never moves back. -/
theorem delay_anti_now {created expire now now' : Int} {r j : Frac} (h : now ≤ now') :
    rotateDelay created expire now' r j ≤ rotateDelay created expire now r j ∧
    now + rotateDelay created expire now r j ≤ now' + rotateDelay created expire now' r j := by
  unfold rotateDelay
  constructor
  · exact max_le_max (by omega) le_rfl
  · rcases max_cases (expire - grace r j (expire - created) - now) 0 with ⟨h1, _⟩ | ⟨h1, _⟩ <;>
    rcases max_cases (expire - grace r j (expire - created) - now') 0 with ⟨h2, _⟩ | ⟨h2, _⟩ <;>
    rw [h1, h2] <;> omega

/-- Without jitter the function is deterministic: the interval collapses to one value. -/
theorem no_jitter_deterministic (created expire now : Int) (r : Frac) (J : Frac) (hJ : J.num = 0) :
    delayLo created expire now r J = delayHi created expire now r J := by
  have : J.neg = J := by cases J; simp_all [neg]
  unfold delayLo delayHi graceMin graceMax; rw [this]; simp

end IstioModel.C18
