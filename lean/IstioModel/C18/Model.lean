import IstioModel.C18.Rotate

/-!
C18, part 2: `SecretManagerClient` (security/pkg/nodeagent/cache/secretcache.go) as a system of
processes that interleave at atomic steps.  One step = at most one access to a shared variable
(`cache.workload`, `cache.certRoot`, `configTrustBundle`, `generateMutex`, the delayed queue) or
one external call (the CA client, the secret handler).  Purely local computation is merged into
the neighbouring step; two writes are merged only where the second one commutes with every step
of every other process (the root comparison with `SetRoot`, and `OnSecretUpdate(ROOTCA)` with, for ROOTCA, the read of
`configTrustBundle` for the merge: every access to `certRoot` on the CA path is protected by
`generateMutex`).  Pairs of writes whose ORDER matters to a subscriber are separate steps:
`SetWorkload(&item)` then `PushDelayed` (a zero-delay task must find its certificate cached),
`SetRoot` then `OnSecretUpdate(ROOTCA)`, store `configTrustBundle` then `OnSecretUpdate(ROOTCA)`.  `SetWorkload(nil)` and the following `OnSecretUpdate(default)`
are two steps: their order is part of the property (the callback must find the cache empty).

Abstractions: PEM root certificates are `Nat` ids (a bundle = list of ids in byte order, compared
with list equality as `bytes.Equal` does); a private key / leaf certificate is the index of the CSR
it belongs to.  The CA signs the CSR it is given.  File-mounted certificates, `OutputKeyCertToDir`
and the fsnotify paths are not modelled.  Core Lean only.
-/
namespace IstioModel.C18

/-- Requested resource: `default` (workload key+cert) or `ROOTCA`. -/
inductive Res | workload | root
  deriving DecidableEq, Repr

/-- `security.SecretItem` as produced by generateNewSecret. -/
structure Item where
  key     : Nat          -- private key generated for CSR number `key`
  cert    : Nat          -- leaf certificate issued for CSR number `cert`
  root    : List Nat     -- RootCert bytes of that CA response
  created : Int
  expire  : Int
  deriving DecidableEq, Repr

/-- Behaviour of the CA client for one generateNewSecret call (input). `err` covers a CSRSign error,
    a GetRootCertBundle error and an unparsable certificate chain. -/
inductive CAOut
  | ok (ttl : Int) (signer : Nat) (bundle : List Nat)
  | err
  deriving DecidableEq, Repr

/-- Environment input of one atomic step (each step uses what it needs). -/
structure Input where
  ca  : CAOut := .err
  now : Int := 0
  jit : Frac := ⟨0, 1⟩

/-- Result of GenerateSecret. -/
structure Ret where
  ok   : Bool
  key  : Option Nat := none
  cert : Option Nat := none
  root : Option (List Nat) := none
  deriving DecidableEq, Repr

/-- `OnSecretUpdate(resourceName)` callbacks. A `default` callback records whether the workload cache
    was empty at the instant of the callback: a subscriber that re-requests from inside the callback
    gets a new certificate only then (otherwise it hits the old one and nobody renews it). -/
inductive Ev
  | rootca (updated : Bool)      -- the announced value (configTrustBundle / certRoot) is already stored at the callback
  | workload (cacheEmpty : Bool)
  deriving DecidableEq, Repr

/-- A task pushed to the delayed queue by registerSecret. -/
structure Entry where
  created    : Int        -- item.CreatedTime captured by the closure (the stale check compares it)
  delay      : Int        -- result of rotateTime
  pushedAt   : Int        -- `now` of PushDelayed: runAt = pushedAt + delay
  expire     : Int        -- ghost: ExpireTime of the item
  computedAt : Int        -- ghost: `now` read by rotateTime
  key        : Nat := 0   -- ghost: key id of the item the task was scheduled for
  cachedAtPush : Bool := true -- ghost: the workload cache was non-empty when PushDelayed ran
  fired      : Bool := false
  deriving DecidableEq, Repr

structure State where
  ratio    : Frac := ⟨1, 2⟩      -- SecretRotationGracePeriodRatio
  jitter   : Frac := ⟨0, 1⟩      -- SecretRotationGracePeriodRatioJitter
  workload : Option Item := none  -- cache.workload
  certRoot : List Nat := []       -- cache.certRoot
  cfg      : List Nat := []       -- configTrustBundle
  queue    : List Entry := []     -- every task ever pushed, in push order
  mutex    : Option Nat := none   -- owner of generateMutex
  caCalls  : Nat := 0             -- CSRSign invocations so far (= id of the next CSR)
  events   : List Ev := []        -- callbacks so far, oldest first
  -- ghost counters (never read by the transitions)
  clears       : Nat := 0         -- number of SetWorkload(nil) executed
  okSinceClear : Nat := 0         -- successful CA calls since the last SetWorkload(nil)
  stores       : Nat := 0         -- number of SetWorkload(&item) executed
  cfgWrites    : Nat := 0         -- number of stores to configTrustBundle

/-! ### mergeTrustAnchorBytes: set union, sorted, de-duplicated -/

def insertS (x : Nat) : List Nat → List Nat
  | [] => [x]
  | y :: ys => if x < y then x :: y :: ys else if x = y then y :: ys else y :: insertS x ys

def sortDedup (l : List Nat) : List Nat := l.foldr insertS []

def mergeAnchors (cfg roots : List Nat) : List Nat := sortDedup (cfg ++ roots)

/-! ### Processes -/

inductive Proc
  | idle
  -- GenerateSecret(res)
  | gRead (res : Res) (locked : Bool)       -- getCachedSecret: read cache.workload (fast path / re-check under the mutex)
  | gMerge (roots : List Nat) (locked : Bool) -- getCachedSecret(ROOTCA): read configTrustBundle, merge
  | gLock (res : Res)                       -- generateMutex.Lock()
  | gCallCA (res : Res)                     -- generateNewSecret
  | gRegCheck (res : Res) (it : Item)       -- registerSecret: rotateTime, `if GetWorkload() != nil return`
  | gRegStore (res : Res) (it : Item) (delay : Int) (cat : Int) -- SetWorkload(&item)
  | gRegPush (res : Res) (it : Item) (delay : Int) (cat : Int) (mark : Nat) -- PushDelayed; mark = ghost: `clears` when it stored
  | gAfterReg (res : Res) (it : Item)       -- root comparison + SetRoot (no change: merge for ROOTCA, done)
  | gNotifyRoot (res : Res) (it : Item)     -- OnSecretUpdate(ROOTCA) | merge for ROOTCA
  | gUnlock (ret : Ret)                     -- deferred generateMutex.Unlock()
  | gDone (ret : Ret)
  -- rotation callback of queue entry `e`
  | tCheck (e : Nat)                        -- read cache.workload, compare CreatedTime
  | tClear (e : Nat)                        -- SetWorkload(nil)
  | tNotify (e : Nat) (mark : Nat)          -- OnSecretUpdate(default); mark = ghost: `stores` when it cleared
  | tDone (e : Nat) (cleared : Bool)
  -- UpdateConfigTrustBundle(b)
  | uSet (b : List Nat)                     -- compare, store configTrustBundle
  | uNotifyRoot (b : List Nat) (mark : Nat) -- OnSecretUpdate(ROOTCA); mark = ghost: `cfgWrites` after its store
  | uClear                                  -- SetWorkload(nil)
  | uNotify (mark : Nat)                    -- OnSecretUpdate(default)
  | uDone (changed : Bool)
  deriving DecidableEq, Repr

/-- Process kinds that can be started. -/
inductive Kind
  | gen (res : Res)
  | timer (e : Nat)
  | update (b : List Nat)
  deriving DecidableEq, Repr

def upd {α : Type} (f : Nat → α) (p : Nat) (v : α) : Nat → α := fun q => if q = p then v else f q

structure Sys where
  st     : State := {}
  procs  : Nat → Proc := fun _ => .idle
  born   : Nat → Nat := fun _ => 0     -- ghost: `clears` when the process started
  doneAt : Nat → Nat := fun _ => 0     -- ghost: `clears` when a GenerateSecret call returned

/-- A GenerateSecret call leaves getCachedSecret with a result: straight return on the fast path,
    deferred unlock on the re-check path. -/
def finish (y : Sys) (p : Nat) (locked : Bool) (ret : Ret) : Sys :=
  if locked then { y with procs := upd y.procs p (.gUnlock ret) }
  else { y with procs := upd y.procs p (.gDone ret), doneAt := upd y.doneAt p y.st.clears }

/-- `sc.cache.SetWorkload(nil)`. -/
def clearWorkload (s : State) : State :=
  { s with workload := none, clears := s.clears + 1, okSinceClear := 0 }

/-- `sc.OnSecretUpdate(default)`: the callback observes the cache as it is now. -/
def notifyWorkload (s : State) : State :=
  { s with events := s.events ++ [Ev.workload s.workload.isNone] }

def newItem (s : State) (now ttl : Int) (signer : Nat) (bundle : List Nat) : Item :=
  { key := s.caCalls, cert := s.caCalls,
    root := if bundle.isEmpty then [signer] else bundle,   -- no bundle: last element of the chain
    created := now, expire := now + ttl }

/-- GenerateSecret after registerSecret, shared state: "if periodic cert refresh resulted in discovery
    of a new root, trigger a ROOTCA request": compare the response's root with `cache.certRoot`, record
    it and call `OnSecretUpdate(ROOTCA)` when it differs.  Since the `fix:` commit in /repo this is done
    for both resources (before it, only for `default`, see `afterRegStateUnfixed`). -/
def afterRegState (s : State) (it : Item) : State :=
  if s.certRoot = it.root then s
  else { s with certRoot := it.root, events := s.events ++ [Ev.rootca true] }

/-- ... and the value returned to the caller (`ROOTCA`: the root merged with the configured anchors). -/
def afterRegRet (s : State) (res : Res) (it : Item) : Ret :=
  { ok := true, key := some it.key, cert := some it.cert,
    root := some (match res with
      | .root => mergeAnchors s.cfg it.root
      | .workload => it.root) }

/-- The behaviour before the fix: a ROOTCA request that reached the CA neither compared nor recorded
    nor announced the root of the response. -/
def afterRegStateUnfixed (s : State) (res : Res) (it : Item) : State :=
  match res with
  | .root => s
  | .workload => afterRegState s it

/-- `sc.queue.PushDelayed(task, delay)`: the task records whether its certificate was cached at that instant. -/
def pushState (s : State) (it : Item) (delay at_ now : Int) : State :=
  { s with queue := s.queue ++ [{ created := it.created, delay := delay, pushedAt := now, expire := it.expire,
                                   computedAt := at_, key := it.key, cachedAtPush := s.workload.isSome }] }

/-- One atomic step of process `p` with environment input `i`. -/
def step (y : Sys) (p : Nat) (i : Input) : Sys :=
  match y.procs p with
  | .idle => y
  | .gRead res locked =>
    match y.st.workload with
    | some c =>
      match res with
      | .workload => finish y p locked { ok := true, key := some c.key, cert := some c.cert }
      | .root => { y with procs := upd y.procs p (.gMerge c.root locked) }
    | none =>
      if locked then { y with procs := upd y.procs p (.gCallCA res) }
      else { y with procs := upd y.procs p (.gLock res) }
  | .gMerge roots locked => finish y p locked { ok := true, root := some (mergeAnchors y.st.cfg roots) }
  | .gLock res =>
    match y.st.mutex with
    | none => { y with st := { y.st with mutex := some p }, procs := upd y.procs p (.gRead res true) }
    | some _ => y       -- blocked
  | .gCallCA res =>
    match i.ca with
    | .err => { y with st := { y.st with caCalls := y.st.caCalls + 1 }, procs := upd y.procs p (.gUnlock { ok := false }) }
    | .ok ttl signer bundle =>
      { y with st := { y.st with caCalls := y.st.caCalls + 1, okSinceClear := y.st.okSinceClear + 1 },
               procs := upd y.procs p (.gRegCheck res (newItem y.st i.now ttl signer bundle)) }
  | .gRegCheck res it =>
    match y.st.workload with
    | some _ => { y with procs := upd y.procs p (.gAfterReg res it) }    -- "skip scheduling, already scheduled"
    | none =>
      let delay := rotateDelay it.created it.expire i.now y.st.ratio i.jit
      { y with procs := upd y.procs p (.gRegStore res it delay i.now) }
  | .gRegStore res it delay at_ =>
    { y with st := { y.st with workload := some it, stores := y.st.stores + 1 },
             procs := upd y.procs p (.gRegPush res it delay at_ y.st.clears) }
  | .gRegPush res it delay at_ _ =>
    { y with st := pushState y.st it delay at_ i.now, procs := upd y.procs p (.gAfterReg res it) }
  | .gAfterReg res it =>
    if y.st.certRoot = it.root then { y with procs := upd y.procs p (.gUnlock (afterRegRet y.st res it)) }
    else { y with st := { y.st with certRoot := it.root }, procs := upd y.procs p (.gNotifyRoot res it) }
  | .gNotifyRoot res it =>
    { y with st := { y.st with events := y.st.events ++ [Ev.rootca (decide (y.st.certRoot = it.root))] },
             procs := upd y.procs p (.gUnlock (afterRegRet y.st res it)) }
  | .gUnlock ret =>
    { y with st := { y.st with mutex := none }, procs := upd y.procs p (.gDone ret),
             doneAt := upd y.doneAt p y.st.clears }
  | .gDone _ => y
  | .tCheck e =>
    match y.st.queue[e]?, y.st.workload with
    | some en, some c =>
      if c.created = en.created then { y with procs := upd y.procs p (.tClear e) }
      else { y with procs := upd y.procs p (.tDone e false) }
    | _, _ => { y with procs := upd y.procs p (.tDone e false) }
  | .tClear e => { y with st := clearWorkload y.st, procs := upd y.procs p (.tNotify e y.st.stores) }
  | .tNotify e _ => { y with st := notifyWorkload y.st, procs := upd y.procs p (.tDone e true) }
  | .tDone _ _ => y
  | .uSet b =>
    if y.st.cfg = b then { y with procs := upd y.procs p (.uDone false) }
    else { y with st := { y.st with cfg := b, cfgWrites := y.st.cfgWrites + 1 },
                  procs := upd y.procs p (.uNotifyRoot b (y.st.cfgWrites + 1)) }
  | .uNotifyRoot b _ =>
    { y with st := { y.st with events := y.st.events ++ [Ev.rootca (decide (y.st.cfg = b))] }, procs := upd y.procs p .uClear }
  | .uClear => { y with st := clearWorkload y.st, procs := upd y.procs p (.uNotify y.st.stores) }
  | .uNotify _ => { y with st := notifyWorkload y.st, procs := upd y.procs p (.uDone true) }
  | .uDone _ => y

def markFired (q : List Entry) (e : Nat) : List Entry :=
  match q[e]? with
  | some en => q.set e { en with fired := true }
  | none => q

/-- Start a process in the free slot `p`.  A queue entry is run at most once. -/
def spawn (y : Sys) (p : Nat) (k : Kind) : Sys :=
  match y.procs p with
  | .idle =>
    match k with
    | .gen res => { y with procs := upd y.procs p (.gRead res false), born := upd y.born p y.st.clears }
    | .timer e =>
      match y.st.queue[e]? with
      | some en =>
        if en.fired then y
        else { y with st := { y.st with queue := markFired y.st.queue e }, procs := upd y.procs p (.tCheck e) }
      | none => y
    | .update b => { y with procs := upd y.procs p (.uSet b) }
  | _ => y

inductive Act
  | spawn (p : Nat) (k : Kind)
  | step (p : Nat) (i : Input)

def apply (y : Sys) : Act → Sys
  | .spawn p k => spawn y p k
  | .step p i => step y p i

def run (y : Sys) (as : List Act) : Sys := as.foldl apply y

def Sys.init (ratio jitter : Frac) : Sys := { st := { ratio := ratio, jitter := jitter } }

def stepN : Nat → Sys → Nat → Input → Sys
  | 0, y, _, _ => y
  | n + 1, y, p, i => stepN n (step y p i) p i

/-- Run process `p` alone until it is finished (no process needs more than 12 steps): this is what a
    sequential caller observes, and what the `cache` stream compares with the real code. -/
def runAlone (y : Sys) (p : Nat) (i : Input) : Sys := stepN 12 y p i

/-- A whole sequential operation in slot `p`. -/
def seqOp (y : Sys) (p : Nat) (k : Kind) (i : Input) : Sys := runAlone (spawn y p k) p i

end IstioModel.C18
