import IstioModel.Common.Wire
import IstioModel.C18.Rotate

/-! Line-protocol driver for C18. See harness/c18/main.go for the op formats.

Stream `rotate`:
  `rot <cOff> <eOff> <rNum> <rDen> <JNum> <JDen> <mono>`               -> `iv <lo> <hi> <tol>`   (window [0,0])
  `rotobs <cOff> <eOff> <rNum> <rDen> <JNum> <JDen> <mono> (<d> <w0> <w1>)*`
        real observations: delay `d` returned by a call that happened in the window `[w0,w1]`
        (ns after the base instant that `cOff`/`eOff` refer to)            -> `in` | `out ...`
-/
namespace IstioModel.C18
open IstioModel.Wire

def frac? (n d : String) : Option Frac :=
  match n.toInt?, d.toNat? with
  | some a, some b => if b = 0 then none else some ⟨a, b⟩
  | _, _ => none

def obsAll (c e : Int) (r J : Frac) : List String → Option (List String)
  | [] => some []
  | d :: w0 :: w1 :: rest =>
    match d.toInt?, w0.toInt?, w1.toInt? with
    | some d, some w0, some w1 =>
      let bad := if inInterval c e w0 w1 r J d then []
        else [s!"d={d},w={w0}..{w1},lo={delayLo c e w1 r J},hi={delayHi c e w0 r J},tol={tol (e - c)}"]
      (obsAll c e r J rest).map (bad ++ ·)
    | _, _, _ => none
  | _ => none

def stepRotate (toks : List String) : String :=
  match toks with
  | ["rot", c, e, rn, rd, jn, jd, _] =>
    match c.toInt?, e.toInt?, frac? rn rd, frac? jn jd with
    | some c, some e, some r, some J =>
      s!"iv {delayLo c e 0 r J} {delayHi c e 0 r J} {tol (e - c)}"
    | _, _, _, _ => "bad-op"
  | "rotobs" :: c :: e :: rn :: rd :: jn :: jd :: _ :: obs =>
    match c.toInt?, e.toInt?, frac? rn rd, frac? jn jd with
    | some c, some e, some r, some J =>
      match obsAll c e r J obs with
      | some [] => "in"
      | some bad => "out " ++ " ".intercalate bad
      | none => "bad-op"
    | _, _, _, _ => "bad-op"
  | _ => "bad-op"

structure DState where
  dummy : Nat := 0

def stepD (d : DState) (toks : List String) : DState × String :=
  match toks with
  | "case" :: _ => (d, "ok")
  | "rot" :: _ => (d, stepRotate toks)
  | "rotobs" :: _ => (d, stepRotate toks)
  | _ => (d, "bad-op")

end IstioModel.C18
