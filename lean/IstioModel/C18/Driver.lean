import IstioModel.Common.Wire
import IstioModel.C18.Rotate
import IstioModel.C18.Model

/-! Line-protocol driver for C18. See harness/c18/main.go for the op formats.

Stream `rotate`:
  `rot <cOff> <eOff> <rNum> <rDen> <JNum> <JDen> <mono>`               -> `iv <lo> <hi> <tol>`   (window [0,0])
  `rotobs <cOff> <eOff> <rNum> <rDen> <JNum> <JDen> <mono> (<d> <w0> <w1>)*`
        real observations: delay `d` returned by a call that happened in the window `[w0,w1]`
        (ns after the base instant that `cOff`/`eOff` refer to)            -> `in` | `out ...`
-/
namespace IstioModel.C18
open IstioModel.Wire

def frac? (n d : String) : Option Frac :=
  match n.toInt?, d.toNat? with
  | some a, some b => if b = 0 then none else some ⟨a, b⟩
  | _, _ => none

def obsAll (c e : Int) (r J : Frac) : List String → Option (List String)
  | [] => some []
  | d :: w0 :: w1 :: rest =>
    match d.toInt?, w0.toInt?, w1.toInt? with
    | some d, some w0, some w1 =>
      let bad := if inInterval c e w0 w1 r J d then []
        else [s!"d={d},w={w0}..{w1},lo={delayLo c e w1 r J},hi={delayHi c e w0 r J},tol={tol (e - c)}"]
      (obsAll c e r J rest).map (bad ++ ·)
    | _, _, _ => none
  | _ => none

def stepRotate (toks : List String) : String :=
  match toks with
  | ["rot", c, e, rn, rd, jn, jd, _] =>
    match c.toInt?, e.toInt?, frac? rn rd, frac? jn jd with
    | some c, some e, some r, some J =>
      s!"iv {delayLo c e 0 r J} {delayHi c e 0 r J} {tol (e - c)}"
    | _, _, _, _ => "bad-op"
  | "rotobs" :: c :: e :: rn :: rd :: jn :: jd :: _ :: obs =>
    match c.toInt?, e.toInt?, frac? rn rd, frac? jn jd with
    | some c, some e, some r, some J =>
      match obsAll c e r J obs with
      | some [] => "in"
      | some bad => "out " ++ " ".intercalate bad
      | none => "bad-op"
    | _, _, _, _ => "bad-op"
  | _ => "bad-op"

/-! Stream `cache`: sequential op scripts on the state machine (each op = one process run alone).

  `case <n> cache <rNum> <rDen> <JNum> <JDen>`      reset, configured ratio / jitter bound
  `gen <w|r> ok <ttlSec> <signer> <bundle>`        GenerateSecret(default|ROOTCA); CA behaviour if it is called
  `gen <w|r> signerr|bundleerr|garbage|emptychain`
  `bundle <letters|->`                              UpdateConfigTrustBundle
  `fire <k>`                                        run the rotation callback of the k-th pushed queue entry

Roots are letters `A`.. (id 0..), bundles are strings of letters (`-` = empty).

Stream `conc`: `conc <N> <kErr> <seed> <kinds>`: N concurrent GenerateSecret calls (kinds: one letter
w/r per call), the first kErr CA calls fail; the model runs one (seed-chosen) interleaving. -/

def rootsTok (l : List Nat) : String :=
  if l.isEmpty then "-" else String.ofList (l.map fun n => Char.ofNat (65 + n))

def tokRoots (t : String) : List Nat :=
  if t == "-" then [] else t.toList.map fun c => c.toNat - 65

def optNat : Option Nat → String
  | none => "-"
  | some n => toString n

def evTok (l : List Ev) : String :=
  if l.isEmpty then "-" else String.ofList (l.map fun e => match e with
    | .rootca true => 'R'       -- `ROOTCA` callback with the announced value already stored
    | .rootca false => 'r'
    | .workload true => 'W'     -- `default` callback that found the workload cache empty
    | .workload false => 'w')

/-- Nearest quarter of `delay / lifetime` (0..4); for a non-positive lifetime 0 iff the delay is 0. -/
def bucket (d L : Int) : Int :=
  if L ≤ 0 then (if d = 0 then 0 else 9) else (8 * d + L) / (2 * L)

def showState (s : State) : String :=
  let wl := match s.workload with
    | none => "-"
    | some it => toString it.key
  s!"wl={wl} croot={rootsTok s.certRoot} cfg={rootsTok s.cfg} q={s.queue.length} ca={s.caCalls}"

def showRet (r : Ret) : String :=
  let root := match r.root with
    | none => "none"
    | some l => rootsTok l
  (if r.ok then "ok" else "err") ++ s!" key={optNat r.key} cert={optNat r.cert} root={root}"

/-- An SDS subscriber (stream `sds`). -/
structure Sub where
  id    : Nat
  res   : String             -- subset of "wr" it is subscribed to ("" after an xDS unsubscribe)
  state : String := "live"   -- live | gone (closed by the client) | closed (ended by the server)
  n     : Nat := 0           -- responses received
  lastW : String := ""       -- last `default` content
  lastR : String := ""       -- last `ROOTCA` content

structure DState where
  sys  : Sys := {}
  next : Nat := 0        -- next free process slot
  tick : Int := 0        -- logical clock: one tick per op
  subs : List Sub := []  -- stream `sds`, in subscription order (ids increase)
  sds  : Bool := false   -- the case is an `sds` case
  nilca : Bool := false  -- `cache` variant: the client has no CA client (generateNewSecret fails before any request)
  kube : Bool := false   -- `file` variant: kubelet-style ..data symlink volume
  file : Bool := false   -- the case is a `file` case (file-mounted certificates)
  fileWv : Nat := 0      -- stream `file`: version of the key/cert pair on disk
  fileRoot : Nat := 0    -- stream `file`: root on disk
  fileCroot : List Nat := [] -- stream `file`: cache.certRoot (set by generateRootCertFromExistingFile)
  cafail : Nat := 0      -- stream `sds`: CA calls that still have to fail
  caroot : Nat := 0      -- stream `sds`: root the CA signs with

/-- The nearest-quarter bucket does not depend on the jitter draw: ratio a quarter, jitter bound ≤ 1/16. -/
def bucketable (s : State) : Bool :=
  decide (s.jitter.num * 16 ≤ (s.jitter.den : Int)) && decide ((s.ratio.num * 4) % (s.ratio.den : Int) = 0)

def newBucket (before after : State) : String :=
  if after.queue.length > before.queue.length then
    match after.queue.getLast? with
    | some en => if bucketable after then toString (bucket en.delay (en.expire - en.created)) else "*"
    | none => "-"
  else "-"

/-- `P`: PushDelayed ran with the certificate already cached, `p`: with the cache still empty. -/
def newPush (before after : State) : String :=
  if after.queue.length > before.queue.length then
    match after.queue.getLast? with
    | some en => if en.cachedAtPush then "P" else "p"
    | none => "-"
  else "-"

def caOfToks : List String → Option CAOut
  | ["ok", ttl, signer, bundle] =>
    match ttl.toInt? with
    | some t => some (.ok (t * 1000000000) ((tokRoots signer).headD 0) (tokRoots bundle))
    | none => none
  | ["signerr"] => some .err
  | ["bundleerr"] => some .err
  | ["garbage"] => some .err
  | ["emptychain"] => some .err
  | _ => none

def stepCache (d : DState) (toks : List String) : DState × String :=
  -- no CA client: "attempted to fetch secret, but ca client is nil" - an error, nothing else happens
  if d.nilca && toks.head? == some "gen" then
    (d, s!"err key=- cert=- root=none ev=- nb=- push=- | {showState d.sys.st}") else
  let now := d.tick * 1000000
  let d1 := { d with next := d.next + 1, tick := d.tick + 1 }
  let before := d.sys.st
  let evs (after : State) := evTok (after.events.drop before.events.length)
  match toks with
  | "gen" :: r :: ca =>
    match (if r == "w" then some Res.workload else if r == "r" then some Res.root else none), caOfToks ca with
    | some res, some out =>
      let y := seqOp d.sys d.next (.gen res) { ca := out, now := now }
      match y.procs d.next with
      | .gDone ret => ({ d1 with sys := y }, s!"{showRet ret} ev={evs y.st} nb={newBucket before y.st} push={newPush before y.st} | {showState y.st}")
      | _ => (d1, "stuck")
    | _, _ => (d, "bad-op")
  | ["bundle", b] =>
    let y := seqOp d.sys d.next (.update (tokRoots b)) { now := now }
    match y.procs d.next with
    | .uDone ch => ({ d1 with sys := y }, s!"changed={boolTok ch} ev={evs y.st} | {showState y.st}")
    | _ => (d1, "stuck")
  | ["fire", k] =>
    match k.toNat? with
    | none => (d, "bad-op")
    | some e =>
      let y := seqOp d.sys d.next (.timer e) { now := now }
      match y.procs d.next with
      | .tDone _ cl => ({ d1 with sys := y }, s!"{if cl then "clear" else "noop"} ev={evs y.st} | {showState y.st}")
      | _ => ({ d1 with sys := y }, s!"none ev={evs y.st} | {showState y.st}")
  | _ => (d, "bad-op")

/-! ### conc -/

def isDone : Proc → Bool
  | .gDone _ => true
  | .idle => true
  | _ => false

def isBlocked (y : Sys) : Proc → Bool
  | .gLock _ => y.st.mutex.isSome
  | _ => false

def lcg (s : Nat) : Nat := (s * 6364136223846793005 + 1442695040888963407) % 18446744073709551616

def concLoop (n kErr : Nat) : Nat → Nat → Sys → Sys
  | 0, _, y => y
  | fuel + 1, seed, y =>
    let live := (List.range n).filter fun p => !isDone (y.procs p) && !isBlocked y (y.procs p)
    if live.isEmpty then y else
    let seed' := lcg seed
    let p := live.getD ((seed' / 65536) % live.length) 0
    let ca : CAOut := if y.st.caCalls < kErr then .err else .ok 3600000000000 0 []
    concLoop n kErr fuel seed' (step y p { ca := ca, now := (y.st.caCalls : Int) * 1000 })

def insertNat (x : Nat) : List Nat → List Nat
  | [] => [x]
  | y :: ys => if x < y then x :: y :: ys else if x = y then y :: ys else y :: insertNat x ys

def stepConc (toks : List String) : String :=
  match toks with
  | ["conc", n, k, seed, kinds] =>
    match n.toNat?, k.toNat?, seed.toNat? with
    | some n, some k, some seed =>
      let ks := kinds.toList
      let y0 := (List.range n).foldl (fun y p => spawn y p (.gen (if ks.getD p 'w' == 'r' then .root else .workload)))
                  (Sys.init ⟨1, 2⟩ ⟨0, 1⟩)
      let y := concLoop n k (64 * n + 64) seed y0
      let rets := (List.range n).filterMap fun p => match y.procs p with
        | .gDone r => some r
        | _ => none
      if rets.length ≠ n then "stuck" else
      let errs := (rets.filter fun r => !r.ok).length
      let keys := rets.foldr (fun r acc => match r.key with | some kk => insertNat kk acc | none => acc) []
      let certs := rets.foldr (fun r acc => match r.cert with | some kk => insertNat kk acc | none => acc) []
      let ks := if keys.isEmpty then "-" else ",".intercalate (keys.map toString)
      let cs := if certs.isEmpty then "-" else ",".intercalate (certs.map toString)
      let wl := match y.st.workload with
        | none => "-"
        | some it => toString it.key
      s!"calls={y.st.caCalls} errs={errs} keys={ks} certs={cs} q={y.st.queue.length} ev={evTok y.st.events} wl={wl}"
    | _, _, _ => "bad-op"
  | _ => "bad-op"

/-! Stream `timer`: `rt <ttlSec> <rNum> <rDen> <stale>` - the scenario the harness plays on the real
delayed queue (request; [bundle change; request;] all rotation callbacks in push order; request). -/
def stepTimer (toks : List String) : String :=
  match toks with
  | ["rt", ttl, rn, rd, stale] =>
    match ttl.toInt?, frac? rn rd with
    | some t, some r =>
      let ca : CAOut := .ok (t * 1000000000) 0 []
      let y0 := seqOp (Sys.init r ⟨0, 1⟩) 0 (.gen .workload) { ca := ca, now := 0 }
      let y := if stale == "1" then
          let y1 := seqOp y0 1 (.update [1]) { now := 1000 }
          let y2 := seqOp y1 2 (.gen .workload) { ca := ca, now := 2000 }
          let y3 := seqOp y2 3 (.timer 0) { now := 3000 }
          let y4 := seqOp y3 4 (.timer 1) { now := 4000 }
          seqOp y4 5 (.gen .workload) { ca := ca, now := 5000 }
        else
          let y1 := seqOp y0 1 (.timer 0) { now := 1000 }
          seqOp y1 2 (.gen .workload) { ca := ca, now := 2000 }
      let wl := match y.st.workload with
        | none => "-"
        | some it => toString it.key
      s!"ev={evTok y.st.events} calls={y.st.caCalls} wl={wl} early=0 late=0"
    | _, _ => "bad-op"
  | _ => "bad-op"

/-! Stream `sds`: the SDS server in front of the agent pushes a callback's resource to every current
subscriber of that resource; a pushed subscriber re-requests it with GenerateSecret (sequentially here:
by `single_flight_*` the outcome does not depend on the interleaving). -/

def descRet (res : Res) (r : Ret) : String :=
  match res with
  | .workload => s!"key={optNat r.key},cert={optNat r.cert}"
  | .root => "root=" ++ (match r.root with | some l => rootsTok l | none => "-")

/-- One GenerateSecret by a subscriber; returns the new driver state and the answer (`none`: error). -/
def sdsGen (d : DState) (res : Res) : DState × Option String :=
  let ca : CAOut := if d.cafail > 0 then .err else .ok 3600000000000 d.caroot []
  let y := seqOp d.sys d.next (.gen res) { ca := ca, now := d.tick * 1000000 }
  let desc := match y.procs d.next with
    | .gDone ret => if ret.ok then some (descRet res ret) else none
    | _ => some "stuck"
  let called := y.st.caCalls > d.sys.st.caCalls
  ({ d with sys := y, next := d.next + 1, tick := d.tick + 1,
            cafail := if called && d.cafail > 0 then d.cafail - 1 else d.cafail }, desc)

def evRes : Ev → Res
  | .rootca _ => .root
  | .workload _ => .workload

def resLetter : Res → String
  | .workload => "w"
  | .root => "r"

def hasRes (sb : Sub) (res : Res) : Bool := (sb.res.splitOn (resLetter res)).length > 1

def setSub (d : DState) (id : Nat) (f : Sub → Sub) : DState :=
  { d with subs := d.subs.map fun x => if x.id == id then f x else x }

/-- Deliver one callback: every live subscriber of its resource re-requests it; a failing re-request
    ends that subscriber's stream. -/
def sdsPush (d : DState) (res : Res) : DState :=
  d.subs.foldl (fun acc sb =>
    if sb.state == "live" && hasRes sb res then
      let (acc', desc) := sdsGen acc res
      match desc with
      | some t => setSub acc' sb.id fun x =>
          match res with
          | .workload => { x with n := x.n + 1, lastW := t }
          | .root => { x with n := x.n + 1, lastR := t }
      | none => setSub acc' sb.id fun x => { x with state := "closed" }
    else acc) d

def sdsShow (d : DState) (ev : String) : String :=
  let cs := d.subs.map fun sb =>
    let last := sb.lastW ++ (if sb.lastR.isEmpty then "" else (if sb.lastW.isEmpty then "" else "|") ++ sb.lastR)
    s!"c{sb.id}:{if sb.res.isEmpty then "-" else sb.res}:{sb.state}:n={sb.n}:{if last.isEmpty then "-" else last}"
  let wl := match d.sys.st.workload with
    | none => "-"
    | some it => toString it.key
  " ".intercalate ([s!"ev={ev}"] ++ cs ++ [s!"wl={wl} ca={d.sys.st.caCalls}"])

/-- Deliver the callbacks produced since `seen`, then those produced by the re-requests, ... -/
def sdsRounds : Nat → Nat → DState → String → DState × String
  | 0, _, d, tok => (d, tok)
  | fuel + 1, seen, d, tok =>
    let evs := d.sys.st.events.drop seen
    if evs.isEmpty then (d, if tok.isEmpty then "-" else tok) else
    let d1 := evs.foldl (fun acc e => sdsPush acc (evRes e)) d
    sdsRounds fuel d.sys.st.events.length d1 (tok ++ evTok evs)

def sdsSettle (before : List Ev) (d : DState) : DState × String :=
  let (d1, tok) := sdsRounds 7 before.length d ""
  (d1, sdsShow d1 tok)

def stepSds (d : DState) (toks : List String) : DState × String :=
  let before := d.sys.st.events
  let now := d.tick * 1000000
  let cur : Option Nat := if d.sys.st.workload.isSome then some (d.sys.st.queue.length - 1) else none
  let fire (k : Option Nat) : DState :=
    match k with
    | some e => { d with sys := seqOp d.sys d.next (.timer e) { now := now }, next := d.next + 1, tick := d.tick + 1 }
    | none => d
  match toks with
  | ["sub", c, r] =>
    match c.toNat? with
    | some id =>
      if d.subs.any (·.id == id) || !(r == "w" || r == "r" || r == "wr") then (d, "bad-op") else
      -- the initial request is answered with all requested resources, in request order; an error ends the stream
      let sb0 : Sub := { id := id, res := r }
      let (d1, w) := if hasRes sb0 .workload then sdsGen d .workload else (d, some "")
      match w with
      | none => sdsSettle before { d1 with subs := d1.subs ++ [{ sb0 with state := "closed" }] }
      | some wt =>
        let (d2, rt) := if hasRes sb0 .root then sdsGen d1 .root else (d1, some "")
        match rt with
        | none => sdsSettle before { d2 with subs := d2.subs ++ [{ sb0 with state := "closed" }] }
        | some rtt => sdsSettle before { d2 with subs := d2.subs ++ [{ sb0 with n := 1, lastW := wt, lastR := rtt }] }
    | none => (d, "bad-op")
  | ["resub", c, r] =>
    -- a changed resource set on a live stream: after an unsubscribe everything requested is sent (INIT), otherwise
    -- only what was added (`delta.Subscribed`), nothing for a removal
    match c.toNat? with
    | some id =>
      match d.subs.find? (fun x => x.id == id && x.state == "live") with
      | none => (d, "bad-op")
      | some sb =>
        if !(r == "w" || r == "r" || r == "wr") then (d, "bad-op") else
        let nsb : Sub := { sb with res := r }
        let sendW := hasRes nsb .workload && (sb.res.isEmpty || !hasRes sb .workload)
        let sendR := hasRes nsb .root && (sb.res.isEmpty || !hasRes sb .root)
        let d0 := setSub d id fun x => { x with res := r }
        if !(sendW || sendR) then sdsSettle before d0 else
        let (d1, w) := if sendW then sdsGen d0 .workload else (d0, some "")
        match w with
        | none => sdsSettle before (setSub d1 id fun x => { x with state := "closed" })
        | some wt =>
          let (d2, rt) := if sendR then sdsGen d1 .root else (d1, some "")
          match rt with
          | none => sdsSettle before (setSub d2 id fun x => { x with state := "closed" })
          | some rtt => sdsSettle before (setSub d2 id fun x =>
              { x with n := x.n + 1, lastW := if sendW then wt else x.lastW, lastR := if sendR then rtt else x.lastR })
    | none => (d, "bad-op")
  | ["bundlen", b] =>
    let d1 := { d with sys := seqOp d.sys d.next (.update (tokRoots b)) { now := now }, next := d.next + 1, tick := d.tick + 1 }
    let (d2, tok) := sdsRounds 7 before.length d1 ""
    let (d3, _) := sdsGen d2 .workload        -- the harness's own GenerateSecret(default)
    let (d4, tok2) := sdsRounds 7 d2.sys.st.events.length d3 ""
    (d4, sdsShow d4 (if tok2 == "-" then tok else (if tok == "-" then tok2 else tok ++ tok2)))
  | ["unsub", c] =>
    match c.toNat? with
    | some id =>
      if d.subs.any (fun x => x.id == id && x.state == "live" && !x.res.isEmpty) then
        sdsSettle before (setSub d id fun x => { x with res := "" })
      else (d, "bad-op")
    | none => (d, "bad-op")
  | ["drop", c] =>
    match c.toNat? with
    | some id =>
      if d.subs.any (fun x => x.id == id && x.state == "live") then
        sdsSettle before (setSub d id fun x => { x with state := "gone" })
      else (d, "bad-op")
    | none => (d, "bad-op")
  | ["rotate"] => sdsSettle before (fire cur)
  | ["firestale"] =>
    let idx := (List.range d.sys.st.queue.length).find? fun i =>
      (match d.sys.st.queue[i]? with | some en => !en.fired | none => false) && some i != cur
    sdsSettle before (fire idx)
  | ["bundle", b] =>
    sdsSettle before { d with sys := seqOp d.sys d.next (.update (tokRoots b)) { now := now }, next := d.next + 1, tick := d.tick + 1 }
  | ["cafail", k] =>
    match k.toNat? with
    | some n => if n > 100 then (d, "bad-op") else sdsSettle before { d with cafail := n }
    | none => (d, "bad-op")
  | ["caroot", x] =>
    match tokRoots x with
    | [r] => if r < 5 then sdsSettle before { d with caroot := r } else (d, "bad-op")
    | _ => (d, "bad-op")
  | _ => (d, "bad-op")

/-- `NewServer` warms the cache: GenerateSecret(default), then GenerateSecret(ROOTCA). -/
def sdsInit : DState :=
  let d0 : DState := { sys := Sys.init ⟨1, 2⟩ ⟨0, 1⟩ }
  let (d1, _) := sdsGen d0 .workload
  let (d2, _) := sdsGen d1 .root
  d2

/-! Stream `file`: file-mounted certificates are served from the files (DESIGN: "returns the file pair"): never
the CA, never the cache or the queue; ROOTCA = root on disk merged with the configured anchors and recorded in
certRoot; a replaced file is announced to that resource's subscribers. -/
def stepFile (d : DState) (toks : List String) : DState × String :=
  let st (x : DState) := s!"croot={rootsTok x.fileCroot} cfg={rootsTok x.sys.st.cfg} wl=- ca=0"
  match toks with
  | ["fgen", "w"] => (d, s!"ok pair={d.fileWv} ev=- | {st d}")
  | ["fgen", "fc"] => (d, s!"ok pair={d.fileWv} ev=- | {st d}")              -- the same files as file-cert:cert~key
  | ["fgen", "fr"] => (d, s!"ok fileroot={rootsTok [d.fileRoot]} ev=- | {st d}") -- file-root: the file as it is
  | ["fgen", "r"] =>
    let d1 := { d with fileCroot := [d.fileRoot] }
    (d1, s!"ok root={rootsTok (mergeAnchors d.sys.st.cfg [d.fileRoot])} ev=- | {st d1}")
  | ["fstress", _] => (d, "ok fstress")
  | ["fflicker"] => (d, "cb=1")   -- after the file stopped flickering it is watched: its replacement is announced   -- file replacement concurrent with GenerateSecret: observed, not modelled
  | ["fwrite", "w"] =>
    let d1 := { d with fileWv := d.fileWv + 1 }; (d1, s!"cb=1 other={if d.kube then "*" else "0"} | {st d1}")
  | ["fwrite", "r"] =>
    let d1 := { d with fileRoot := (d.fileRoot + 1) % 5 }; (d1, s!"cb=1 other={if d.kube then "*" else "0"} | {st d1}")
  | ["bundle", b] =>
    let before := d.sys.st.events
    let y := seqOp d.sys d.next (.update (tokRoots b)) {}
    let d1 := { d with sys := y, next := d.next + 1 }
    (d1, s!"ev={evTok (y.st.events.drop before.length)} | {st d1}")
  | _ => (d, "bad-op")

/-- `rt3`: certificate, bundle update, certificate, bundle update, certificate; then the three rotation tasks (the
    third is the current one, in whatever order they run the result is the same); then a request. -/
def stepTimer3 : String :=
  let ca : CAOut := .ok 3000000000 0 []
  let y0 := seqOp (Sys.init ⟨1, 2⟩ ⟨0, 1⟩) 0 (.gen .workload) { ca := ca, now := 0 }
  let y1 := seqOp y0 1 (.update [1]) { now := 1000 }
  let y2 := seqOp y1 2 (.gen .workload) { ca := ca, now := 2000 }
  let y3 := seqOp y2 3 (.update [2]) { now := 3000 }
  let y4 := seqOp y3 4 (.gen .workload) { ca := ca, now := 4000 }
  let y5 := seqOp y4 5 (.timer 2) { now := 5000 }
  let y6 := seqOp y5 6 (.timer 0) { now := 6000 }
  let y7 := seqOp y6 7 (.timer 1) { now := 7000 }
  let y := seqOp y7 8 (.gen .workload) { ca := ca, now := 8000 }
  s!"ev={evTok y.st.events} calls={y.st.caCalls} early=0 late=0"

def stepD (d : DState) (toks : List String) : DState × String :=
  match toks with
  | ["case", _, "cache", rn, rd, jn, jd] =>
    match frac? rn rd, frac? jn jd with
    | some r, some J => ({ sys := Sys.init r J }, "ok")
    | _, _ => (d, "bad-op")
  -- variants of the client that must not change its behaviour: OUTPUT_CERTS = directory of the well-known cert paths
  -- (the output files are never read back), RSA keys, PKCS#8 keys; `nilca`: no CA client
  | ["case", _, "cache", rn, rd, jn, jd, variant] =>
    match frac? rn rd, frac? jn jd with
    | some r, some J =>
      if variant == "outdir" || variant == "rsa" || variant == "pkcs8" then ({ sys := Sys.init r J }, "ok")
      else if variant == "nilca" then ({ sys := Sys.init r J, nilca := true }, "ok")
      else (d, "bad-op")
    | _, _ => (d, "bad-op")
  | ["case", _, "citadel", rn, rd, jn, jd] =>
    match frac? rn rd, frac? jn jd with
    | some r, some J => ({ sys := Sys.init r J }, "ok")
    | _, _ => (d, "bad-op")
  | ["case", _, "citadel", rn, rd, jn, jd, "tls"] =>      -- the transport does not change what the agent does
    match frac? rn rd, frac? jn jd with
    | some r, some J => ({ sys := Sys.init r J }, "ok")
    | _, _ => (d, "bad-op")
  -- the CA root file of the TLS transport is hidden / restored: by itself nothing happens; a failed attempt while it is
  -- hidden is an ordinary CA error, and the next healthy one succeeds (failure_not_sticky)
  | ["rootfile", "hide"] => (d, "ok")
  | ["rootfile", "restore"] => (d, "ok")
  | ["case", _, "file"] => ({ file := true }, "ok")
  | ["case", _, "file", "kube"] => ({ file := true, kube := true }, "ok")
  | ["case", _, "file", "link"] => ({ file := true }, "ok")       -- plain symlinks re-pointed on update
  | ["case", _, "sds"] => ({ sdsInit with sds := true }, "ok")
  | "case" :: _ => ({}, "ok")
  | "rot" :: _ => (d, stepRotate toks)
  | "rotobs" :: _ => (d, stepRotate toks)
  | "conc" :: _ => (d, stepConc toks)
  -- `stress`: GenerateSecret || rotation tasks || bundle updates on the real client; what is checked there are
  -- observables of `Inv` (true on every schedule by `inv_reachable`), so the model's answer is the constant
  | ["stress", _, _, _] => (d, "ok calls>0 clears>0")
  | "rt" :: _ => (d, stepTimer toks)
  | ["cgen", r, kind] =>
    -- stream `citadel`: what the in-process CA's answer means to the agent: the trust root of a chain is
    -- its LAST element; a chain without a root (one element), an empty chain and a gRPC error are CA errors
    -- `retry`: a transient gRPC error answered by the retry interceptor's re-send: one good answer for the agent
    if kind == "normal" || kind == "retry" then stepCache d ["gen", r, "ok", "3600", "A", "-"]
    else if kind == "three" then stepCache d ["gen", r, "ok", "3600", "B", "-"]
    else if kind == "leafonly" || kind == "empty" || kind == "error" then stepCache d ["gen", r, "signerr"]
    else (d, "bad-op")
  -- `rz`: ratio 1 on the client's OWN delayed queue: every task runs at once, after its certificate was stored
  | ["rt3", _] => (d, stepTimer3)
  | ["rz", _] => (d, "lost-rotations=0")
  | ["qs", _, _] => (d, "lost=0 burst:lost-delayed=0,lost=0,early=0 pairs:lost=0 far-near:misordered=0,lost=0 retry:bad=0")   -- in the model a pushed task can always be started (`spawn (.timer e)`)
  | ["outdir", _, _] => (d, "ok files")   -- OutputKeyCertToDir: observed, not modelled
  | _ => if d.file then stepFile d toks else if d.sds then stepSds d toks else stepCache d toks

end IstioModel.C18
