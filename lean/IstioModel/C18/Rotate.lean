/-
C18, part 1: exact model of `rotateTime` (security/pkg/nodeagent/cache/secretcache.go).

    jitter  := (rand.Float64() * graceRatioJitter) * float64(rand.IntN(2)*2-1)      -- in (-J, J)
    jgr     := graceRatio + jitter ; if jgr > 1 { jgr = 1 } ; if jgr < 0 { jgr = 0 }
    life    := secret.ExpireTime.Sub(secret.CreatedTime)
    grace   := time.Duration(jgr * float64(life))                                  -- truncation toward 0
    return max(time.Until(secret.ExpireTime.Add(-grace)), 0)                       -- uses time.Now()

Times are `Int` nanoseconds, ratio / jitter are exact fractions `num/den` (every float64 is one).
The random jitter is an explicit input `j`; floating point rounding is not modelled (the
correspondence check allows `tol life` nanoseconds, see `tol`).  Core Lean only.
-/
namespace IstioModel.C18

/-- A fraction `num/den`; all functions below are used with `den > 0`. -/
structure Frac where
  num : Int
  den : Nat
  deriving Repr, DecidableEq

namespace Frac

def le (a b : Frac) : Prop := a.num * (b.den : Int) ≤ b.num * (a.den : Int)
def lt (a b : Frac) : Prop := a.num * (b.den : Int) < b.num * (a.den : Int)
instance : LE Frac := ⟨le⟩
instance : LT Frac := ⟨lt⟩
instance (a b : Frac) : Decidable (a ≤ b) :=
  inferInstanceAs (Decidable (a.num * (b.den : Int) ≤ b.num * (a.den : Int)))
instance (a b : Frac) : Decidable (a < b) :=
  inferInstanceAs (Decidable (a.num * (b.den : Int) < b.num * (a.den : Int)))

def zero : Frac := ⟨0, 1⟩
def one : Frac := ⟨1, 1⟩
def neg (a : Frac) : Frac := ⟨-a.num, a.den⟩
def add (a b : Frac) : Frac := ⟨a.num * (b.den : Int) + b.num * (a.den : Int), a.den * b.den⟩
def sub (a b : Frac) : Frac := add a (neg b)

/-- `if x > 1 { x = 1 }; if x < 0 { x = 0 }`. -/
def clamp01 (a : Frac) : Frac :=
  if a.num > (a.den : Int) then one else if a.num < 0 then zero else a

/-- `time.Duration(x * float64(L))`: the product, truncated toward zero (Go float->int conversion). -/
def mulTrunc (a : Frac) (L : Int) : Int := (a.num * L).tdiv (a.den : Int)

end Frac

/-- The jittered, clamped grace ratio. -/
def jgr (r j : Frac) : Frac := (r.add j).clamp01

/-- Grace period for lifetime `L` (= expire - created), ratio `r`, jitter value `j`. -/
def grace (r j : Frac) (L : Int) : Int := (jgr r j).mulTrunc L

/-- `rotateTime`: delay until rotation, measured from `now`. -/
def rotateDelay (created expire now : Int) (r j : Frac) : Int :=
  max (expire - grace r j (expire - created) - now) 0

/-- `j` is an admissible jitter value for the jitter bound `J`: `-J ≤ j ≤ J`. -/
def JitterOk (J j : Frac) : Prop := J.neg ≤ j ∧ j ≤ J

instance (J j : Frac) : Decidable (JitterOk J j) := inferInstanceAs (Decidable (J.neg ≤ j ∧ j ≤ J))

/-! ### The interval of admissible results (used by the correspondence check)

`rand` is not controllable, so the real function is compared with the hull of the model over all
admissible jitter values and over the window `[now0, now1]` in which the real `time.Now()` call
happened. -/

def graceMin (r J : Frac) (L : Int) : Int := min (grace r J.neg L) (grace r J L)
def graceMax (r J : Frac) (L : Int) : Int := max (grace r J.neg L) (grace r J L)

def delayLo (created expire now1 : Int) (r J : Frac) : Int :=
  max (expire - graceMax r J (expire - created) - now1) 0
def delayHi (created expire now0 : Int) (r J : Frac) : Int :=
  max (expire - graceMin r J (expire - created) - now0) 0

/-- Float tolerance in ns: `float64(L)`, the sum `ratio+jitter` and the product are each rounded once
    (relative error 2^-53 each on a value ≤ 2|L|), plus the final truncation: below `|L|/2^50 + 2`. -/
def tol (L : Int) : Int := (L.natAbs : Int) / 1125899906842624 + 2

/-- Verdict of the correspondence check for one observation `d` of the real function. -/
def inInterval (created expire now0 now1 : Int) (r J : Frac) (d : Int) : Bool :=
  let t := tol (expire - created)
  decide (delayLo created expire now1 r J - t ≤ d) && decide (d ≤ delayHi created expire now0 r J + t)

end IstioModel.C18
