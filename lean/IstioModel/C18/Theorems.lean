import IstioModel.C18.Reach

/-!
C18 part 2 - the clauses of the property about `SecretManagerClient`, for every reachable state of
the interleaving model (any schedule, any CA behaviour) and for sequential callers (`seqOp`, the
operations the `cache` stream executes on the real code).
-/
-- the `first | (...; done) | ...` cascades below try the cheap closing tactic first; in the branches where it
-- already succeeds the linters report the fallbacks as unused. They are needed in the other branches.
set_option linter.unusedTactic false
set_option linter.unreachableTactic false
set_option linter.unusedSimpArgs false
set_option linter.unusedVariables false

namespace IstioModel.C18

/-! ### pair_consistent -/

/-- In every reachable state the cached item's key and chain come from one CA response, and so
    does every value returned by any GenerateSecret call (finished or about to return).
    In the model an item is only ever built by `newItem` with `key = cert`, and nothing ever combines
    fields of two items (`getCachedSecret` copies both from one read of the cache), so this invariant
    is structural; that the REAL key and leaf belong together is established per run by the oracle's
    public-key comparison and by the key/cert ids of the `cache` / `conc` streams. -/
theorem pair_consistent {y : Sys} (h : Reachable y) :
    (∀ w, y.st.workload = some w → w.key = w.cert) ∧
    (∀ q r, y.procs q = .gDone r → r.key = r.cert) ∧
    (∀ q r, y.procs q = .gUnlock r → r.key = r.cert) := by
  have hi := (inv_reachable h).pair
  refine ⟨hi.1, fun q r hq => ?_, fun q r hq => ?_⟩
  · have := hi.2 q; rw [hq] at this; exact this
  · have := hi.2 q; rw [hq] at this; exact this

/-! ### single_flight -/

/-- Between two cache clears the CA is asked successfully at most once, for every interleaving of any
    number of GenerateSecret calls (`okSinceClear` counts the successful CA calls since the last
    `SetWorkload(nil)`, see `okSinceClear_step`). -/
theorem single_flight_calls {y : Sys} (h : Reachable y) : y.st.okSinceClear ≤ 1 :=
  (inv_reachable h).flight.1

/-- All calls that ran entirely between the same two cache clears (`born = doneAt`: no clear between
    the start and the return of the call) and returned a key returned the same one. -/
theorem single_flight_same_pair {y : Sys} (h : Reachable y) {p q : Nat} {r1 r2 : Ret} {k1 k2 : Nat}
    (hp : y.procs p = .gDone r1) (hq : y.procs q = .gDone r2)
    (bp : y.born p = y.doneAt p) (bq : y.born q = y.doneAt q) (same : y.born p = y.born q)
    (h1 : r1.key = some k1) (h2 : r2.key = some k2) : k1 = k2 :=
  (inv_reachable h).samePair p q r1 r2 k1 k2 hp hq bp bq same h1 h2

/-- Meaning of the ghost counters: `okSinceClear` is incremented exactly by a successful
    generateNewSecret step and reset exactly by the two steps that empty the cache, which are the
    steps that increment `clears`; no other step touches them. -/
theorem okSinceClear_step (y : Sys) (p : Nat) (i : Input) :
    ((∃ res ttl sg b, y.procs p = .gCallCA res ∧ i.ca = .ok ttl sg b) ∧
      (step y p i).st.okSinceClear = y.st.okSinceClear + 1 ∧ (step y p i).st.clears = y.st.clears) ∨
    (((∃ e, y.procs p = .tClear e) ∨ y.procs p = .uClear) ∧
      (step y p i).st.okSinceClear = 0 ∧ (step y p i).st.clears = y.st.clears + 1 ∧
      (step y p i).st.workload = none) ∨
    ((step y p i).st.okSinceClear = y.st.okSinceClear ∧ (step y p i).st.clears = y.st.clears ∧
      ((step y p i).st.workload = none → y.st.workload = none)) := by
  unfold step
  simp only [finish]
  split
  all_goals (repeat' split)
  all_goals (simp_all [clearWorkload])

/-- The action is a successful generateNewSecret step. -/
def isOkCall (y : Sys) : Act → Bool
  | .step p i =>
    match y.procs p, i.ca with
    | .gCallCA _, .ok _ _ _ => true
    | _, _ => false
  | .spawn _ _ => false

/-- Number of successful CA calls made while the schedule `as` runs from `y`. -/
def okCount : Sys → List Act → Nat
  | _, [] => 0
  | y, a :: as => (if isOkCall y a then 1 else 0) + okCount (apply y a) as

theorem step_ok_count (y : Sys) (p : Nat) (i : Input) (h : (step y p i).st.clears = y.st.clears) :
    (step y p i).st.okSinceClear = y.st.okSinceClear + (if isOkCall y (.step p i) then 1 else 0) := by
  revert h
  unfold step isOkCall
  simp only [finish]
  split
  all_goals (repeat' split)
  all_goals (simp_all [clearWorkload])

theorem spawn_counters (y : Sys) (p : Nat) (k : Kind) :
    (spawn y p k).st.clears = y.st.clears ∧ (spawn y p k).st.okSinceClear = y.st.okSinceClear := by
  unfold spawn
  split
  all_goals (repeat' split)
  all_goals (simp_all)

theorem apply_clears_le (y : Sys) (a : Act) : y.st.clears ≤ (apply y a).st.clears := by
  cases a with
  | spawn p k => simp [apply, (spawn_counters y p k).1]
  | step p i => exact step_clears_le y p i

theorem run_clears_le (y : Sys) (as : List Act) : y.st.clears ≤ (run y as).st.clears := by
  induction as generalizing y with
  | nil => exact Nat.le_refl _
  | cons a as ih => exact Nat.le_trans (apply_clears_le y a) (ih (apply y a))

/-- While no cache clear happens, `okSinceClear` grows by exactly the number of successful CA calls. -/
theorem ok_count_segment (y : Sys) (as : List Act) (h : (run y as).st.clears = y.st.clears) :
    (run y as).st.okSinceClear = y.st.okSinceClear + okCount y as := by
  induction as generalizing y with
  | nil => simp [run, okCount]
  | cons a as ih =>
    have h1 := apply_clears_le y a
    have h2 := run_clears_le (apply y a) as
    have hrun : run y (a :: as) = run (apply y a) as := rfl
    rw [hrun] at h ⊢
    have hc : (apply y a).st.clears = y.st.clears := by omega
    rw [ih (apply y a) (by omega)]
    cases a with
    | spawn p k =>
      simp only [apply] at hc ⊢
      rw [(spawn_counters y p k).2]
      simp [okCount, isOkCall, apply]
    | step p i =>
      simp only [apply] at hc ⊢
      rw [step_ok_count y p i hc]
      simp only [okCount, apply]
      omega

/-- **single_flight**, schedule form: take any reachable state and run any schedule - any number of
    GenerateSecret calls for either resource, interleaved at atomic steps with each other, with stale
    or current timer checks and trust bundle comparisons, any CA behaviour.  If no cache clear
    happens during it, the CA is asked successfully at most once during it (and not at all if a
    successful call since the last clear preceded it). -/
theorem single_flight_segment {y : Sys} (h : Reachable y) (as : List Act)
    (hno : (run y as).st.clears = y.st.clears) : y.st.okSinceClear + okCount y as ≤ 1 := by
  have := single_flight_calls (reachable_run h as)
  rw [ok_count_segment y as hno] at this
  exact this

/-! #### All signing requests, including failed ones

The property text says "concurrent requests cause at most one signing request".  That is true of the
SUCCESSFUL requests (`single_flight_segment`); a failed attempt is deliberately not remembered
(`failure_not_sticky`), so with a failing CA every caller that finds the cache empty makes its own -
serialised - request.  The full statement is false; the exact bound is "one plus the failed ones". -/

/-- The action is a generateNewSecret step (CA reached), whatever the outcome. -/
def isCall (y : Sys) : Act → Bool
  | .step p _ =>
    match y.procs p with
    | .gCallCA _ => true
    | _ => false
  | .spawn _ _ => false

/-- ... with a failing CA. -/
def isErrCall (y : Sys) : Act → Bool
  | .step p i =>
    match y.procs p, i.ca with
    | .gCallCA _, .err => true
    | _, _ => false
  | .spawn _ _ => false

def callCount : Sys → List Act → Nat
  | _, [] => 0
  | y, a :: as => (if isCall y a then 1 else 0) + callCount (apply y a) as

def errCount : Sys → List Act → Nat
  | _, [] => 0
  | y, a :: as => (if isErrCall y a then 1 else 0) + errCount (apply y a) as

theorem isCall_split (y : Sys) (a : Act) :
    (if isCall y a then 1 else 0) = (if isOkCall y a then 1 else 0) + (if isErrCall y a then 1 else 0) := by
  cases a with
  | spawn p k => simp [isCall, isOkCall, isErrCall]
  | step p i =>
    unfold isCall isOkCall isErrCall
    cases hc : i.ca <;> cases hp : y.procs p <;> simp [hc, hp]

theorem callCount_split (y : Sys) (as : List Act) : callCount y as = okCount y as + errCount y as := by
  induction as generalizing y with
  | nil => simp [callCount, okCount, errCount]
  | cons a as ih =>
    simp only [callCount, okCount, errCount]
    rw [ih, isCall_split]; omega

/-- `callCount` is what the CA sees: the CSRSign counter grows by exactly that much. -/
theorem caCalls_run (y : Sys) (as : List Act) : (run y as).st.caCalls = y.st.caCalls + callCount y as := by
  induction as generalizing y with
  | nil => simp [run, callCount]
  | cons a as ih =>
    have hrun : run y (a :: as) = run (apply y a) as := rfl
    rw [hrun, ih]
    simp only [callCount]
    have : (apply y a).st.caCalls = y.st.caCalls + (if isCall y a then 1 else 0) := by
      cases a with
      | spawn p k =>
        simp only [apply, isCall]
        unfold spawn; split
        · split
          · simp
          · split
            · split <;> simp
            · simp
          · simp
        · simp
      | step p i =>
        simp only [apply]
        unfold step isCall
        simp only [finish]
        split
        all_goals (repeat' split)
        all_goals (simp_all [clearWorkload, notifyWorkload])
    omega

/-- **Signing requests between two cache clears**: at most one more than the number of failed ones,
    for every schedule. -/
theorem signing_requests_segment {y : Sys} (h : Reachable y) (as : List Act)
    (hno : (run y as).st.clears = y.st.clears) : callCount y as ≤ 1 + errCount y as := by
  have := single_flight_segment h as hno
  rw [callCount_split]; omega

/-- The statement as the property text has it: at most one signing request between two clears. -/
def AtMostOneSigningRequest : Prop :=
  ∀ y as, Reachable y → (run y as).st.clears = y.st.clears → callCount y as ≤ 1

private def errIn : Input := { ca := .err }

/-- It is false: two callers, a CA that fails twice, two signing requests, no clear in between
    (the real client does the same: stream `conc` with kErr > 0 shows `calls = kErr + 1`). -/
theorem at_most_one_signing_request_witness : ¬ AtMostOneSigningRequest := by
  intro hall
  have h := hall (Sys.init ⟨1, 2⟩ ⟨0, 1⟩)
    [.spawn 0 (.gen .workload), .step 0 errIn, .step 0 errIn, .step 0 errIn, .step 0 errIn, .step 0 errIn,
     .spawn 1 (.gen .workload), .step 1 errIn, .step 1 errIn, .step 1 errIn, .step 1 errIn, .step 1 errIn]
    ⟨⟨1, 2⟩, ⟨0, 1⟩, [], rfl⟩ (by decide)
  revert h
  decide

/-- The skip branch of registerSecret ("already scheduled") is dead code: when a caller reaches the
    check, the cache is empty. -/
theorem register_never_skips {y : Sys} (h : Reachable y) {p : Nat} {res : Res} {it : Item}
    (hp : y.procs p = .gRegCheck res it) : y.st.workload = none :=
  (inv_reachable h).empty p (by simp [hp, preStore])

/-- Exclusive ownership of generateMutex. -/
theorem mutex_exclusive {y : Sys} (h : Reachable y) {p q : Nat} (hp : holds (y.procs p) = true)
    (hq : holds (y.procs q) = true) : p = q := by
  have hm := (inv_reachable h).mutex
  have a := (hm p).1 hp
  have b := (hm q).1 hq
  rw [a] at b; simpa using b

/-! ### one_renewal_per_cert -/

/-- Whatever certificate is cached, in any reachable state of any schedule: its rotation task (same
    CreatedTime, ExpireTime and key) is in the queue with a good delay AND IS STILL PENDING - not started
    (`fired = false`) or its callback has not yet reached its clear (`tCheck` / `tClear`, after which the
    certificate is no longer cached) - or the caller that stored it is between `SetWorkload(&item)` and
    `PushDelayed` and will push it in its next step.  So every certificate that is served has a renewal
    that is still going to happen; this depends on the ORDER store-then-push (a task pushed first could
    run as a no-op before the store).  (No ghost counter is involved in this statement.) -/
theorem cached_cert_has_rotation_scheduled {y : Sys} (h : Reachable y) {w : Item} (hw : y.st.workload = some w) :
    (∃ e en, y.st.queue[e]? = some en ∧ en.created = w.created ∧ en.expire = w.expire ∧ en.key = w.key ∧
      (en.fired = false ∨ ∃ p, y.procs p = .tCheck e ∨ y.procs p = .tClear e) ∧ 0 ≤ en.delay ∧
      (en.created ≤ en.expire → en.computedAt ≤ en.expire → en.computedAt + en.delay ≤ en.expire)) ∨
    (∃ p res d c m, y.procs p = .gRegPush res w d c m ∧ 0 ≤ d ∧
      (w.created ≤ w.expire → c ≤ w.expire → c + d ≤ w.expire)) := by
  rcases (inv_reachable h).pendingTask w hw with ⟨e, en, hq, e1, e2, e3, hp⟩ | ⟨p, res, d, c, m, hp⟩
  · have hs := (inv_reachable h).sched.1 en (List.mem_of_getElem? hq)
    exact Or.inl ⟨e, en, hq, e1, e2, e3, hp, hs.1, hs.2⟩
  · have hs := (inv_reachable h).sched.2 p
    rw [hp] at hs
    exact Or.inr ⟨p, res, d, c, m, hp, hs.1, hs.2⟩

/-- While a caller is between its store and its push, the cache holds exactly its item unless the
    cache was emptied since the store (any schedule). -/
theorem store_then_push {y : Sys} (h : Reachable y) {p : Nat} {res : Res} {it : Item} {d c : Int} {m : Nat}
    (hp : y.procs p = .gRegPush res it d c m) :
    y.st.workload = some it ∨ (y.st.workload = none ∧ m < y.st.clears) :=
  ((inv_reachable h).push p res it d c m hp).2

/-- The task records whether its certificate was cached when it was pushed; it was, unless the cache
    was emptied between the caller's store and its push. -/
theorem push_sees_its_certificate {y : Sys} (h : Reachable y) {p : Nat} {res : Res} {it : Item} {d c : Int} {m : Nat}
    (i : Input) (hp : y.procs p = .gRegPush res it d c m) :
    (step y p i).st.queue = y.st.queue ++ [⟨it.created, d, i.now, it.expire, c, it.key, y.st.workload.isSome, false⟩] ∧
    (y.st.workload.isSome = false → m < y.st.clears) := by
  refine ⟨by simp [step, hp, pushState], fun hn => ?_⟩
  rcases store_then_push h hp with h1 | h1
  · rw [h1] at hn; simp at hn
  · exact h1.2

/-- Bookkeeping with the ghost counter `stores` (incremented by the storing step only, see `queue_step`):
    queue entries + (1 if the mutex owner has stored and not yet pushed) = store operations.  By itself a
    statement about the ghost counter; its content is `queue_step` and `cached_cert_has_rotation_scheduled`. -/
theorem one_entry_per_store {y : Sys} (h : Reachable y) : y.st.queue.length + pendingPush y = y.st.stores :=
  (inv_reachable h).queue

/-- The queue grows only in the push step, by exactly the entry of the item the same caller stored in
    its previous step; `stores` grows only in that store step. -/
theorem queue_step (y : Sys) (p : Nat) (i : Input) :
    ((step y p i).st.queue = y.st.queue ∧ (step y p i).st.stores = y.st.stores) ∨
    (∃ res it d c, y.procs p = .gRegStore res it d c ∧ (step y p i).st.workload = some it ∧
      (step y p i).st.stores = y.st.stores + 1 ∧ (step y p i).st.queue = y.st.queue ∧
      (step y p i).procs p = .gRegPush res it d c y.st.clears) ∨
    (∃ res it d c m, y.procs p = .gRegPush res it d c m ∧ (step y p i).st.stores = y.st.stores ∧
      (step y p i).st.queue = y.st.queue ++ [⟨it.created, d, i.now, it.expire, c, it.key, y.st.workload.isSome, false⟩]) := by
  unfold step
  simp only [finish]
  split
  all_goals (repeat' split)
  all_goals (simp_all [clearWorkload])

/-- Every scheduled rotation has a non-negative delay that does not reach beyond the expiry of its
    certificate, counted from the instant rotateTime read the clock. -/
theorem scheduled_before_expiry {y : Sys} (h : Reachable y) {en : Entry} (hen : en ∈ y.st.queue) :
    0 ≤ en.delay ∧ (en.created ≤ en.expire → en.computedAt ≤ en.expire → en.computedAt + en.delay ≤ en.expire) :=
  (inv_reachable h).sched.1 en hen

/-- A rotation callback empties the cache only if, when it looked, the cached item's CreatedTime was
    the one it was scheduled for; otherwise it ends without touching anything. -/
theorem timer_clears_only_own {y : Sys} {p e : Nat} (i : Input) (hp : y.procs p = .tCheck e) :
    ((step y p i).procs p = .tClear e ∧ (step y p i).st = y.st ∧
      ∃ en c, y.st.queue[e]? = some en ∧ y.st.workload = some c ∧ c.created = en.created) ∨
    ((step y p i).procs p = .tDone e false ∧ (step y p i).st = y.st) := by
  unfold step
  simp only [hp]
  split
  · split <;> simp_all
  · simp

/-! ### The rotation callback is delivered after the cache was emptied -/

/-- Every `default` callback of a rotation task or of UpdateConfigTrustBundle, in every reachable state
    of every schedule: the event records the cache as it is at that instant, and the cache is empty
    unless some GenerateSecret call stored a certificate AFTER this process emptied it - the callback
    never sees the certificate that was to be rotated (nor any certificate cached before the clear),
    so a subscriber re-requesting from the callback cannot be answered with it. -/
theorem rotation_event_after_clear {y : Sys} (h : Reachable y) {p m : Nat} (i : Input)
    (hp : (∃ e, y.procs p = .tNotify e m) ∨ y.procs p = .uNotify m) :
    (step y p i).st.events = y.st.events ++ [Ev.workload y.st.workload.isNone] ∧
    (y.st.workload.isNone = false → m < y.st.stores) := by
  have hn := (inv_reachable h).notify p m
  rcases hp with ⟨e, hp⟩ | hp
  · refine ⟨by simp [step, hp, notifyWorkload], fun hs => ?_⟩
    have := hn (by simp [hp, notifyMark])
    cases hw : y.st.workload <;> simp_all
  · refine ⟨by simp [step, hp, notifyWorkload], fun hs => ?_⟩
    have := hn (by simp [hp, notifyMark])
    cases hw : y.st.workload <;> simp_all

/-- The clear of a rotation task comes first and remembers the store counter. -/
theorem timer_clear_then_notify {y : Sys} {p e : Nat} (i : Input) (hp : y.procs p = .tClear e) :
    (step y p i).st.workload = none ∧ (step y p i).st.events = y.st.events ∧
    (step y p i).procs p = .tNotify e y.st.stores := by
  simp [step, hp, clearWorkload]

/-- A `default` callback is only ever produced by those two notify steps (GenerateSecret announces
    `ROOTCA` only). -/
theorem workload_event_only_from_notify (y : Sys) (p : Nat) (i : Input) :
    (step y p i).st.events = y.st.events ∨ (∃ b, (step y p i).st.events = y.st.events ++ [Ev.rootca b]) ∨
    (((∃ e m, y.procs p = .tNotify e m) ∨ ∃ m, y.procs p = .uNotify m) ∧
      (step y p i).st.events = y.st.events ++ [Ev.workload y.st.workload.isNone]) := by
  unfold step
  simp only [finish]
  split
  all_goals (repeat' split)
  all_goals (simp_all [clearWorkload, notifyWorkload, afterRegState])
  all_goals (try (split <;> simp_all))

/-! #### "Stale callbacks are no-ops" needs distinct CreatedTime values

The callback compares `CreatedTime` only.  The model's clock input is unconstrained, so two CA responses
may carry the same `CreatedTime` (in Go: `time.Time ==` on values of `time.Now()` incl. the monotonic
reading, taken at least a key generation apart - assumed distinct, not proved).  Distinctness is an explicit
hypothesis here; without it a task can clear a certificate it was not scheduled for. -/

/-- No queued task shares its CreatedTime with a cached certificate it was not scheduled for. -/
def DistinctCreated (y : Sys) : Prop :=
  ∀ (e : Nat) (en : Entry) (w : Item),
    y.st.queue[e]? = some en → y.st.workload = some w → en.created = w.created → en.key = w.key

/-- Under that hypothesis a callback reaches its clear only if the cached certificate is the very one it
    was scheduled for (same key id); any other task ends without touching anything. -/
theorem timer_clears_only_own_cert {y : Sys} {p e : Nat} (i : Input) (hd : DistinctCreated y) (hp : y.procs p = .tCheck e) :
    ((step y p i).procs p = .tClear e ∧ ∃ en c, y.st.queue[e]? = some en ∧ y.st.workload = some c ∧ en.key = c.key) ∨
    ((step y p i).procs p = .tDone e false ∧ (step y p i).st = y.st) := by
  rcases timer_clears_only_own i hp with ⟨h1, _, en, c, hq, hw, hc⟩ | h2
  · exact Or.inl ⟨h1, en, c, hq, hw, hd e en c hq hw hc.symm⟩
  · exact Or.inr h2

private def okAt (now : Int) : Input := { ca := .ok 3600000000000 0 [], now := now }

/-- Without it: two certificates issued at the same clock value, a bundle update in between; the task of
    certificate 0 clears certificate 1. -/
theorem stale_task_clears_other_witness :
    let y0 := seqOp (Sys.init ⟨1, 2⟩ ⟨0, 1⟩) 0 (.gen .workload) (okAt 5)
    let y1 := seqOp y0 1 (.update [2]) {}
    let y2 := seqOp y1 2 (.gen .workload) (okAt 5)
    let y3 := seqOp y2 3 (.timer 0) {}
    ¬ DistinctCreated y2 ∧ (y2.st.workload.map (·.key)) = some 1 ∧ (y2.st.queue[0]?.map (·.key)) = some 0 ∧
    y3.procs 3 = .tDone 0 true ∧ y3.st.workload = none := by
  refine ⟨fun hd => ?_, by decide, by decide, by decide, by decide⟩
  have := hd 0 ⟨5, 1800000000000, 5, 3600000000005, 5, 0, true, false⟩
    ⟨1, 1, [0], 5, 3600000000005⟩ (by decide) (by decide) rfl
  simp at this

/-! #### Strictness at the level of the system

The configured ratio and jitter bound never change; when the jitter value drawn for a registerSecret call
is admissible for the CONFIGURED bound (`JitterOk y.st.jitter i.jit` - the step itself accepts any value,
as `rand` is an input) and the side condition of `rotate_strictly_before_expiry` holds for the configured
values, the delay that is about to be stored and pushed is strictly before the expiry. -/

theorem step_config (y : Sys) (p : Nat) (i : Input) :
    (step y p i).st.ratio = y.st.ratio ∧ (step y p i).st.jitter = y.st.jitter := by
  unfold step
  simp only [finish]
  split
  all_goals (repeat' split)
  all_goals (simp [clearWorkload, notifyWorkload, pushState])

theorem scheduled_strictly_before_expiry_step {y : Sys} {p : Nat} {res : Res} {it : Item} (i : Input)
    (hp : y.procs p = .gRegCheck res it) (hw : y.st.workload = none)
    (hr : y.st.ratio.Wf) (hJ : y.st.jitter.Wf) (hj : i.jit.Wf) (hjit : JitterOk y.st.jitter i.jit)
    (hL : it.created ≤ it.expire) (hside : 1 ≤ grace y.st.ratio y.st.jitter.neg (it.expire - it.created))
    (hnow : i.now < it.expire) :
    ∃ d, (step y p i).procs p = .gRegStore res it d i.now ∧ 0 ≤ d ∧ i.now + d < it.expire := by
  refine ⟨rotateDelay it.created it.expire i.now y.st.ratio i.jit, by simp [step, hp, hw], delay_nonneg _ _ _ _ _, ?_⟩
  exact rotate_strictly_before_expiry hr hJ hj hjit hL hside (Or.inr hnow)

/-- The constraint is needed: configured ratio 1/2 and jitter bound 0, but a drawn value of -1/2 (not
    admissible) schedules the rotation exactly at expiry. -/
theorem unconstrained_jitter_witness :
    let y0 := Sys.init ⟨1, 2⟩ ⟨0, 1⟩
    let y := seqOp y0 0 (.gen .workload) { ca := .ok 1000 0 [], now := 0, jit := ⟨-1, 2⟩ }
    ¬ JitterOk y0.st.jitter ⟨-1, 2⟩ ∧ (y.st.queue[0]?.map fun en => (en.delay, en.expire)) = some (1000, 1000) := by
  decide

/-- A queue entry is run at most once: starting it marks it, a marked entry cannot be started. -/
theorem timer_runs_once {y : Sys} {p e : Nat} {en : Entry} (hq : y.st.queue[e]? = some en) (hf : en.fired = true)
    : spawn y p (.timer e) = y := by
  unfold spawn
  split
  · simp [hq, hf]
  · rfl

theorem timer_start_marks {y : Sys} {p e : Nat} {en : Entry} (hp : y.procs p = .idle)
    (hq : y.st.queue[e]? = some en) (hf : en.fired = false) :
    ∃ en', (spawn y p (.timer e)).st.queue[e]? = some en' ∧ en'.fired = true := by
  have hlt : e < y.st.queue.length := by
    rcases Nat.lt_or_ge e y.st.queue.length with h | h
    · exact h
    · rw [List.getElem?_eq_none h] at hq; cases hq
  have hm : markFired y.st.queue e = y.st.queue.set e { en with fired := true } := by
    unfold markFired; rw [hq]
  refine ⟨{ en with fired := true }, ?_, rfl⟩
  unfold spawn
  simp only [hp, hq, hf, hm]
  simp [List.getElem?_set, hlt]

/-! ### Sequential operations (what the `cache` stream executes) -/

/-- The process slot is free and nobody is inside GenerateSecret. -/
def Quiet (y : Sys) (p : Nat) : Prop := y.procs p = .idle ∧ y.st.mutex = none

theorem stepN_succ (n : Nat) (y : Sys) (p : Nat) (i : Input) : stepN (n + 1) y p i = stepN n (step y p i) p i := rfl

/-- A finished GenerateSecret call is a fixpoint. -/
theorem stepN_done {y : Sys} {p : Nat} {r : Ret} (i : Input) (h : y.procs p = .gDone r) (n : Nat) : stepN n y p i = y := by
  induction n with
  | zero => rfl
  | succ n ih => rw [stepN_succ]; have : step y p i = y := by simp [step, h]
                 rw [this]; exact ih

theorem stepN_uDone {y : Sys} {p : Nat} {c : Bool} (i : Input) (h : y.procs p = .uDone c) (n : Nat) : stepN n y p i = y := by
  induction n with
  | zero => rfl
  | succ n ih => rw [stepN_succ]; have : step y p i = y := by simp [step, h]
                 rw [this]; exact ih

/-! One-step closed forms of the branches a sequential caller takes. -/

theorem step_read_hit_workload {y : Sys} {p : Nat} {l : Bool} {c : Item} (i : Input)
    (h : y.procs p = .gRead .workload l) (hw : y.st.workload = some c) :
    step y p i = finish y p l { ok := true, key := some c.key, cert := some c.cert } := by
  simp [step, h, hw]

theorem step_read_hit_root {y : Sys} {p : Nat} {l : Bool} {c : Item} (i : Input)
    (h : y.procs p = .gRead .root l) (hw : y.st.workload = some c) :
    step y p i = { y with procs := upd y.procs p (.gMerge c.root l) } := by
  simp [step, h, hw]

theorem step_merge {y : Sys} {p : Nat} {l : Bool} {roots : List Nat} (i : Input) (h : y.procs p = .gMerge roots l) :
    step y p i = finish y p l { ok := true, root := some (mergeAnchors y.st.cfg roots) } := by
  simp [step, h]

theorem step_read_miss_fast {y : Sys} {p : Nat} {res : Res} (i : Input)
    (h : y.procs p = .gRead res false) (hw : y.st.workload = none) :
    step y p i = { y with procs := upd y.procs p (.gLock res) } := by
  simp [step, h, hw]

theorem step_read_miss_locked {y : Sys} {p : Nat} {res : Res} (i : Input)
    (h : y.procs p = .gRead res true) (hw : y.st.workload = none) :
    step y p i = { y with procs := upd y.procs p (.gCallCA res) } := by
  simp [step, h, hw]

theorem step_lock_free {y : Sys} {p : Nat} {res : Res} (i : Input) (h : y.procs p = .gLock res) (hm : y.st.mutex = none) :
    step y p i = { y with st := { y.st with mutex := some p }, procs := upd y.procs p (.gRead res true) } := by
  simp [step, h, hm]

theorem step_ca_err {y : Sys} {p : Nat} {res : Res} (i : Input) (h : y.procs p = .gCallCA res) (hca : i.ca = .err) :
    step y p i = { y with st := { y.st with caCalls := y.st.caCalls + 1 }, procs := upd y.procs p (.gUnlock { ok := false }) } := by
  simp [step, h, hca]

theorem step_ca_ok {y : Sys} {p : Nat} {res : Res} (i : Input) {ttl : Int} {sg : Nat} {b : List Nat}
    (h : y.procs p = .gCallCA res) (hca : i.ca = .ok ttl sg b) :
    step y p i = { y with st := { y.st with caCalls := y.st.caCalls + 1, okSinceClear := y.st.okSinceClear + 1 },
                          procs := upd y.procs p (.gRegCheck res (newItem y.st i.now ttl sg b)) } := by
  simp [step, h, hca]

theorem step_regcheck_empty {y : Sys} {p : Nat} {res : Res} {it : Item} (i : Input)
    (h : y.procs p = .gRegCheck res it) (hw : y.st.workload = none) :
    step y p i =
      { y with procs := upd y.procs p (.gRegStore res it (rotateDelay it.created it.expire i.now y.st.ratio i.jit) i.now) } := by
  simp [step, h, hw]

theorem step_regstore {y : Sys} {p : Nat} {res : Res} {it : Item} {d c : Int} (i : Input)
    (h : y.procs p = .gRegStore res it d c) :
    step y p i =
      { y with st := { y.st with workload := some it, stores := y.st.stores + 1 },
               procs := upd y.procs p (.gRegPush res it d c y.st.clears) } := by
  simp [step, h]

theorem step_regpush {y : Sys} {p : Nat} {res : Res} {it : Item} {d c : Int} {m : Nat} (i : Input)
    (h : y.procs p = .gRegPush res it d c m) :
    step y p i = { y with st := pushState y.st it d c i.now, procs := upd y.procs p (.gAfterReg res it) } := by
  simp [step, h]

theorem step_afterreg_same {y : Sys} {p : Nat} {res : Res} {it : Item} (i : Input) (h : y.procs p = .gAfterReg res it)
    (he : y.st.certRoot = it.root) :
    step y p i = { y with procs := upd y.procs p (.gUnlock (afterRegRet y.st res it)) } := by
  simp [step, h, he]

theorem step_afterreg_diff {y : Sys} {p : Nat} {res : Res} {it : Item} (i : Input) (h : y.procs p = .gAfterReg res it)
    (hne : y.st.certRoot ≠ it.root) :
    step y p i = { y with st := { y.st with certRoot := it.root }, procs := upd y.procs p (.gNotifyRoot res it) } := by
  simp [step, h, hne]

theorem step_notifyroot {y : Sys} {p : Nat} {res : Res} {it : Item} (i : Input) (h : y.procs p = .gNotifyRoot res it) :
    step y p i =
      { y with st := { y.st with events := y.st.events ++ [Ev.rootca (decide (y.st.certRoot = it.root))] },
               procs := upd y.procs p (.gUnlock (afterRegRet y.st res it)) } := by
  simp [step, h]

theorem step_unlock {y : Sys} {p : Nat} {r : Ret} (i : Input) (h : y.procs p = .gUnlock r) :
    step y p i = { y with st := { y.st with mutex := none }, procs := upd y.procs p (.gDone r),
                          doneAt := upd y.doneAt p y.st.clears } := by
  simp [step, h]

theorem spawn_gen {y : Sys} {p : Nat} (res : Res) (h : y.procs p = .idle) :
    spawn y p (.gen res) = { y with procs := upd y.procs p (.gRead res false), born := upd y.born p y.st.clears } := by
  simp [spawn, h]

/-- Cache hit for `default`: no CA call, the cached pair is returned, nothing changes. -/
theorem gen_workload_hit {y : Sys} {p : Nat} {c : Item} (i : Input) (hq : Quiet y p) (hw : y.st.workload = some c) :
    (seqOp y p (.gen .workload) i).st = y.st ∧
    (seqOp y p (.gen .workload) i).procs p = .gDone { ok := true, key := some c.key, cert := some c.cert } := by
  obtain ⟨hp, hm⟩ := hq
  unfold seqOp runAlone
  rw [spawn_gen _ hp, stepN_succ, step_read_hit_workload (c := c) (l := false) i (by simp) (by simpa using hw)]
  rw [stepN_done i (r := { ok := true, key := some c.key, cert := some c.cert }) (by simp [finish])]
  simp [finish]

/-- Cache hit for `ROOTCA`: no CA call; the answer is the merge of the configured anchors with the
    root of the CA response behind the cached certificate. -/
theorem gen_root_hit {y : Sys} {p : Nat} {c : Item} (i : Input) (hq : Quiet y p) (hw : y.st.workload = some c) :
    (seqOp y p (.gen .root) i).st = y.st ∧
    (seqOp y p (.gen .root) i).procs p = .gDone { ok := true, root := some (mergeAnchors y.st.cfg c.root) } := by
  obtain ⟨hp, hm⟩ := hq
  unfold seqOp runAlone
  rw [spawn_gen _ hp, stepN_succ, step_read_hit_root (c := c) (l := false) i (by simp) (by simpa using hw)]
  rw [stepN_succ, step_merge (roots := c.root) (l := false) i (by simp)]
  rw [stepN_done i (r := { ok := true, root := some (mergeAnchors y.st.cfg c.root) }) (by simp [finish])]
  simp [finish]

/-- **failure_not_sticky**, first half: a failed signing attempt returns an error, counts one CA
    call, and leaves cache, queue, recorded root, mutex and events exactly as they were. -/
theorem gen_miss_error {y : Sys} {p : Nat} (res : Res) (i : Input) (hq : Quiet y p) (hw : y.st.workload = none)
    (hca : i.ca = .err) :
    (seqOp y p (.gen res) i).st = { y.st with caCalls := y.st.caCalls + 1 } ∧
    (seqOp y p (.gen res) i).procs p = .gDone { ok := false } ∧
    ∀ q, q ≠ p → (seqOp y p (.gen res) i).procs q = y.procs q := by
  obtain ⟨hp, hm⟩ := hq
  unfold seqOp runAlone
  rw [spawn_gen _ hp, stepN_succ, step_read_miss_fast (res := res) i (by simp) (by simpa using hw)]
  rw [stepN_succ, step_lock_free (res := res) i (by simp) (by simpa using hm)]
  rw [stepN_succ, step_read_miss_locked (res := res) i (by simp) (by simpa using hw)]
  rw [stepN_succ, step_ca_err (res := res) i (by simp) hca]
  rw [stepN_succ, step_unlock (r := { ok := false }) i (by simp)]
  rw [stepN_done i (r := { ok := false }) (by simp)]
  refine ⟨?_, by simp, fun q hq => by simp [hq]⟩
  simp [hm]

/-- Cache miss with a healthy CA: exactly one CA call, the new item is cached, exactly one rotation
    is enqueued for it, the root of the response is compared with the recorded one (and announced
    when different), the caller gets the new pair. -/
theorem gen_miss_ok {y : Sys} {p : Nat} (res : Res) (i : Input) {ttl : Int} {sg : Nat} {b : List Nat}
    (hq : Quiet y p) (hw : y.st.workload = none) (hca : i.ca = .ok ttl sg b) :
    let it := newItem y.st i.now ttl sg b
    let s1 : State := { y.st with
      workload := some it, caCalls := y.st.caCalls + 1, okSinceClear := y.st.okSinceClear + 1,
      stores := y.st.stores + 1,
      queue := y.st.queue ++ [⟨it.created, rotateDelay it.created it.expire i.now y.st.ratio i.jit, i.now, it.expire,
                                i.now, it.key, true, false⟩] }
    (seqOp y p (.gen res) i).st = afterRegState s1 it ∧
    (seqOp y p (.gen res) i).procs p = .gDone (afterRegRet s1 res it) := by
  obtain ⟨hp, hm⟩ := hq
  intro it s1
  unfold seqOp runAlone
  rw [spawn_gen _ hp, stepN_succ, step_read_miss_fast (res := res) i (by simp) (by simpa using hw)]
  rw [stepN_succ, step_lock_free (res := res) i (by simp) (by simpa using hm)]
  rw [stepN_succ, step_read_miss_locked (res := res) i (by simp) (by simpa using hw)]
  rw [stepN_succ, step_ca_ok (res := res) i (by simp) hca]
  rw [stepN_succ, step_regcheck_empty (res := res) (it := it) i (by simp [it, newItem]) (by simpa using hw)]
  rw [stepN_succ, step_regstore (res := res) (it := it) (d := rotateDelay it.created it.expire i.now y.st.ratio i.jit)
    (c := i.now) i (by simp)]
  rw [stepN_succ, step_regpush (res := res) (it := it) (d := rotateDelay it.created it.expire i.now y.st.ratio i.jit)
    (c := i.now) (m := y.st.clears) i (by simp)]
  by_cases he : y.st.certRoot = it.root
  · rw [stepN_succ, step_afterreg_same (res := res) (it := it) i (by simp) (by simpa using he)]
    rw [stepN_succ, step_unlock i (by simp; rfl)]
    rw [stepN_done i (by simp; rfl)]
    constructor
    · simp only [pushState, s1]
      unfold afterRegState
      simp [he, hm]
    · simp only [upd_same, pushState, s1]
      congr 1
  · rw [stepN_succ, step_afterreg_diff (res := res) (it := it) i (by simp) (by simpa using he)]
    rw [stepN_succ, step_notifyroot (res := res) (it := it) i (by simp)]
    rw [stepN_succ, step_unlock i (by simp; rfl)]
    rw [stepN_done i (by simp; rfl)]
    constructor
    · simp only [pushState, s1]
      unfold afterRegState
      simp [he, hm]
    · simp only [upd_same, pushState, s1]
      congr 1

/-- **failure_not_sticky**: after a failed attempt the very next request talks to the CA again and,
    if the CA answers, succeeds with a fresh pair. -/
theorem failure_not_sticky {y : Sys} {p p' : Nat} (res res' : Res) (i i' : Input) {ttl : Int} {sg : Nat} {b : List Nat}
    (hq : Quiet y p) (hpp : p' ≠ p) (hp' : y.procs p' = .idle) (hw : y.st.workload = none)
    (hca : i.ca = .err) (hca' : i'.ca = .ok ttl sg b) :
    let y1 := seqOp y p (.gen res) i
    let y2 := seqOp y1 p' (.gen res') i'
    y1.st.workload = none ∧ y1.st.queue = y.st.queue ∧
    y2.st.caCalls = y.st.caCalls + 2 ∧
    (∃ r, y2.procs p' = .gDone r ∧ r.ok = true ∧ r.key = some (y.st.caCalls + 1) ∧ r.cert = some (y.st.caCalls + 1)) ∧
    (∃ w, y2.st.workload = some w ∧ w.key = y.st.caCalls + 1) := by
  intro y1 y2
  have h1 := gen_miss_error res i hq hw hca
  have hq1 : Quiet y1 p' := by
    constructor
    · show (seqOp y p (.gen res) i).procs p' = .idle
      rw [h1.2.2 p' hpp, hp']
    · show (seqOp y p (.gen res) i).st.mutex = none
      rw [h1.1]; exact hq.2
  have hw1 : y1.st.workload = none := by show (seqOp y p (.gen res) i).st.workload = none; rw [h1.1]; exact hw
  have h2 := gen_miss_ok res' i' hq1 hw1 hca'
  have hc1 : y1.st.caCalls = y.st.caCalls + 1 := by show (seqOp y p (.gen res) i).st.caCalls = _; rw [h1.1]
  refine ⟨hw1, ?_, ?_, ?_, ?_⟩
  · show (seqOp y p (.gen res) i).st.queue = _; rw [h1.1]
  · show (seqOp y1 p' (.gen res') i').st.caCalls = _
    rw [h2.1]; simp [hc1]
  · refine ⟨_, h2.2, rfl, ?_, ?_⟩ <;> simp [newItem, hc1]
  · show ∃ w, (seqOp y1 p' (.gen res') i').st.workload = some w ∧ _
    rw [h2.1]; simp [newItem, hc1]

/-- In the interleaving model: a CA error changes nothing but the call counter. -/
theorem ca_error_step {y : Sys} {p : Nat} {res : Res} (i : Input) (hp : y.procs p = .gCallCA res) (hca : i.ca = .err) :
    (step y p i).st = { y.st with caCalls := y.st.caCalls + 1 } ∧ (step y p i).procs p = .gUnlock { ok := false } := by
  simp [step, hp, hca]

/-! ### root_change_announced -/

/-- A CA response whose root differs from the recorded one: first the new root is recorded (`SetRoot`),
    then - in the next step, before the mutex is released and the call returns - `OnSecretUpdate(ROOTCA)`
    is called, whichever resource was requested. -/
theorem root_change_recorded_step {y : Sys} {p : Nat} {res : Res} {it : Item} (i : Input)
    (hp : y.procs p = .gAfterReg res it) (hne : y.st.certRoot ≠ it.root) :
    (step y p i).st.events = y.st.events ∧ (step y p i).st.certRoot = it.root ∧
    (step y p i).procs p = .gNotifyRoot res it := by
  simp [step, hp, hne]

/-- ... and in EVERY reachable state the callback is made with `certRoot` already holding the announced
    root (only the owner of generateMutex writes it): the event carries `updated = true`. -/
theorem root_change_announced_step {y : Sys} (h : Reachable y) {p : Nat} {res : Res} {it : Item} (i : Input)
    (hp : y.procs p = .gNotifyRoot res it) :
    (step y p i).st.events = y.st.events ++ [Ev.rootca true] ∧ y.st.certRoot = it.root ∧
    ∃ r, (step y p i).procs p = .gUnlock r := by
  have hr := (inv_reachable h).rootNotify p res it hp
  simp [step, hp, hr]

theorem root_unchanged_silent_step {y : Sys} {p : Nat} {res : Res} {it : Item} (i : Input)
    (hp : y.procs p = .gAfterReg res it) (he : y.st.certRoot = it.root) : (step y p i).st = y.st := by
  simp [step, hp, he]

/-- The `ROOTCA` callback of UpdateConfigTrustBundle, in every reachable state: the event records whether
    configTrustBundle holds the announced bundle at that instant, and it does unless ANOTHER update
    stored a different bundle after this one's store - a subscriber re-requesting ROOTCA from the callback
    never merges the anchors that were configured before this update. -/
theorem bundle_event_after_store {y : Sys} (h : Reachable y) {p : Nat} {b : List Nat} {m : Nat} (i : Input)
    (hp : y.procs p = .uNotifyRoot b m) :
    (step y p i).st.events = y.st.events ++ [Ev.rootca (decide (y.st.cfg = b))] ∧
    (y.st.cfg ≠ b → m < y.st.cfgWrites) := by
  have hn := (inv_reachable h).cfgNotify p b m hp
  exact ⟨by simp [step, hp], hn.2⟩

/-- The store of UpdateConfigTrustBundle comes first and is silent. -/
theorem bundle_store_then_notify {y : Sys} {p : Nat} {b : List Nat} (i : Input) (hp : y.procs p = .uSet b)
    (hne : y.st.cfg ≠ b) :
    (step y p i).st.cfg = b ∧ (step y p i).st.events = y.st.events ∧
    (step y p i).procs p = .uNotifyRoot b (y.st.cfgWrites + 1) := by
  simp [step, hp, hne]

/-- Sequential form: a request that misses the cache and obtains a response with a different root
    emits exactly one `ROOTCA` callback during the call. -/
theorem root_change_announced {y : Sys} {p : Nat} (res : Res) (i : Input) {ttl : Int} {sg : Nat} {b : List Nat}
    (hq : Quiet y p) (hw : y.st.workload = none) (hca : i.ca = .ok ttl sg b)
    (hne : y.st.certRoot ≠ (newItem y.st i.now ttl sg b).root) :
    (seqOp y p (.gen res) i).st.events = y.st.events ++ [Ev.rootca true] ∧
    (seqOp y p (.gen res) i).st.certRoot = (newItem y.st i.now ttl sg b).root := by
  have h := gen_miss_ok res i hq hw hca
  simp only at h
  rw [h.1]
  simp [afterRegState, hne]

/-- The behaviour before the fix: a `ROOTCA` request that reached the CA left the recorded root and
    the event log untouched whatever root the response carried - a changed root was not announced
    (witness: recorded root `[0]`, response root `[1]`). -/
theorem root_change_announced_witness_unfixed :
    ∃ (s : State) (it : Item), s.certRoot ≠ it.root ∧
      (afterRegStateUnfixed s .root it).events = s.events ∧ (afterRegStateUnfixed s .root it).certRoot = s.certRoot :=
  ⟨{ certRoot := [0] }, { key := 1, cert := 1, root := [1], created := 0, expire := 1 }, by decide, rfl, rfl⟩

/-- `sc.configTrustBundle = trustBundle`. -/
def bundleStored (s : State) (b : List Nat) : State := { s with cfg := b, cfgWrites := s.cfgWrites + 1 }

/-- `OnSecretUpdate(ROOTCA)` with the announced value in place. -/
def bundleAnnounced (s : State) : State := { s with events := s.events ++ [Ev.rootca true] }

/-- UpdateConfigTrustBundle with a different bundle: stores it, notifies ROOTCA, then empties the
    cache and notifies `default`; with the same bundle nothing happens. -/
theorem update_bundle_changed {y : Sys} {p : Nat} (b : List Nat) (i : Input) (hp : y.procs p = .idle) (hne : y.st.cfg ≠ b) :
    (seqOp y p (.update b) i).st = notifyWorkload (clearWorkload (bundleAnnounced (bundleStored y.st b))) ∧
    (seqOp y p (.update b) i).procs p = .uDone true := by
  unfold seqOp runAlone
  have e0 : spawn y p (.update b) = { y with procs := upd y.procs p (.uSet b) } := by simp [spawn, hp]
  rw [e0, stepN_succ]
  have e1 : step { y with procs := upd y.procs p (.uSet b) } p i =
      { y with st := bundleStored y.st b,
               procs := upd (upd y.procs p (.uSet b)) p (.uNotifyRoot b (y.st.cfgWrites + 1)) } := by
    simp [step, hne, bundleStored]
  rw [e1, stepN_succ]
  have e1' : step { y with st := bundleStored y.st b,
                           procs := upd (upd y.procs p (.uSet b)) p (.uNotifyRoot b (y.st.cfgWrites + 1)) } p i =
      { y with st := bundleAnnounced (bundleStored y.st b),
               procs := upd (upd (upd y.procs p (.uSet b)) p (.uNotifyRoot b (y.st.cfgWrites + 1))) p .uClear } := by
    simp [step, bundleStored, bundleAnnounced]
  rw [e1', stepN_succ]
  have e2 : step { y with st := bundleAnnounced (bundleStored y.st b),
                          procs := upd (upd (upd y.procs p (.uSet b)) p (.uNotifyRoot b (y.st.cfgWrites + 1))) p .uClear } p i =
      { y with st := clearWorkload (bundleAnnounced (bundleStored y.st b)),
               procs := upd (upd (upd (upd y.procs p (.uSet b)) p (.uNotifyRoot b (y.st.cfgWrites + 1))) p .uClear) p
                          (.uNotify y.st.stores) } := by
    simp [step, bundleStored, bundleAnnounced]
  rw [e2, stepN_succ]
  have e3 : step { y with st := clearWorkload (bundleAnnounced (bundleStored y.st b)),
                          procs := upd (upd (upd (upd y.procs p (.uSet b)) p (.uNotifyRoot b (y.st.cfgWrites + 1))) p .uClear) p
                                     (.uNotify y.st.stores) } p i =
      { y with st := notifyWorkload (clearWorkload (bundleAnnounced (bundleStored y.st b))),
               procs := upd (upd (upd (upd (upd y.procs p (.uSet b)) p (.uNotifyRoot b (y.st.cfgWrites + 1))) p .uClear) p
                          (.uNotify y.st.stores)) p (.uDone true) } := by
    simp [step]
  rw [e3, stepN_uDone i (c := true) (by simp)]
  simp

/-- ... in that order: the bundle is stored, `ROOTCA` is announced with the new bundle in place, the
    `default` callback comes after the cache was emptied and finds it empty. -/
theorem update_bundle_events {y : Sys} {p : Nat} (b : List Nat) (i : Input) (hp : y.procs p = .idle) (hne : y.st.cfg ≠ b) :
    (seqOp y p (.update b) i).st.events = y.st.events ++ [Ev.rootca true, Ev.workload true] ∧
    (seqOp y p (.update b) i).st.workload = none := by
  rw [(update_bundle_changed b i hp hne).1]
  simp [notifyWorkload, clearWorkload, bundleAnnounced, bundleStored]

theorem update_bundle_same {y : Sys} {p : Nat} (i : Input) (hp : y.procs p = .idle) :
    (seqOp y p (.update y.st.cfg) i).st = y.st ∧ (seqOp y p (.update y.st.cfg) i).procs p = .uDone false := by
  unfold seqOp runAlone
  have e0 : spawn y p (.update y.st.cfg) = { y with procs := upd y.procs p (.uSet y.st.cfg) } := by simp [spawn, hp]
  rw [e0, stepN_succ]
  have e1 : step { y with procs := upd y.procs p (.uSet y.st.cfg) } p i =
      { y with procs := upd (upd y.procs p (.uSet y.st.cfg)) p (.uDone false) } := by
    simp [step]
  rw [e1, stepN_uDone i (c := false) (by simp)]
  simp

/-- Sequential caller (what the `cache` stream executes): the rotation task of the cached certificate
    empties the cache and then delivers exactly one `default` callback, which finds the cache empty. -/
theorem timer_own_sequential {y : Sys} {p e : Nat} {en : Entry} {c : Item} (i : Input) (hp : y.procs p = .idle)
    (hq : y.st.queue[e]? = some en) (hf : en.fired = false) (hw : y.st.workload = some c)
    (hc : c.created = en.created) :
    (seqOp y p (.timer e) i).st.workload = none ∧
    (seqOp y p (.timer e) i).st.events = y.st.events ++ [Ev.workload true] ∧
    (seqOp y p (.timer e) i).procs p = .tDone e true := by
  have hlt : e < y.st.queue.length := by
    rcases Nat.lt_or_ge e y.st.queue.length with h | h
    · exact h
    · rw [List.getElem?_eq_none h] at hq; cases hq
  have hm : markFired y.st.queue e = y.st.queue.set e { en with fired := true } := by
    unfold markFired; rw [hq]
  unfold seqOp runAlone
  have e0 : spawn y p (.timer e) =
      { y with st := { y.st with queue := y.st.queue.set e { en with fired := true } }, procs := upd y.procs p (.tCheck e) } := by
    unfold spawn; simp only [hp, hq, hf, hm]; simp
  rw [e0, stepN_succ]
  have e1 : step { y with st := { y.st with queue := y.st.queue.set e { en with fired := true } },
                          procs := upd y.procs p (.tCheck e) } p i =
      { y with st := { y.st with queue := y.st.queue.set e { en with fired := true } },
               procs := upd (upd y.procs p (.tCheck e)) p (.tClear e) } := by
    simp [step, hw, hc, List.getElem?_set, hlt]
  rw [e1, stepN_succ]
  simp only [step, upd_same, stepN_succ]
  simp [stepN, step, clearWorkload, notifyWorkload]

/-! ### root_includes_ca : mergeTrustAnchorBytes is a sorted, duplicate-free union -/

theorem mem_insertS {x a : Nat} {l : List Nat} : x ∈ insertS a l ↔ x = a ∨ x ∈ l := by
  induction l with
  | nil => simp [insertS]
  | cons y ys ih =>
    unfold insertS
    split
    · simp
    · split
      · rename_i h; subst h; simp
      · simp [ih]; constructor <;> (intro h; rcases h with h | h | h <;> simp [h])

theorem mem_sortDedup {x : Nat} {l : List Nat} : x ∈ sortDedup l ↔ x ∈ l := by
  induction l with
  | nil => simp [sortDedup]
  | cons a as ih =>
    have : sortDedup (a :: as) = insertS a (sortDedup as) := rfl
    rw [this, mem_insertS, ih]; simp

/-- The merged bundle contains exactly the configured anchors and the given roots. -/
theorem mem_mergeAnchors {x : Nat} {cfg roots : List Nat} : x ∈ mergeAnchors cfg roots ↔ x ∈ cfg ∨ x ∈ roots := by
  unfold mergeAnchors; rw [mem_sortDedup]; simp

theorem insertS_sorted {a : Nat} {l : List Nat} (h : l.Pairwise (· < ·)) : (insertS a l).Pairwise (· < ·) := by
  induction l with
  | nil => simp [insertS]
  | cons y ys ih =>
    unfold insertS
    have hy := List.pairwise_cons.1 h
    split
    · rename_i hlt
      refine List.pairwise_cons.2 ⟨fun z hz => ?_, h⟩
      rcases List.mem_cons.1 hz with rfl | hz
      · exact hlt
      · exact Nat.lt_trans hlt (hy.1 z hz)
    · split
      · exact h
      · rename_i h1 h2
        refine List.pairwise_cons.2 ⟨fun z hz => ?_, ih hy.2⟩
        rcases mem_insertS.1 hz with rfl | hz
        · omega
        · exact hy.1 z hz

/-- ... and is strictly sorted (sorted and free of duplicates). -/
theorem mergeAnchors_sorted (cfg roots : List Nat) : (mergeAnchors cfg roots).Pairwise (· < ·) := by
  unfold mergeAnchors sortDedup
  induction (cfg ++ roots) with
  | nil => simp
  | cons a as ih => exact insertS_sorted ih

/-- The ROOTCA hit path is two reads (the cache, then configTrustBundle) and other processes may run in
    between.  First read: the roots the call carries are exactly those of the item cached at that instant. -/
theorem rootca_first_read {y : Sys} {p : Nat} {l : Bool} {c : Item} (i : Input)
    (hp : y.procs p = .gRead .root l) (hw : y.st.workload = some c) :
    (step y p i).procs p = .gMerge c.root l ∧ (step y p i).st = y.st := by
  simp [step, hp, hw]

/-- Second read, in ANY reachable state (whatever happened since the first read - clears, new
    certificates, bundle updates): the carried roots are non-empty, and the answer is the strictly
    sorted union of them with the configured anchors AS THEY ARE NOW; nothing else is in it. -/
theorem rootca_answer_interleaved {y : Sys} (h : Reachable y) {p : Nat} {roots : List Nat} {l : Bool} (i : Input)
    (hp : y.procs p = .gMerge roots l) :
    roots ≠ [] ∧
    ∃ r, ((step y p i).procs p = .gUnlock r ∨ (step y p i).procs p = .gDone r) ∧ r.ok = true ∧
      r.root = some (mergeAnchors y.st.cfg roots) ∧
      (∀ x, x ∈ mergeAnchors y.st.cfg roots ↔ x ∈ y.st.cfg ∨ x ∈ roots) ∧
      (mergeAnchors y.st.cfg roots).Pairwise (· < ·) := by
  have hr := (inv_reachable h).roots.2 p
  rw [hp] at hr
  refine ⟨hr, { ok := true, root := some (mergeAnchors y.st.cfg roots) }, ?_, rfl, rfl,
    fun x => mem_mergeAnchors, mergeAnchors_sorted _ _⟩
  cases l <;> simp [step, hp, finish]

/-- Staleness bound of a ROOTCA answer under interleaving: it reflects the certificate that was cached at the call's
    FIRST read (`rootca_first_read`), merged with the anchors configured at its second read - not more.  A
    certificate stored between the two reads is not reflected: here the call read certificate 0 (root `[0]`), then a
    bundle update emptied the cache and certificate 1 (root `[1]`) was issued and recorded; the answer is `[0,7]`
    and lacks the CA's current root.  (The callers that matter are told: that root change emits `ROOTCA`.) -/
theorem rootca_answer_can_be_stale_witness :
    let i0 : Input := { ca := .ok 3600000000000 0 [], now := 1 }
    let i1 : Input := { ca := .ok 3600000000000 1 [], now := 2 }
    let acts1 : List Act := [.spawn 0 (.gen .workload)] ++ List.replicate 12 (.step 0 i0) ++
      [.spawn 5 (.gen .root), .step 5 {}]                                -- first read: carries `[0]`
    let acts3 : List Act := acts1 ++ [.spawn 1 (.update [7])] ++ List.replicate 12 (.step 1 {}) ++
      [.spawn 2 (.gen .workload)] ++ List.replicate 12 (.step 2 i1)
    let y1 := run (Sys.init ⟨1, 2⟩ ⟨0, 1⟩) acts1
    let y3 := run (Sys.init ⟨1, 2⟩ ⟨0, 1⟩) acts3
    let y4 := step y3 5 {}                                              -- second read and answer
    y1.procs 5 = .gMerge [0] false ∧ Reachable y3 ∧
    (y3.st.workload.map (·.root)) = some [1] ∧ y3.st.certRoot = [1] ∧
    y4.procs 5 = .gDone { ok := true, root := some [0, 7] } := by
  refine ⟨by decide, ⟨_, _, _, rfl⟩, by decide, by decide, by decide⟩

/-- "UpdateConfigTrustBundle will re-sign the workload certificate" has a gap: a certificate OBTAINED before the
    update can be STORED after its clear, and then stays cached - it is not re-signed (`clears = 1`, no successful CA
    call since, certificate 0 cached under the new bundle).  Nothing in the property forbids it (the certificate is
    valid, matching and has its renewal scheduled); recorded as a witness, no theorem claims a re-sign. -/
theorem lost_resign_witness :
    let i0 : Input := { ca := .ok 3600000000000 0 [], now := 1 }
    let y := run (Sys.init ⟨1, 2⟩ ⟨0, 1⟩)
      ([.spawn 0 (.gen .workload), .step 0 i0, .step 0 i0, .step 0 i0, .step 0 i0,      -- CA answered, not yet stored
        .spawn 1 (.update [7]), .step 1 {}, .step 1 {}, .step 1 {}, .step 1 {}] ++      -- bundle stored, cache cleared
       List.replicate 7 (.step 0 i0))                                                   -- now it is stored
    y.st.cfg = [7] ∧ y.st.clears = 1 ∧ y.st.okSinceClear = 0 ∧ (y.st.workload.map (·.key)) = some 0 ∧
    y.procs 1 = .uDone true ∧
    y.procs 0 = .gDone { ok := true, key := some 0, cert := some 0, root := some [0] } := by
  decide

/-- **root_includes_ca**: whatever path answers a `ROOTCA` request (cache hit, or a CA call), the
    returned bundle contains every root of the CA response behind the workload certificate that is
    cached when the call returns, and every configured trust anchor. -/
theorem root_includes_ca {y : Sys} {p : Nat} (i : Input) (hq : Quiet y p)
    (hca : y.st.workload = none → ∃ ttl sg b, i.ca = .ok ttl sg b) :
    ∃ w bundle, (seqOp y p (.gen .root) i).st.workload = some w ∧
      (∃ r, (seqOp y p (.gen .root) i).procs p = .gDone r ∧ r.ok = true ∧ r.root = some bundle) ∧
      (∀ x ∈ w.root, x ∈ bundle) ∧ (∀ x ∈ y.st.cfg, x ∈ bundle) ∧ bundle.Pairwise (· < ·) := by
  cases hw : y.st.workload with
  | some c =>
    have h := gen_root_hit i hq hw
    refine ⟨c, mergeAnchors y.st.cfg c.root, by rw [h.1, hw], ⟨_, h.2, rfl, rfl⟩, ?_, ?_, mergeAnchors_sorted _ _⟩
    · intro x hx; exact mem_mergeAnchors.2 (Or.inr hx)
    · intro x hx; exact mem_mergeAnchors.2 (Or.inl hx)
  | none =>
    obtain ⟨ttl, sg, b, hok⟩ := hca hw
    have h := gen_miss_ok .root i hq hw hok
    simp only at h
    refine ⟨newItem y.st i.now ttl sg b, mergeAnchors y.st.cfg (newItem y.st i.now ttl sg b).root, ?_, ⟨_, h.2, rfl, ?_⟩, ?_, ?_,
      mergeAnchors_sorted _ _⟩
    · rw [h.1]; simp
    · simp [afterRegRet]
    · intro x hx; exact mem_mergeAnchors.2 (Or.inr hx)
    · intro x hx; exact mem_mergeAnchors.2 (Or.inl hx)

/-- The root of a CA response: the published bundle, or the last element of the chain (the signer)
    when the CA publishes none; it is never empty. -/
theorem newItem_root (s : State) (now ttl : Int) (sg : Nat) (b : List Nat) :
    (newItem s now ttl sg b).root = (if b.isEmpty then [sg] else b) ∧ (newItem s now ttl sg b).root ≠ [] := by
  constructor
  · rfl
  · unfold newItem; simp only; split
    · simp
    · rename_i h; intro hb; rw [hb] at h; simp at h

/-! ### Non-vacuity: concrete runs -/

private def okIn (now : Int) (sg : Nat) (b : List Nat) : Input := { ca := .ok 3600000000000 sg b, now := now }

/-- Two concurrent calls interleaved step by step: one CA call, both return pair 0. -/
example :
    let y := run (Sys.init ⟨1, 2⟩ ⟨0, 1⟩)
      [.spawn 0 (.gen .workload), .spawn 1 (.gen .workload), .step 0 (okIn 0 0 []), .step 1 (okIn 0 0 []),
       .step 0 (okIn 0 0 []), .step 1 (okIn 0 0 []), .step 0 (okIn 0 0 []), .step 0 (okIn 0 0 []), .step 0 (okIn 0 0 []),
       .step 0 (okIn 0 0 []), .step 0 (okIn 0 0 []), .step 0 (okIn 0 0 []), .step 0 (okIn 0 0 []), .step 0 (okIn 0 0 []),
       .step 1 (okIn 1 0 []), .step 1 (okIn 1 0 []), .step 1 (okIn 1 0 [])]
    y.st.caCalls = 1 ∧ y.st.okSinceClear = 1 ∧ y.st.queue.length = 1 ∧
    y.procs 0 = .gDone { ok := true, key := some 0, cert := some 0, root := some [0] } ∧
    y.procs 1 = .gDone { ok := true, key := some 0, cert := some 0 } ∧
    y.born 0 = y.doneAt 0 ∧ y.born 1 = y.doneAt 1 := by decide

/-- A stale rotation callback is a no-op, the current one empties the cache. -/
example :
    let y0 := seqOp (Sys.init ⟨1, 2⟩ ⟨0, 1⟩) 0 (.gen .workload) (okIn 0 0 [])
    let y1 := seqOp y0 1 (.update [2]) {}
    let y2 := seqOp y1 2 (.gen .workload) (okIn 5 0 [])
    let y3 := seqOp y2 3 (.timer 0) {}
    let y4 := seqOp y3 4 (.timer 1) {}
    y2.st.queue.length = 2 ∧ y3.procs 3 = .tDone 0 false ∧ y3.st.workload = y2.st.workload ∧
    y4.procs 4 = .tDone 1 true ∧ y4.st.workload = none ∧
    y4.st.events = [Ev.rootca true, Ev.rootca true, Ev.workload true, Ev.workload true] := by decide

end IstioModel.C18
