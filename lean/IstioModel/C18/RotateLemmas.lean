import IstioModel.C18.Rotate
import Mathlib.Tactic.Linarith
import Mathlib.Tactic.Ring

/-! Helper lemmas about `Frac` (not counted as obligations). -/
namespace IstioModel.C18
namespace Frac

/-- Well-formed: positive denominator. -/
def Wf (a : Frac) : Prop := 0 < a.den

instance (a : Frac) : Decidable a.Wf := inferInstanceAs (Decidable (0 < a.den))

theorem le_def (a b : Frac) : a ≤ b ↔ a.num * (b.den : Int) ≤ b.num * (a.den : Int) := Iff.rfl
theorem lt_def (a b : Frac) : a < b ↔ a.num * (b.den : Int) < b.num * (a.den : Int) := Iff.rfl

theorem wf_cast {a : Frac} (h : a.Wf) : (0 : Int) < (a.den : Int) := by
  unfold Wf at h; exact_mod_cast h

theorem add_wf {a b : Frac} (ha : a.Wf) (hb : b.Wf) : (a.add b).Wf := by
  unfold Wf at *; simp only [add]; exact Nat.mul_pos ha hb

theorem neg_wf {a : Frac} (ha : a.Wf) : a.neg.Wf := ha

theorem sub_wf {a b : Frac} (ha : a.Wf) (hb : b.Wf) : (a.sub b).Wf := add_wf ha (neg_wf hb)

theorem clamp01_wf {a : Frac} (ha : a.Wf) : a.clamp01.Wf := by
  unfold clamp01; split
  · decide
  · split
    · decide
    · exact ha

theorem clamp01_num_nonneg (a : Frac) : 0 ≤ a.clamp01.num := by
  unfold clamp01; split
  · decide
  · split
    · decide
    · omega

theorem clamp01_num_le_den (a : Frac) : a.clamp01.num ≤ (a.clamp01.den : Int) := by
  unfold clamp01; split
  · decide
  · split
    · decide
    · omega

/-- `r + j` is monotone in `j`. -/
theorem add_le_add_left {r a b : Frac} (hr : r.Wf) (ha : a.Wf) (hb : b.Wf) (h : a ≤ b) :
    r.add a ≤ r.add b := by
  have hr' := wf_cast hr; have ha' := wf_cast ha; have hb' := wf_cast hb
  rw [le_def] at *
  simp only [add]; push_cast
  have h2 : a.num * (b.den : Int) * ((r.den : Int) * (r.den : Int)) ≤ b.num * (a.den : Int) * ((r.den : Int) * (r.den : Int)) :=
    mul_le_mul_of_nonneg_right h (by positivity)
  nlinarith [h2]

/-- `r + j` is monotone in `r`. -/
theorem add_le_add_right {j a b : Frac} (hj : j.Wf) (ha : a.Wf) (hb : b.Wf) (h : a ≤ b) :
    a.add j ≤ b.add j := by
  have hj' := wf_cast hj; have ha' := wf_cast ha; have hb' := wf_cast hb
  rw [le_def] at *
  simp only [add]; push_cast
  have h2 : a.num * (b.den : Int) * ((j.den : Int) * (j.den : Int)) ≤ b.num * (a.den : Int) * ((j.den : Int) * (j.den : Int)) :=
    mul_le_mul_of_nonneg_right h (by positivity)
  nlinarith [h2]

/-- The clamp is monotone. -/
theorem clamp01_mono {a b : Frac} (ha : a.Wf) (hb : b.Wf) (h : a ≤ b) : a.clamp01 ≤ b.clamp01 := by
  have ha' := wf_cast ha; have hb' := wf_cast hb
  rw [le_def] at h
  unfold clamp01
  by_cases h1 : a.num > (a.den : Int)
  · have : b.num > (b.den : Int) := by
      by_contra hc
      have hc' : b.num ≤ (b.den : Int) := by omega
      nlinarith [mul_le_mul_of_nonneg_right hc' ha'.le, mul_lt_mul_of_pos_right h1 hb']
    simp [h1, this, le_def]
  · simp only [h1, if_false]
    by_cases h2 : a.num < 0
    · simp only [h2, if_true]
      by_cases h3 : b.num > (b.den : Int)
      · simp [h3, le_def, zero, one]
      · simp only [h3, if_false]
        by_cases h4 : b.num < 0
        · simp [h4, le_def]
        · simp only [h4, if_false, le_def, zero]; omega
    · simp only [h2, if_false]
      by_cases h3 : b.num > (b.den : Int)
      · simp only [h3, if_true, le_def, one]; push_cast; omega
      · simp only [h3, if_false]
        have : ¬ b.num < 0 := by
          intro hc
          nlinarith [mul_nonneg (show 0 ≤ a.num by omega) hb'.le, mul_neg_of_neg_of_pos hc ha']
        simp only [this, if_false, le_def]; exact h

/-- Floor of a scaled non-negative number is monotone in the fraction. -/
theorem ediv_mono {n1 n2 d1 d2 L : Int} (hd1 : 0 < d1) (hd2 : 0 < d2) (hL : 0 ≤ L)
    (h : n1 * d2 ≤ n2 * d1) : (n1 * L) / d1 ≤ (n2 * L) / d2 := by
  rw [Int.le_ediv_iff_mul_le hd2]
  have hq : (n1 * L) / d1 * d1 ≤ n1 * L := Int.ediv_mul_le _ (ne_of_gt hd1)
  have h1 : (n1 * L) / d1 * d1 * d2 ≤ n1 * L * d2 := mul_le_mul_of_nonneg_right hq hd2.le
  have h2 : n1 * d2 * L ≤ n2 * d1 * L := mul_le_mul_of_nonneg_right h hL
  have h3 : (n1 * L) / d1 * d2 * d1 ≤ n2 * L * d1 := by nlinarith [h1, h2]
  exact le_of_mul_le_mul_right h3 hd1

theorem mulTrunc_neg (a : Frac) (L : Int) : a.mulTrunc (-L) = - a.mulTrunc L := by
  unfold mulTrunc
  rw [show a.num * -L = -(a.num * L) by ring, Int.neg_tdiv]

theorem mulTrunc_eq_ediv {a : Frac} {L : Int} (hn : 0 ≤ a.num) (hL : 0 ≤ L) :
    a.mulTrunc L = (a.num * L) / (a.den : Int) := by
  unfold mulTrunc
  exact Int.tdiv_eq_ediv_of_nonneg (mul_nonneg hn hL)

/-- `⌊a·L⌋` is monotone in `a` for `L ≥ 0` (on non-negative fractions). -/
theorem mulTrunc_mono {a b : Frac} {L : Int} (ha : a.Wf) (hb : b.Wf) (hn : 0 ≤ a.num) (hL : 0 ≤ L)
    (h : a ≤ b) : a.mulTrunc L ≤ b.mulTrunc L := by
  have ha' := wf_cast ha; have hb' := wf_cast hb
  have hnb : 0 ≤ b.num := by
    rw [le_def] at h
    by_contra hc
    have hc' : b.num < 0 := by omega
    nlinarith [mul_nonneg hn hb'.le, mul_neg_of_neg_of_pos hc' ha']
  rw [mulTrunc_eq_ediv hn hL, mulTrunc_eq_ediv hnb hL]
  exact ediv_mono ha' hb' hL h

/-- and antitone for `L ≤ 0`. -/
theorem mulTrunc_anti {a b : Frac} {L : Int} (ha : a.Wf) (hb : b.Wf) (hn : 0 ≤ a.num) (hL : L ≤ 0)
    (h : a ≤ b) : b.mulTrunc L ≤ a.mulTrunc L := by
  have h1 := mulTrunc_mono (L := -L) ha hb hn (by omega) h
  rw [mulTrunc_neg, mulTrunc_neg] at h1
  omega

theorem mulTrunc_nonneg {a : Frac} {L : Int} (hn : 0 ≤ a.num) (hL : 0 ≤ L) : 0 ≤ a.mulTrunc L := by
  rw [mulTrunc_eq_ediv hn hL]
  exact Int.ediv_nonneg (mul_nonneg hn hL) (by omega)

theorem mulTrunc_le {a : Frac} {L : Int} (ha : a.Wf) (hn : 0 ≤ a.num) (h1 : a.num ≤ (a.den : Int))
    (hL : 0 ≤ L) : a.mulTrunc L ≤ L := by
  have ha' := wf_cast ha
  rw [mulTrunc_eq_ediv hn hL]
  have : a.num * L / (a.den : Int) < L + 1 := by
    rw [Int.ediv_lt_iff_lt_mul ha']
    nlinarith [mul_le_mul_of_nonneg_right h1 hL]
  omega

end Frac
end IstioModel.C18
