import IstioModel.C18.Model
import IstioModel.C18.RotateTheorems

/-!
C18 part 2 - inductive invariants of the interleaving model (`step` / `spawn`), each preserved by
every atomic step of every process with every environment input.  `Theorems.lean` derives the
clauses of the property from them.
-/
-- the `first | (...; done) | ...` cascades below try the cheap closing tactic first; in the branches where it
-- already succeeds the linters report the fallbacks as unused. They are needed in the other branches.
set_option linter.unusedTactic false
set_option linter.unreachableTactic false
set_option linter.unusedSimpArgs false
set_option linter.unusedVariables false

namespace IstioModel.C18

@[simp] theorem upd_same {α : Type} (f : Nat → α) (p : Nat) (v : α) : upd f p v p = v := by simp [upd]
@[simp] theorem upd_ne {α : Type} (f : Nat → α) {p q : Nat} (v : α) (h : q ≠ p) : upd f p v q = f q := by
  simp [upd, h]

/-- The process holds `generateMutex`. -/
def holds : Proc → Bool
  | .idle => false
  | .gRead _ l => l
  | .gMerge _ l => l
  | .gLock _ => false
  | .gCallCA _ => true
  | .gRegCheck _ _ => true
  | .gRegStore _ _ _ _ => true
  | .gRegPush _ _ _ _ _ => true
  | .gAfterReg _ _ => true
  | .gNotifyRoot _ _ => true
  | .gUnlock _ => true
  | .gDone _ => false
  | .tCheck _ => false
  | .tClear _ => false
  | .tNotify _ _ => false
  | .tDone _ _ => false
  | .uSet _ => false
  | .uNotifyRoot _ _ => false
  | .uClear => false
  | .uNotify _ => false
  | .uDone _ => false

/-- Between the re-check that found the cache empty and `SetWorkload(&item)`. -/
def preStore : Proc → Bool
  | .gCallCA _ => true
  | .gRegCheck _ _ => true
  | .gRegStore _ _ _ _ => true
  | _ => false

/-- Holds a CA response that is not yet in the cache. -/
def fresh : Proc → Bool
  | .gRegCheck _ _ => true
  | .gRegStore _ _ _ _ => true
  | _ => false

/-- Key id of the item / result the process carries. -/
def carried : Proc → Option Nat
  | .gRegCheck _ it => some it.key
  | .gRegStore _ it _ _ => some it.key
  | .gRegPush _ it _ _ _ => some it.key
  | .gAfterReg _ it => some it.key
  | .gNotifyRoot _ it => some it.key
  | .gUnlock r => r.key
  | .gDone r => r.key
  | _ => none

/-- Key and certificate of everything the process carries belong together. -/
def procPaired : Proc → Prop
  | .gRegCheck _ it => it.key = it.cert
  | .gRegStore _ it _ _ => it.key = it.cert
  | .gRegPush _ it _ _ _ => it.key = it.cert
  | .gAfterReg _ it => it.key = it.cert
  | .gNotifyRoot _ it => it.key = it.cert
  | .gUnlock r => r.key = r.cert
  | .gDone r => r.key = r.cert
  | _ => True

/-- A scheduled delay is fine: never negative, and not beyond the expiry of its certificate
    (counted from the instant `cat` at which rotateTime read the clock). -/
def GoodDelay (created expire delay cat : Int) : Prop :=
  0 ≤ delay ∧ (created ≤ expire → cat ≤ expire → cat + delay ≤ expire)

def procSched : Proc → Prop
  | .gRegStore _ it d cat => GoodDelay it.created it.expire d cat
  | .gRegPush _ it d cat _ => GoodDelay it.created it.expire d cat
  | _ => True

/-- The `stores` counter a process remembered when it emptied the cache (between clear and notify). -/
def notifyMark : Proc → Option Nat
  | .tNotify _ m => some m
  | .uNotify m => some m
  | _ => none

/-- Between `SetWorkload(nil)` and the `default` callback of the same process the cache is empty unless
    somebody stored a certificate after the clear. -/
def NotifyInv (y : Sys) : Prop :=
  ∀ q m, notifyMark (y.procs q) = some m → m ≤ y.st.stores ∧ (y.st.workload.isSome = true → m < y.st.stores)

/-- exclusive ownership of generateMutex -/
def MutexInv (y : Sys) : Prop := ∀ q, holds (y.procs q) = true ↔ y.st.mutex = some q

/-- the cache stays empty from the failed re-check to the store -/
def EmptyInv (y : Sys) : Prop := ∀ q, preStore (y.procs q) = true → y.st.workload = none

/-- at most one successful CA call since the last clear -/
def FlightInv (y : Sys) : Prop :=
  y.st.okSinceClear ≤ 1 ∧
  ∀ q, (y.st.mutex = none ∨ (y.st.mutex = some q ∧ fresh (y.procs q) = false)) →
    y.st.workload = none → y.st.okSinceClear = 0

def EpochInv (y : Sys) : Prop := ∀ q, y.born q ≤ y.st.clears ∧ y.doneAt q ≤ y.st.clears

/-- a call that started after the last clear carries the cached pair (or a fresh one not yet stored) -/
def CarryInv (y : Sys) : Prop :=
  ∀ q k, y.born q = y.st.clears → carried (y.procs q) = some k →
    y.st.workload.map (·.key) = some k ∨ fresh (y.procs q) = true

/-- calls that ran entirely between the same two clears returned the same pair -/
def SamePairInv (y : Sys) : Prop :=
  ∀ p q r1 r2 k1 k2, y.procs p = .gDone r1 → y.procs q = .gDone r2 →
    y.born p = y.doneAt p → y.born q = y.doneAt q → y.born p = y.born q →
    r1.key = some k1 → r2.key = some k2 → k1 = k2

def PairInv (y : Sys) : Prop :=
  (∀ w, y.st.workload = some w → w.key = w.cert) ∧ ∀ q, procPaired (y.procs q)

/-- Between `SetWorkload(&item)` and `PushDelayed`. -/
def isPush : Proc → Bool
  | .gRegPush _ _ _ _ _ => true
  | _ => false

/-- 1 if the owner of generateMutex has stored its item and not yet pushed the task. -/
def pendingPush (y : Sys) : Nat :=
  match y.st.mutex with
  | some q => if isPush (y.procs q) then 1 else 0
  | none => 0

/-- One queue entry per store; the storer that has not pushed yet accounts for the difference. -/
def QueueInv (y : Sys) : Prop := y.st.queue.length + pendingPush y = y.st.stores

/-- While a caller is between its store and its push, the cache holds exactly its item, unless the
    cache was emptied since. -/
def PushInv (y : Sys) : Prop :=
  ∀ q res it d c m, y.procs q = .gRegPush res it d c m →
    m ≤ y.st.clears ∧ (y.st.workload = some it ∨ (y.st.workload = none ∧ m < y.st.clears))

/-- `OnSecretUpdate(ROOTCA)` of GenerateSecret is called with `certRoot` already holding the new root
    (only the owner of generateMutex writes it). -/
def RootNotifyInv (y : Sys) : Prop := ∀ q res it, y.procs q = .gNotifyRoot res it → y.st.certRoot = it.root

/-- `OnSecretUpdate(ROOTCA)` of UpdateConfigTrustBundle is called with configTrustBundle holding the
    announced bundle, unless another update stored a different one since. -/
def CfgNotifyInv (y : Sys) : Prop :=
  ∀ q b m, y.procs q = .uNotifyRoot b m → m ≤ y.st.cfgWrites ∧ (y.st.cfg ≠ b → m < y.st.cfgWrites)

def SchedInv (y : Sys) : Prop :=
  (∀ en ∈ y.st.queue, GoodDelay en.created en.expire en.delay en.computedAt) ∧ ∀ q, procSched (y.procs q)

@[simp] theorem afterRegState_workload (s : State) (it : Item) : (afterRegState s it).workload = s.workload := by
  unfold afterRegState; split <;> rfl
@[simp] theorem afterRegState_mutex (s : State) (it : Item) : (afterRegState s it).mutex = s.mutex := by
  unfold afterRegState; split <;> rfl
@[simp] theorem afterRegState_queue (s : State) (it : Item) : (afterRegState s it).queue = s.queue := by
  unfold afterRegState; split <;> rfl
@[simp] theorem afterRegState_clears (s : State) (it : Item) : (afterRegState s it).clears = s.clears := by
  unfold afterRegState; split <;> rfl
@[simp] theorem afterRegState_ok (s : State) (it : Item) : (afterRegState s it).okSinceClear = s.okSinceClear := by
  unfold afterRegState; split <;> rfl
@[simp] theorem afterRegState_stores (s : State) (it : Item) : (afterRegState s it).stores = s.stores := by
  unfold afterRegState; split <;> rfl
@[simp] theorem afterRegState_caCalls (s : State) (it : Item) : (afterRegState s it).caCalls = s.caCalls := by
  unfold afterRegState; split <;> rfl
@[simp] theorem afterRegState_cfg (s : State) (it : Item) : (afterRegState s it).cfg = s.cfg := by
  unfold afterRegState; split <;> rfl
@[simp] theorem afterRegRet_key (s : State) (res : Res) (it : Item) : (afterRegRet s res it).key = some it.key := rfl
@[simp] theorem afterRegRet_cert (s : State) (res : Res) (it : Item) : (afterRegRet s res it).cert = some it.cert := rfl
@[simp] theorem afterRegRet_ok (s : State) (res : Res) (it : Item) : (afterRegRet s res it).ok = true := rfl

@[simp] theorem notifyWorkload_workload (s : State) : (notifyWorkload s).workload = s.workload := rfl
@[simp] theorem notifyWorkload_mutex (s : State) : (notifyWorkload s).mutex = s.mutex := rfl
@[simp] theorem notifyWorkload_queue (s : State) : (notifyWorkload s).queue = s.queue := rfl
@[simp] theorem notifyWorkload_clears (s : State) : (notifyWorkload s).clears = s.clears := rfl
@[simp] theorem notifyWorkload_ok (s : State) : (notifyWorkload s).okSinceClear = s.okSinceClear := rfl
@[simp] theorem notifyWorkload_stores (s : State) : (notifyWorkload s).stores = s.stores := rfl
@[simp] theorem notifyWorkload_caCalls (s : State) : (notifyWorkload s).caCalls = s.caCalls := rfl
@[simp] theorem notifyWorkload_cfg (s : State) : (notifyWorkload s).cfg = s.cfg := rfl
@[simp] theorem notifyWorkload_cfgWrites (s : State) : (notifyWorkload s).cfgWrites = s.cfgWrites := rfl
@[simp] theorem afterRegState_cfgWrites (s : State) (it : Item) : (afterRegState s it).cfgWrites = s.cfgWrites := by
  unfold afterRegState; split <;> rfl
@[simp] theorem notifyWorkload_certRoot (s : State) : (notifyWorkload s).certRoot = s.certRoot := rfl

@[simp] theorem pushState_workload (s : State) (it : Item) (d c n : Int) : (pushState s it d c n).workload = s.workload := rfl
@[simp] theorem pushState_mutex (s : State) (it : Item) (d c n : Int) : (pushState s it d c n).mutex = s.mutex := rfl
@[simp] theorem pushState_clears (s : State) (it : Item) (d c n : Int) : (pushState s it d c n).clears = s.clears := rfl
@[simp] theorem pushState_ok (s : State) (it : Item) (d c n : Int) : (pushState s it d c n).okSinceClear = s.okSinceClear := rfl
@[simp] theorem pushState_stores (s : State) (it : Item) (d c n : Int) : (pushState s it d c n).stores = s.stores := rfl
@[simp] theorem pushState_caCalls (s : State) (it : Item) (d c n : Int) : (pushState s it d c n).caCalls = s.caCalls := rfl
@[simp] theorem pushState_cfg (s : State) (it : Item) (d c n : Int) : (pushState s it d c n).cfg = s.cfg := rfl
@[simp] theorem pushState_certRoot (s : State) (it : Item) (d c n : Int) : (pushState s it d c n).certRoot = s.certRoot := rfl
@[simp] theorem pushState_events (s : State) (it : Item) (d c n : Int) : (pushState s it d c n).events = s.events := rfl
@[simp] theorem pushState_cfgWrites (s : State) (it : Item) (d c n : Int) : (pushState s it d c n).cfgWrites = s.cfgWrites := rfl
@[simp] theorem pushState_queue (s : State) (it : Item) (d c n : Int) :
    (pushState s it d c n).queue =
      s.queue ++ [⟨it.created, d, n, it.expire, c, it.key, s.workload.isSome, false⟩] := rfl

/-! ### Preservation by `step` -/

theorem step_mutex {y : Sys} (p : Nat) (i : Input) (h : MutexInv y) : MutexInv (step y p i) := by
  intro q
  have hq := h q
  have hp := h p
  unfold step
  simp only [finish]
  split <;> try exact hq
  all_goals (repeat' split)
  all_goals (by_cases hqp : q = p <;> simp_all [holds, clearWorkload] <;> omega)

theorem step_empty {y : Sys} (p : Nat) (i : Input) (hM : MutexInv y) (h : EmptyInv y) : EmptyInv (step y p i) := by
  intro q
  have hq := h q
  have hp := h p
  have mq := hM q
  have mp := hM p
  unfold step
  simp only [finish]
  split <;> try exact hq
  all_goals (repeat' split)
  all_goals (by_cases hqp : q = p)
  all_goals (first
    | (subst hqp; simp_all [holds, preStore, clearWorkload]; done)
    | (have hqp' : ¬ p = q := fun h => hqp h.symm
       cases hc : y.procs q <;> simp_all [holds, preStore, clearWorkload]))

theorem step_flight_le {y : Sys} (p : Nat) (i : Input) (hM : MutexInv y) (hE : EmptyInv y) (h : FlightInv y) :
    (step y p i).st.okSinceClear ≤ 1 := by
  obtain ⟨h0, h1⟩ := h
  have ep := hE p
  have mp := hM p
  have fp := h1 p
  unfold step
  simp only [finish]
  split <;> try exact h0
  all_goals (repeat' split)
  all_goals (simp_all [holds, preStore, fresh, clearWorkload])

theorem step_flight_zero {y : Sys} (p : Nat) (i : Input) (hM : MutexInv y) (hE : EmptyInv y) (h : FlightInv y) (q : Nat) :
    ((step y p i).st.mutex = none ∨ ((step y p i).st.mutex = some q ∧ fresh ((step y p i).procs q) = false)) →
    (step y p i).st.workload = none → (step y p i).st.okSinceClear = 0 := by
  obtain ⟨h0, h1⟩ := h
  have ep := hE p
  have mp := hM p
  have fp := h1 p
  have fq := h1 q
  have mq := hM q
  unfold step
  simp only [finish]
  split <;> try exact fq
  all_goals (repeat' split)
  all_goals (by_cases hqp : q = p)
  all_goals (first
    | (subst hqp; simp_all [holds, preStore, fresh, clearWorkload]; done)
    | (have hqp' : ¬ p = q := fun h => hqp h.symm
       simp_all [holds, preStore, fresh, clearWorkload]; done)
    | (have hqp' : ¬ p = q := fun h => hqp h.symm
       cases hc : y.procs q <;> simp_all [holds, preStore, fresh, clearWorkload]))

theorem step_flight {y : Sys} (p : Nat) (i : Input) (hM : MutexInv y) (hE : EmptyInv y) (h : FlightInv y) :
    FlightInv (step y p i) :=
  ⟨step_flight_le p i hM hE h, fun q => step_flight_zero p i hM hE h q⟩

theorem step_born (y : Sys) (p : Nat) (i : Input) : (step y p i).born = y.born := by
  unfold step
  simp only [finish]
  split <;> try rfl
  all_goals (repeat' split)
  all_goals rfl

theorem step_clears_le (y : Sys) (p : Nat) (i : Input) : y.st.clears ≤ (step y p i).st.clears := by
  unfold step
  simp only [finish]
  split <;> try exact Nat.le_refl _
  all_goals (repeat' split)
  all_goals (simp [clearWorkload])

theorem step_epoch {y : Sys} (p : Nat) (i : Input) (h : EpochInv y) : EpochInv (step y p i) := by
  intro q
  have hq := h q
  have hp := h p
  unfold step
  simp only [finish]
  split <;> try exact hq
  all_goals (repeat' split)
  all_goals (by_cases hqp : q = p)
  all_goals (first
    | (subst hqp; simp_all [clearWorkload]; done)
    | (subst hqp; simp_all [clearWorkload]; omega)
    | (simp_all [clearWorkload]; done)
    | (simp_all [clearWorkload]; omega))

theorem step_carry {y : Sys} (p : Nat) (i : Input) (hM : MutexInv y) (hE : EmptyInv y) (hB : EpochInv y)
    (h : CarryInv y) : CarryInv (step y p i) := by
  intro q k
  have hq := h q k
  have hp := h p k
  have mq := hM q
  have mp := hM p
  have ep := hE p
  have bq := (hB q).1
  unfold step
  simp only [finish]
  split <;> try exact hq
  all_goals (repeat' split)
  all_goals (by_cases hqp : q = p)
  all_goals (first
    | (subst hqp; simp_all [holds, preStore, fresh, carried, clearWorkload, newItem]; done)
    | (subst hqp; simp_all [holds, preStore, fresh, carried, clearWorkload, newItem]; omega)
    | (have hqp' : ¬ p = q := fun h => hqp h.symm
       simp_all [holds, preStore, fresh, carried, clearWorkload]; done)
    | (have hqp' : ¬ p = q := fun h => hqp h.symm
       simp_all [holds, preStore, fresh, carried, clearWorkload]; omega)
    | (have hqp' : ¬ p = q := fun h => hqp h.symm
       cases hc : y.procs q <;> simp_all [holds, preStore, fresh, carried, clearWorkload] <;> omega))

/-- A finished process never changes again. -/
theorem step_done_stable {y : Sys} (p : Nat) (i : Input) {q : Nat} {r : Ret} (h : y.procs q = .gDone r) :
    (step y p i).procs q = .gDone r ∧ (step y p i).doneAt q = y.doneAt q := by
  unfold step
  simp only [finish]
  split <;> try exact ⟨h, rfl⟩
  all_goals (repeat' split)
  all_goals (by_cases hqp : q = p)
  all_goals (first
    | (subst hqp; simp_all; done)
    | (simp_all; done))

theorem step_pair {y : Sys} (p : Nat) (i : Input) (h : PairInv y) : PairInv (step y p i) := by
  obtain ⟨hw, hpr⟩ := h
  have hp := hpr p
  unfold step
  simp only [finish]
  split <;> try exact ⟨hw, hpr⟩
  all_goals (repeat' split)
  all_goals (refine ⟨?_, fun q => ?_⟩)
  all_goals (try (have hq := hpr q))
  all_goals (try (by_cases hqp : q = p))
  all_goals (first
    | (simp_all [procPaired, clearWorkload, newItem]; done)
    | (subst hqp; simp_all [procPaired, clearWorkload, newItem]; done)
    | (intro w hw'; simp_all [procPaired, clearWorkload, newItem]; done))

theorem step_queue {y : Sys} (p : Nat) (i : Input) (hM : MutexInv y) (h : QueueInv y) : QueueInv (step y p i) := by
  have mp := hM p
  unfold QueueInv pendingPush at *
  cases hm : y.st.mutex with
  | none =>
    rw [hm] at h mp
    unfold step
    simp only [finish]
    split <;> try (simp only [hm]; exact h)
    all_goals (repeat' split)
    all_goals (simp_all [holds, isPush, clearWorkload])
  | some q0 =>
    rw [hm] at h mp
    by_cases hq0 : q0 = p
    · subst hq0
      unfold step
      simp only [finish]
      split <;> try (simp only [hm]; exact h)
      all_goals (repeat' split)
      all_goals (simp_all [holds, isPush, clearWorkload])
      all_goals (try omega)
    · have hne : ¬ p = q0 := fun h => hq0 h.symm
      unfold step
      simp only [finish]
      split <;> try (simp only [hm]; exact h)
      all_goals (repeat' split)
      all_goals (simp_all [holds, isPush, clearWorkload])

theorem goodDelay_rotate (c e now : Int) (r j : Frac) : GoodDelay c e (rotateDelay c e now r j) now :=
  ⟨delay_nonneg _ _ _ _ _, fun h1 h2 => rotate_not_after_expiry h1 h2⟩

theorem step_sched {y : Sys} (p : Nat) (i : Input) (h : SchedInv y) : SchedInv (step y p i) := by
  obtain ⟨hq, hpr⟩ := h
  have hp := hpr p
  unfold step
  simp only [finish]
  split <;> try exact ⟨hq, hpr⟩
  all_goals (repeat' split)
  all_goals (refine ⟨?_, fun q => ?_⟩)
  all_goals (try (have hq' := hpr q))
  all_goals (try (by_cases hqp : q = p))
  all_goals (first
    | (simp_all [procSched, clearWorkload]; done)
    | (subst hqp; simp_all [procSched, clearWorkload]; done)
    | (subst hqp; simp only [upd_same, procSched]; exact goodDelay_rotate _ _ _ _ _)
    | (intro en hen
       simp only [pushState_queue, List.mem_append, List.mem_singleton] at hen
       rcases hen with hen | hen
       · exact hq en hen
       · subst hen; simp_all [procSched]))

/-- How a process can be finished after a step: it was finished before, or it is the stepping
    process, which returned now: no clear happened in that step and (by `CarryInv`) a call that
    started after the last clear returns the cached pair. -/
theorem step_done_cases {y : Sys} (p : Nat) (i : Input) (hC : CarryInv y) {a : Nat} {r : Ret}
    (h : (step y p i).procs a = .gDone r) :
    y.procs a = .gDone r ∨
    (a = p ∧ (∀ r', y.procs p ≠ .gDone r') ∧ (step y p i).doneAt p = y.st.clears ∧
      (step y p i).st.clears = y.st.clears ∧
      ∀ k, r.key = some k → y.born p = y.st.clears → y.st.workload.map (·.key) = some k) := by
  have hp := hC p
  revert h
  unfold step
  simp only [finish]
  split
  all_goals (repeat' split)
  all_goals (by_cases hap : a = p)
  all_goals (first
    | (subst hap; intro h; simp_all [carried, fresh]; done)
    | (subst hap; intro h; right; simp_all [carried, fresh]; done)
    | (intro h; left; simp_all; done)
    | (subst hap; intro h; right; simp_all [carried, fresh]
       intro k hk hb; subst h; simp_all))

theorem step_samePair {y : Sys} (p : Nat) (i : Input) (hB : EpochInv y) (hC : CarryInv y) (h : SamePairInv y) :
    SamePairInv (step y p i) := by
  intro a b r1 r2 k1 k2 ha hb hba hbb hab hk1 hk2
  rw [step_born] at hba hbb hab
  rcases step_done_cases p i hC ha with ha' | ⟨rfl, hnd, hd, hcl, hcar⟩
  · rcases step_done_cases p i hC hb with hb' | ⟨rfl, hnd, hd, hcl, hcar⟩
    · rw [(step_done_stable p i ha').2] at hba
      rw [(step_done_stable p i hb').2] at hbb
      exact h a b r1 r2 k1 k2 ha' hb' hba hbb hab hk1 hk2
    · -- b returns now, a returned earlier in the same epoch
      rw [(step_done_stable b i ha').2] at hba
      rw [hd] at hbb
      have h1 := hcar k2 hk2 hbb
      have h2 := hC a k1 (by omega) (by simp [ha', carried, hk1])
      simp [ha', fresh] at h2
      simp at h1
      obtain ⟨w1, e1, rfl⟩ := h1
      obtain ⟨w2, e2, rfl⟩ := h2
      rw [e1] at e2; cases e2; rfl
  · rcases step_done_cases a i hC hb with hb' | ⟨hba', _, _, _, _⟩
    · rw [(step_done_stable a i hb').2] at hbb
      rw [hd] at hba
      have h1 := hcar k1 hk1 hba
      have h2 := hC b k2 (by omega) (by simp [hb', carried, hk2])
      simp [hb', fresh] at h2
      simp at h1
      obtain ⟨w1, e1, rfl⟩ := h1
      obtain ⟨w2, e2, rfl⟩ := h2
      rw [e1] at e2; cases e2; rfl
    · subst hba'
      rw [ha] at hb
      cases hb
      rw [hk1] at hk2; simpa using hk2

theorem step_notify {y : Sys} (p : Nat) (i : Input) (h : NotifyInv y) : NotifyInv (step y p i) := by
  intro q m
  have hq := h q m
  have hp := h p m
  unfold step
  simp only [finish]
  split <;> try exact hq
  all_goals (repeat' split)
  all_goals (by_cases hqp : q = p)
  all_goals (first
    | (subst hqp; simp_all [notifyMark, clearWorkload, notifyWorkload]; done)
    | (subst hqp; simp_all [notifyMark, clearWorkload, notifyWorkload]; omega)
    | (simp_all [notifyMark, clearWorkload, notifyWorkload]; done)
    | (simp_all [notifyMark, clearWorkload, notifyWorkload]; omega)
    | (simp_all [notifyMark, clearWorkload, notifyWorkload]
       intro hm; have := hq hm; omega))

/-- The rotation task `e` is pending: not started yet, or its callback is still before its clear. -/
def Pending (y : Sys) (e : Nat) (en : Entry) : Prop :=
  en.fired = false ∨ ∃ p, y.procs p = .tCheck e ∨ y.procs p = .tClear e

/-- Whatever is cached has its rotation task in the queue and that task is still pending - or the
    caller that stored it is between `SetWorkload(&item)` and `PushDelayed`. -/
def PendingTaskInv (y : Sys) : Prop :=
  ∀ w, y.st.workload = some w →
    (∃ e en, y.st.queue[e]? = some en ∧ en.created = w.created ∧ en.expire = w.expire ∧ en.key = w.key ∧ Pending y e en) ∨
    (∃ p res d c m, y.procs p = .gRegPush res w d c m)

theorem step_procs_other (y : Sys) (p : Nat) (i : Input) {q : Nat} (h : q ≠ p) : (step y p i).procs q = y.procs q := by
  unfold step
  simp only [finish]
  split <;> try rfl
  all_goals (repeat' split)
  all_goals (simp [h])

theorem step_push {y : Sys} (p : Nat) (i : Input) (hM : MutexInv y) (h : PushInv y) : PushInv (step y p i) := by
  intro q res it d c m
  have hq := h q res it d c m
  have mq := hM q
  have mp := hM p
  unfold step
  simp only [finish]
  split <;> try exact hq
  all_goals (repeat' split)
  all_goals (by_cases hqp : q = p)
  all_goals (first
    | (subst hqp; simp_all [holds, clearWorkload]; done)
    | (subst hqp; simp_all [holds, clearWorkload]; omega)
    | (have hqp' : ¬ p = q := fun h => hqp h.symm
       simp_all [holds, clearWorkload]; done)
    | (have hqp' : ¬ p = q := fun h => hqp h.symm
       simp_all [holds, clearWorkload]; omega)
    | (have hqp' : ¬ p = q := fun h => hqp h.symm
       simp_all [holds, clearWorkload]
       intro hh; have := hq hh; omega)
    | (have hqp' : ¬ p = q := fun h => hqp h.symm
       simp_all [holds, clearWorkload]
       intro hh; simp_all [holds]))

theorem step_rootNotify {y : Sys} (p : Nat) (i : Input) (hM : MutexInv y) (h : RootNotifyInv y) :
    RootNotifyInv (step y p i) := by
  intro q res it
  have hq := h q res it
  have mq := hM q
  have mp := hM p
  unfold step
  simp only [finish]
  split <;> try exact hq
  all_goals (repeat' split)
  all_goals (by_cases hqp : q = p)
  all_goals (first
    | (subst hqp; simp_all [holds, clearWorkload]; done)
    | (have hqp' : ¬ p = q := fun h => hqp h.symm
       simp_all [holds, clearWorkload]; done)
    | (have hqp' : ¬ p = q := fun h => hqp h.symm
       simp_all [holds, clearWorkload]
       intro hh; simp_all [holds]))

theorem step_cfgNotify {y : Sys} (p : Nat) (i : Input) (h : CfgNotifyInv y) : CfgNotifyInv (step y p i) := by
  intro q b m
  have hq := h q b m
  unfold step
  simp only [finish]
  split <;> try exact hq
  all_goals (repeat' split)
  all_goals (by_cases hqp : q = p)
  all_goals (first
    | (subst hqp; simp_all [clearWorkload]; done)
    | (subst hqp; simp_all [clearWorkload]; omega)
    | (simp_all [clearWorkload]; done)
    | (simp_all [clearWorkload]; omega)
    | (simp_all [clearWorkload]
       intro hh; have := hq hh; omega))

/-- What a step can do to the cache and the queue. -/
theorem step_workload_cases (y : Sys) (p : Nat) (i : Input) :
    ((step y p i).st.workload = y.st.workload ∧ (∀ e, y.procs p ≠ .tClear e) ∧
      ((∀ res it d c m, y.procs p ≠ .gRegPush res it d c m) ∨
       (∃ res it d c m, y.procs p = .gRegPush res it d c m ∧
          (step y p i).st.queue = y.st.queue ++ [⟨it.created, d, i.now, it.expire, c, it.key, y.st.workload.isSome, false⟩]))) ∨
    (step y p i).st.workload = none ∨
    (∃ res it d c, y.procs p = .gRegStore res it d c ∧ (step y p i).st.workload = some it ∧
      (step y p i).procs p = .gRegPush res it d c y.st.clears) := by
  unfold step
  simp only [finish]
  split
  all_goals (repeat' split)
  all_goals (simp_all [clearWorkload])

theorem step_queue_get (y : Sys) (p : Nat) (i : Input) {e : Nat} {en : Entry} (h : y.st.queue[e]? = some en) :
    (step y p i).st.queue[e]? = some en := by
  have hlt : e < y.st.queue.length := by
    rcases Nat.lt_or_ge e y.st.queue.length with h' | h'
    · exact h'
    · rw [List.getElem?_eq_none h'] at h; cases h
  revert h
  unfold step
  simp only [finish]
  split
  all_goals (repeat' split)
  all_goals (intro h; simp_all [clearWorkload, List.getElem?_append_left hlt])

theorem step_tcheck_match {y : Sys} {p e : Nat} {en : Entry} {w : Item} (i : Input) (hp : y.procs p = .tCheck e)
    (hq : y.st.queue[e]? = some en) (hw : y.st.workload = some w) (hc : en.created = w.created) :
    (step y p i).procs p = .tClear e := by
  simp [step, hp, hq, hw, hc]

theorem step_pendingTask {y : Sys} (p : Nat) (i : Input) (hP : PushInv y) (h : PendingTaskInv y) :
    PendingTaskInv (step y p i) := by
  intro w' hw'
  rcases step_workload_cases y p i with ⟨hsame, hnc, hpush⟩ | hnone | ⟨res, it, d, c, hp, hw, hpr⟩
  · rw [hsame] at hw'
    rcases h w' hw' with ⟨e, en, hq, hc, he, hk, hpend⟩ | ⟨p0, res, d, c, m, hp0⟩
    · left
      refine ⟨e, en, step_queue_get y p i hq, hc, he, hk, ?_⟩
      rcases hpend with hf | ⟨p0, hp0⟩
      · exact Or.inl hf
      · right
        by_cases hpp : p0 = p
        · subst hpp
          rcases hp0 with h1 | h1
          · exact ⟨p0, Or.inr (step_tcheck_match i h1 hq hw' hc)⟩
          · exact absurd h1 (hnc e)
        · exact ⟨p0, by rw [step_procs_other y p i hpp]; exact hp0⟩
    · by_cases hpp : p0 = p
      · subst hpp
        rcases hpush with hno | ⟨res2, it2, d2, c2, m2, hp2, hq2⟩
        · exact absurd hp0 (hno res w' d c m)
        · rw [hp0] at hp2; cases hp2
          left
          refine ⟨y.st.queue.length, ⟨w'.created, d, i.now, w'.expire, c, w'.key, y.st.workload.isSome, false⟩,
            ?_, rfl, rfl, rfl, Or.inl rfl⟩
          rw [hq2]; simp
      · right
        exact ⟨p0, res, d, c, m, by rw [step_procs_other y p i hpp]; exact hp0⟩
  · rw [hnone] at hw'; cases hw'
  · rw [hw] at hw'
    cases hw'
    right
    exact ⟨p, res, d, c, y.st.clears, hpr⟩

/-! ### CA roots are never empty -/

def procRootsOk : Proc → Prop
  | .gRegCheck _ it => it.root ≠ []
  | .gRegStore _ it _ _ => it.root ≠ []
  | .gRegPush _ it _ _ _ => it.root ≠ []
  | .gAfterReg _ it => it.root ≠ []
  | .gNotifyRoot _ it => it.root ≠ []
  | .gMerge roots _ => roots ≠ []
  | _ => True

/-- The root bytes of every CA response in flight, of the cached item, and the roots a ROOTCA request
    carries between its two reads, are non-empty. -/
def RootsInv (y : Sys) : Prop :=
  (∀ w, y.st.workload = some w → w.root ≠ []) ∧ ∀ q, procRootsOk (y.procs q)

theorem newItem_root_ne (s : State) (now ttl : Int) (sg : Nat) (b : List Nat) : (newItem s now ttl sg b).root ≠ [] := by
  unfold newItem; simp only; split
  · simp
  · rename_i h; intro hb; rw [hb] at h; simp at h

theorem step_roots {y : Sys} (p : Nat) (i : Input) (h : RootsInv y) : RootsInv (step y p i) := by
  obtain ⟨hw, hpr⟩ := h
  have hp := hpr p
  unfold step
  simp only [finish]
  split <;> try exact ⟨hw, hpr⟩
  all_goals (repeat' split)
  all_goals (refine ⟨?_, fun q => ?_⟩)
  all_goals (try (have hq := hpr q))
  all_goals (try (by_cases hqp : q = p))
  all_goals (first
    | (simp_all [procRootsOk, clearWorkload, newItem_root_ne]; done)
    | (subst hqp; simp_all [procRootsOk, clearWorkload, newItem_root_ne]; done)
    | (intro w hw'; simp_all [procRootsOk, clearWorkload, newItem_root_ne]; done))

end IstioModel.C18
