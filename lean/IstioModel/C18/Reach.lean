import IstioModel.C18.Invariants

/-!
C18 part 2 - the invariants are preserved by `spawn`, hold initially, hence hold in every state
reachable by any schedule (`run (Sys.init r J) acts`, `acts` arbitrary: any number of
GenerateSecret calls for either resource, timer callbacks, trust bundle updates, interleaved at
atomic steps, with arbitrary CA behaviour, clock values and jitter values).
-/
-- the `first | (...; done) | ...` cascades below try the cheap closing tactic first; in the branches where it
-- already succeeds the linters report the fallbacks as unused. They are needed in the other branches.
set_option linter.unusedTactic false
set_option linter.unreachableTactic false
set_option linter.unusedSimpArgs false
set_option linter.unusedVariables false

namespace IstioModel.C18

theorem length_markFired (q : List Entry) (e : Nat) : (markFired q e).length = q.length := by
  unfold markFired; split <;> simp

theorem mem_markFired {q : List Entry} {e : Nat} {en : Entry} (h : en ∈ markFired q e) :
    ∃ en' ∈ q, en.created = en'.created ∧ en.expire = en'.expire ∧ en.delay = en'.delay ∧
      en.computedAt = en'.computedAt := by
  unfold markFired at h
  split at h
  · rename_i en0 h0
    rcases List.mem_or_eq_of_mem_set h with h1 | h1
    · exact ⟨en, h1, rfl, rfl, rfl, rfl⟩
    · subst h1
      have hm : en0 ∈ q := List.mem_of_getElem? h0
      exact ⟨en0, hm, rfl, rfl, rfl, rfl⟩
  · exact ⟨en, h, rfl, rfl, rfl, rfl⟩

theorem mem_markFired_of_mem {q : List Entry} {e : Nat} {en : Entry} (h : en ∈ q) :
    ∃ en' ∈ markFired q e, en'.created = en.created ∧ en'.expire = en.expire := by
  unfold markFired
  split
  · rename_i en0 h0
    obtain ⟨k, hk, rfl⟩ := List.getElem_of_mem h
    by_cases hke : k = e
    · subst hke
      refine ⟨{ en0 with fired := true }, ?_, ?_, ?_⟩
      · exact List.mem_iff_getElem.2 ⟨k, by simpa using hk, by simp⟩
      · have : q[k]? = some q[k] := List.getElem?_eq_getElem hk
        rw [this] at h0; cases h0; rfl
      · have : q[k]? = some q[k] := List.getElem?_eq_getElem hk
        rw [this] at h0; cases h0; rfl
    · refine ⟨q[k], ?_, rfl, rfl⟩
      exact List.mem_iff_getElem.2 ⟨k, by simpa using hk, by simp [List.getElem_set, Ne.symm hke]⟩
  · exact ⟨en, h, rfl, rfl⟩

theorem spawn_pendingTask {y : Sys} (p : Nat) (k : Kind) (h : PendingTaskInv y) : PendingTaskInv (spawn y p k) := by
  intro w hw
  by_cases hidle : y.procs p = .idle
  · have keep : ∀ p0 e, (y.procs p0 = .tCheck e ∨ y.procs p0 = .tClear e) → ∀ v, (upd y.procs p v) p0 = y.procs p0 := by
      intro p0 e hp0 v
      have : p0 ≠ p := by
        intro hpp; subst hpp; rw [hidle] at hp0; rcases hp0 with h1 | h1 <;> cases h1
      simp [upd, this]
    have keepPush : ∀ p0 res d c m, y.procs p0 = .gRegPush res w d c m → ∀ v, (upd y.procs p v) p0 = y.procs p0 := by
      intro p0 res d c m hp0 v
      have : p0 ≠ p := by
        intro hpp; subst hpp; rw [hidle] at hp0; cases hp0
      simp [upd, this]
    -- the generic case: the queue is untouched, only slot `p` changes
    have generic : ∀ v (y' : Sys), y'.st = y.st → y'.procs = upd y.procs p v → PendingTaskInv y' := by
      intro v y' hst hpr w2 hw2
      rw [hst] at hw2
      rcases h w2 hw2 with ⟨e, en, hq, hc, he, hk, hpend⟩ | ⟨p0, res, d, c, m, hp0⟩
      · left
        refine ⟨e, en, by rw [hst]; exact hq, hc, he, hk, ?_⟩
        rcases hpend with hf | ⟨p0, hp0⟩
        · exact Or.inl hf
        · exact Or.inr ⟨p0, by rw [hpr, keep p0 e hp0]; exact hp0⟩
      · right
        refine ⟨p0, res, d, c, m, ?_⟩
        rw [hpr]
        have : p0 ≠ p := by
          intro hpp; subst hpp; rw [hidle] at hp0; cases hp0
        simp [upd, this, hp0]
    cases k with
    | gen res =>
      have e0 : spawn y p (.gen res) = { y with procs := upd y.procs p (.gRead res false), born := upd y.born p y.st.clears } := by
        simp [spawn, hidle]
      rw [e0] at hw ⊢
      exact generic (.gRead res false)
        { y with procs := upd y.procs p (.gRead res false), born := upd y.born p y.st.clears } rfl rfl w hw
    | update b =>
      have e0 : spawn y p (.update b) = { y with procs := upd y.procs p (.uSet b) } := by simp [spawn, hidle]
      rw [e0] at hw ⊢
      exact generic (.uSet b) { y with procs := upd y.procs p (.uSet b) } rfl rfl w hw
    | timer e' =>
      cases hq' : y.st.queue[e']? with
      | none =>
        have e0 : spawn y p (.timer e') = y := by simp [spawn, hidle, hq']
        rw [e0] at hw ⊢; exact h w hw
      | some en' =>
        by_cases hf' : en'.fired = true
        · have e0 : spawn y p (.timer e') = y := by simp [spawn, hidle, hq', hf']
          rw [e0] at hw ⊢; exact h w hw
        · have hlt : e' < y.st.queue.length := by
            rcases Nat.lt_or_ge e' y.st.queue.length with h' | h'
            · exact h'
            · rw [List.getElem?_eq_none h'] at hq'; cases hq'
          have hm : markFired y.st.queue e' = y.st.queue.set e' { en' with fired := true } := by
            unfold markFired; rw [hq']
          have e0 : spawn y p (.timer e') =
              { y with st := { y.st with queue := y.st.queue.set e' { en' with fired := true } },
                       procs := upd y.procs p (.tCheck e') } := by
            unfold spawn; simp only [hidle, hq', hm]; simp [hf']
          rw [e0] at hw ⊢
          rcases h w hw with ⟨e, en, hq, hc, he, hk, hpend⟩ | ⟨p0, res, d, c, m, hp0⟩
          · left
            by_cases hee : e = e'
            · subst hee
              rw [hq'] at hq; cases hq
              exact ⟨e, { en' with fired := true }, by simp [List.getElem?_set, hlt], hc, he, hk, Or.inr ⟨p, Or.inl (by simp)⟩⟩
            · refine ⟨e, en, by simp [List.getElem?_set, Ne.symm hee, hq], hc, he, hk, ?_⟩
              rcases hpend with hf | ⟨p0, hp0⟩
              · exact Or.inl hf
              · exact Or.inr ⟨p0, by simp only; rw [keep p0 e hp0]; exact hp0⟩
          · right
            exact ⟨p0, res, d, c, m, by simp only; rw [keepPush p0 res d c m hp0]; exact hp0⟩
  · have e0 : spawn y p k = y := by
      unfold spawn; split
      · rename_i hh; exact absurd hh hidle
      · rfl
    rw [e0] at hw ⊢; exact h w hw

theorem spawn_mutex {y : Sys} (p : Nat) (k : Kind) (h : MutexInv y) : MutexInv (spawn y p k) := by
  intro q
  have hq := h q
  have hp := h p
  unfold spawn
  split <;> try exact hq
  all_goals (repeat' split)
  all_goals (by_cases hqp : q = p)
  all_goals (first
    | (subst hqp; simp_all [holds]; done)
    | (simp_all [holds]; done))

theorem spawn_empty {y : Sys} (p : Nat) (k : Kind) (h : EmptyInv y) : EmptyInv (spawn y p k) := by
  intro q
  have hq := h q
  unfold spawn
  split <;> try exact hq
  all_goals (repeat' split)
  all_goals (by_cases hqp : q = p)
  all_goals (first
    | (subst hqp; simp_all [preStore]; done)
    | (simp_all [preStore]; done))

theorem spawn_flight {y : Sys} (p : Nat) (k : Kind) (h : FlightInv y) : FlightInv (spawn y p k) := by
  obtain ⟨h0, h1⟩ := h
  unfold spawn
  split <;> try exact ⟨h0, h1⟩
  all_goals (repeat' split)
  all_goals (refine ⟨by simpa using h0, fun q => ?_⟩)
  all_goals (have hq := h1 q)
  all_goals (by_cases hqp : q = p)
  all_goals (first
    | (subst hqp; simp_all [fresh]; done)
    | (simp_all [fresh]; done))

theorem spawn_epoch {y : Sys} (p : Nat) (k : Kind) (h : EpochInv y) : EpochInv (spawn y p k) := by
  intro q
  have hq := h q
  unfold spawn
  split <;> try exact hq
  all_goals (repeat' split)
  all_goals (by_cases hqp : q = p)
  all_goals (first
    | (subst hqp; simp_all; done)
    | (simp_all; done))

theorem spawn_carry {y : Sys} (p : Nat) (k : Kind) (h : CarryInv y) : CarryInv (spawn y p k) := by
  intro q kk
  have hq := h q kk
  unfold spawn
  split <;> try exact hq
  all_goals (repeat' split)
  all_goals (by_cases hqp : q = p)
  all_goals (first
    | (subst hqp; simp_all [carried, fresh]; done)
    | (simp_all [carried, fresh]; done))

theorem spawn_done {y : Sys} (p : Nat) (k : Kind) {a : Nat} {r : Ret} (h : (spawn y p k).procs a = .gDone r) :
    y.procs a = .gDone r ∧ (spawn y p k).born a = y.born a ∧ (spawn y p k).doneAt a = y.doneAt a := by
  revert h
  unfold spawn
  split
  all_goals (repeat' split)
  all_goals (by_cases hap : a = p)
  all_goals (first
    | (subst hap; intro h; simp_all; done)
    | (intro h; simp_all; done))

theorem spawn_samePair {y : Sys} (p : Nat) (k : Kind) (h : SamePairInv y) : SamePairInv (spawn y p k) := by
  intro a b r1 r2 k1 k2 ha hb hba hbb hab hk1 hk2
  obtain ⟨ha', ea, da⟩ := spawn_done p k ha
  obtain ⟨hb', eb, db⟩ := spawn_done p k hb
  rw [ea, da] at hba
  rw [eb, db] at hbb
  rw [ea, eb] at hab
  exact h a b r1 r2 k1 k2 ha' hb' hba hbb hab hk1 hk2

theorem spawn_pair {y : Sys} (p : Nat) (k : Kind) (h : PairInv y) : PairInv (spawn y p k) := by
  obtain ⟨hw, hpr⟩ := h
  unfold spawn
  split <;> try exact ⟨hw, hpr⟩
  all_goals (repeat' split)
  all_goals (refine ⟨by simpa using hw, fun q => ?_⟩)
  all_goals (have hq := hpr q)
  all_goals (by_cases hqp : q = p)
  all_goals (first
    | (subst hqp; simp_all [procPaired]; done)
    | (simp_all [procPaired]; done))

theorem spawn_queue {y : Sys} (p : Nat) (k : Kind) (h : QueueInv y) : QueueInv (spawn y p k) := by
  unfold QueueInv pendingPush at *
  cases hm : y.st.mutex with
  | none =>
    rw [hm] at h
    unfold spawn
    split <;> try (simp only [hm]; exact h)
    all_goals (repeat' split)
    all_goals (simp_all [length_markFired])
  | some q0 =>
    rw [hm] at h
    by_cases hq0 : q0 = p
    · subst hq0
      unfold spawn
      split <;> try (simp only [hm]; exact h)
      all_goals (repeat' split)
      all_goals (simp_all [length_markFired, isPush])
    · unfold spawn
      split <;> try (simp only [hm]; exact h)
      all_goals (repeat' split)
      all_goals (simp_all [length_markFired, isPush])

theorem spawn_push {y : Sys} (p : Nat) (k : Kind) (h : PushInv y) : PushInv (spawn y p k) := by
  intro q res it d c m
  have hq := h q res it d c m
  unfold spawn
  split <;> try exact hq
  all_goals (repeat' split)
  all_goals (by_cases hqp : q = p)
  all_goals (first
    | (subst hqp; simp_all; done)
    | (simp_all; done))

theorem spawn_rootNotify {y : Sys} (p : Nat) (k : Kind) (h : RootNotifyInv y) : RootNotifyInv (spawn y p k) := by
  intro q res it
  have hq := h q res it
  unfold spawn
  split <;> try exact hq
  all_goals (repeat' split)
  all_goals (by_cases hqp : q = p)
  all_goals (first
    | (subst hqp; simp_all; done)
    | (simp_all; done))

theorem spawn_cfgNotify {y : Sys} (p : Nat) (k : Kind) (h : CfgNotifyInv y) : CfgNotifyInv (spawn y p k) := by
  intro q b m
  have hq := h q b m
  unfold spawn
  split <;> try exact hq
  all_goals (repeat' split)
  all_goals (by_cases hqp : q = p)
  all_goals (first
    | (subst hqp; simp_all; done)
    | (simp_all; done))

theorem spawn_sched {y : Sys} (p : Nat) (k : Kind) (h : SchedInv y) : SchedInv (spawn y p k) := by
  obtain ⟨hq, hpr⟩ := h
  unfold spawn
  split <;> try exact ⟨hq, hpr⟩
  all_goals (repeat' split)
  all_goals (refine ⟨?_, fun q => ?_⟩)
  all_goals (try (have hq' := hpr q))
  all_goals (try (by_cases hqp : q = p))
  all_goals (first
    | (subst hqp; simp_all [procSched]; done)
    | (simp_all [procSched]; done)
    | (intro en hen
       obtain ⟨en', hm, e1, e2, e3, e4⟩ := mem_markFired hen
       rw [e1, e2, e3, e4]; exact hq en' hm))

theorem spawn_notify {y : Sys} (p : Nat) (k : Kind) (h : NotifyInv y) : NotifyInv (spawn y p k) := by
  intro q m
  have hq := h q m
  unfold spawn
  split <;> try exact hq
  all_goals (repeat' split)
  all_goals (by_cases hqp : q = p)
  all_goals (first
    | (subst hqp; simp_all [notifyMark]; done)
    | (simp_all [notifyMark]; done))

theorem spawn_roots {y : Sys} (p : Nat) (k : Kind) (h : RootsInv y) : RootsInv (spawn y p k) := by
  obtain ⟨hw, hpr⟩ := h
  unfold spawn
  split <;> try exact ⟨hw, hpr⟩
  all_goals (repeat' split)
  all_goals (refine ⟨by simpa using hw, fun q => ?_⟩)
  all_goals (have hq := hpr q)
  all_goals (by_cases hqp : q = p)
  all_goals (first
    | (subst hqp; simp_all [procRootsOk]; done)
    | (simp_all [procRootsOk]; done))

/-- All invariants together. -/
structure Inv (y : Sys) : Prop where
  mutex : MutexInv y
  empty : EmptyInv y
  flight : FlightInv y
  epoch : EpochInv y
  carry : CarryInv y
  samePair : SamePairInv y
  pair : PairInv y
  queue : QueueInv y
  sched : SchedInv y
  notify : NotifyInv y
  pendingTask : PendingTaskInv y
  roots : RootsInv y
  push : PushInv y
  rootNotify : RootNotifyInv y
  cfgNotify : CfgNotifyInv y

theorem inv_init (r J : Frac) : Inv (Sys.init r J) where
  mutex := by intro q; simp [Sys.init, holds]
  empty := by intro q; simp [Sys.init, preStore]
  flight := by simp [FlightInv, Sys.init]
  epoch := by intro q; simp [Sys.init]
  carry := by intro q k; simp [Sys.init, carried]
  samePair := by intro a b r1 r2 k1 k2 ha; simp [Sys.init] at ha
  pair := by constructor <;> simp [Sys.init, procPaired]
  queue := by simp [QueueInv, pendingPush, Sys.init]
  sched := by constructor <;> simp [Sys.init, procSched]
  notify := by intro q m; simp [Sys.init, notifyMark]
  pendingTask := by intro w; simp [Sys.init]
  roots := by constructor <;> simp [Sys.init, procRootsOk]
  push := by intro q res it d c m; simp [Sys.init]
  rootNotify := by intro q res it; simp [Sys.init]
  cfgNotify := by intro q b m; simp [Sys.init]

theorem inv_step {y : Sys} (p : Nat) (i : Input) (h : Inv y) : Inv (step y p i) where
  mutex := step_mutex p i h.mutex
  empty := step_empty p i h.mutex h.empty
  flight := step_flight p i h.mutex h.empty h.flight
  epoch := step_epoch p i h.epoch
  carry := step_carry p i h.mutex h.empty h.epoch h.carry
  samePair := step_samePair p i h.epoch h.carry h.samePair
  pair := step_pair p i h.pair
  queue := step_queue p i h.mutex h.queue
  sched := step_sched p i h.sched
  notify := step_notify p i h.notify
  pendingTask := step_pendingTask p i h.push h.pendingTask
  roots := step_roots p i h.roots
  push := step_push p i h.mutex h.push
  rootNotify := step_rootNotify p i h.mutex h.rootNotify
  cfgNotify := step_cfgNotify p i h.cfgNotify

theorem inv_spawn {y : Sys} (p : Nat) (k : Kind) (h : Inv y) : Inv (spawn y p k) where
  mutex := spawn_mutex p k h.mutex
  empty := spawn_empty p k h.empty
  flight := spawn_flight p k h.flight
  epoch := spawn_epoch p k h.epoch
  carry := spawn_carry p k h.carry
  samePair := spawn_samePair p k h.samePair
  pair := spawn_pair p k h.pair
  queue := spawn_queue p k h.queue
  sched := spawn_sched p k h.sched
  notify := spawn_notify p k h.notify
  pendingTask := spawn_pendingTask p k h.pendingTask
  roots := spawn_roots p k h.roots
  push := spawn_push p k h.push
  rootNotify := spawn_rootNotify p k h.rootNotify
  cfgNotify := spawn_cfgNotify p k h.cfgNotify

theorem inv_apply {y : Sys} (a : Act) (h : Inv y) : Inv (apply y a) := by
  cases a with
  | spawn p k => exact inv_spawn p k h
  | step p i => exact inv_step p i h

theorem inv_run {y : Sys} (as : List Act) (h : Inv y) : Inv (run y as) := by
  induction as generalizing y with
  | nil => exact h
  | cons a as ih => exact ih (inv_apply a h)

/-- Reachable: the result of any schedule from the initial state of any configuration. -/
def Reachable (y : Sys) : Prop := ∃ r J as, y = run (Sys.init r J) as

theorem inv_reachable {y : Sys} (h : Reachable y) : Inv y := by
  obtain ⟨r, J, as, rfl⟩ := h
  exact inv_run as (inv_init r J)

theorem reachable_run {y : Sys} (h : Reachable y) (as : List Act) : Reachable (run y as) := by
  obtain ⟨r, J, as0, rfl⟩ := h
  exact ⟨r, J, as0 ++ as, by simp [run, List.foldl_append]⟩

end IstioModel.C18
