/-!
# C12 target language: the subset of Envoy's `RouteConfiguration` that Istio emits, and its meaning

Written from the Envoy v3 API documentation (`config.route.v3.RouteMatch`, `HeaderMatcher`,
`QueryParameterMatcher`, `VirtualHost.domains`, `RouteAction`, `RedirectAction`,
`DirectResponseAction`).  No Envoy binary exists in the sandbox: these definitions are the
*assumed* data-plane semantics (trusted base).  The Go harness carries an independent
re-implementation of the same documentation (the reference interpreter of stream `requests`).

Regular expressions are not modelled: `Regex` is an opaque predicate "the RE2 program with this
text matches the whole subject string", shared by the source and the target semantics.

Core Lean only (linked into the driver).
-/
namespace IstioModel.C12

/-- `re r s`: the regular expression with source text `r` matches the entire string `s`
    (Envoy `safe_regex` is a full match). -/
abbrev Regex := String → String → Bool

/-- ASCII lower-casing (Envoy's case-insensitive path comparison is `absl::EqualsIgnoreCase`). -/
def lower (s : String) : String := String.ofList (s.toList.map Char.toLower)

/-- `hasPrefix p s`: `s` starts with `p`. -/
def hasPrefix (p s : String) : Bool := p.toList.isPrefixOf s.toList

/-- First value bound to a key. -/
def lookup (l : List (String × String)) (k : String) : Option String :=
  match l with
  | [] => none
  | e :: t => if e.1 = k then some e.2 else lookup t k

/-- A request as the router sees it.  `path` is the `:path` pseudo-header *without* the query
    string; `query` are the decoded query parameters in order; `headers` are the regular headers
    (lower-case names, one value per name - repeated headers are outside the model). -/
structure Request where
  path : String := "/"
  query : List (String × String) := []
  method : String := "GET"
  authority : String := ""
  scheme : String := "http"
  headers : List (String × String) := []
  /-- Verified JWT payload as the `envoy.filters.http.jwt_authn` dynamic metadata exposes it: claim path ->
      values (a string claim is a one-element list). -/
  claims : List (List String × List String) := []
  deriving Repr

/-- Header-map view of a request: the three pseudo-headers Istio matches on are always present. -/
def Request.header (r : Request) (n : String) : Option String :=
  if n = ":method" then some r.method
  else if n = ":authority" then some r.authority
  else if n = ":scheme" then some r.scheme
  else lookup r.headers n

/-- A well-formed request: origin-form request target (`OPTIONS *` / CONNECT are outside the model). -/
def Request.wf (r : Request) : Bool := hasPrefix "/" r.path

/-! ## Matchers -/

/-- `HeaderMatcher.header_match_specifier` / `QueryParameterMatcher` specifier, the shapes Istio emits. -/
inductive StrSpec where
  | exact (s : String)
  | pfx (s : String)
  | regex (s : String)
  | present (b : Bool)
  deriving DecidableEq, Repr

def StrSpec.eval (re : Regex) : StrSpec → String → Bool
  | .exact s, v => v == s
  | .pfx p, v => hasPrefix p v
  | .regex r, v => re r v
  | .present b, _ => b

structure HeaderMatcher where
  name : String
  spec : StrSpec
  invert : Bool := false
  treatMissing : Bool := false
  deriving DecidableEq, Repr

/-- `HeaderMatcher` semantics (Envoy `HeaderUtility::matchHeaders`, API docs of `invert_match`,
    `present_match`, `treat_missing_header_as_empty`):
    * `present_match: b` - (header present = b), then inverted if `invert_match`;
      with `treat_missing_header_as_empty` an absent header counts as present (empty);
    * any other specifier - if the header is absent and `treat_missing_header_as_empty` is off, the
      matcher does **not** match, whatever `invert_match` says ("the match rule will be ignored so it
      will not match"); otherwise the (possibly empty) value is tested and the result inverted. -/
def HeaderMatcher.eval (re : Regex) (h : HeaderMatcher) (req : Request) : Bool :=
  match h.spec with
  | .present b => (((req.header h.name).isSome || h.treatMissing) == b) != h.invert
  | sp =>
    match req.header h.name with
    | some v => sp.eval re v != h.invert
    | none => if h.treatMissing then sp.eval re "" != h.invert else false

structure QueryMatcher where
  name : String
  spec : StrSpec
  deriving DecidableEq, Repr

/-- `QueryParameterMatcher`: the first parameter with that name must exist (`present_match: true`)
    and, for a string matcher, its value must match. -/
def QueryMatcher.eval (re : Regex) (q : QueryMatcher) (req : Request) : Bool :=
  match q.spec with
  | .present b => (lookup req.query q.name).isSome == b
  | sp =>
    match lookup req.query q.name with
    | some v => sp.eval re v
    | none => false

/-- `MetadataMatcher` on the JWT payload as Istio emits it (`MetadataMatcherForJWTClaims`): the claim at
    `path` is a string matching the pattern or a list containing a matching string. -/
structure MetaMatcher where
  path : List String
  spec : StrSpec
  invert : Bool := false
  deriving DecidableEq, Repr

def lookupClaim (l : List (List String × List String)) (p : List String) : Option (List String) :=
  match l with
  | [] => none
  | e :: t => if e.1 = p then some e.2 else lookupClaim t p

/-- Absent metadata does not match; `invert` inverts the result (API docs of `MetadataMatcher.invert`). -/
def MetaMatcher.eval (re : Regex) (mm : MetaMatcher) (req : Request) : Bool :=
  (match lookupClaim req.claims mm.path with
   | some vs => vs.any (fun v => mm.spec.eval re v)
   | none => false) != mm.invert

inductive PathSpec where
  | pfx (p : String)            -- `prefix`
  | path (p : String)           -- `path` (exact)
  | safeRegex (r : String)      -- `safe_regex`
  | pathSepPrefix (p : String)  -- `path_separated_prefix`
  deriving DecidableEq, Repr

/-- Path specifier semantics.  `case_sensitive` applies to `prefix`, `path` and
    `path_separated_prefix`; it is "ignored for safe_regex matching" (API docs). -/
def PathSpec.eval (re : Regex) (cs : Bool) : PathSpec → String → Bool
  | .pfx p, s => if cs then hasPrefix p s else hasPrefix (lower p) (lower s)
  | .path p, s => if cs then s == p else lower s == lower p
  | .safeRegex r, s => re r s
  | .pathSepPrefix p, s =>
    if cs then s == p || hasPrefix (p ++ "/") s
    else lower s == lower p || hasPrefix (lower p ++ "/") (lower s)

structure RouteMatch where
  path : PathSpec := .pfx "/"
  caseSensitive : Bool := true
  headers : List HeaderMatcher := []
  query : List QueryMatcher := []
  metadata : List MetaMatcher := []     -- `dynamic_metadata`
  deriving DecidableEq, Repr

/-- A route matches when its path specifier, every header matcher, every query-parameter matcher and
    every dynamic-metadata matcher match (conjunction). -/
def RouteMatch.eval (re : Regex) (m : RouteMatch) (req : Request) : Bool :=
  m.path.eval re m.caseSensitive req.path
    && m.headers.all (fun h => h.eval re req)
    && m.query.all (fun q => q.eval re req)
    && m.metadata.all (fun mm => mm.eval re req)

/-! ## Actions -/

inductive RedirectPath where
  | pathRedirect (s : String)
  | prefixRewrite (s : String)
  deriving DecidableEq, Repr

structure RedirectAction where
  host : String
  path : RedirectPath
  scheme : String       -- "" = unchanged
  port : Nat            -- 0 = unchanged
  code : Nat            -- 301, 302, 303, 307, 308
  deriving DecidableEq, Repr

inductive Action where
  | cluster (c : String)
  | weighted (cs : List (String × Nat))
  | redirect (r : RedirectAction)
  | direct (status : Nat) (body : Option String)
  | none                                   -- `Route.action` unset (Envoy rejects such a route)
  deriving DecidableEq, Repr

structure Route where
  name : String := ""
  «match» : RouteMatch := {}
  action : Action := .none
  deriving DecidableEq, Repr

/-- What happens to a request. -/
inductive Decision where
  | forward (dist : List (String × Nat))   -- clusters with their weights, in order
  | redirect (r : RedirectAction)
  | direct (status : Nat) (body : Option String)
  | invalid                                -- selected route carries no action
  | notFound                               -- no route matched: Envoy answers 404
  | tlsRedirect                            -- `require_tls: ALL` and a plain-text request: 301 to https
  deriving DecidableEq, Repr

def Action.decision : Action → Decision
  | .cluster c => .forward [(c, 1)]
  | .weighted cs => .forward cs
  | .redirect r => .redirect r
  | .direct s b => .direct s b
  | .none => .invalid

/-- First matching route of a list (route order is significant in Envoy). -/
def firstMatch (re : Regex) (routes : List Route) (req : Request) : Option Route :=
  routes.find? (fun r => r.match.eval re req)

/-- Route-table evaluation within one virtual host. -/
def evalRoutes (re : Regex) (routes : List Route) (req : Request) : Decision :=
  match firstMatch re routes req with
  | some r => r.action.decision
  | none => .notFound

/-! ## Virtual hosts -/

structure VirtualHost where
  name : String
  domains : List String
  routes : List Route
  requireTls : Bool := false     -- `require_tls: ALL`
  deriving DecidableEq, Repr

/-- Domain classes of `VirtualHost.domains`. -/
def isSuffixWildcard (d : String) : Bool := d.length > 1 && hasPrefix "*" d
def isPrefixWildcard (d : String) : Bool :=
  d.length > 1 && !hasPrefix "*" d && (d.toList.getLast? == some '*')

def strSuffix (suf s : String) : Bool := suf.toList.reverse.isPrefixOf s.toList.reverse

/-- `*.foo.com` matches `h` when `h` ends in `.foo.com` and is strictly longer ("the wildcard will
    not match the empty string"). -/
def suffixWildcardMatches (d h : String) : Bool :=
  isSuffixWildcard d && h.length > d.length - 1 && strSuffix (String.ofList (d.toList.drop 1)) h

def prefixWildcardMatches (d h : String) : Bool :=
  isPrefixWildcard d && h.length > d.length - 1 && hasPrefix (String.ofList d.toList.dropLast) h

/-- All (virtual host, domain) pairs of a route configuration, in order. -/
def allDomains (vhs : List VirtualHost) : List (VirtualHost × String) :=
  vhs.flatMap (fun v => v.domains.map (fun d => (v, d)))

/-- Longest element of a list of candidates by domain length (first one wins among equals). -/
def longest : List (VirtualHost × String) → Option (VirtualHost × String)
  | [] => none
  | c :: cs =>
    match longest cs with
    | none => some c
    | some b => if b.2.length > c.2.length then some b else some c

/-- Virtual-host selection by the (lower-cased) `:authority`:
    exact domain > longest suffix wildcard `*x` > longest prefix wildcard `x*` > `*`. -/
def selectVHost (vhs : List VirtualHost) (authority : String) : Option VirtualHost :=
  let h := lower authority
  let ds := allDomains vhs
  match ds.find? (fun p => lower p.2 == h) with
  | some p => some p.1
  | none =>
    match longest (ds.filter (fun p => suffixWildcardMatches (lower p.2) h)) with
    | some p => some p.1
    | none =>
      match longest (ds.filter (fun p => prefixWildcardMatches (lower p.2) h)) with
      | some p => some p.1
      | none => (ds.find? (fun p => p.2 == "*")).map (·.1)

/-- `host:port` / `[v6]:port` without its port (`ignore_port_in_host_matching`: "the port is stripped
    from the host/authority before matching"). -/
def stripPort (a : String) : String :=
  let l := a.toList
  let digits := l.reverse.takeWhile Char.isDigit
  match l.reverse.drop digits.length with
  | ':' :: rest =>
    if digits.isEmpty then a
    else if rest.contains ':' && rest.head? != some ']' then a      -- a bare IPv6 literal, not host:port
    else String.ofList rest.reverse
  | _ => a

def hostForMatching (ignorePort : Bool) (a : String) : String := if ignorePort then stripPort a else a

/-- Whole route-configuration evaluation: virtual host by authority (port ignored when the route
    configuration says so), `require_tls`, then first matching route. -/
def evalRouteConfig (re : Regex) (ignorePort : Bool) (vhs : List VirtualHost) (req : Request) : Decision :=
  match selectVHost vhs (hostForMatching ignorePort req.authority) with
  | some v => if v.requireTls && req.scheme == "http" then .tlsRedirect else evalRoutes re v.routes req
  | none => .notFound

end IstioModel.C12
