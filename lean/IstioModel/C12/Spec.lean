import IstioModel.C12.Model

/-!
# C12 source semantics: what a VirtualService says should happen to a request

Written from the VirtualService API documentation (`networking/v1alpha3/virtual_service.proto`),
not from the compiler: "the first rule whose match conditions hold" for this proxy / gateway, where a
rule with several `match` blocks is their disjunction, a block is the conjunction of its fields, and

* `uri` - exact / prefix / regex on the path, `ignoreUriCase` affecting exact and prefix only;
* `headers` - the header must be present and its value match; an empty StringMatch checks presence;
* `withoutHeaders` - "the same syntax with the header, but has opposite meaning": the block fails iff
  the header is matched by the rule (so an absent header satisfies it);  `regex: "*"` = presence;
* `queryParams`, `method`, `authority`, `scheme` - value must match;
* `port`, `sourceLabels`, `sourceNamespace`, `gateways` - not runtime matches but selectors of the
  proxies / listeners the block applies to (`applicable`).

The action is the rule's redirect, direct response, or its weighted destinations (one destination
receives all traffic whatever its weight; among several, zero-weight ones receive nothing).

Core Lean only (the driver evaluates `vsSpec`).
-/
namespace IstioModel.C12

/-- A StringMatch that only checks presence: empty, or the documented `regex: "*"` metacharacter. -/
def presenceOnly : StringMatch → Bool
  | .unset => true
  | .regex r => r == "*"
  | _ => false

/-- Value test of a StringMatch. -/
def smHolds (re : Regex) (sm : StringMatch) (v : String) : Bool :=
  if presenceOnly sm then true else
  match sm with
  | .exact s => v == s
  | .pfx p => hasPrefix p v
  | .regex r => re r v
  | .unset => true

/-- "The header is matched by the rule": present, and its value passes. -/
def headerHolds (re : Regex) (req : Request) (e : String × StringMatch) : Bool :=
  match req.header e.1 with
  | some v => smHolds re e.2 v
  | none => false

/-- A JWT-claim key (`@request.auth.claims...`): the claim is present in the verified token and (one of)
    its value(s) matches. -/
def claimHolds (re : Regex) (req : Request) (p : List String) (sm : StringMatch) : Bool :=
  match lookupClaim req.claims p with
  | some vs => vs.any (fun v => (claimSpec sm).eval re v)
  | none => false

/-- One `headers` / `withoutHeaders` entry: a claim key or an ordinary header. -/
def entryHolds (re : Regex) (req : Request) (e : String × StringMatch) : Bool :=
  match claimPath e.1 with
  | some p => claimHolds re req p e.2
  | none => headerHolds re req e

def queryHolds (re : Regex) (req : Request) (e : String × StringMatch) : Bool :=
  match lookup req.query e.1 with
  | some v => smHolds re e.2 v
  | none => false

/-- `uri` with `ignoreUriCase`.  Under gateway / ingress semantics a prefix other than `/` is a
    path-element prefix (Gateway API `PathPrefix`): the prefix without its trailing slash must equal
    the path or be followed by `/`. -/
def uriHolds (re : Regex) (sem : Semantics) (icase : Bool) (uri : Option StringMatch) (path : String) : Bool :=
  match uri with
  | none => true
  | some .unset => true
  | some (.exact s) => if icase then lower path == lower s else path == s
  | some (.regex r) => re r path
  | some (.pfx p) =>
    if (sem == .ingress || sem == .gateway) && p != "/" then
      let q := trimSlash p
      if icase then lower path == lower q || hasPrefix (lower q ++ "/") (lower path)
      else path == q || hasPrefix (q ++ "/") path
    else if icase then hasPrefix (lower p) (lower path) else hasPrefix p path

def pseudoHolds (re : Regex) (v : String) : Option StringMatch → Bool
  | none => true
  | some sm => smHolds re sm v

/-- All runtime conditions of one match block hold for the request. -/
def matchHolds (re : Regex) (sem : Semantics) (m : HTTPMatch) (req : Request) : Bool :=
  uriHolds re sem m.ignoreUriCase m.uri req.path
    && m.headers.all (entryHolds re req)
    && m.withoutHeaders.all (fun e => !entryHolds re req e)
    && pseudoHolds re req.method m.method
    && pseudoHolds re req.authority m.authority
    && pseudoHolds re req.scheme m.scheme
    && m.queryParams.all (queryHolds re req)

/-- A rule fires when it has no match block, or some block that applies to this proxy / port holds. -/
def ruleFires (re : Regex) (c : Ctx) (vs : VirtualService) (r : HTTPRoute) (req : Request) : Bool :=
  if r.matchBlocks.isEmpty then true
  else r.matchBlocks.any (fun m => applicable m c && matchHolds re vs.sem m req)

/-! ### What the action of a rule means (written from the API text of `Destination`, `PortSelector`,
    `HTTPRedirect`; the compiler's own functions are proved equal to these in `Theorems.lean`) -/

/-- The host a destination stands for: the named service, or - for a Kubernetes ExternalName alias -
    the concrete service it points to. -/
def specHost (c : Ctx) (d : Destination) : String :=
  match c.lookupService d.host with
  | some s => if s.externalName == "" then d.host else s.externalName
  | none => d.host

/-- `Destination.port`: "Specifies the port on the host that is being addressed. If a service exposes
    only a single port it is not required to explicitly select the port."  Otherwise (several ports, or
    a host outside the registry) the port the request was sent to. -/
def specPort (c : Ctx) (d : Destination) : Nat :=
  match d.port with
  | some p => p
  | none =>
    match c.lookupService d.host with
    | some s => if s.ports.length == 1 then s.ports.headD c.listenPort else c.listenPort
    | none => c.listenPort

/-- The upstream cluster of a destination: `outbound|<port>|<subset>|<host>`. -/
def specCluster (c : Ctx) (d : Destination) : String :=
  if d.host.isEmpty then "UnknownService" else subsetKey d.subset (specHost c d) (specPort c d)

/-- The destination distribution of a rule: one destination takes everything; otherwise the
    non-zero weights. -/
def specForward (c : Ctx) (ds : List RouteDest) : List (String × Nat) :=
  match ds with
  | [d] => [(specCluster c d.dest, 1)]
  | _ => (ds.filter (fun d => d.weight != 0)).map (fun d => (specCluster c d.dest, d.weight))

/-- Scheme the redirected client will use: the rule's, else that of the listener the request came in on. -/
def effScheme (c : Ctx) (rd : Redirect) : String :=
  if rd.scheme != "" then rd.scheme else if c.isTLS then "https" else "http"

def isDefaultPort (scheme : String) (n : Nat) : Bool := (scheme == "http" && n == 80) || (scheme == "https" && n == 443)

/-- Port written into the redirect: none unless the rule selects one (an explicit number, or
    `FROM_REQUEST_PORT` = the listener port; `FROM_PROTOCOL_DEFAULT` = none); the default port of the
    effective scheme is never written. -/
def specRedirectPort (c : Ctx) (rd : Redirect) : Nat :=
  match rd.port with
  | .unset => 0
  | .fromProtocolDefault => 0
  | .port n => if isDefaultPort (effScheme c rd) n then 0 else n
  | .fromRequestPort => if isDefaultPort (effScheme c rd) c.listenPort then 0 else c.listenPort

/-- `HTTPRedirect`: new authority, new path (`uri`) or rewritten prefix, scheme, port, and the response
    code (301 unless given). -/
def specRedirect (c : Ctx) (rd : Redirect) : RedirectAction :=
  { host := rd.authority
    path := if rd.prefixRewrite != "" then .prefixRewrite rd.prefixRewrite else .pathRedirect rd.uri
    scheme := rd.scheme
    port := specRedirectPort c rd
    code := if rd.code == 0 then 301 else rd.code }

/-- What the rule says to do. -/
def specAction (c : Ctx) (r : HTTPRoute) : Decision :=
  match r.redirect with
  | some rd => .redirect (specRedirect c rd)
  | none =>
    match r.direct with
    | some d => .direct d.status d.body
    | none => .forward (specForward c r.route)

/-- The VirtualService's verdict: action of the first rule that fires, 404 when none does. -/
def vsSpec (re : Regex) (c : Ctx) (vs : VirtualService) (req : Request) : Decision :=
  match vs.http.find? (fun r => ruleFires re c vs r req) with
  | some r => specAction c r
  | none => .notFound

/-- Does the VirtualService have any rule for this proxy / port?  (When it has none the code treats
    the VirtualService as absent and the service keeps its default route.) -/
def vsApplies (c : Ctx) (vs : VirtualService) : Bool :=
  vs.http.any (fun r => r.matchBlocks.isEmpty || r.matchBlocks.any (fun m => applicable m c))

/-! ## Side conditions of the correctness theorem (all decidable; the driver prints them) -/

/-- F-C12-1 side condition: no `withoutHeaders` entry whose header is absent from the request has a
    value pattern that accepts the empty string (Envoy cannot tell "absent" from "empty" once
    `treat_missing_header_as_empty` is set). -/
def withoutOK (re : Regex) (m : HTTPMatch) (req : Request) : Bool :=
  m.withoutHeaders.all (fun e => isClaimKey e || (req.header e.1).isSome || presenceOnly e.2 || !smHolds re e.2 "")

/-- Redirect codes the translation supports (others leave the route without action). -/
def redirectOK (r : HTTPRoute) : Bool :=
  match r.redirect with
  | some rd => redirectCodeSupported rd.code
  | none => true

/-- Gateway-semantics corner: prefix `//` becomes `path_separated_prefix: "/"`, which
    `IsCatchAllRoute` takes for a catch-all although Envoy's documented meaning is narrower. -/
def prefixOK (sem : Semantics) (m : HTTPMatch) : Bool :=
  !((sem == .ingress || sem == .gateway) && m.uri == some (.pfx "//"))

/-- F-C12-4 side condition: the destination's service exposes the listener port, or the lookup
    failure of the port-restricted registry is harmless (explicit destination port or a service that is
    not single-port, and no ExternalName alias). -/
def destViewOK (port : Nat) (svc : Option Service) (d : Destination) : Bool :=
  match svc with
  | none => true
  | some s => s.ports.contains port || (s.externalName == "" && (d.port.isSome || s.ports.length != 1))

def sideConditions (re : Regex) (vs : VirtualService) (req : Request) : Bool :=
  req.wf && vs.http.all (fun r => redirectOK r && r.matchBlocks.all (fun m => withoutOK re m req && prefixOK vs.sem m))

end IstioModel.C12
