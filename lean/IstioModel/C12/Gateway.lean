import IstioModel.C12.Spec
import IstioModel.C12.VHosts

/-!
# C12 (part 3): the gateway route configuration

Model of `buildGatewayHTTPRouteConfig` (pilot/pkg/networking/core/gateway.go) for one Gateway resource
and a router proxy: servers of the requested route name, host intersection of server hosts and
VirtualService hosts (`host.NamesForNamespace`, `host.Names.Intersection`, `host.Name.SubsetOf`), one
virtual host per lower-cased intersecting host (`vHostDedupMap`), routes of every bound VirtualService
appended in order (compiled once per (gateway, VirtualService), with the port and `IsTLS: server.Tls != nil`
of the first server of that gateway it intersects), `SortVHostRoutes`, `RequireTls` for `httpsRedirect`
servers, `collapseDuplicateRoutes`, the blackhole virtual host.  Several Gateway resources selecting the
router are merged per route name (`MergeGateways`, plain-text HTTP servers of one port share `http.<port>`).

And the SPEC `gwSpec`: which rules of which VirtualServices answer a request that arrives at the
gateway, written over source terms.

Core Lean only.
-/
namespace IstioModel.C12

structure GwServer where
  port : Nat
  https : Bool := false          -- protocol HTTPS with TLS termination (own route name)
  portName : String := "http"
  hosts : List String := []      -- `ns/host`, `*/host`, `./host` already resolved, or bare `host`
  hasTLS : Bool := false         -- `server.Tls != nil`
  redirect : Bool := false       -- `server.Tls.HttpsRedirect`
  deriving Repr

structure Gateway where
  name : String := ""
  ns : String := ""
  servers : List GwServer := []
  deriving Repr

/-- A VirtualService together with its top-level `gateways` (resolved to `ns/name`). -/
structure GwVS where
  vs : VirtualService
  gateways : List String := []
  /-- `buildNameToServiceMapForHTTPRoutes`: the registry this VirtualService's destinations are resolved against - a
      service of the VirtualService's own namespace first, any other service of that hostname otherwise (`none` = the
      registry of the base context as it is). -/
  services : Option (List Service) := none
  exportTo : List String := []     -- `exportTo` (empty = everywhere)
  deriving Repr

def Gateway.fullName (g : Gateway) : String := g.ns ++ "/" ++ g.name

/-- `gatewayRDSRouteName` (no bind). -/
def routeNameOf (g : Gateway) (s : GwServer) : String :=
  if s.https then "https." ++ toString s.port ++ "." ++ s.portName ++ "." ++ g.name ++ "." ++ g.ns
  else "http." ++ toString s.port

/-- `strings.Cut(host, "/")`. -/
def cutSlash (h : String) : Option (String × String) :=
  match indexOf ['/'] (cs h) with
  | some i => some (mk ((cs h).take i), mk ((cs h).drop (i + 1)))
  | none => none

/-- `sanitizeServerHostNamespace` (pilot/pkg/model/gateway.go, applied by `MergeGateways`): `./host` is
    `<gateway ns>/host`, `*/host` is `host`, and `*/*` replaces the whole list by `*`. -/
def sanitizeHosts (ns : String) : List String → List String → List String
  | [], acc => acc
  | h :: rest, acc =>
    match cutSlash h with
    | some (n, name) =>
      if n == "." then sanitizeHosts ns rest (acc ++ [ns ++ "/" ++ name])
      else if n == "*" then (if name == "*" then ["*"] else sanitizeHosts ns rest (acc ++ [name]))
      else sanitizeHosts ns rest (acc ++ [h])
    | none => sanitizeHosts ns rest (acc ++ [h])

/-- `host.NamesForNamespace`. -/
def namesForNamespace (hosts : List String) (ns : String) : List String :=
  hosts.filterMap fun h =>
    match cutSlash h with
    | some (n, name) => if n != ns && n != "*" then none else some name
    | none => some h

def addUnique (l : List String) (h : String) : List String := if l.contains h then l else l ++ [h]

/-- `host.Names.Intersection`: for every matching pair the more specific host, first occurrence order. -/
def hostIntersection (hs os : List String) : List String :=
  hs.foldl (fun acc h =>
    os.foldl (fun acc o =>
      if hostSubsetOf h o then addUnique acc h
      else if hostSubsetOf o h then addUnique acc o
      else acc) acc) []

/-- Context of the route translation at server `s` of gateway `g`. -/
def gwCtx (base : Ctx) (g : Gateway) (s : GwServer) : Ctx :=
  { base with gatewayNames := [g.fullName], listenPort := s.port, isTLS := s.hasTLS }

/-- Context of one VirtualService at one server: `gwCtx` over the VirtualService's own view of the registry. -/
def gwCtxV (base : Ctx) (g : Gateway) (s : GwServer) (v : GwVS) : Ctx :=
  gwCtx (match v.services with | some l => { base with services := l } | none => base) g s

/-- A gateway virtual host under construction: its (single) domain, routes, `RequireTls`, and the
    PROVENANCE of the routes - the route-memo keys appended, i.e. the pointer identity
    `collapseDuplicateRoutes` hashes. -/
structure GwVH where
  host : String
  port : Nat
  routes : List Route := []
  tls : Bool := false
  prov : List String := []

structure GwAcc where
  vhosts : List GwVH := []                      -- `vHostDedupMap`, insertion order
  memo : List (String × List Route) := []       -- `gatewayRoutes[gatewayName][vskey]`

/-- Route memo key: the routes of a VirtualService are translated once per gateway and per TLS-ness of
    the server (F-C12-7 fix: `IsTLS` is part of the translation context). -/
def memoKey (g : Gateway) (s : GwServer) (v : GwVS) : String :=
  g.fullName ++ "|" ++ v.vs.name ++ "/" ++ v.vs.ns ++ "/" ++ (if s.hasTLS then "true" else "false")

def addToVHost (vhs : List GwVH) (d : String) (port : Nat) (routes : List Route) (tls : Bool) (key : String) : List GwVH :=
  if vhs.any (fun v => v.host == d) then
    vhs.map (fun v => if v.host == d then
      { v with routes := v.routes ++ routes, tls := v.tls || tls, prov := v.prov ++ [key] } else v)
  else vhs ++ [{ host := d, port := port, routes := routes, tls := tls, prov := [key] }]

/-- One (server, VirtualService) step of the double loop. -/
def gwStep (base : Ctx) (g : Gateway) (s : GwServer) (acc : GwAcc) (v : GwVS) : GwAcc :=
  let inter := hostIntersection (namesForNamespace s.hosts v.vs.ns) v.vs.hosts
  if inter.isEmpty then acc else
  let known := acc.memo.find? (fun e => e.1 == memoKey g s v)
  let routes := match known with
    | some e => e.2
    | none => compile (gwCtxV base g s v) v.vs
  if known.isNone && routes.isEmpty then acc     -- "no routes matched": the VirtualService is omitted
  else
    let memo := if known.isNone then acc.memo ++ [(memoKey g s v, routes)] else acc.memo
    { vhosts := inter.foldl (fun vhs h => addToVHost vhs (lower h) s.port routes (s.hasTLS && s.redirect) (memoKey g s v)) acc.vhosts,
      memo := memo }

/-- A server host without its namespace qualifier: the host clients address. -/
def stripNs (h : String) : String :=
  match cutSlash h with
  | some p => p.2
  | none => h

/-- The redirect-only virtual hosts of an `httpsRedirect` server (namespace qualifier stripped: F-C12-5 fix). -/
def gwRedirectHosts (s : GwServer) (vhs : List GwVH) : List GwVH :=
  if !(s.hasTLS && s.redirect) then vhs else
  s.hosts.foldl (fun vhs h =>
    let d := lower (stripNs h)
    if vhs.any (fun v => v.host == d) then
      vhs.map (fun v => if v.host == d then { v with tls := true } else v)
    else vhs ++ [{ host := d, port := s.port, routes := [], tls := true, prov := [] }]) vhs

/-- VirtualServices bound to a gateway (`VirtualServicesForGateway`; all public, creation order). -/
def boundTo (g : Gateway) (vss : List GwVS) : List GwVS := vss.filter (fun v => v.gateways.contains g.fullName)

def gwServerLoop (base : Ctx) (vss : List GwVS) (acc : GwAcc) (gs : Gateway × GwServer) : GwAcc :=
  let a := (boundTo gs.1 vss).foldl (gwStep base gs.1 gs.2) acc
  { a with vhosts := gwRedirectHosts gs.2 a.vhosts }

/-- `MergeGateways`: the servers of a route name, gateways in creation order, hosts sanitised, each with
    its gateway (`GatewayNameForServer`). -/
def gwServers (gws : List Gateway) (routeName : String) : List (Gateway × GwServer) :=
  gws.flatMap fun g =>
    (g.servers.filter (fun s => routeNameOf g s == routeName)).map (fun s => (g, { s with hosts := sanitizeHosts g.ns s.hosts [] }))

/-- `host.MoreSpecific` in full: non-wildcards before wildcards, longer first, then alphabetically. -/
def moreSpecificFull (a b : String) : Bool :=
  if isWildcarded a && !isWildcarded b then false
  else if !isWildcarded a && isWildcarded b then true
  else if a.length == b.length then a < b else a.length > b.length

def insertVH (v : GwVH) : List GwVH → List GwVH
  | [] => [v]
  | x :: xs => if moreSpecificFull v.host x.host then v :: x :: xs else x :: insertVH v xs

def sortVHs : List GwVH → List GwVH
  | [] => []
  | v :: vs => insertVH v (sortVHs vs)

def setKnown (known : List (List String × String)) (prov : List String) (h : String) : List (List String × String) :=
  if known.any (fun e => e.1 == prov) then known.map (fun e => if e.1 == prov then (prov, h) else e) else known ++ [(prov, h)]

/-- `collapseDuplicateRoutes`: in `host.Names` order, a virtual host whose route list is (pointer-)identical
    to that of the LAST virtual host registered under the same route-list hash (`known[hash]`) and that is
    mergeable with it (`RequireTls` equal) only contributes its domain; otherwise it is registered itself. -/
def collapse : List GwVH → List (GwVH × List String) → List (List String × String) → List (GwVH × List String)
  | [], acc, _ => acc
  | v :: vs, acc, known =>
    match known.find? (fun e => e.1 == v.prov) with
    | some e =>
      if acc.any (fun a => a.1.host == e.2 && a.1.tls == v.tls) then
        collapse vs (acc.map (fun a => if a.1.host == e.2 then (a.1, a.2 ++ [v.host]) else a)) known
      else collapse vs (acc ++ [(v, [v.host])]) (setKnown known v.prov v.host)
    | none => collapse vs (acc ++ [(v, [v.host])]) (setKnown known v.prov v.host)

/-- `buildGatewayHTTPRouteConfig`: the virtual hosts of route `routeName`. -/
def gwVHosts (base : Ctx) (gws : List Gateway) (vss : List GwVS) (routeName : String) : List VirtualHost :=
  let acc := (gwServers gws routeName).foldl (gwServerLoop base vss) {}
  -- no server of the router's gateways listens under this route name (none selects the router, or the name is
  -- unknown): an EMPTY route configuration, without even the blackhole virtual host
  if (gwServers gws routeName).isEmpty then [] else
  if acc.vhosts.isEmpty then
    [{ name := domainName "blackhole" (((gwServers gws routeName).head?.map (·.2.port)).getD 0), domains := ["*"], routes := [] }]
  else (collapse (sortVHs acc.vhosts) [] []).map fun e =>
    { name := domainName e.1.host e.1.port, domains := e.2, routes := sortVHostRoutes e.1.routes, requireTls := e.1.tls }

/-! ## SPEC -/

/-- A match block that, once it applies, accepts every request (source-level twin of `IsCatchAllRoute`). -/
def srcCatchAll (m : HTTPMatch) : Bool :=
  (match m.uri with
   | none => true
   | some .unset => true
   | some (.pfx p) => p == "/"
   | some (.regex r) => r == ".*"
   | some (.exact _) => false)
  && m.headers.isEmpty && m.withoutHeaders.isEmpty && m.queryParams.isEmpty
  && m.method.isNone && m.authority.isNone && m.scheme.isNone

/-- The (rule, block) pairs of a VirtualService that apply to this proxy / port, in declaration order;
    `none` = rule without match. -/
def applicablePairs (c : Ctx) (vs : VirtualService) : List (HTTPRoute × Option HTTPMatch) :=
  vs.http.flatMap fun r =>
    if r.matchBlocks.isEmpty then [(r, none)]
    else (r.matchBlocks.filter (fun m => applicable m c)).map (fun m => (r, some m))

def pairCatchAll (p : HTTPRoute × Option HTTPMatch) : Bool :=
  match p.2 with
  | none => true
  | some m => srcCatchAll m

def pairHolds (re : Regex) (sem : Semantics) (req : Request) (p : HTTPRoute × Option HTTPMatch) : Bool :=
  match p.2 with
  | none => true
  | some m => matchHolds re sem m req

/-- The specific (non catch-all) pairs of a VirtualService that are in force: those before its first
    catch-all pair. -/
def specificPairs (c : Ctx) (vs : VirtualService) : List (HTTPRoute × Option HTTPMatch) :=
  (applicablePairs c vs).takeWhile (fun p => !pairCatchAll p)

def catchAllPair (c : Ctx) (vs : VirtualService) : Option (HTTPRoute × Option HTTPMatch) :=
  (applicablePairs c vs).find? pairCatchAll

/-- Several VirtualServices on one gateway host (each with the context it is translated in): the first
    specific rule that fires, VirtualServices in order; failing that, the first catch-all rule. -/
def mergedSpec (re : Regex) (l : List (Ctx × VirtualService)) (req : Request) : Decision :=
  match l.findSome? (fun cv => ((specificPairs cv.1 cv.2).find? (pairHolds re cv.2.sem req)).map (fun p => specAction cv.1 p.1)) with
  | some d => d
  | none =>
    match l.findSome? (fun cv => (catchAllPair cv.1 cv.2).map (fun p => specAction cv.1 p.1)) with
    | some d => d
    | none => .notFound

/-- The (context, VirtualService) pairs that answer for domain `d`, in order: every server of the route
    (gateways in creation order) whose hosts, intersected with those of a VirtualService bound to the
    server's gateway, contain `d` contributes that VirtualService - translated in the context of THAT
    server (its port, its TLS setting, its gateway as the only gateway name); VirtualServices without a
    rule for this proxy at that server are omitted. -/
def contributors (base : Ctx) (gws : List Gateway) (vss : List GwVS) (routeName : String) (d : String) : List (Ctx × VirtualService) :=
  (gwServers gws routeName).flatMap fun gs =>
    (boundTo gs.1 vss).filterMap fun v =>
      if (hostIntersection (namesForNamespace gs.2.hosts v.vs.ns) v.vs.hosts).any (fun h => lower h == d)
          && vsApplies (gwCtxV base gs.1 gs.2 v) v.vs then
        some (gwCtxV base gs.1 gs.2 v, v.vs)
      else none

/-- Domains of the route configuration: every intersecting host (of a VirtualService with a rule for
    this proxy), plus the hosts of `httpsRedirect` servers. -/
def gwDomains (base : Ctx) (gws : List Gateway) (vss : List GwVS) (routeName : String) : List String :=
  (gwServers gws routeName).flatMap fun gs =>
    ((boundTo gs.1 vss).flatMap fun v =>
      if vsApplies (gwCtxV base gs.1 gs.2 v) v.vs then
        (hostIntersection (namesForNamespace gs.2.hosts v.vs.ns) v.vs.hosts).map lower else [])
    ++ (if gs.2.hasTLS && gs.2.redirect then gs.2.hosts.map (fun h => lower (stripNs h)) else [])

def domainRequiresTls (base : Ctx) (gws : List Gateway) (vss : List GwVS) (routeName : String) (d : String) : Bool :=
  (gwServers gws routeName).any fun gs =>
    gs.2.hasTLS && gs.2.redirect &&
      (gs.2.hosts.any (fun h => lower (stripNs h) == d) ||
       (boundTo gs.1 vss).any (fun v =>
         (hostIntersection (namesForNamespace gs.2.hosts v.vs.ns) v.vs.hosts).any (fun h => lower h == d) &&
         vsApplies (gwCtxV base gs.1 gs.2 v) v.vs))

/-- **Gateway SPEC.**  The request is answered by the most specific domain of the route configuration
    for its authority (exact, longest wildcard, `*`; port ignored); plain-text requests to an
    `httpsRedirect` host are redirected; otherwise the merged rules of the contributing VirtualServices. -/
def gwSpec (re : Regex) (base : Ctx) (gws : List Gateway) (vss : List GwVS) (routeName : String) (req : Request) : Decision :=
  let ds := gwDomains base gws vss routeName
  match selectVHost (ds.map (fun d => { name := d, domains := [d], routes := [] })) (stripPort req.authority) with
  | none => .notFound
  | some v =>
    let d := v.name
    if domainRequiresTls base gws vss routeName d && req.scheme == "http" then .tlsRedirect
    else mergedSpec re (contributors base gws vss routeName d) req

end IstioModel.C12
