import IstioModel.C12.Spec
import IstioModel.C12.VHosts

/-!
# C12 (part 3): the gateway route configuration

Model of `buildGatewayHTTPRouteConfig` (pilot/pkg/networking/core/gateway.go) for one Gateway resource
and a router proxy: servers of the requested route name, host intersection of server hosts and
VirtualService hosts (`host.NamesForNamespace`, `host.Names.Intersection`, `host.Name.SubsetOf`), one
virtual host per lower-cased intersecting host (`vHostDedupMap`), routes of every bound VirtualService
appended in order (compiled once per VirtualService, with the port and `IsTLS: server.Tls != nil` of the
first server it intersects), `SortVHostRoutes`, `RequireTls` for `httpsRedirect` servers, the blackhole
virtual host.  `collapseDuplicateRoutes` only merges virtual hosts with identical routes (no change of
meaning) and is not modelled; virtual hosts are kept in creation order (the code sorts them by name).

And the SPEC `gwSpec`: which rules of which VirtualServices answer a request that arrives at the
gateway, written over source terms.

Core Lean only.
-/
namespace IstioModel.C12

structure GwServer where
  port : Nat
  https : Bool := false          -- protocol HTTPS with TLS termination (own route name)
  portName : String := "http"
  hosts : List String := []      -- `ns/host`, `*/host`, `./host` already resolved, or bare `host`
  hasTLS : Bool := false         -- `server.Tls != nil`
  redirect : Bool := false       -- `server.Tls.HttpsRedirect`
  deriving Repr

structure Gateway where
  name : String := ""
  ns : String := ""
  servers : List GwServer := []
  deriving Repr

/-- A VirtualService together with its top-level `gateways` (resolved to `ns/name`). -/
structure GwVS where
  vs : VirtualService
  gateways : List String := []
  deriving Repr

def Gateway.fullName (g : Gateway) : String := g.ns ++ "/" ++ g.name

/-- `gatewayRDSRouteName` (no bind). -/
def routeNameOf (g : Gateway) (s : GwServer) : String :=
  if s.https then "https." ++ toString s.port ++ "." ++ s.portName ++ "." ++ g.name ++ "." ++ g.ns
  else "http." ++ toString s.port

/-- `strings.Cut(host, "/")`. -/
def cutSlash (h : String) : Option (String × String) :=
  match indexOf ['/'] (cs h) with
  | some i => some (mk ((cs h).take i), mk ((cs h).drop (i + 1)))
  | none => none

/-- `sanitizeServerHostNamespace` (pilot/pkg/model/gateway.go, applied by `MergeGateways`): `./host` is
    `<gateway ns>/host`, `*/host` is `host`, and `*/*` replaces the whole list by `*`. -/
def sanitizeHosts (ns : String) : List String → List String → List String
  | [], acc => acc
  | h :: rest, acc =>
    match cutSlash h with
    | some (n, name) =>
      if n == "." then sanitizeHosts ns rest (acc ++ [ns ++ "/" ++ name])
      else if n == "*" then (if name == "*" then ["*"] else sanitizeHosts ns rest (acc ++ [name]))
      else sanitizeHosts ns rest (acc ++ [h])
    | none => sanitizeHosts ns rest (acc ++ [h])

/-- `host.NamesForNamespace`. -/
def namesForNamespace (hosts : List String) (ns : String) : List String :=
  hosts.filterMap fun h =>
    match cutSlash h with
    | some (n, name) => if n != ns && n != "*" then none else some name
    | none => some h

/-- `host.Name.SubsetOf`. -/
def hostSubsetOf (n o : String) : Bool :=
  if isWildcarded n then
    if isWildcarded o then (if n.length < o.length then false else hasSuffixStr (drop1 n) (drop1 o))
    else false
  else if isWildcarded o then hasSuffixStr n (drop1 o)
  else n == o

def addUnique (l : List String) (h : String) : List String := if l.contains h then l else l ++ [h]

/-- `host.Names.Intersection`: for every matching pair the more specific host, first occurrence order. -/
def hostIntersection (hs os : List String) : List String :=
  hs.foldl (fun acc h =>
    os.foldl (fun acc o =>
      if hostSubsetOf h o then addUnique acc h
      else if hostSubsetOf o h then addUnique acc o
      else acc) acc) []

/-- Context of the route translation for a VirtualService first met at server `s`. -/
def gwCtx (base : Ctx) (g : Gateway) (s : GwServer) : Ctx :=
  { base with gatewayNames := [g.fullName], listenPort := s.port, isTLS := s.hasTLS }

/-- The virtual-host table under construction (`vHostDedupMap`, insertion order) and the per
    VirtualService route memo (`gatewayRoutes[gatewayName][vskey]`). -/
structure GwAcc where
  vhosts : List VirtualHost := []
  memo : List (String × List Route) := []

def memoKey (v : GwVS) : String := v.vs.name ++ "/" ++ v.vs.ns

def addToVHost (vhs : List VirtualHost) (d : String) (port : Nat) (routes : List Route) (tls : Bool) : List VirtualHost :=
  if vhs.any (fun v => v.domains == [d]) then
    vhs.map (fun v => if v.domains == [d] then
      { v with routes := v.routes ++ routes, requireTls := v.requireTls || tls } else v)
  else vhs ++ [{ name := domainName d port, domains := [d], routes := routes, requireTls := tls }]

/-- One (server, VirtualService) step of the double loop. -/
def gwStep (base : Ctx) (g : Gateway) (s : GwServer) (acc : GwAcc) (v : GwVS) : GwAcc :=
  let inter := hostIntersection (namesForNamespace s.hosts v.vs.ns) v.vs.hosts
  if inter.isEmpty then acc else
  let known := acc.memo.find? (fun e => e.1 == memoKey v)
  let routes := match known with
    | some e => e.2
    | none => compile (gwCtx base g s) v.vs
  if known.isNone && routes.isEmpty then acc     -- "no routes matched": the VirtualService is omitted
  else
    let memo := if known.isNone then acc.memo ++ [(memoKey v, routes)] else acc.memo
    { vhosts := inter.foldl (fun vhs h => addToVHost vhs (lower h) s.port routes (s.hasTLS && s.redirect)) acc.vhosts,
      memo := memo }

/-- A server host without its namespace qualifier: the host clients address. -/
def stripNs (h : String) : String :=
  match cutSlash h with
  | some p => p.2
  | none => h

/-- The redirect-only virtual hosts of an `httpsRedirect` server (namespace qualifier stripped: F-C12-5 fix). -/
def gwRedirectHosts (s : GwServer) (vhs : List VirtualHost) : List VirtualHost :=
  if !(s.hasTLS && s.redirect) then vhs else
  s.hosts.foldl (fun vhs h =>
    let d := lower (stripNs h)
    if vhs.any (fun v => v.domains == [d]) then
      vhs.map (fun v => if v.domains == [d] then { v with requireTls := true } else v)
    else vhs ++ [{ name := domainName d s.port, domains := [d], routes := [], requireTls := true }]) vhs

def gwServerLoop (base : Ctx) (g : Gateway) (vss : List GwVS) (acc : GwAcc) (s : GwServer) : GwAcc :=
  let a := vss.foldl (gwStep base g s) acc
  { a with vhosts := gwRedirectHosts s a.vhosts }

/-- Servers of a route name, hosts sanitised. -/
def gwServers (g : Gateway) (routeName : String) : List GwServer :=
  (g.servers.filter (fun s => routeNameOf g s == routeName)).map (fun s => { s with hosts := sanitizeHosts g.ns s.hosts [] })

/-- VirtualServices bound to the gateway (`VirtualServicesForGateway`; all public, creation order). -/
def boundTo (g : Gateway) (vss : List GwVS) : List GwVS := vss.filter (fun v => v.gateways.contains g.fullName)

/-- `buildGatewayHTTPRouteConfig`: the virtual hosts of route `routeName`. -/
def gwVHosts (base : Ctx) (g : Gateway) (vss : List GwVS) (routeName : String) : List VirtualHost :=
  let servers := gwServers g routeName
  let acc := servers.foldl (gwServerLoop base g (boundTo g vss)) {}
  if acc.vhosts.isEmpty then [{ name := "blackhole", domains := ["*"], routes := [] }]
  else acc.vhosts.map (fun v => { v with routes := sortVHostRoutes v.routes })

/-! ## SPEC -/

/-- A match block that, once it applies, accepts every request (source-level twin of `IsCatchAllRoute`). -/
def srcCatchAll (m : HTTPMatch) : Bool :=
  (match m.uri with
   | none => true
   | some .unset => true
   | some (.pfx p) => p == "/"
   | some (.regex r) => r == ".*"
   | some (.exact _) => false)
  && m.headers.isEmpty && m.withoutHeaders.isEmpty && m.queryParams.isEmpty
  && m.method.isNone && m.authority.isNone && m.scheme.isNone

/-- The (rule, block) pairs of a VirtualService that apply to this proxy / port, in declaration order;
    `none` = rule without match. -/
def applicablePairs (c : Ctx) (vs : VirtualService) : List (HTTPRoute × Option HTTPMatch) :=
  vs.http.flatMap fun r =>
    if r.matchBlocks.isEmpty then [(r, none)]
    else (r.matchBlocks.filter (fun m => applicable m c)).map (fun m => (r, some m))

def pairCatchAll (p : HTTPRoute × Option HTTPMatch) : Bool :=
  match p.2 with
  | none => true
  | some m => srcCatchAll m

def pairHolds (re : Regex) (sem : Semantics) (req : Request) (p : HTTPRoute × Option HTTPMatch) : Bool :=
  match p.2 with
  | none => true
  | some m => matchHolds re sem m req

/-- The specific (non catch-all) pairs of a VirtualService that are in force: those before its first
    catch-all pair. -/
def specificPairs (c : Ctx) (vs : VirtualService) : List (HTTPRoute × Option HTTPMatch) :=
  (applicablePairs c vs).takeWhile (fun p => !pairCatchAll p)

def catchAllPair (c : Ctx) (vs : VirtualService) : Option (HTTPRoute × Option HTTPMatch) :=
  (applicablePairs c vs).find? pairCatchAll

/-- Several VirtualServices on one gateway host (each with the context it is translated in): the first
    specific rule that fires, VirtualServices in order; failing that, the first catch-all rule. -/
def mergedSpec (re : Regex) (l : List (Ctx × VirtualService)) (req : Request) : Decision :=
  match l.findSome? (fun cv => ((specificPairs cv.1 cv.2).find? (pairHolds re cv.2.sem req)).map (fun p => specAction cv.1 p.1)) with
  | some d => d
  | none =>
    match l.findSome? (fun cv => (catchAllPair cv.1 cv.2).map (fun p => specAction cv.1 p.1)) with
    | some d => d
    | none => .notFound

/-- First server of the route (loop order) whose hosts intersect the VirtualService's: the context its
    routes are translated in. -/
def firstServerFor (g : Gateway) (servers : List GwServer) (v : GwVS) : Option GwServer :=
  servers.find? (fun s => !(hostIntersection (namesForNamespace s.hosts v.vs.ns) v.vs.hosts).isEmpty)

/-- The (context, VirtualService) pairs that answer for domain `d`, in the order the code appends their
    routes: servers in order, bound VirtualServices in creation order, a VirtualService counted at every
    server whose intersection with it contains `d`; VirtualServices without a rule for this proxy omitted. -/
def contributors (base : Ctx) (g : Gateway) (vss : List GwVS) (routeName : String) (d : String) : List (Ctx × VirtualService) :=
  let servers := gwServers g routeName
  servers.flatMap fun s =>
    (boundTo g vss).filterMap fun v =>
      if (hostIntersection (namesForNamespace s.hosts v.vs.ns) v.vs.hosts).any (fun h => lower h == d) then
        match firstServerFor g servers v with
        | some s0 => if vsApplies (gwCtx base g s0) v.vs then some (gwCtx base g s0, v.vs) else none
        | none => none
      else none

/-- Domains of the route configuration: every intersecting host (of a VirtualService with a rule for
    this proxy), plus the hosts of `httpsRedirect` servers. -/
def gwDomains (base : Ctx) (g : Gateway) (vss : List GwVS) (routeName : String) : List String :=
  let servers := gwServers g routeName
  servers.flatMap fun s =>
    ((boundTo g vss).flatMap fun v =>
      match firstServerFor g servers v with
      | some s0 => if vsApplies (gwCtx base g s0) v.vs then
          (hostIntersection (namesForNamespace s.hosts v.vs.ns) v.vs.hosts).map lower else []
      | none => [])
    ++ (if s.hasTLS && s.redirect then s.hosts.map (fun h => lower (stripNs h)) else [])

def domainRequiresTls (base : Ctx) (g : Gateway) (vss : List GwVS) (routeName : String) (d : String) : Bool :=
  let servers := gwServers g routeName
  servers.any fun s =>
    s.hasTLS && s.redirect &&
      (s.hosts.any (fun h => lower (stripNs h) == d) ||
       (boundTo g vss).any (fun v =>
         (hostIntersection (namesForNamespace s.hosts v.vs.ns) v.vs.hosts).any (fun h => lower h == d) &&
         (match firstServerFor g servers v with
          | some s0 => vsApplies (gwCtx base g s0) v.vs
          | none => false)))

/-- **Gateway SPEC.**  The request is answered by the most specific domain of the route configuration
    for its authority (exact, longest wildcard, `*`); plain-text requests to an `httpsRedirect` host are
    redirected; otherwise the merged rules of the contributing VirtualServices decide. -/
def gwSpec (re : Regex) (base : Ctx) (g : Gateway) (vss : List GwVS) (routeName : String) (req : Request) : Decision :=
  let ds := gwDomains base g vss routeName
  match selectVHost (ds.map (fun d => { name := d, domains := [d], routes := [] })) req.authority with
  | none => .notFound
  | some v =>
    let d := v.name
    if domainRequiresTls base g vss routeName d && req.scheme == "http" then .tlsRedirect
    else mergedSpec re (contributors base g vss routeName d) req

end IstioModel.C12
