import IstioModel.C12.MeshModel

/-!
# C12: the sidecar route configuration in full (the model the driver runs against the real code)

`sidecarRDSFull` follows `BuildSidecarOutboundVirtualHosts` / `BuildSidecarVirtualHostWrapper` /
`buildSidecarVirtualHostsForVirtualService` / `separateVSHostsAndServices` wrapper by wrapper, for every
shape of VirtualService host list:

* service hostnames are lower-cased when the registry of the listener port is built (`servicesByName`);
* for listener ports other than 80 only VirtualServices matching a service of the port are considered
  (`selectVirtualServices`);
* a VirtualService with routes for this proxy yields a wrapper with: the services its NON-wildcard hosts
  name (direct registry lookup of the lower-cased host), the services matched by its wildcard hosts whose
  most-specific index entry (computed over lower-cased hostnames) is this VirtualService, and its
  `VirtualServiceHosts` - hosts outside the registry of the port (a wildcard host only if it matches no
  service at all); without any service the wrapper exists on listener port 80 only;
* virtual hosts: per wrapper first one per VirtualServiceHost (`svc == nil` branch: the lower-cased host
  as only domain), then one per service; then the services no wrapper took (Alias services excepted), by
  hostname, with the default route; duplicate names skipped, domains de-duplicated (`buildVHosts`);
* services whose port of this number is not HTTP stay in the registry (they keep a VirtualService host from being
  "outside the registry") but get no virtual host and no wrapper (`IsHTTPOrSniffed`);
* the catch-all virtual host of the outbound traffic policy in force, `m.policy` (ALLOW_ANY / egress proxy /
  REGISTRY_ONLY / ALLOW_ANY_DYNAMIC_DNS).

`sidecarRDS` (MeshModel.lean), the subject of `sidecar_rds_correct`, is the special case without
VirtualServiceHosts, upper-case hostnames and aliases; the driver checks the two produce the same table
whenever `certVSHosts` holds.

Core Lean only.
-/
namespace IstioModel.C12

structure Wrapper where
  hosts : List String := []        -- `VirtualServiceHosts`
  svcs : List MeshSvc := []        -- `Services` (lower-cased hostnames)
  routes : List Route := []

/-- Services of the listener port as `servicesByName` holds them: hostname lower-cased. -/
def loweredOnPort (c : Ctx) (m : Mesh) : List MeshSvc :=
  (m.svcs.filter (fun s => s.ports.contains c.listenPort)).map (fun s => { s with host := lower s.host })

/-- `mostSpecificWildcardVsIndex[key]`: computed over, and keyed by, lower-cased hostnames (VirtualService hosts
    and service hostnames alike; /repo 991bf36).  `key` is the lower-cased hostname of a service of the listener. -/
def indexLookup (m : Mesh) (key : String) : Option VirtualService :=
  vsForModel (m.vss.map (fun v => { v with hosts := v.hosts.map lower })) key

def sameVS (a b : VirtualService) : Bool := a.name == b.name && a.ns == b.ns

/-- `separateVSHostsAndServices`. -/
def separate (m : Mesh) (on : List MeshSvc) (v : VirtualService) : List String × List MeshSvc :=
  let nonWild := v.hosts.filter (fun h => !isWildcarded (lower h))
  let wild := (v.hosts.filter (fun h => isWildcarded (lower h))).map lower
  let svcs1 := nonWild.filterMap (fun h => on.find? (fun s => s.host == lower h))
  let hosts1 := nonWild.filter (fun h => !on.any (fun s => s.host == lower h))
  let svcs2 := wild.flatMap fun w =>
    sortSvcsByHost ((on.filter (fun s => hostMatches s.host w)).filter fun s =>
      match indexLookup m s.host with
      | some x => sameVS x v
      | none => false)
  let hosts2 := wild.filter (fun w => !on.any (fun s => hostMatches s.host w))
  (hosts1 ++ hosts2, svcs1 ++ svcs2)

/-- `selectVirtualServices` (applied unless the listener port is 80). -/
def vsConsidered (c : Ctx) (on : List MeshSvc) (v : VirtualService) : Bool :=
  c.listenPort == 80 || vsSelected (on.map (·.host)) v.hosts

/-- `buildSidecarVirtualHostsForVirtualService`: only services whose port is HTTP make a wrapper (`serviceByPort`). -/
def wrapperOf (c : Ctx) (m : Mesh) (on : List MeshSvc) (v : VirtualService) : Option Wrapper :=
  if !vsConsidered c on v then none else
  let routes := compile (sidecarCtx c) v
  if routes.isEmpty then none else
  let hs := separate m on v
  let http := hs.2.filter (fun s => !s.tcpPorts.contains c.listenPort)
  if http.isEmpty && c.listenPort != 80 then none
  else some { hosts := hs.1, svcs := http, routes := routes }

def hostInput (c : Ctx) (w : Wrapper) (h : String) : VHInput :=
  { name := domainName (lower h) c.listenPort, domains := [ipv6Compliant (lower h)], altHosts := [], routes := w.routes }

def svcInputWith (c : Ctx) (m : Mesh) (routes : List Route) (s : MeshSvc) : VHInput :=
  { name := domainName s.host c.listenPort, domains := (svcDomains c m s).1, altHosts := (svcDomains c m s).2, routes := routes }

def catchAllFor : OutboundPolicy → VirtualHost
  | .allowAny => catchAllVHost
  | .egressProxy cl =>
    { name := "allow_any", domains := ["*"], routes := [{ name := "allow_any", «match» := {}, action := .cluster cl }] }
  | .registryOnly =>
    { name := "block_all", domains := ["*"], routes := [{ name := "block_all", «match» := {}, action := .direct 502 none }] }
  | .dynamicDNS =>
    { name := "allow_any_dynamic_dns", domains := ["*"],
      routes := [{ name := "allow_any_dynamic_dns", «match» := {}, action := .cluster "AllowAnyDynamicDNSCluster" }] }

/-- Hostnames (lower-case) of the `Resolution: Alias` services: they get no default virtual host of their own. -/
def aliasHostsOf (m : Mesh) : List String := (m.svcs.filter (·.alias)).map (fun s => lower s.host)

/-- The virtual hosts of the sidecar's outbound route configuration for `c.listenPort`, in full. -/
def sidecarRDSFull (c : Ctx) (m : Mesh) : List VirtualHost :=
  let on := loweredOnPort c m
  let wrappers := m.vss.filterMap (wrapperOf c m on)
  let taken := wrappers.flatMap (fun w => w.svcs.map (·.host))
  let rest := sortSvcsByHost (on.filter (fun s => !taken.contains s.host && !s.alias && !s.tcpPorts.contains c.listenPort))
  let inputs := wrappers.flatMap (fun w => w.hosts.map (hostInput c w) ++ w.svcs.map (svcInputWith c m w.routes))
    ++ rest.map (fun s => svcInputWith c m [defaultRoute c.listenPort s.host] s)
  let known := (wrappers.flatMap (·.svcs) ++ rest).flatMap (fun s => [domainName s.host c.listenPort, s.host])
  buildVHosts known inputs [] [] ++ [catchAllFor m.policy]

/-! ## contest-aware end-to-end SPEC including VirtualService hosts outside the registry -/

/-- VirtualService hosts outside the registry of the port that are honoured, with their VirtualService.
    CODE-DERIVED condition (the API text knows no such restriction): the VirtualService has a rule for this
    proxy and the listener port is 80 or the VirtualService also serves a service of this port. -/
def strayHosts (c : Ctx) (m : Mesh) : List (String × VirtualService) :=
  let on := loweredOnPort c m
  m.vss.flatMap fun v =>
    match wrapperOf c m on v with
    | some w => w.hosts.map (fun h => (lower h, v))
    | none => []

def policyDecision : OutboundPolicy → Decision
  | .allowAny => .forward [("PassthroughCluster", 1)]
  | .egressProxy cl => .forward [(cl, 1)]
  | .registryOnly => .direct 502 none
  | .dynamicDNS => .forward [("AllowAnyDynamicDNSCluster", 1)]

def decideForL (re : Regex) (c : Ctx) (m : Mesh) (s : MeshSvc) (req : Request) : Decision :=
  match vsChoice c m.vss (lower s.host) with
  | some vs => vsSpec re c vs req
  | none => .forward [(subsetKey "" (lower s.host) c.listenPort, 1)]

/-- The spec the driver and the oracle use.  `none` = silent (contested name).  An authority is resolved:
    the FQDN of a service (hostnames are case-insensitive); else the unique claimant among service names and
    exact VirtualService hosts outside the registry; else the longest matching wildcard VirtualService host
    outside the registry; else the outbound traffic policy. -/
def meshSpecF (re : Regex) (c : Ctx) (m : Mesh) (req : Request) : Option Decision :=
  let a := lower (stripPort req.authority)
  let policy := m.policy
  -- only services whose port of this number speaks HTTP are addressed through this route configuration
  let on := (m.svcs.filter (fun s => s.httpOn c.listenPort))
  -- an Alias service has no virtual host of its own unless a VirtualService serves it
  let hidden (s : MeshSvc) : Bool := s.alias && (vsChoice c m.vss (lower s.host)).isNone
  match on.find? (fun s => (lower s.host == a || lower (s.host ++ ".") == a) && !hidden s) with
  | some s =>
    -- CONTESTED (silent): an Alias service served by a VirtualService, and the service it stands for
    if s.alias && on.any (fun t => t.aliases.any (fun x => lower x == lower s.host)) then none
    else some (decideForL re c m s req)
  | none =>
    let claim := on.filter (fun s => !hidden s &&
      (svcNames { s with host := lower s.host } m.proxyDomain).any (fun n => lower n == a))
    let stray := (strayHosts c m).filter (fun e => !isWildcarded e.1 && e.1 == a)
    -- a headless service is also addressed by the names of its pods, `<pod>.<any name of the service>`
    let pods := on.filter (fun s => s.headless && !hidden s &&
      (svcNames { s with host := lower s.host, addr := "", moreAddrs := [] } m.proxyDomain).any (fun n => hasSuffixStr a ("." ++ lower n)))
    let wild := (strayHosts c m).filter (fun e => isWildcarded e.1 && suffixWildcardMatches e.1 a)
    match claim, stray with
    | [], [] =>
      match pods, wild with
      | [], _ =>
        match longestStr (wild.map (·.1)) with
        | some w =>
          match (strayHosts c m).find? (fun e => e.1 == w) with
          | some e => some (vsSpec re c e.2 req)
          | none => some (policyDecision policy)
        | none => some (policyDecision policy)
      | [s], [] => some (decideForL re c m s req)
      | _, _ => none      -- CONTESTED between pod names / wildcard VirtualService hosts: silent
    | [s], [] => some (decideForL re c m s req)
    | [], e :: _ => some (vsSpec re c e.2 req)
    | _, _ => none

/-- Which clause of `meshSpecF` answers (evidence statistics only). -/
def meshWhy (re : Regex) (c : Ctx) (m : Mesh) (req : Request) : String :=
  let a := lower (stripPort req.authority)
  let on := (m.svcs.filter (fun s => s.httpOn c.listenPort))
  let hidden (s : MeshSvc) : Bool := s.alias && (vsChoice c m.vss (lower s.host)).isNone
  let forSvc (s : MeshSvc) : String :=
    match vsChoice c m.vss (lower s.host) with
    | some vs => if vsSpec re c vs req == .notFound then "vs-404" else "vs-rule"
    | none => "default"
  let forVS (v : VirtualService) : String := if vsSpec re c v req == .notFound then "stray-404" else "stray-rule"
  match meshSpecF re c m req with
  | none => "silent"
  | some _ =>
    match on.find? (fun s => (lower s.host == a || lower (s.host ++ ".") == a) && !hidden s) with
    | some s => forSvc s
    | none =>
      match on.filter (fun s => !hidden s && (svcNames { s with host := lower s.host } m.proxyDomain).any (fun n => lower n == a)) with
      | [s] => forSvc s
      | _ =>
        match (strayHosts c m).find? (fun e => e.1 == a || (isWildcarded e.1 && suffixWildcardMatches e.1 a)) with
        | some e => forVS e.2
        | none => "policy"

/-- Hypothesis of `sidecar_rds_correct` (reviews 3 and 4) - the meshes on which its model `sidecarRDS` is meant to be
    the code's behaviour: every VirtualService lists exactly hosts that are lower-case and are either the hostname of
    a service of this listener port or a wildcard matching one (no `VirtualServiceHosts`); service hostnames are
    lower-case; the listener port is not 80; the outbound traffic policy in force is ALLOW_ANY without egress proxy;
    no service is a `Resolution: Alias` service or headless; every port is an HTTP port. -/
def certVSHosts (c : Ctx) (m : Mesh) : Bool :=
  c.listenPort != 80
  && m.policy == .allowAny
  && m.svcs.all (fun s => !s.alias && s.tcpPorts.isEmpty && !s.headless)
  && m.svcs.all (fun s => lower s.host == s.host)
  && m.vss.all (fun v => v.hosts.all fun h =>
      lower h == h &&
      (if isWildcarded h then (onPort c m).any (fun s => hostMatches s.host h)
       else (onPort c m).any (fun s => s.host == h)))

/-- The registry of the context is the mesh's (LOW item of the round-3 review; hypothesis of
    `sidecar_rds_correct`): same hostnames and ports, in order. -/
def certRegistry (c : Ctx) (m : Mesh) : Bool :=
  c.services.map (fun s => (s.host, s.ports)) == m.svcs.map (fun s => (s.host, s.ports))

end IstioModel.C12
