import IstioModel.C12.Model

/-! Virtual hosts and domains (item 2) - model of `generateVirtualHostDomains`, `dedupeDomains`. -/
namespace IstioModel.C12

structure VHDriver where
  dummy : Nat := 0

def vhStep (_v : VHDriver) (_toks : List String) : Option (VHDriver × String) := none

end IstioModel.C12
