import IstioModel.C12.Model

/-!
# C12 (part 2): virtual hosts and domains of the sidecar outbound route configuration

Model of `pilot/pkg/networking/core/httproute.go`: `generateVirtualHostDomains`,
`GenerateAltVirtualHosts`, `generateAltVirtualHostsForKubernetesService`,
`getUniqueAndSharedDNSDomain`, `appendDomainPort`, `dedupeDomains` and the `buildVirtualHost` closure
of `BuildSidecarOutboundVirtualHosts` (duplicate virtual-host names, shared `vhdomains` set);
`model.MostSpecificHostMatch` (most specific VirtualService host for a service).

Strings are ASCII host names; Go byte indices coincide with character indices.
`features.EnableAbsoluteFqdnVhostDomain` is modelled at its default `true`.

Core Lean only.
-/
namespace IstioModel.C12

/-! ## string helpers (Go `strings`) -/

def cs (s : String) : List Char := s.toList
def mk (l : List Char) : String := String.ofList l

/-- `strings.Index` on character lists. -/
def indexOf (pat : List Char) : List Char → Option Nat
  | [] => if pat.isEmpty then some 0 else none
  | c :: t => if pat.isPrefixOf (c :: t) then some 0 else (indexOf pat t).map (· + 1)

def containsStr (pat s : String) : Bool := (indexOf (cs pat) (cs s)).isSome
def hasSuffixStr (s suf : String) : Bool := (cs suf).reverse.isPrefixOf (cs s).reverse

/-- `net.JoinHostPort(host, itoa port)` = `util.DomainName`. -/
def domainName (h : String) (port : Nat) : String :=
  if containsStr ":" h then "[" ++ h ++ "]:" ++ toString port else h ++ ":" ++ toString port

/-- `util.IPv6Compliant`. -/
def ipv6Compliant (h : String) : String := if containsStr ":" h then "[" ++ h ++ "]" else h

/-- `appendDomainPort`; port 0 = `portNoAppendPortSuffix`. -/
def appendDomainPort (domains : List String) (d : String) (port : Nat) : List String :=
  if port == 0 then domains ++ [ipv6Compliant d] else domains ++ [ipv6Compliant d, domainName d port]

/-- `removeSvcNamespace`: everything from `.svc.` on, if it occurs at a positive index. -/
def removeSvcNamespace (d : String) : String :=
  match indexOf (cs ".svc.") (cs d) with
  | some i => if i > 0 then mk ((cs d).drop i) else d
  | none => d

/-- `strings.Split(s, ".")` (structural, so that closed instances reduce). -/
def splitChar (c : Char) : List Char → List (List Char)
  | [] => [[]]
  | x :: xs =>
    if x == c then [] :: splitChar c xs
    else match splitChar c xs with
      | [] => [[x]]
      | h :: t => (x :: h) :: t

def splitDots (s : String) : List String := (splitChar '.' (cs s)).map mk

/-- Length of the common prefix of two label lists. -/
def commonPrefixLen : List String → List String → Nat
  | a :: as, b :: bs => if a == b then commonPrefixLen as bs + 1 else 0
  | _, _ => 0

/-- `getUniqueAndSharedDNSDomain`. -/
def uniqueAndShared (fqdn proxyDomain : String) : List String × List String :=
  let pf := (splitDots fqdn).reverse
  let pp := (splitDots proxyDomain).reverse
  let n := commonPrefixLen pf pp
  if n == 0 then (splitDots fqdn, []) else ((pf.drop n).reverse, (pf.take n).reverse)

/-- `generateAltVirtualHostsForKubernetesService`. -/
def altHostsKube (hostname : String) (port : Nat) (proxyDomain : String) : List String :=
  let h := cs hostname
  let before := match indexOf (cs ".svc.") (cs proxyDomain) with
    | some i => mk ((cs proxyDomain).take i)
    | none => proxyDomain
  match indexOf (cs ".svc.") h with
  | none => []
  | some ih =>
    if ih == 0 then [] else
    match indexOf ['.'] h with
    | none => []
    | some ns =>
      if ns + 1 >= h.length || ns + 1 > ih then [] else
      let name := mk (h.take ns)
      let nameNs := mk (h.take ih)
      -- a wildcard service name has no short form (/repo a8f0821): a bare "*" would collide with the catch-all
      if mk ((h.take ih).drop (ns + 1)) == before && name != "*" then
        if port == 0 then [name, nameNs ++ ".svc", nameNs]
        else [name, domainName name port, nameNs ++ ".svc", domainName (nameNs ++ ".svc") port, nameNs, domainName nameNs port]
      else
        if port == 0 then [nameNs, nameNs ++ ".svc"]
        else [nameNs, domainName nameNs port, nameNs ++ ".svc", domainName (nameNs ++ ".svc") port]

/-- `GenerateAltVirtualHosts` (`isIP` = `net.ParseIP(hostname) != nil`). -/
def altHosts (hostname : String) (isIP : Bool) (port : Nat) (proxyDomain : String) : List String :=
  let v0 := (if isIP then [] else [hostname ++ "."]) ++ (if port != 0 then [domainName (hostname ++ ".") port] else [])
  if containsStr ".svc." proxyDomain then
    if hasSuffixStr hostname (removeSvcNamespace proxyDomain) then v0 ++ altHostsKube hostname port proxyDomain
    else v0
  else
    let us := uniqueAndShared hostname proxyDomain
    if us.2.isEmpty then v0 else
    if us.1.isEmpty then v0 else      -- F-C12-3 fix: hostname is the proxy domain or a parent of it
    let uniq := ".".intercalate us.1
    if uniq == "*" then v0 else       -- /repo a8f0821: a wildcard directly below the shared domain
    let v1 := appendDomainPort v0 uniq port
    if us.1.length == 2 then appendDomainPort v1 (uniq ++ "." ++ us.2.headD "") port else v1

/-- The generic (non-Kubernetes) branch before the F-C12-3 fix, kept for the witness theorem. -/
def altHostsGenericUnfixed (hostname : String) (port : Nat) (proxyDomain : String) : List String :=
  let us := uniqueAndShared hostname proxyDomain
  if us.2.isEmpty then [] else
  let uniq := ".".intercalate us.1
  let v1 := appendDomainPort [] uniq port
  if us.1.length == 2 then appendDomainPort v1 (uniq ++ "." ++ us.2.headD "") port else v1

/-- Inputs of `generateVirtualHostDomains` the result depends on. -/
structure DomSvc where
  hostname : String
  aliases : List String := []
  isIP : List Bool := []            -- `net.ParseIP` verdict for hostname :: aliases
  passthroughKube : Bool := false   -- Resolution == Passthrough && registry == Kubernetes
  addresses : List String := []     -- `service.GetAllAddressesForProxy(node)`

def domLoop (port : Nat) (proxyDomain : String) : List (String × Bool) → List String × List String
  | [] => ([], [])
  | (s, ip) :: rest =>
    let alt := altHosts s ip port proxyDomain
    let r := domLoop port proxyDomain rest
    (appendDomainPort [] s port ++ alt ++ r.1, alt ++ r.2)

/-- `generateVirtualHostDomains`: (domains, allAltHosts). -/
def generateVirtualHostDomains (svc : DomSvc) (listenerPort port : Nat) (proxyDomain : String) (proxyless : Bool) :
    List String × List String :=
  let port := if !proxyless && listenerPort != 0 then 0 else port
  let all := (svc.hostname :: svc.aliases).zip (svc.isIP ++ List.replicate (svc.aliases.length + 1) false)
  let r := domLoop port proxyDomain all
  let d1 := if svc.passthroughKube then r.1 ++ r.1.map (fun d => "*." ++ d) else r.1
  let d2 := svc.addresses.foldl (fun acc a => if a != "" && a != "0.0.0.0" then appendDomainPort acc a port else acc) d1
  (d2, r.2)

/-! ## dedupeDomains and the virtual-host loop -/

/-- `dedupeDomains`: kept domains and the updated `vhdomains` set (a list read as a set). -/
def dedupeLoop (expanded known : List String) : List String → List String → List String × List String
  | [], vh => ([], vh)
  | d :: ds, vh =>
    if vh.contains (lower d) then dedupeLoop expanded known ds vh
    else if expanded.contains d && known.contains d then dedupeLoop expanded known ds vh
    else ((d :: (dedupeLoop expanded known ds (lower d :: vh)).1), (dedupeLoop expanded known ds (lower d :: vh)).2)

/-- One call of the `buildVirtualHost` closure: name, generated domains, expanded (alt) hosts, routes. -/
structure VHInput where
  name : String
  domains : List String
  altHosts : List String := []
  routes : List Route := []

/-- The `buildVirtualHost` calls of `BuildSidecarOutboundVirtualHosts` in sequence: a repeated
    virtual-host name is skipped, domains are de-duplicated against everything kept so far, a virtual
    host left without domains is dropped. -/
def buildVHosts (known : List String) : List VHInput → List String → List String → List VirtualHost
  | [], _, _ => []
  | i :: is, names, vhd =>
    if names.contains i.name then buildVHosts known is names vhd
    else if (dedupeLoop i.altHosts known i.domains vhd).1.isEmpty then
      buildVHosts known is (i.name :: names) (dedupeLoop i.altHosts known i.domains vhd).2
    else
      { name := i.name, domains := (dedupeLoop i.altHosts known i.domains vhd).1, routes := i.routes }
        :: buildVHosts known is (i.name :: names) (dedupeLoop i.altHosts known i.domains vhd).2

/-! ## most specific VirtualService host (`model.MostSpecificHostMatch`, `host.MoreSpecific`) -/

def isWildcarded (h : String) : Bool := hasPrefix "*" h

/-- `host.MoreSpecific` for two wildcard hosts: longer first, ties alphabetically. -/
def moreSpecific (a b : String) : Bool :=
  if a.length == b.length then a < b else a.length > b.length

/-- `mostSpecificHostWildcardMatch`: fold over an arbitrary enumeration of the wildcard map keys. -/
def wildcardMatch (needle : String) : List String → Option String → Option String
  | [], best => best
  | h :: hs, best =>
    if hasSuffixStr needle (mk ((cs h).drop 1)) then
      match best with
      | none => wildcardMatch needle hs (some h)
      | some b => if moreSpecific h b then wildcardMatch needle hs (some h) else wildcardMatch needle hs best
    else wildcardMatch needle hs best

/-- `MostSpecificHostMatch`: exact key first, else the most specific matching wildcard key. -/
def mostSpecificHostMatch (needle : String) (specific wildcard : List String) : Option String :=
  if isWildcarded needle then
    if wildcard.contains needle then some needle
    else wildcardMatch (mk ((cs needle).drop 1)) wildcard none
  else if specific.contains needle then some needle
  else wildcardMatch needle wildcard none

/-! ## `selectVirtualServices` (httproute.go) and `host.Name.Matches` -/

def drop1 (s : String) : String := mk ((cs s).drop 1)

/-- `host.Name.Matches`. -/
def hostMatches (n o : String) : Bool :=
  if isWildcarded n then
    if isWildcarded o then
      (if n.length < o.length then hasSuffixStr (drop1 o) (drop1 n) else hasSuffixStr (drop1 n) (drop1 o))
    else hasSuffixStr o (drop1 n)
  else if isWildcarded o then hasSuffixStr n (drop1 o)
  else n == o

/-- `host.Name.SubsetOf`. -/
def hostSubsetOf (n o : String) : Bool :=
  if isWildcarded n then
    if isWildcarded o then (if n.length < o.length then false else hasSuffixStr (drop1 n) (drop1 o))
    else false
  else if isWildcarded o then hasSuffixStr n (drop1 o)
  else n == o

/-- One VirtualService is selected when some host of it (lower-cased) is a service host, or - wildcard
    host - matches some service host, or - plain host - is matched by some wildcard service host. -/
def vsSelected (svcHosts : List String) (hosts : List String) : Bool :=
  hosts.any fun h =>
    let l := lower h
    svcHosts.contains l ||
      (if isWildcarded l then svcHosts.any (fun s => hostMatches l s)
       else (svcHosts.filter isWildcarded).any (fun s => hostMatches l s))

/-- `selectVirtualServices`: order-preserving filter. -/
def selectVS (svcHosts : List String) (vss : List (String × List String)) : List String :=
  (vss.filter (fun v => vsSelected svcHosts v.2)).map (·.1)

/-- Side condition of `sortVHost_sound` for one request: no non-catch-all route placed after the
    first catch-all route accepts the request. -/
def sortSafe (re : Regex) (routes : List Route) (req : Request) : Bool :=
  match routes.dropWhile (fun r => !isCatchAll r) with
  | [] => true
  | _ :: post => post.all (fun r => isCatchAll r || !r.match.eval re req)

/-! ## driver hooks for stream `vhosts` (state lives in `Driver.lean`) -/

structure VHDriver where
  known : List String := []
  inputs : List VHInput := []     -- the `buildVirtualHost` calls so far; the virtual hosts are `buildVHosts known inputs [] []`
  acc : List Route := []

end IstioModel.C12
