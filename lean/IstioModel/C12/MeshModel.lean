import IstioModel.C12.MeshSpec

/-!
# C12: model of the sidecar outbound route configuration, composed from the pieces

`sidecarRDS` assembles what `buildSidecarOutboundHTTPRouteConfig` / `BuildSidecarOutboundVirtualHosts` /
`BuildSidecarVirtualHostWrapper` produce for one listener port from the already modelled parts:
the registry restricted to the listener port (`filteredView`), the most specific VirtualService host
per service (`mostSpecificHostMatch` over the host indices of `computeWildcardHostVirtualServiceIndex`),
the route compiler (`compile`), the default route, `generateVirtualHostDomains`, the `buildVirtualHost`
loop with `dedupeDomains` (`buildVHosts`) and the catch-all virtual host; evaluated by
`evalRouteConfig` (virtual host by authority, then first matching route).

Scope (the shape stream `rds` generates): VirtualService hosts that are service hostnames or
wildcards matching some service of the port (no virtual hosts of their own for VirtualService hosts,
i.e. not listener port 80's special case), no Sidecar resource / exportTo, proxy DNS domain
`<ns>.svc.cluster.local`.  Virtual hosts are produced in the code's order: services with a
VirtualService first (VirtualServices in order), then the others by hostname.

Core Lean only.
-/
namespace IstioModel.C12

/-- `servicesByName`: the services exposing the listener port, reduced to that port. -/
def restrictRegistry (port : Nat) (svcs : List Service) : List Service :=
  svcs.filterMap (fun s => if s.ports.contains port then some { s with ports := [port] } else none)

/-- Context the route compiler runs in on the sidecar path. -/
def sidecarCtx (c : Ctx) : Ctx := { c with services := restrictRegistry c.listenPort c.services }

/-- Keys of `fqdnVirtualServiceHostIndex` / `wildcardVirtualServiceHostIndex`. -/
def fqdnHosts (vss : List VirtualService) : List String := (vss.flatMap (·.hosts)).filter (fun h => !isWildcarded h)
def wildHosts (vss : List VirtualService) : List String := (vss.flatMap (·.hosts)).filter isWildcarded

/-- Value of those indices: the first VirtualService carrying the host ("never overwrite"). -/
def vsOfHost (vss : List VirtualService) (h : String) : Option VirtualService := vss.find? (fun v => v.hosts.contains h)

/-- `mostSpecificWildcardVsIndex[svc]`. -/
def vsForModel (vss : List VirtualService) (hostname : String) : Option VirtualService :=
  (mostSpecificHostMatch hostname (fqdnHosts vss) (wildHosts vss)).bind (vsOfHost vss)

/-- `BuildDefaultHTTPOutboundRoute` reduced to what decides where the request goes. -/
def defaultRoute (port : Nat) (host : String) : Route :=
  { name := "default", «match» := {}, action := .cluster (subsetKey "" host port) }

/-- The VirtualService whose wrapper serves a service.  A non-wildcard VirtualService host is looked up
    directly in the registry (every VirtualService listing the hostname gets the service; the first one
    with routes for this proxy wins the virtual-host name); otherwise only the VirtualService the
    most-specific index names for the service is considered. -/
def vsChoiceModel (c : Ctx) (vss : List VirtualService) (hostname : String) : Option VirtualService :=
  let exact := vss.filter (fun v => v.hosts.contains hostname)
  if !exact.isEmpty then exact.find? (fun v => !(compile (sidecarCtx c) v).isEmpty)
  else (vsForModel vss hostname).filter (fun v => !(compile (sidecarCtx c) v).isEmpty)

/-- Routes of the virtual host of a service: that VirtualService's routes, the default route otherwise. -/
def routesForSvc (c : Ctx) (vss : List VirtualService) (s : MeshSvc) : List Route :=
  match vsChoiceModel c vss s.host with
  | some vs => compile (sidecarCtx c) vs
  | none => [defaultRoute c.listenPort s.host]

def hasWrapper (c : Ctx) (vss : List VirtualService) (s : MeshSvc) : Bool := (vsChoiceModel c vss s.host).isSome

def insertSvcByHost (s : MeshSvc) : List MeshSvc → List MeshSvc
  | [] => [s]
  | x :: xs => if x.host < s.host then x :: insertSvcByHost s xs else s :: x :: xs

def sortSvcsByHost : List MeshSvc → List MeshSvc
  | [] => []
  | s :: ss => insertSvcByHost s (sortSvcsByHost ss)

/-- Order in which `buildVirtualHost` is called: per VirtualService (in order) the services it serves,
    then the remaining services by hostname. -/
def vhostOrder (c : Ctx) (m : Mesh) : List MeshSvc :=
  let on := m.svcs.filter (fun s => s.ports.contains c.listenPort)
  (m.vss.flatMap (fun vs => sortSvcsByHost (on.filter (fun s => hasWrapper c m.vss s &&
      (match vsChoiceModel c m.vss s.host with | some v => v.name == vs.name && v.ns == vs.ns | none => false)))))
  ++ sortSvcsByHost (on.filter (fun s => !hasWrapper c m.vss s))

def svcDomains (c : Ctx) (m : Mesh) (s : MeshSvc) : List String × List String :=
  generateVirtualHostDomains { hostname := s.host, aliases := s.aliases, addresses := (s.addr :: s.moreAddrs).filter (· != ""),
                                passthroughKube := s.headless }
    c.listenPort c.listenPort m.proxyDomain false

def svcInput (c : Ctx) (m : Mesh) (s : MeshSvc) : VHInput :=
  { name := domainName s.host c.listenPort, domains := (svcDomains c m s).1, altHosts := (svcDomains c m s).2,
    routes := routesForSvc c m.vss s }

def knownFQDNs (c : Ctx) (m : Mesh) : List String :=
  (m.svcs.filter (fun s => s.ports.contains c.listenPort)).flatMap (fun s => [domainName s.host c.listenPort, s.host])

def catchAllVHost : VirtualHost :=
  { name := "allow_any", domains := ["*"],
    routes := [{ name := "allow_any", «match» := {}, action := .cluster "PassthroughCluster" }] }

/-- The virtual hosts of the sidecar's outbound route configuration for `c.listenPort`. -/
def sidecarRDS (c : Ctx) (m : Mesh) : List VirtualHost :=
  buildVHosts (knownFQDNs c m) ((vhostOrder c m).map (svcInput c m)) [] [] ++ [catchAllVHost]

/-! ## Decidable hypotheses of `sidecar_rds_correct` (the driver evaluates them on every generated mesh) -/

def onPort (c : Ctx) (m : Mesh) : List MeshSvc := m.svcs.filter (fun s => s.ports.contains c.listenPort)

def plainVHost (i : VHInput) : VirtualHost := { name := i.name, domains := i.domains, routes := i.routes }

/-- `dedupeDomains` dropped nothing and no virtual-host name repeats: no two services claim one name. -/
def certNoDrop (c : Ctx) (m : Mesh) : Bool :=
  decide (buildVHosts (knownFQDNs c m) ((vhostOrder c m).map (svcInput c m)) [] [] = (vhostOrder c m).map (fun s => plainVHost (svcInput c m s)))

/-- The domains generated for every service are, case-insensitively, exactly its names by the
    Kubernetes DNS search path (`svcNames`). -/
def certNames (c : Ctx) (m : Mesh) : Bool :=
  (onPort c m).all fun s =>
    let ds := (svcDomains c m s).1.map lower
    let ns := (svcNames s m.proxyDomain).map lower
    ds.all ns.contains && ns.all ds.contains

/-- No generated domain is a wildcard form. -/
def certPlain (c : Ctx) (m : Mesh) : Bool :=
  (onPort c m).all fun s =>
    (svcDomains c m s).1.all fun d => d != "*" && lower d != "*" && !isSuffixWildcard (lower d) && !isPrefixWildcard (lower d)

/-- Hygiene: VirtualService hosts are lower-case, service hostnames are not wildcards, the registry of
    the context is the mesh's (distinct hostnames). -/
def certHygiene (c : Ctx) (m : Mesh) : Bool :=
  m.vss.all (fun v => v.hosts.all (fun h => lower h == h))
  && m.svcs.all (fun s => !isWildcarded s.host)
  && decide ((c.services.map (·.host)).Nodup)

/-- F-C12-6 side condition: where a service is served through a wildcard host, the index's
    VirtualService (the oldest listing the most specific wildcard) is also the oldest one with a rule for
    this proxy among those listing it. -/
def certWild (c : Ctx) (m : Mesh) : Bool :=
  (onPort c m).all fun s =>
    decide (((longestStr (matchingWildcards m.vss s.host)).bind (oldestWithHost m.vss)).filter (vsApplies c)
      = (match longestStr (matchingWildcards m.vss s.host) with
         | some h => (m.vss.filter (fun v => v.hosts.contains h)).find? (vsApplies c)
         | none => none))

/-- F-C12-4 side condition for a whole VirtualService: every destination resolves the same way
    against the port-restricted and the full registry. -/
def destsOK (c : Ctx) (vs : VirtualService) : Bool :=
  vs.http.all (fun r => r.route.all (fun d => destViewOK c.listenPort (c.lookupService d.dest.host) d.dest))

/-- Request-dependent side conditions of `sidecar_rds_correct`. -/
def meshSide (re : Regex) (c : Ctx) (m : Mesh) (req : Request) : Bool :=
  req.wf && m.vss.all (fun vs => sideConditions re vs req && destsOK c vs)

def rdsCert (c : Ctx) (m : Mesh) : Bool :=
  certNoDrop c m && certNames c m && certPlain c m && certHygiene c m && certWild c m

end IstioModel.C12
