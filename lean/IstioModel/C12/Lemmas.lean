import IstioModel.C12.Spec

/-! Helper lemmas for C12 (not counted as obligations). -/
namespace IstioModel.C12

/-! ### strings -/

theorem lower_slash : lower "/" = "/" := by decide

theorem slash_toList : ("/" : String).toList = ['/'] := by decide

theorem hasPrefix_slash_lower {s : String} (h : hasPrefix "/" s = true) : hasPrefix "/" (lower s) = true := by
  unfold hasPrefix lower at *
  simp only [String.toList_ofList, slash_toList] at h ⊢
  cases hs : s.toList with
  | nil => rw [hs] at h; simp at h
  | cons c cs =>
    rw [hs] at h
    simp only [List.isPrefixOf_cons_cons, List.map_cons] at h ⊢
    simp only [Bool.and_eq_true, beq_iff_eq] at h
    rw [← h.1]
    simp

theorem all_congr_mem {α : Type} (l : List α) (f g : α → Bool) (h : ∀ x ∈ l, f x = g x) :
    l.all f = l.all g := by
  induction l with
  | nil => rfl
  | cons x xs ih =>
    simp only [List.all_cons]
    rw [h x (by simp), ih (fun y hy => h y (by simp [hy]))]

/-! ### header sort -/

theorem all_insertByName (f : HeaderMatcher → Bool) (h : HeaderMatcher) (l : List HeaderMatcher) :
    (insertByName h l).all f = (f h && l.all f) := by
  induction l with
  | nil => simp [insertByName]
  | cons x xs ih =>
    unfold insertByName
    split
    · simp only [List.all_cons, ih]
      cases f x <;> cases f h <;> simp
    · simp [List.all_cons]

theorem all_sortByName (f : HeaderMatcher → Bool) (l : List HeaderMatcher) :
    (sortByName l).all f = l.all f := by
  induction l with
  | nil => simp [sortByName]
  | cons x xs ih => simp [sortByName, all_insertByName, ih]

theorem all_insertQByName (f : QueryMatcher → Bool) (q : QueryMatcher) (l : List QueryMatcher) :
    (insertQByName q l).all f = (f q && l.all f) := by
  induction l with
  | nil => simp [insertQByName]
  | cons x xs ih =>
    unfold insertQByName
    split
    · simp only [List.all_cons, ih]
      cases f x <;> cases f q <;> simp
    · simp [List.all_cons]

theorem all_sortQByName (f : QueryMatcher → Bool) (l : List QueryMatcher) :
    (sortQByName l).all f = l.all f := by
  induction l with
  | nil => simp [sortQByName]
  | cons x xs ih => simp [sortQByName, all_insertQByName, ih]

theorem all_insertEntry (f : String × StringMatch → Bool) (e : String × StringMatch) (l : List (String × StringMatch)) :
    (insertEntry e l).all f = (f e && l.all f) := by
  induction l with
  | nil => simp [insertEntry]
  | cons x xs ih =>
    unfold insertEntry
    split
    · simp only [List.all_cons, ih]
      cases f x <;> cases f e <;> simp
    · simp [List.all_cons]

theorem all_sortEntries (f : String × StringMatch → Bool) (l : List (String × StringMatch)) :
    (sortEntries l).all f = l.all f := by
  induction l with
  | nil => simp [sortEntries]
  | cons x xs ih => simp [sortEntries, all_insertEntry, ih]

theorem sortEntries_eq_nil (l : List (String × StringMatch)) : sortEntries l = [] ↔ l = [] := by
  constructor
  · intro h
    cases l with
    | nil => rfl
    | cons x xs =>
      have hall := all_sortEntries (fun _ => false) (x :: xs)
      rw [h] at hall
      simp at hall
  · intro h; subst h; rfl

theorem mem_insertByName (a h : HeaderMatcher) (l : List HeaderMatcher) :
    a ∈ insertByName h l ↔ a = h ∨ a ∈ l := by
  induction l with
  | nil => simp [insertByName]
  | cons x xs ih =>
    unfold insertByName
    split
    · simp only [List.mem_cons, ih]
      constructor
      · rintro (h1 | h1 | h1) <;> simp [h1]
      · rintro (h1 | h1 | h1) <;> simp [h1]
    · simp [List.mem_cons]

theorem mem_sortByName (a : HeaderMatcher) (l : List HeaderMatcher) : a ∈ sortByName l ↔ a ∈ l := by
  induction l with
  | nil => simp [sortByName]
  | cons x xs ih => simp [sortByName, mem_insertByName, ih]

/-! ### take-through-first -/

/-- Prefix of a list up to and including the first element satisfying `p`. -/
def takeThrough {α : Type} (p : α → Bool) : List α → List α
  | [] => []
  | x :: xs => if p x then [x] else x :: takeThrough p xs

theorem takeThrough_append {α : Type} (p : α → Bool) (a b : List α) :
    takeThrough p (a ++ b) = if a.any p then takeThrough p a else a ++ takeThrough p b := by
  induction a with
  | nil => simp
  | cons x xs ih =>
    simp only [List.cons_append, takeThrough, List.any_cons]
    by_cases hx : p x = true
    · simp [hx]
    · simp only [hx, Bool.false_eq_true, ↓reduceIte, ih, Bool.false_or]
      split <;> simp

theorem takeThrough_prefix {α : Type} (p : α → Bool) (l : List α) : takeThrough p l <+: l := by
  induction l with
  | nil => simp [takeThrough]
  | cons x xs ih =>
    unfold takeThrough
    split
    · exact ⟨xs, by simp⟩
    · obtain ⟨t, ht⟩ := ih
      exact ⟨t, by simp [ht]⟩

theorem takeThrough_eq_self {α : Type} (p : α → Bool) (l : List α) (h : l.any p = false) :
    takeThrough p l = l := by
  induction l with
  | nil => rfl
  | cons x xs ih =>
    simp only [List.any_cons, Bool.or_eq_false_iff] at h
    simp [takeThrough, h.1, ih h.2]

/-- If something was cut off, the kept part contains an element satisfying `p`. -/
theorem takeThrough_dropped {α : Type} (p : α → Bool) (l : List α) (h : takeThrough p l ≠ l) :
    ∃ k ∈ takeThrough p l, p k = true := by
  induction l with
  | nil => simp [takeThrough] at h
  | cons x xs ih =>
    unfold takeThrough at h ⊢
    cases hx : p x
    · simp only [hx] at h ⊢
      have : takeThrough p xs ≠ xs := by
        intro e; apply h; simp [e]
      obtain ⟨k, hk, hp⟩ := ih this
      exact ⟨k, by simp [hk], hp⟩
    · exact ⟨x, by simp, hx⟩

/-- Cutting a list after the first element satisfying `p` does not change `find? q` when every
    `p`-element is also a `q`-element. -/
theorem find?_takeThrough {α : Type} (p q : α → Bool) (l : List α)
    (h : ∀ x ∈ l, p x = true → q x = true) :
    (takeThrough p l).find? q = l.find? q := by
  induction l with
  | nil => rfl
  | cons x xs ih =>
    unfold takeThrough
    cases hx : p x
    · simp only [Bool.false_eq_true, ↓reduceIte, List.find?_cons]
      rw [ih (fun y hy => h y (by simp [hy]))]
    · have hq : q x = true := h x (by simp) hx
      simp [hq]

end IstioModel.C12
