import IstioModel.C12.Lemmas

/-!
# C12 theorems: the route compiler sends each request where the VirtualService says

All statements are for every regex semantics `re`, every VirtualService in the modelled grammar,
every compilation context (proxy labels / namespace, gateway names, listener port, service
registry) and every request.  Hypotheses are decidable predicates (`Request.wf`, `withoutOK`,
`redirectOK`, `prefixOK`, collected in `sideConditions`) plus `DotStar re` - the one assumption
about the opaque regex semantics (the text `.*` accepts every path).
-/
namespace IstioModel.C12

/-- The only fact about regex semantics the proofs use: `.*` accepts every string. -/
def DotStar (re : Regex) : Prop := ∀ s, re ".*" s = true

/-! ## 1. One match block -/

theorem uri_correct (re : Regex) (sem : Semantics) (icase : Bool) (uri : Option StringMatch) (path : String)
    (hwf : hasPrefix "/" path = true) :
    (translateUri sem uri).eval re (!icase) path = uriHolds re sem icase uri path := by
  cases uri with
  | none => cases icase <;> simp [translateUri, uriHolds, PathSpec.eval, hwf, lower_slash, hasPrefix_slash_lower hwf]
  | some sm =>
    cases sm with
    | unset => cases icase <;> simp [translateUri, uriHolds, PathSpec.eval, hwf, lower_slash, hasPrefix_slash_lower hwf]
    | exact s => cases icase <;> simp [translateUri, uriHolds, PathSpec.eval]
    | regex r => simp [translateUri, uriHolds, PathSpec.eval]
    | pfx p =>
      by_cases hc : ((sem == .ingress || sem == .gateway) && p != "/") = true
      · cases icase <;> simp only [translateUri, uriHolds, hc, if_true, PathSpec.eval] <;> simp
      · cases icase <;> simp only [translateUri, uriHolds, hc, PathSpec.eval] <;> simp

theorem header_correct (re : Regex) (req : Request) (n : String) (sm : StringMatch) :
    (translateHeaderMatch n sm).eval re req = headerHolds re req (n, sm) := by
  cases sm with
  | unset =>
    simp [translateHeaderMatch, canBePresent, headerHolds, smHolds, presenceOnly, HeaderMatcher.eval]
    cases req.header n <;> simp
  | exact s =>
    simp [translateHeaderMatch, canBePresent, headerHolds, smHolds, presenceOnly, HeaderMatcher.eval, StrSpec.eval]
    cases req.header n <;> simp
  | pfx s =>
    simp [translateHeaderMatch, canBePresent, headerHolds, smHolds, presenceOnly, HeaderMatcher.eval, StrSpec.eval]
    cases req.header n <;> simp
  | regex r =>
    by_cases hr : r = "*"
    · subst hr
      simp [translateHeaderMatch, canBePresent, headerHolds, smHolds, presenceOnly, HeaderMatcher.eval]
      cases req.header n <;> simp
    · simp [translateHeaderMatch, canBePresent, headerHolds, smHolds, presenceOnly, HeaderMatcher.eval, StrSpec.eval, hr]
      cases req.header n <;> simp

/-- `withoutHeaders` entry: correct when the header is present, or the pattern only checks presence,
    or the pattern rejects the empty string. -/
theorem withoutHeader_correct (re : Regex) (req : Request) (n : String) (sm : StringMatch)
    (h : ((req.header n).isSome || presenceOnly sm || !smHolds re sm "") = true) :
    (translateWithoutHeader n sm).eval re req = !headerHolds re req (n, sm) := by
  cases sm with
  | unset =>
    simp [translateWithoutHeader, translateHeaderMatch, canBePresent, headerHolds, smHolds, presenceOnly, HeaderMatcher.eval]
    cases req.header n <;> simp
  | exact s =>
    simp [smHolds, presenceOnly] at h
    simp [translateWithoutHeader, translateHeaderMatch, canBePresent, headerHolds, smHolds, presenceOnly, HeaderMatcher.eval, StrSpec.eval]
    cases hh : req.header n <;> simp_all
  | pfx s =>
    simp [smHolds, presenceOnly] at h
    simp [translateWithoutHeader, translateHeaderMatch, canBePresent, headerHolds, smHolds, presenceOnly, HeaderMatcher.eval, StrSpec.eval]
    cases hh : req.header n <;> simp_all
  | regex r =>
    by_cases hr : r = "*"
    · subst hr
      simp [translateWithoutHeader, translateHeaderMatch, canBePresent, headerHolds, smHolds, presenceOnly, HeaderMatcher.eval]
      cases req.header n <;> simp
    · simp [smHolds, presenceOnly, hr] at h
      simp [translateWithoutHeader, translateHeaderMatch, canBePresent, headerHolds, smHolds, presenceOnly, HeaderMatcher.eval, StrSpec.eval, hr]
      cases hh : req.header n <;> simp_all

theorem query_correct (re : Regex) (req : Request) (n : String) (sm : StringMatch) :
    (translateQueryMatch n sm).eval re req = queryHolds re req (n, sm) := by
  cases sm with
  | unset =>
    simp [translateQueryMatch, canBePresent, queryHolds, smHolds, presenceOnly, QueryMatcher.eval]
    cases lookup req.query n <;> simp
  | exact s =>
    simp [translateQueryMatch, canBePresent, queryHolds, smHolds, presenceOnly, QueryMatcher.eval, StrSpec.eval]
    cases lookup req.query n <;> simp
  | pfx s =>
    simp [translateQueryMatch, canBePresent, queryHolds, smHolds, presenceOnly, QueryMatcher.eval, StrSpec.eval]
    cases lookup req.query n <;> simp
  | regex r =>
    by_cases hr : r = "*"
    · subst hr
      simp [translateQueryMatch, canBePresent, queryHolds, smHolds, presenceOnly, QueryMatcher.eval]
      cases lookup req.query n <;> simp
    · simp [translateQueryMatch, canBePresent, queryHolds, smHolds, presenceOnly, QueryMatcher.eval, StrSpec.eval, hr]
      cases lookup req.query n <;> simp

theorem pseudo_correct (re : Regex) (req : Request) (n v : String) (o : Option StringMatch)
    (hn : req.header n = some v) :
    (pseudoHeader n o).all (fun h => h.eval re req) = pseudoHolds re v o := by
  cases o with
  | none => simp [pseudoHeader, pseudoHolds]
  | some sm =>
    simp only [pseudoHeader, pseudoHolds, List.all_cons, List.all_nil, Bool.and_true]
    rw [header_correct]
    simp [headerHolds, hn]

theorem header_method (req : Request) : req.header ":method" = some req.method := by
  simp [Request.header]
theorem header_authority (req : Request) : req.header ":authority" = some req.authority := by
  have : ¬ (":authority" = ":method") := by decide
  simp [Request.header, this]
theorem header_scheme (req : Request) : req.header ":scheme" = some req.scheme := by
  have h1 : ¬ (":scheme" = ":method") := by decide
  have h2 : ¬ (":scheme" = ":authority") := by decide
  simp [Request.header, h1, h2]

theorem claimMatchers_cons_none (inv : Bool) (e : String × StringMatch) (es : List (String × StringMatch))
    (h : claimPath e.1 = none) : claimMatchers inv (e :: es) = claimMatchers inv es := by
  simp [claimMatchers, List.filterMap_cons, h]

theorem claimMatchers_cons_some (inv : Bool) (e : String × StringMatch) (es : List (String × StringMatch))
    (p : List String) (h : claimPath e.1 = some p) :
    claimMatchers inv (e :: es) = { path := p, spec := claimSpec e.2, invert := inv } :: claimMatchers inv es := by
  simp [claimMatchers, List.filterMap_cons, h]

theorem claim_eval (re : Regex) (req : Request) (p : List String) (sm : StringMatch) (inv : Bool) :
    ({ path := p, spec := claimSpec sm, invert := inv } : MetaMatcher).eval re req = (claimHolds re req p sm != inv) := by
  rfl

/-- One `headers` map: its ordinary entries as header matchers and its claim entries as metadata
    matchers together say what the entries say. -/
theorem headers_split (re : Regex) (req : Request) (l : List (String × StringMatch)) :
    (((l.filter (fun e => !isClaimKey e)).map (fun e => translateHeaderMatch e.1 e.2)).all (fun h => h.eval re req)
      && (claimMatchers false l).all (fun mm => mm.eval re req)) = l.all (entryHolds re req) := by
  induction l with
  | nil => rfl
  | cons e es ih =>
    rw [List.all_cons, ← ih]
    cases hc : claimPath e.1 with
    | none =>
      have hk : (!isClaimKey e) = true := by simp [isClaimKey, hc]
      have he : entryHolds re req e = headerHolds re req e := by simp [entryHolds, hc]
      rw [List.filter_cons, if_pos hk, claimMatchers_cons_none false e es hc, List.map_cons, List.all_cons, he,
        header_correct]
      simp only [Bool.and_assoc]
    | some p =>
      have hk : ¬ ((!isClaimKey e) = true) := by simp [isClaimKey, hc]
      have he : entryHolds re req e = claimHolds re req p e.2 := by simp [entryHolds, hc]
      rw [List.filter_cons, if_neg hk, claimMatchers_cons_some false e es p hc, List.all_cons, he, claim_eval]
      generalize claimHolds re req p e.2 = x
      generalize List.all (List.map (fun e => translateHeaderMatch e.1 e.2) (List.filter (fun e => !isClaimKey e) es))
        (fun h => h.eval re req) = y
      generalize (claimMatchers false es).all (fun mm => mm.eval re req) = z
      cases x <;> cases y <;> cases z <;> rfl

theorem withoutHeaders_split (re : Regex) (req : Request) (l : List (String × StringMatch))
    (hw : l.all (fun e => isClaimKey e || (req.header e.1).isSome || presenceOnly e.2 || !smHolds re e.2 "") = true) :
    (((l.filter (fun e => !isClaimKey e)).map (fun e => translateWithoutHeader e.1 e.2)).all (fun h => h.eval re req)
      && (claimMatchers true l).all (fun mm => mm.eval re req)) = l.all (fun e => !entryHolds re req e) := by
  induction l with
  | nil => rfl
  | cons e es ih =>
    simp only [List.all_cons, Bool.and_eq_true] at hw
    rw [List.all_cons, ← ih hw.2]
    cases hc : claimPath e.1 with
    | none =>
      have hk : (!isClaimKey e) = true := by simp [isClaimKey, hc]
      have hk' : isClaimKey e = false := by simp [isClaimKey, hc]
      have he : entryHolds re req e = headerHolds re req e := by simp [entryHolds, hc]
      have hwe : ((req.header e.1).isSome || presenceOnly e.2 || !smHolds re e.2 "") = true := by
        have := hw.1; simpa [hk'] using this
      rw [List.filter_cons, if_pos hk, claimMatchers_cons_none true e es hc, List.map_cons, List.all_cons, he,
        withoutHeader_correct re req e.1 e.2 hwe]
      simp only [Bool.and_assoc]
    | some p =>
      have hk : ¬ ((!isClaimKey e) = true) := by simp [isClaimKey, hc]
      have he : entryHolds re req e = claimHolds re req p e.2 := by simp [entryHolds, hc]
      rw [List.filter_cons, if_neg hk, claimMatchers_cons_some true e es p hc, List.all_cons, he, claim_eval]
      generalize claimHolds re req p e.2 = x
      generalize List.all (List.map (fun e => translateWithoutHeader e.1 e.2) (List.filter (fun e => !isClaimKey e) es))
        (fun h => h.eval re req) = y
      generalize (claimMatchers true es).all (fun mm => mm.eval re req) = z
      cases x <;> cases y <;> cases z <;> rfl

/-- **routeMatch_correct.**  The translated `RouteMatch` accepts a request iff the `HTTPMatchRequest`
    does (the source pre-filter `applicable` is handled by `translateRoute`, see `translateRoute_some`). -/
theorem routeMatch_correct (re : Regex) (sem : Semantics) (m : HTTPMatch) (req : Request)
    (hwf : req.wf = true) (hw : withoutOK re m req = true) :
    (translateRouteMatch sem (some m)).eval re req = matchHolds re sem m req := by
  unfold translateRouteMatch RouteMatch.eval matchHolds
  simp only [List.all_append, all_sortByName, all_sortQByName]
  rw [uri_correct re sem m.ignoreUriCase m.uri req.path hwf,
      pseudo_correct re req ":method" req.method m.method (header_method req),
      pseudo_correct re req ":authority" req.authority m.authority (header_authority req),
      pseudo_correct re req ":scheme" req.scheme m.scheme (header_scheme req)]
  have hH := headers_split re req (sortEntries m.headers)
  rw [all_sortEntries] at hH
  have hw' : (sortEntries m.withoutHeaders).all
      (fun e => isClaimKey e || (req.header e.1).isSome || presenceOnly e.2 || !smHolds re e.2 "") = true := by
    rw [all_sortEntries]; exact hw
  have hW := withoutHeaders_split re req (sortEntries m.withoutHeaders) hw'
  rw [all_sortEntries] at hW
  have hQ : (m.queryParams.map (fun e => translateQueryMatch e.1 e.2)).all (fun q => q.eval re req)
      = m.queryParams.all (queryHolds re req) := by
    rw [List.all_map]
    apply all_congr_mem
    intro e _; simp [query_correct]
  rw [hQ, ← hH, ← hW]
  generalize uriHolds re sem m.ignoreUriCase m.uri req.path = a1
  generalize List.all (List.map (fun e => translateHeaderMatch e.1 e.2) (List.filter (fun e => !isClaimKey e) (sortEntries m.headers)))
    (fun h => h.eval re req) = a2
  generalize List.all (List.map (fun e => translateWithoutHeader e.1 e.2) (List.filter (fun e => !isClaimKey e) (sortEntries m.withoutHeaders)))
    (fun h => h.eval re req) = a3
  generalize pseudoHolds re req.method m.method = a4
  generalize pseudoHolds re req.authority m.authority = a5
  generalize pseudoHolds re req.scheme m.scheme = a6
  generalize m.queryParams.all (queryHolds re req) = a7
  generalize (claimMatchers false (sortEntries m.headers)).all (fun mm => mm.eval re req) = a8
  generalize (claimMatchers true (sortEntries m.withoutHeaders)).all (fun mm => mm.eval re req) = a9
  cases a1 <;> cases a2 <;> cases a3 <;> cases a4 <;> cases a5 <;> cases a6 <;> cases a7 <;> cases a8 <;> cases a9 <;> rfl

theorem all_perm {α : Type} (f : α → Bool) (l l' : List α) (h : l.Perm l') : l.all f = l'.all f := by
  rw [Bool.eq_iff_iff, List.all_eq_true, List.all_eq_true]
  exact ⟨fun hh x hx => hh x (h.mem_iff.mpr hx), fun hh x hx => hh x (h.mem_iff.mp hx)⟩

/-- The order of header and query-parameter matchers is semantically irrelevant (conjunction): the
    header sort of `TranslateRouteMatch` and the Go map order of query parameters only matter for
    byte-level determinism (C17), not for where a request goes. -/
theorem matcher_order_irrelevant (re : Regex) (m : RouteMatch) (hs : List HeaderMatcher) (qs : List QueryMatcher)
    (req : Request) (hh : m.headers.Perm hs) (hq : m.query.Perm qs) :
    ({ m with headers := hs, query := qs } : RouteMatch).eval re req = m.eval re req := by
  unfold RouteMatch.eval
  simp only
  rw [all_perm _ _ _ hh, all_perm _ _ _ hq]

/-- A nil match (rule without `match`) accepts every well-formed request. -/
theorem routeMatch_nil (re : Regex) (sem : Semantics) (req : Request) (hwf : req.wf = true) :
    (translateRouteMatch sem none).eval re req = true := by
  unfold Request.wf at hwf
  simp [translateRouteMatch, RouteMatch.eval, PathSpec.eval, hwf]

/-- F-C12-1: the full statement (without the `withoutOK` side condition) is false. -/
def RouteMatchFull : Prop :=
  ∀ (re : Regex) (sem : Semantics) (m : HTTPMatch) (req : Request), req.wf = true →
    (translateRouteMatch sem (some m)).eval re req = matchHolds re sem m req

/-- Witness: `withoutHeaders: {x: {regex: ".*"}}` and a request without header `x`.  The VirtualService
    says the block holds (the header is not matched by the rule - it is absent); the generated matcher
    (`invert_match` + `treat_missing_header_as_empty`, `safe_regex: .*` on the empty string) rejects. -/
theorem routeMatch_withoutHeaders_witness : ¬ RouteMatchFull := by
  intro h
  have := h (fun _ _ => true) .plain { withoutHeaders := [("x", .regex ".*")] } {} (by decide)
  revert this
  decide

/-! ## 2. Source pre-filter -/

theorem translateRoute_some (c : Ctx) (vs : VirtualService) (r : HTTPRoute) (m : HTTPMatch) :
    translateRoute c vs r (some m) =
      if applicable m c then
        some { name := routeName r (some m), «match» := translateRouteMatch vs.sem (some m), action := translateAction c r }
      else none := by
  unfold translateRoute applicable
  cases h1 : (m.port != 0 && m.port != c.listenPort) <;> cases h2 : sourceMatch m c <;> simp [h1, h2]

theorem translateRoute_none (c : Ctx) (vs : VirtualService) (r : HTTPRoute) :
    translateRoute c vs r none =
      some { name := routeName r none, «match» := translateRouteMatch vs.sem none, action := translateAction c r } := by
  rfl

/-- Pre-filter clauses spelled out: port selector, then gateways (which override source labels and
    namespace), else labels ⊆ proxy labels and namespace. -/
theorem applicable_iff (m : HTTPMatch) (c : Ctx) :
    applicable m c = true ↔
      (m.port = 0 ∨ m.port = c.listenPort) ∧
      (if m.gateways.isEmpty then
         labelsSubset m.sourceLabels c.proxyLabels = true ∧ (m.sourceNamespace = "" ∨ m.sourceNamespace = c.proxyNamespace)
       else ∃ g ∈ m.gateways, g ∈ c.gatewayNames) := by
  unfold applicable sourceMatch
  cases hg : m.gateways.isEmpty <;> simp [List.any_eq_true]

/-! ## 3. Catch-all detection and the early stop -/

/-- **catchall_sound.**  A route `IsCatchAllRoute` accepts matches every well-formed request
    (for every shape except `path_separated_prefix: "/"`, see `catchall_pathSep_witness`). -/
theorem catchall_sound (re : Regex) (hre : DotStar re) (r : Route) (req : Request)
    (hwf : req.wf = true) (hp : r.match.path ≠ .pathSepPrefix "/") (h : isCatchAll r = true) :
    r.match.eval re req = true := by
  unfold isCatchAll at h
  unfold Request.wf at hwf
  simp only [Bool.and_eq_true, List.isEmpty_iff] at h
  obtain ⟨⟨⟨hpath, hh⟩, hq⟩, hmd⟩ := h
  unfold RouteMatch.eval
  rw [hh, hq, hmd]
  simp only [List.all_nil, Bool.and_true]
  cases hps : r.match.path with
  | pfx p =>
    rw [hps] at hpath
    have : p = "/" := by simpa using hpath
    subst this
    cases r.match.caseSensitive <;> simp [PathSpec.eval, hwf, lower_slash, hasPrefix_slash_lower hwf]
  | path p => rw [hps] at hpath; simp at hpath
  | safeRegex x =>
    rw [hps] at hpath
    have : x = ".*" := by simpa using hpath
    subst this
    simp [PathSpec.eval, hre req.path]
  | pathSepPrefix p =>
    rw [hps] at hpath hp
    have : p = "/" := by simpa using hpath
    subst this
    exact absurd rfl hp

/-- The shape excluded above: `IsCatchAllRoute` says yes for `path_separated_prefix: "/"`, but under
    the documented Envoy meaning ("exactly the prefix, or the prefix followed by `/`") the path `/a`
    is not matched.  Reachable only through gateway/ingress semantics with prefix `//`. -/
theorem catchall_pathSep_witness :
    isCatchAll { «match» := { path := .pathSepPrefix "/" } } = true ∧
    ({ path := .pathSepPrefix "/" } : RouteMatch).eval (fun _ _ => true) { path := "/a" } = false := by
  decide

theorem trimSlash_root (p : String) (h : trimSlash p = "/") (hp : p ≠ "/") : p = "//" := by
  unfold trimSlash at h
  have hrt : String.ofList p.toList = p := String.ofList_toList
  split at h
  · rename_i rr hrev
    have h1 : p.toList = (('/' :: rr).reverse) := by
      have := congrArg List.reverse hrev
      simpa using this
    have h2 : rr.reverse = ['/'] := by
      have := congrArg String.toList h
      simpa [String.toList_ofList, slash_toList] using this
    rw [← hrt, h1]
    simp [h2]
  · exact absurd h hp

/-- Translated routes never carry `path_separated_prefix: "/"` when the source has no `//` prefix. -/
theorem translate_no_pathSepRoot (sem : Semantics) (m : HTTPMatch) (h : prefixOK sem m = true) :
    (translateRouteMatch sem (some m)).path ≠ .pathSepPrefix "/" := by
  unfold prefixOK at h
  simp only [translateRouteMatch]
  cases hu : m.uri with
  | none => simp [translateUri]
  | some sm =>
    cases sm with
    | unset => simp [translateUri]
    | exact s => simp [translateUri]
    | regex s => simp [translateUri]
    | pfx p =>
      by_cases hc : ((sem == .ingress || sem == .gateway) && p != "/") = true
      · simp only [translateUri, hc, if_true]
        intro hcon
        simp only [PathSpec.pathSepPrefix.injEq] at hcon
        simp only [Bool.and_eq_true, bne_iff_ne, ne_eq] at hc
        have := trimSlash_root p hcon hc.2
        subst this
        simp [hu, hc.1] at h
      · simp [translateUri, hc]

/-- The route emitted for a rule without `match` is a catch-all. -/
theorem nilMatch_isCatchAll (c : Ctx) (vs : VirtualService) (r : HTTPRoute) (rt : Route)
    (h : translateRoute c vs r none = some rt) : isCatchAll rt = true := by
  rw [translateRoute_none] at h
  cases h
  simp [isCatchAll, translateRouteMatch]

theorem matchLoop_eq (c : Ctx) (vs : VirtualService) (r : HTTPRoute) (ms : List HTTPMatch) :
    (matchLoop c vs r ms).1 = takeThrough isCatchAll (ms.filterMap (fun m => translateRoute c vs r (some m)))
    ∧ (matchLoop c vs r ms).2 = (ms.filterMap (fun m => translateRoute c vs r (some m))).any isCatchAll := by
  induction ms with
  | nil => simp [matchLoop, takeThrough]
  | cons m ms ih =>
    unfold matchLoop
    cases ht : translateRoute c vs r (some m) with
    | none => simpa [List.filterMap_cons, ht] using ih
    | some rt =>
      simp only [List.filterMap_cons, ht]
      cases hc : isCatchAll rt
      · simp [takeThrough, hc, ih.1, ih.2]
      · simp [takeThrough, hc]

/-- **rule_order_preserved (1).**  The emitted list is the untruncated translation - every applicable
    (rule, match) pair in declaration order - cut after the first catch-all route. -/
theorem compile_eq_takeThrough (c : Ctx) (vs : VirtualService) :
    compile c vs = takeThrough isCatchAll (compileAll c vs) := by
  unfold compile compileAll
  induction vs.http with
  | nil => simp [ruleLoop, takeThrough]
  | cons r rs ih =>
    simp only [ruleLoop, List.flatMap_cons, takeThrough_append]
    rw [ih]
    cases he : r.matchBlocks.isEmpty
    · have hcr : compileRule c vs r = r.matchBlocks.filterMap (fun m => translateRoute c vs r (some m)) := by
        simp [compileRule, he]
      rw [hcr]
      simp only [Bool.false_eq_true, ↓reduceIte]
      rw [(matchLoop_eq c vs r r.matchBlocks).1, (matchLoop_eq c vs r r.matchBlocks).2]
      split
      · rfl
      · rename_i hany
        rw [takeThrough_eq_self _ _ (by simpa using hany)]
    · have hcr : compileRule c vs r = (translateRoute c vs r none).toList := by
        simp [compileRule, he]
      rw [hcr, translateRoute_none]
      simp [takeThrough, isCatchAll, translateRouteMatch]

/-- **rule_order_preserved (2).**  Emitted routes are a prefix of the in-order translation: nothing is
    reordered, nothing in the middle is dropped. -/
theorem rule_order_preserved (c : Ctx) (vs : VirtualService) : compile c vs <+: compileAll c vs := by
  rw [compile_eq_takeThrough]; exact takeThrough_prefix _ _

/-- **rule_order_preserved (3).**  "No rule is dropped unless an earlier rule provably matches
    everything": if the truncation removed anything, the emitted list contains a catch-all route. -/
theorem dropped_only_after_catchall (c : Ctx) (vs : VirtualService) (h : compile c vs ≠ compileAll c vs) :
    ∃ k ∈ compile c vs, isCatchAll k = true := by
  rw [compile_eq_takeThrough] at h ⊢
  exact takeThrough_dropped _ _ h

/-- Every route of the untruncated translation comes from one applicable match block (or a rule
    without match) - used to discharge `catchall_sound`'s shape hypothesis. -/
theorem mem_compileAll (c : Ctx) (vs : VirtualService) (rt : Route) (h : rt ∈ compileAll c vs) :
    ∃ r ∈ vs.http, rt.action = translateAction c r ∧
      ((r.matchBlocks = [] ∧ rt.match = translateRouteMatch vs.sem none) ∨
       (∃ m ∈ r.matchBlocks, applicable m c = true ∧ rt.match = translateRouteMatch vs.sem (some m))) := by
  unfold compileAll at h
  rw [List.mem_flatMap] at h
  obtain ⟨r, hr, hrt⟩ := h
  refine ⟨r, hr, ?_⟩
  unfold compileRule at hrt
  split at hrt
  · rename_i he
    rw [translateRoute_none] at hrt
    simp only [Option.toList_some, List.mem_singleton] at hrt
    subst hrt
    exact ⟨rfl, Or.inl ⟨by simpa using he, rfl⟩⟩
  · rw [List.mem_filterMap] at hrt
    obtain ⟨m, hm, hmt⟩ := hrt
    rw [translateRoute_some] at hmt
    split at hmt
    · rename_i ha
      cases hmt
      exact ⟨rfl, Or.inr ⟨m, hm, ha, rfl⟩⟩
    · cases hmt

/-- The `//`-prefix side condition for every match block of the VirtualService. -/
def allPrefixOK (vs : VirtualService) : Bool :=
  vs.http.all (fun r => r.matchBlocks.all (fun m => prefixOK vs.sem m))

/-- **early_stop_sound.**  Stopping at the first catch-all route changes no decision. -/
theorem early_stop_sound (re : Regex) (hre : DotStar re) (c : Ctx) (vs : VirtualService) (req : Request)
    (hwf : req.wf = true) (hp : allPrefixOK vs = true) :
    evalRoutes re (compile c vs) req = evalRoutes re (compileAll c vs) req := by
  unfold evalRoutes firstMatch
  rw [compile_eq_takeThrough, find?_takeThrough]
  intro rt hrt hca
  obtain ⟨r, hr, _, hm⟩ := mem_compileAll c vs rt hrt
  apply catchall_sound re hre rt req hwf _ hca
  rcases hm with ⟨_, hm⟩ | ⟨m, hmm, _, hm⟩
  · rw [hm]; simp [translateRouteMatch]
  · rw [hm]
    apply translate_no_pathSepRoot
    unfold allPrefixOK at hp
    rw [List.all_eq_true] at hp
    have := hp r hr
    rw [List.all_eq_true] at this
    exact this m hmm

/-! ## 4. Actions and weights -/

/-- **cluster_correct.**  `GetDestinationCluster` names the cluster the API text designates. -/
theorem cluster_correct (c : Ctx) (d : Destination) : destinationCluster c d = specCluster c d := by
  unfold destinationCluster specCluster destHost destPort specHost specPort
  cases hh : d.host.isEmpty
  · simp only [Bool.false_eq_true, ↓reduceIte]
    cases hl : c.lookupService d.host with
    | none => rfl
    | some s =>
      have e1 : (if s.externalName != "" then s.externalName else d.host) = (if s.externalName == "" then d.host else s.externalName) := by
        cases hx : (s.externalName == "") <;> simp [bne, hx]
      simp only [e1]
      cases d.port with
      | some p => rfl
      | none =>
        simp only
        cases hp : s.ports with
        | nil => rfl
        | cons p ps => cases ps <;> simp
  · simp

theorem elide_default_port (sc : String) (n : Nat) :
    (if (n == 80 && sc == "http") = true then 0 else if (n == 443 && sc == "https") = true then 0 else n)
      = (if isDefaultPort sc n = true then 0 else n) := by
  unfold isDefaultPort
  cases h1 : (n == 80) <;> cases h2 : (sc == "http") <;> cases h3 : (n == 443) <;> cases h4 : (sc == "https") <;> simp

/-- **redirect_correct.**  `ApplyRedirect` (supported code) builds the redirect the API text describes. -/
theorem redirect_correct (c : Ctx) (rd : Redirect) : redirectAction c rd = specRedirect c rd := by
  have hport : redirectPort c rd = specRedirectPort c rd := by
    unfold redirectPort specRedirectPort redirectPort0
    have hsc : (if rd.scheme != "" then rd.scheme else if c.isTLS then "https" else "http") = effScheme c rd := rfl
    cases hp : rd.port with
    | unset => simp
    | fromProtocolDefault =>
      simp only [hsc]
      have := elide_default_port (effScheme c rd) 0
      simp only [show ((RedirectPortSel.fromProtocolDefault == RedirectPortSel.unset) = false) from rfl, Bool.false_eq_true,
        ↓reduceIte]
      rw [this]
      simp [isDefaultPort]
    | port n =>
      simp only [hsc, show ((RedirectPortSel.port n == RedirectPortSel.unset) = false) from rfl, Bool.false_eq_true, ↓reduceIte]
      exact elide_default_port (effScheme c rd) n
    | fromRequestPort =>
      simp only [hsc, show ((RedirectPortSel.fromRequestPort == RedirectPortSel.unset) = false) from rfl, Bool.false_eq_true,
        ↓reduceIte]
      exact elide_default_port (effScheme c rd) c.listenPort
  unfold redirectAction specRedirect
  rw [hport]

/-- The generated action means what the rule says (destinations / redirect with a supported code /
    direct response). -/
theorem action_correct (c : Ctx) (r : HTTPRoute) (h : redirectOK r = true) :
    (translateAction c r).decision = specAction c r := by
  unfold translateAction specAction redirectOK at *
  cases hr : r.redirect with
  | some rd =>
    rw [hr] at h
    simp [applyRedirect, h, Action.decision, redirect_correct]
  | none =>
    cases hd : r.direct with
    | some d => simp [Action.decision]
    | none =>
      simp only [routeAction, specForward, ← cluster_correct]
      cases r.route with
      | nil => simp [Action.decision]
      | cons d ds => cases ds <;> simp [Action.decision]

/-- F-C12-2: a redirect code the translation does not know (e.g. 304, accepted by the validator as
    "3xx") leaves the route without an action. -/
theorem redirect_unsupported_witness (c : Ctx) :
    translateAction c { redirect := some { uri := "/x", code := 304 } } = .none := by
  rfl

def sumWeights (l : List Nat) : Nat := l.foldr (· + ·) 0

theorem sum_filter_ne_zero (l : List Nat) : sumWeights (l.filter (· != 0)) = sumWeights l := by
  induction l with
  | nil => rfl
  | cons x xs ih =>
    by_cases hx : x = 0
    · subst hx; simpa [sumWeights] using ih
    · have : (x != 0) = true := by simpa using hx
      simp only [List.filter_cons, this, ↓reduceIte]
      simp only [sumWeights, List.foldr_cons] at ih ⊢
      rw [ih]

/-- **weights_preserved.**  For a rule with several destinations the weighted clusters are exactly
    the destinations with non-zero weight, in order, each with its declared weight and the cluster
    name of its (host, subset, port); the total weight is unchanged. -/
theorem weights_preserved (c : Ctx) (ds : List RouteDest) (h : ds.length ≠ 1) :
    ∃ cs, routeAction c ds = .weighted cs
      ∧ cs = (ds.filter (fun d => d.weight != 0)).map (fun d => (destinationCluster c d.dest, d.weight))
      ∧ sumWeights (cs.map (·.2)) = sumWeights (ds.map (·.weight)) := by
  refine ⟨_, ?_, rfl, ?_⟩
  · unfold routeAction
    split
    · simp at h
    · rfl
  · rw [List.map_map, ← sum_filter_ne_zero (ds.map (·.weight))]
    congr 1
    clear h
    induction ds with
    | nil => rfl
    | cons d ds ih =>
      simp only [List.filter_cons, List.map_cons]
      cases hd : (d.weight != 0) <;> simp [ih]

/-- A single destination receives all traffic, subset and port included in the cluster name. -/
theorem single_destination (c : Ctx) (d : RouteDest) :
    routeAction c [d] = .cluster (destinationCluster c d.dest) := rfl

/-- Cluster naming: `outbound|<port>|<subset>|<host>`; subset and host are carried verbatim
    (ExternalName alias excepted). -/
theorem cluster_name (c : Ctx) (d : Destination) (hh : d.host.isEmpty = false)
    (hs : ∀ s, c.lookupService d.host = some s → s.externalName = "") :
    destinationCluster c d = subsetKey d.subset d.host (destPort c (c.lookupService d.host) d) := by
  unfold destinationCluster destHost
  simp only [hh, Bool.false_eq_true, ↓reduceIte]
  cases hl : c.lookupService d.host with
  | none => rfl
  | some s => simp [hs s hl]

/-- An explicit destination port wins. -/
theorem destPort_explicit (c : Ctx) (svc : Option Service) (d : Destination) (p : Nat) (h : d.port = some p) :
    destPort c svc d = p := by simp [destPort, h]

/-- Without explicit port a known single-port service is addressed on its only port. -/
theorem destPort_single (c : Ctx) (s : Service) (d : Destination) (p : Nat) (h : d.port = none)
    (hp : s.ports = [p]) : destPort c (some s) d = p := by simp [destPort, h, hp]

/-- Otherwise the port the request was addressed to (the listener port). -/
theorem destPort_default (c : Ctx) (d : Destination) (h : d.port = none) :
    destPort c none d = c.listenPort := by simp [destPort, h]

/-- **filteredView_sound.**  Resolving a destination against the port-restricted registry of the
    sidecar path gives the same cluster port and host as resolving it against the full registry,
    under `destViewOK`. -/
theorem filteredView_sound (c : Ctx) (svc : Option Service) (d : Destination)
    (h : destViewOK c.listenPort svc d = true) :
    destPort c (filteredView c.listenPort svc) d = destPort c svc d
    ∧ destHost (filteredView c.listenPort svc) d = destHost svc d := by
  cases svc with
  | none => simp [filteredView]
  | some s =>
    unfold destViewOK at h
    by_cases hc : s.ports.contains c.listenPort = true
    · simp only [filteredView, Option.bind_some, hc, ↓reduceIte, destHost, and_true]
      unfold destPort
      cases d.port with
      | some p => rfl
      | none =>
        simp only
        cases hp : s.ports with
        | nil => rfl
        | cons p ps =>
          cases ps with
          | nil =>
            rw [hp] at hc
            simpa using hc
          | cons q qs => rfl
    · simp only [hc, Bool.false_or, Bool.and_eq_true, beq_iff_eq, Bool.or_eq_true, bne_iff_ne, ne_eq,
        Bool.false_eq_true] at h
      simp only [filteredView, Option.bind_some, hc, Bool.false_eq_true, ↓reduceIte, destHost, h.1, bne_self_eq_false]
      refine ⟨?_, trivial⟩
      unfold destPort
      cases hd : d.port with
      | some p => rfl
      | none =>
        simp only
        rcases h.2 with h2 | h2
        · simp [hd] at h2
        · cases hp : s.ports with
          | nil => rfl
          | cons p ps =>
            cases ps with
            | nil => rw [hp] at h2; simp at h2
            | cons q qs => rfl

/-- F-C12-4: without the side condition the statement is false - a VirtualService on a 9080 listener
    routing to the single-port (8080) service `ratings` without explicit destination port gets the
    cluster `outbound|9080||ratings`, although the API says the service's only port is addressed. -/
theorem filteredView_witness :
    let c : Ctx := { listenPort := 9080 }
    let ratings : Service := { host := "ratings.default.svc.cluster.local", ports := [8080] }
    let d : Destination := { host := "ratings.default.svc.cluster.local" }
    destPort c (some ratings) d = 8080 ∧ destPort c (filteredView 9080 (some ratings)) d = 9080 := by
  decide

/-! ## 5. The whole VirtualService -/

theorem evalRoutes_cons (re : Regex) (r : Route) (rs : List Route) (req : Request) :
    evalRoutes re (r :: rs) req = if r.match.eval re req then r.action.decision else evalRoutes re rs req := by
  unfold evalRoutes firstMatch
  cases h : r.match.eval re req <;> simp [h]

theorem evalRoutes_append (re : Regex) (a b : List Route) (req : Request) :
    evalRoutes re (a ++ b) req =
      if a.any (fun r => r.match.eval re req) then evalRoutes re a req else evalRoutes re b req := by
  induction a with
  | nil => simp
  | cons x xs ih =>
    simp only [List.cons_append, evalRoutes_cons, List.any_cons, ih]
    cases hx : x.match.eval re req <;> simp

/-- Routes generated for the match blocks of one rule: some route accepts the request iff some
    applicable block holds, and then the decision is the rule's action. -/
theorem blocks_eval (re : Regex) (c : Ctx) (vs : VirtualService) (r : HTTPRoute) (req : Request)
    (hwf : req.wf = true) (hr : redirectOK r = true) (ms : List HTTPMatch)
    (hw : ∀ m ∈ ms, withoutOK re m req = true) :
    evalRoutes re (ms.filterMap (fun m => translateRoute c vs r (some m))) req =
        (if ms.any (fun m => applicable m c && matchHolds re vs.sem m req) then specAction c r else .notFound)
    ∧ (ms.filterMap (fun m => translateRoute c vs r (some m))).any (fun rt => rt.match.eval re req) =
        ms.any (fun m => applicable m c && matchHolds re vs.sem m req) := by
  induction ms with
  | nil => simp [evalRoutes, firstMatch]
  | cons m ms ih =>
    have ih' := ih (fun x hx => hw x (by simp [hx]))
    have hm := routeMatch_correct re vs.sem m req hwf (hw m (by simp))
    rw [List.filterMap_cons, translateRoute_some c vs r m, List.any_cons]
    by_cases ha : applicable m c = true
    · simp only [ha, ↓reduceIte, evalRoutes_cons, List.any_cons, hm, Bool.true_and, ih'.1, ih'.2,
        action_correct c r hr]
      cases matchHolds re vs.sem m req <;> simp
    · simp only [ha, Bool.false_eq_true, ↓reduceIte, Bool.false_and, Bool.false_or]
      exact ih'

theorem rule_eval (re : Regex) (c : Ctx) (vs : VirtualService) (r : HTTPRoute) (req : Request)
    (hwf : req.wf = true) (hr : redirectOK r = true)
    (hw : ∀ m ∈ r.matchBlocks, withoutOK re m req = true) :
    evalRoutes re (compileRule c vs r) req =
        (if ruleFires re c vs r req then specAction c r else .notFound)
    ∧ (compileRule c vs r).any (fun rt => rt.match.eval re req) = ruleFires re c vs r req := by
  unfold compileRule ruleFires
  cases he : r.matchBlocks.isEmpty
  · simpa using blocks_eval re c vs r req hwf hr r.matchBlocks hw
  · simp only [↓reduceIte, translateRoute_none, Option.toList_some, evalRoutes_cons, List.any_cons,
      routeMatch_nil re vs.sem req hwf, action_correct c r hr]
    simp

/-- Side conditions of `vs_compile_correct` other than well-formedness of the request. -/
def rulesOK (re : Regex) (vs : VirtualService) (req : Request) : Bool :=
  vs.http.all (fun r => redirectOK r && r.matchBlocks.all (fun m => withoutOK re m req))

theorem rules_correct (re : Regex) (c : Ctx) (vs : VirtualService) (req : Request)
    (hwf : req.wf = true) (rs : List HTTPRoute)
    (hok : rs.all (fun r => redirectOK r && r.matchBlocks.all (fun m => withoutOK re m req)) = true) :
    evalRoutes re (rs.flatMap (compileRule c vs)) req =
      (match rs.find? (fun r => ruleFires re c vs r req) with
       | some r => specAction c r
       | none => .notFound) := by
  induction rs with
  | nil => simp [evalRoutes, firstMatch]
  | cons r rs ih =>
    simp only [List.all_cons, Bool.and_eq_true] at hok
    obtain ⟨⟨hr, hw⟩, hrest⟩ := hok
    rw [List.all_eq_true] at hw
    have hre := rule_eval re c vs r req hwf hr hw
    simp only [List.flatMap_cons, evalRoutes_append, hre.1, hre.2, List.find?_cons, ih hrest]
    cases ruleFires re c vs r req <;> simp

theorem compileAll_correct (re : Regex) (c : Ctx) (vs : VirtualService) (req : Request)
    (hwf : req.wf = true) (hok : rulesOK re vs req = true) :
    evalRoutes re (compileAll c vs) req = vsSpec re c vs req :=
  rules_correct re c vs req hwf vs.http hok

/-- **vs_compile_correct.**  For every VirtualService of the grammar, every proxy / gateway context and
    every request satisfying the side conditions, evaluating the generated routes (first match)
    yields exactly the VirtualService's verdict: the action of the first rule that fires - weighted
    destinations, redirect or direct response - or 404 when no rule fires. -/
theorem vs_compile_correct (re : Regex) (hre : DotStar re) (c : Ctx) (vs : VirtualService) (req : Request)
    (h : sideConditions re vs req = true) :
    evalRoutes re (compile c vs) req = vsSpec re c vs req := by
  unfold sideConditions at h
  simp only [Bool.and_eq_true] at h
  obtain ⟨hwf, hall⟩ := h
  rw [List.all_eq_true] at hall
  have hp : allPrefixOK vs = true := by
    unfold allPrefixOK
    rw [List.all_eq_true]
    intro r hr
    have := hall r hr
    simp only [Bool.and_eq_true] at this
    rw [List.all_eq_true] at this ⊢
    intro m hm
    have := this.2 m hm
    simp only [Bool.and_eq_true] at this
    exact this.2
  have hok : rulesOK re vs req = true := by
    unfold rulesOK
    rw [List.all_eq_true]
    intro r hr
    have := hall r hr
    simp only [Bool.and_eq_true] at this ⊢
    refine ⟨this.1, ?_⟩
    rw [List.all_eq_true] at this ⊢
    intro m hm
    have := this.2 m hm
    simp only [Bool.and_eq_true] at this
    exact this.1
  rw [early_stop_sound re hre c vs req hwf hp, compileAll_correct re c vs req hwf hok]

/-- The build error "no routes matched" (the VirtualService is then ignored for this proxy and the
    service keeps its default route) arises exactly when no rule applies to this proxy / port. -/
theorem buildHTTPRoutes_none_iff (c : Ctx) (vs : VirtualService) :
    buildHTTPRoutes c vs = none ↔ vsApplies c vs = false := by
  have hc : compile c vs = [] ↔ compileAll c vs = [] := by
    rw [compile_eq_takeThrough]
    cases h : compileAll c vs with
    | nil => simp [takeThrough]
    | cons x xs => unfold takeThrough; split <;> simp
  have ha : compileAll c vs = [] ↔ vsApplies c vs = false := by
    unfold compileAll vsApplies
    induction vs.http with
    | nil => simp
    | cons r rs ih =>
      simp only [List.flatMap_cons, List.append_eq_nil_iff, ih, List.any_cons, Bool.or_eq_false_iff]
      apply and_congr_left'
      unfold compileRule
      cases he : r.matchBlocks.isEmpty
      · simp only [Bool.false_eq_true, ↓reduceIte]
        induction r.matchBlocks with
        | nil => simp
        | cons m ms ihm =>
          simp only [List.filterMap_cons, translateRoute_some, List.any_cons]
          cases applicable m c <;> simp
      · simp [translateRoute_none]
  unfold buildHTTPRoutes
  simp only [compile] at hc
  rw [← ha, ← hc]
  cases h : ruleLoop c vs vs.http <;> simp

/-! ## 6. Non-vacuity: a concrete VirtualService, context and requests meet the hypotheses -/

/-- Regex semantics used by the examples: `.*` accepts everything, any other text only itself. -/
def exRe : Regex := fun r s => r == ".*" || r == s

theorem exRe_dotStar : DotStar exRe := by intro s; simp [exRe]

def exVS : VirtualService :=
  { name := "reviews", ns := "default", hosts := ["reviews.default.svc.cluster.local"],
    http := [
      { name := "canary"
        matchBlocks := [
          { uri := some (.pfx "/api"), ignoreUriCase := true,
            headers := [("end-user", .exact "jason")],
            withoutHeaders := [("x-debug", .unset)],
            queryParams := [("v", .pfx "2")],
            method := some (.exact "GET"),
            sourceLabels := [("app", "web")] },
          { uri := some (.exact "/health"), gateways := ["istio-system/gw"] } ]
        route := [ { dest := { host := "reviews.default.svc.cluster.local", subset := "v2" }, weight := 20 },
                   { dest := { host := "reviews.default.svc.cluster.local", subset := "v1" }, weight := 80 },
                   { dest := { host := "reviews.default.svc.cluster.local", subset := "v0" }, weight := 0 } ] },
      { name := "moved", matchBlocks := [ { uri := some (.regex ".*") } ],
        redirect := some { uri := "/new", code := 302 } },
      { name := "never", route := [ { dest := { host := "other" } } ] } ] }

def exCtx : Ctx :=
  { proxyLabels := [("app", "web"), ("version", "v1")], proxyNamespace := "default",
    listenPort := 9080,
    services := [ { host := "reviews.default.svc.cluster.local", ports := [9080] } ] }

def exReq : Request :=
  { path := "/API/items", query := [("v", "21")], method := "GET",
    authority := "reviews", headers := [("end-user", "jason")] }

example : sideConditions exRe exVS exReq = true := by decide
example : vsSpec exRe exCtx exVS exReq =
    .forward [("outbound|9080|v2|reviews.default.svc.cluster.local", 20),
              ("outbound|9080|v1|reviews.default.svc.cluster.local", 80)] := by decide
example : evalRoutes exRe (compile exCtx exVS) exReq = vsSpec exRe exCtx exVS exReq :=
  vs_compile_correct exRe exRe_dotStar exCtx exVS exReq (by decide)
/-- the catch-all regex rule truncates the third rule: 2 routes emitted out of 3 (the gateway-only
    block of rule 1 does not apply to this sidecar). -/
example : (compile exCtx exVS).length = 2 ∧ (compileAll exCtx exVS).length = 3 := by decide
/-- a near miss (header value differs) falls through to the redirect rule. -/
example : vsSpec exRe exCtx exVS { exReq with headers := [("end-user", "jasoN")] } =
    .redirect { host := "", path := .pathRedirect "/new", scheme := "", port := 0, code := 302 } := by decide
example : withoutOK exRe { withoutHeaders := [("x", .regex ".*")] } {} = false := by decide

end IstioModel.C12
