import IstioModel.C12.Envoy

/-!
# C12 compiler model: VirtualService `http` rules -> Envoy routes

Branch-for-branch model of `pilot/pkg/networking/core/route/route.go`:
`BuildHTTPRoutesForVirtualService`, `TranslateRoute`, `sourceMatchHTTP`, `TranslateRouteMatch`,
`translateHeaderMatch`, `translateQueryParamMatch`, `canBeConvertedToPresentMatch`,
`util.ConvertToEnvoyMatch`, `IsCatchAllRoute`, `SortVHostRoutes`, `applyHTTPRouteDestination`,
`processDestination` / `processWeightedDestination` (cluster and weight only),
`GetDestinationCluster`, `ApplyRedirect`, `ApplyDirectResponse`.

Not modelled (not part of "where the request goes"): retries, timeouts, fault, CORS, mirrors, header
manipulation, rewrite, hash policies, metadata, decorators, stat prefix; JWT-claim (`@request.auth.claims`)
header keys (they become dynamic-metadata matchers); delegate VirtualServices (merged upstream).

Core Lean only.
-/
namespace IstioModel.C12

/-! ## Source language -/

/-- `networking.StringMatch`.  `unset` = a StringMatch whose `MatchType` oneof is nil (`{}`), or - for
    the values of the `withoutHeaders` map - a nil pointer. -/
inductive StringMatch where
  | exact (s : String)
  | pfx (s : String)
  | regex (s : String)
  | unset
  deriving DecidableEq, Repr

structure HTTPMatch where
  name : String := ""
  uri : Option StringMatch := none
  scheme : Option StringMatch := none
  method : Option StringMatch := none
  authority : Option StringMatch := none
  headers : List (String × StringMatch) := []          -- Go map: keys unique
  withoutHeaders : List (String × StringMatch) := []   -- Go map: keys unique
  queryParams : List (String × StringMatch) := []      -- Go map: keys unique
  ignoreUriCase : Bool := false
  port : Nat := 0
  sourceLabels : List (String × String) := []
  sourceNamespace : String := ""
  gateways : List String := []
  deriving DecidableEq, Repr

structure Destination where
  host : String
  subset : String := ""
  port : Option Nat := none
  deriving DecidableEq, Repr

structure RouteDest where
  dest : Destination
  weight : Nat := 0
  deriving DecidableEq, Repr

inductive RedirectPortSel where
  | unset
  | port (n : Nat)
  | fromProtocolDefault
  | fromRequestPort
  deriving DecidableEq, Repr

structure Redirect where
  uri : String := ""
  authority : String := ""
  prefixRewrite : String := ""
  scheme : String := ""
  port : RedirectPortSel := .unset
  code : Nat := 0
  deriving DecidableEq, Repr

structure DirectResponse where
  status : Nat
  body : Option String := none     -- `HTTPBody.string` only
  deriving DecidableEq, Repr

structure HTTPRoute where
  name : String := ""
  matchBlocks : List HTTPMatch := []
  route : List RouteDest := []
  redirect : Option Redirect := none
  direct : Option DirectResponse := none
  deriving DecidableEq, Repr

/-- `internal.istio.io/route-semantics` annotation. -/
inductive Semantics where
  | plain | gateway | ingress
  deriving DecidableEq, Repr

structure VirtualService where
  name : String := ""
  ns : String := ""
  sem : Semantics := .plain
  hosts : List String := []
  http : List HTTPRoute := []
  deriving DecidableEq, Repr

/-! ## Compilation context -/

/-- The part of `model.Service` the route compiler reads. -/
structure Service where
  host : String
  ports : List Nat
  externalName : String := ""     -- `Attributes.K8sAttributes.ExternalName`
  deriving Repr

/-- Arguments of `BuildHTTPRoutesForVirtualService` other than the VirtualService. -/
structure Ctx where
  proxyLabels : List (String × String) := []   -- `node.Labels`
  proxyNamespace : String := ""                -- `node.Metadata.Namespace`
  gatewayNames : List String := ["mesh"]       -- `gatewayNames` (sidecar: {mesh})
  listenPort : Nat := 80
  services : List Service := []                -- `opts.LookupService` (map host -> service)
  isTLS : Bool := false                        -- `opts.IsTLS`
  deriving Repr

def Ctx.lookupService (c : Ctx) (h : String) : Option Service :=
  c.services.find? (fun s => s.host == h)

/-! ## Source pre-filter (`sourceMatchHTTP`, `match.Port`) -/

/-- `labels.Instance(src).SubsetOf(proxy)`. -/
def labelsSubset (src proxy : List (String × String)) : Bool :=
  src.all (fun kv => lookup proxy kv.1 == some kv.2)

/-- `sourceMatchHTTP` for a non-nil match. -/
def sourceMatch (m : HTTPMatch) (c : Ctx) : Bool :=
  if !m.gateways.isEmpty then
    m.gateways.any (fun g => c.gatewayNames.contains g)
  else if labelsSubset m.sourceLabels c.proxyLabels then
    m.sourceNamespace == "" || m.sourceNamespace == c.proxyNamespace
  else false

/-- The two early `return nil` of `TranslateRoute`: does this match block apply to this proxy and
    listener port at all? -/
def applicable (m : HTTPMatch) (c : Ctx) : Bool :=
  !(m.port != 0 && m.port != c.listenPort) && sourceMatch m c

/-! ## Match translation -/

/-- `canBeConvertedToPresentMatch`. -/
def canBePresent : StringMatch → Bool
  | .unset => true
  | .regex r => r == "*"
  | _ => false

/-- `translateHeaderMatch` (the `ConvertToEnvoyMatch` result is nil only for `unset`, which is a
    present match). -/
def translateHeaderMatch (name : String) (sm : StringMatch) : HeaderMatcher :=
  if canBePresent sm then { name := name, spec := .present true } else
  match sm with
  | .exact s => { name := name, spec := .exact s }
  | .pfx s => { name := name, spec := .pfx s }
  | .regex s => { name := name, spec := .regex s }
  | .unset => { name := name, spec := .present true }

/-- The `withoutHeaders` loop body. -/
def translateWithoutHeader (name : String) (sm : StringMatch) : HeaderMatcher :=
  { translateHeaderMatch name sm with invert := true, treatMissing := !canBePresent sm }

/-- `translateQueryParamMatch`. -/
def translateQueryMatch (name : String) (sm : StringMatch) : QueryMatcher :=
  if canBePresent sm then { name := name, spec := .present true } else
  match sm with
  | .exact s => { name := name, spec := .exact s }
  | .pfx s => { name := name, spec := .pfx s }
  | .regex s => { name := name, spec := .regex s }
  | .unset => { name := name, spec := .present true }

/-! JWT-claim header keys (`jwt.ToRoutingClaim`): `@request.auth.claims.a.b` or `@request.auth.claims[a][b]`
    become dynamic-metadata matchers instead of header matchers. -/

def claimPrefix : String := "@request.auth.claims"

def dropChars (n : Nat) (s : String) : String := String.ofList (s.toList.drop n)

def strEndsWith (s suf : String) : Bool := suf.toList.reverse.isPrefixOf s.toList.reverse

/-- `jwt.ToRoutingClaim(name).Claims` when `.Match`. -/
def claimPath (name : String) : Option (List String) :=
  if !hasPrefix claimPrefix (lower name) then none else
  let rest := dropChars claimPrefix.length name
  if hasPrefix "." rest && rest.length > 1 then some ((dropChars 1 rest).splitOn ".")
  else if hasPrefix "[" rest && strEndsWith rest "]" && rest.length > 2 then
    some ((String.ofList ((rest.toList.drop 1).dropLast)).splitOn "][")
  else none

def isClaimKey (e : String × StringMatch) : Bool := (claimPath e.1).isSome

/-- `util.ConvertToEnvoyMatch` as the value of a metadata matcher (`unset` gives a nil matcher, printed
    as `present`; outside the generated grammar). -/
def claimSpec : StringMatch → StrSpec
  | .exact s => .exact s
  | .pfx s => .pfx s
  | .regex s => .regex s
  | .unset => .present true

def claimMatchers (invert : Bool) (es : List (String × StringMatch)) : List MetaMatcher :=
  es.filterMap fun e => (claimPath e.1).map fun p => { path := p, spec := claimSpec e.2, invert := invert }

/-- Walking a Go map in sorted key order. -/
def insertEntry (e : String × StringMatch) : List (String × StringMatch) → List (String × StringMatch)
  | [] => [e]
  | x :: xs => if x.1 < e.1 then x :: insertEntry e xs else e :: x :: xs

def sortEntries : List (String × StringMatch) → List (String × StringMatch)
  | [] => []
  | e :: es => insertEntry e (sortEntries es)

/-- Stable insertion by query-parameter name: `TranslateRouteMatch` walks `in.QueryParams` in sorted key
    order (/repo 2dac7a8). -/
def insertQByName (q : QueryMatcher) : List QueryMatcher → List QueryMatcher
  | [] => [q]
  | x :: xs => if x.name < q.name then x :: insertQByName q xs else q :: x :: xs

def sortQByName : List QueryMatcher → List QueryMatcher
  | [] => []
  | q :: qs => insertQByName q (sortQByName qs)

/-- Stable insertion by header name (`sort.SliceStable`; the maps are walked in sorted key order, so a
    name occurring in both `headers` and `withoutHeaders` keeps the `headers` entry first). -/
def insertByName (h : HeaderMatcher) : List HeaderMatcher → List HeaderMatcher
  | [] => [h]
  | x :: xs => if x.name < h.name then x :: insertByName h xs else h :: x :: xs

def sortByName : List HeaderMatcher → List HeaderMatcher
  | [] => []
  | h :: hs => insertByName h (sortByName hs)

/-- `strings.TrimSuffix(s, "/")`. -/
def trimSlash (s : String) : String :=
  match s.toList.reverse with
  | '/' :: r => String.ofList r.reverse
  | _ => s

/-- The `in.Uri` switch of `TranslateRouteMatch`. -/
def translateUri (sem : Semantics) : Option StringMatch → PathSpec
  | none => .pfx "/"
  | some .unset => .pfx "/"
  | some (.exact s) => .path s
  | some (.pfx p) =>
    if (sem == .ingress || sem == .gateway) && p != "/" then .pathSepPrefix (trimSlash p) else .pfx p
  | some (.regex r) => .safeRegex r

def pseudoHeader (name : String) : Option StringMatch → List HeaderMatcher
  | none => []
  | some sm => [translateHeaderMatch name sm]

/-- `TranslateRouteMatch`. -/
def translateRouteMatch (sem : Semantics) : Option HTTPMatch → RouteMatch
  | none => { path := .pfx "/", caseSensitive := true, headers := [], query := [], metadata := [] }
    -- nil match: `CaseSensitive` stays nil, which Envoy reads as the default `true`
  | some m =>
    { path := translateUri sem m.uri
      caseSensitive := !m.ignoreUriCase
      headers :=
        sortByName (((sortEntries m.headers).filter (fun e => !isClaimKey e)).map (fun e => translateHeaderMatch e.1 e.2)
                    ++ ((sortEntries m.withoutHeaders).filter (fun e => !isClaimKey e)).map (fun e => translateWithoutHeader e.1 e.2))
        ++ pseudoHeader ":method" m.method
        ++ pseudoHeader ":authority" m.authority
        ++ pseudoHeader ":scheme" m.scheme
      query := sortQByName (m.queryParams.map (fun e => translateQueryMatch e.1 e.2))
      metadata := claimMatchers false (sortEntries m.headers) ++ claimMatchers true (sortEntries m.withoutHeaders) }

/-! ## Actions -/

/-- `model.BuildSubsetKey(outbound, subset, host, port)`. -/
def subsetKey (subset host : String) (port : Nat) : String :=
  "outbound|" ++ toString port ++ "|" ++ subset ++ "|" ++ host

/-- Host part of the cluster name: an ExternalName alias points to the concrete service. -/
def destHost (svc : Option Service) (d : Destination) : String :=
  match svc with
  | some s => if s.externalName != "" then s.externalName else d.host
  | none => d.host

/-- Port part of the cluster name: explicit port, else the only port of a known service, else the
    listener port. -/
def destPort (c : Ctx) (svc : Option Service) (d : Destination) : Nat :=
  match d.port with
  | some p => p
  | none =>
    match svc with
    | some s => (match s.ports with | [p] => p | _ => c.listenPort)
    | none => c.listenPort

/-- `GetDestinationCluster` with `service = opts.LookupService(destination.host)`. -/
def destinationCluster (c : Ctx) (d : Destination) : String :=
  if d.host.isEmpty then "UnknownService" else
  subsetKey d.subset (destHost (c.lookupService d.host) d) (destPort c (c.lookupService d.host) d)

/-- `BuildSidecarOutboundVirtualHosts` hands the route compiler a registry restricted to the listener
    port (`servicesByName`): a service is visible only if it exposes that port, and then with that
    single port.  This is the lookup result the compiler sees for a service `svc` of the mesh. -/
def filteredView (port : Nat) (svc : Option Service) : Option Service :=
  svc.bind (fun s => if s.ports.contains port then some { s with ports := [port] } else none)

/-- Cluster specifier built by `applyHTTPRouteDestination`: one destination collapses to `cluster`
    (its weight is ignored); otherwise zero-weight destinations are dropped. -/
def routeAction (c : Ctx) (ds : List RouteDest) : Action :=
  match ds with
  | [d] => .cluster (destinationCluster c d.dest)
  | _ => .weighted ((ds.filter (fun d => d.weight != 0)).map (fun d => (destinationCluster c d.dest, d.weight)))

def redirectCodeSupported (code : Nat) : Bool :=
  code == 0 || code == 301 || code == 302 || code == 303 || code == 307 || code == 308

/-- Port chosen by `ApplyRedirect` before the 80/443 normalisation. -/
def redirectPort0 (c : Ctx) : RedirectPortSel → Nat
  | .unset => 0
  | .port n => n
  | .fromProtocolDefault => 0
  | .fromRequestPort => c.listenPort

def redirectPort (c : Ctx) (r : Redirect) : Nat :=
  let p := redirectPort0 c r.port
  if r.port == .unset then p else
  let scheme := if r.scheme != "" then r.scheme else if c.isTLS then "https" else "http"
  if p == 80 && scheme == "http" then 0
  else if p == 443 && scheme == "https" then 0
  else p

/-- The `RedirectAction` of `ApplyRedirect` for a supported code. -/
def redirectAction (c : Ctx) (r : Redirect) : RedirectAction :=
  { host := r.authority
    path := if r.prefixRewrite != "" then .prefixRewrite r.prefixRewrite else .pathRedirect r.uri
    scheme := r.scheme
    port := redirectPort c r
    code := if r.code == 0 then 301 else r.code }

/-- `ApplyRedirect`: an unsupported code leaves the route without action. -/
def applyRedirect (c : Ctx) (r : Redirect) : Action :=
  if redirectCodeSupported r.code then .redirect (redirectAction c r) else .none

/-- The action chosen by `TranslateRoute`: redirect, else direct response, else destinations. -/
def translateAction (c : Ctx) (r : HTTPRoute) : Action :=
  match r.redirect with
  | some rd => applyRedirect c rd
  | none =>
    match r.direct with
    | some d => .direct d.status d.body
    | none => routeAction c r.route

def routeName (r : HTTPRoute) (m : Option HTTPMatch) : String :=
  match m with
  | some mm => if mm.name != "" then r.name ++ "." ++ mm.name else r.name
  | none => r.name

/-- `TranslateRoute`. -/
def translateRoute (c : Ctx) (vs : VirtualService) (r : HTTPRoute) (m : Option HTTPMatch) : Option Route :=
  match m with
  | some mm =>
    if mm.port != 0 && mm.port != c.listenPort then none
    else if !sourceMatch mm c then none
    else some { name := routeName r m, «match» := translateRouteMatch vs.sem m, action := translateAction c r }
  | none => some { name := routeName r m, «match» := translateRouteMatch vs.sem m, action := translateAction c r }

/-! ## Catch-all detection and the rule loop -/

/-- `IsCatchAllRoute`. -/
def isCatchAll (r : Route) : Bool :=
  (match r.match.path with
   | .pfx p => p == "/"
   | .pathSepPrefix p => p == "/"
   | .safeRegex x => x == ".*"
   | .path _ => false)
  && r.match.headers.isEmpty && r.match.query.isEmpty && r.match.metadata.isEmpty

/-- The inner `for _, match := range http.Match` loop: emitted routes and the `catchall` flag. -/
def matchLoop (c : Ctx) (vs : VirtualService) (r : HTTPRoute) : List HTTPMatch → List Route × Bool
  | [] => ([], false)
  | m :: ms =>
    match translateRoute c vs r (some m) with
    | none => matchLoop c vs r ms
    | some rt =>
      if isCatchAll rt then ([rt], true)
      else ((rt :: (matchLoop c vs r ms).1), (matchLoop c vs r ms).2)

/-- The outer `for _, http := range vs.Http` loop. -/
def ruleLoop (c : Ctx) (vs : VirtualService) : List HTTPRoute → List Route
  | [] => []
  | r :: rs =>
    if r.matchBlocks.isEmpty then
      (translateRoute c vs r none).toList          -- `catchall = true`: stop
    else if (matchLoop c vs r r.matchBlocks).2 then (matchLoop c vs r r.matchBlocks).1
    else (matchLoop c vs r r.matchBlocks).1 ++ ruleLoop c vs rs

/-- `BuildHTTPRoutesForVirtualService`: `none` is the error "no routes matched". -/
def buildHTTPRoutes (c : Ctx) (vs : VirtualService) : Option (List Route) :=
  let out := ruleLoop c vs vs.http
  if out.isEmpty then none else some out

/-- The emitted route list with the error case read as "no routes". -/
def compile (c : Ctx) (vs : VirtualService) : List Route := ruleLoop c vs vs.http

/-- The translation *without* the early stop: every applicable (rule, match) pair in declaration order. -/
def compileRule (c : Ctx) (vs : VirtualService) (r : HTTPRoute) : List Route :=
  if r.matchBlocks.isEmpty then (translateRoute c vs r none).toList
  else r.matchBlocks.filterMap (fun m => translateRoute c vs r (some m))

def compileAll (c : Ctx) (vs : VirtualService) : List Route :=
  vs.http.flatMap (compileRule c vs)

/-- `SortVHostRoutes`: catch-all routes moved to the end, relative order kept. -/
def sortVHostRoutes (routes : List Route) : List Route :=
  routes.filter (fun r => !isCatchAll r) ++ routes.filter isCatchAll

end IstioModel.C12
