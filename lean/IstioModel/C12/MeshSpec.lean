import IstioModel.C12.Spec
import IstioModel.C12.VHosts

/-!
# C12 end-to-end SPEC for a sidecar's outbound HTTP listener (stream `rds`)

What the property statement says for a whole mesh, written without reference to the generator:
a request on listener port `P` whose authority is one of the names of service `S` (FQDN, absolute
FQDN, cluster VIP, Kubernetes DNS search-path abbreviations valid from the proxy's namespace) is
handled by the VirtualService whose host is most specific for `S` (exact host first, else the longest
matching wildcard; oldest first among equals) when that VirtualService has a rule for this proxy, and
by the default route of `S` otherwise; destinations are resolved against the FULL service registry.
An authority that names no service on the port falls to the catch-all virtual host, which under
the default `outboundTrafficPolicy: ALLOW_ANY` forwards to `PassthroughCluster`.

This file is a specification only (no theorem links it to the models of the pieces); it is compared
with the REAL `BuildSidecarOutboundVirtualHosts` output by stream `rds`.  Listener port 80, where
VirtualService hosts outside the registry get virtual hosts of their own, is outside this spec.

Core Lean only.
-/
namespace IstioModel.C12

/-- `outboundTrafficPolicy` (Sidecar resource or mesh-wide). -/
inductive OutboundPolicy where
  | allowAny
  | registryOnly
  | egressProxy (cluster : String)
  | dynamicDNS                       -- ALLOW_ANY_DYNAMIC_DNS: unknown hosts go to the dynamic-forward-proxy cluster
  deriving DecidableEq, Repr

structure MeshSvc where
  host : String
  ns : String := ""
  ports : List Nat := []         -- every port of the service ...
  tcpPorts : List Nat := []      -- ... those of them whose protocol is not HTTP (never routed by an HTTP route configuration)
  addr : String := ""            -- the address for THIS proxy (`DefaultAddress`, or the first VIP of the proxy's cluster)
  moreAddrs : List String := []  -- further VIPs of the proxy's cluster
  clusterVIPs : List (String × List String) := []   -- `ClusterVIPs`: cluster id -> VIPs (before `forCluster`)
  aliases : List String := []    -- `Attributes.Aliases`: ExternalName services that point to this one
  alias : Bool := false          -- `Resolution: Alias`: the service is itself an ExternalName alias
  headless : Bool := false       -- a Kubernetes headless service (`Resolution: Passthrough`): also `<pod>.<name>`
  deriving Repr

def MeshSvc.httpOn (s : MeshSvc) (port : Nat) : Bool := s.ports.contains port && !s.tcpPorts.contains port

/-- `GetAllAddressesForProxy` for an IPv4-only proxy of cluster `cl`: the IPv4 VIPs of its cluster if there are any;
    else the default address - which, for a service that has cluster VIPs at all, is a remote cluster's VIP and is
    used only if it is IPv4. -/
def forCluster (cl : String) (s : MeshSvc) : MeshSvc :=
  let v4 (a : String) : Bool := !containsStr ":" a
  let own := ((s.clusterVIPs.filter (fun e => e.1 == cl && cl != "")).flatMap (·.2)).filter v4
  match own with
  | a :: rest => { s with addr := a, moreAddrs := rest }
  | [] => if s.clusterVIPs.isEmpty || v4 s.addr then s else { s with addr := "" }

/-- What the model keeps of a VirtualService besides `VirtualService` itself (keyed by name and namespace). -/
structure VSExtra where
  name : String
  ns : String
  exportTo : List String := []     -- empty = everywhere
  gateways : List String := []     -- empty = the mesh gateway only
  deriving Repr

/-- One `Sidecar.egress[].hosts` entry `namespace/dnsName` (`*` any namespace, `.` the Sidecar's own). -/
structure EgressHost where
  ns : String
  host : String
  excl : Bool := false     -- `~namespace/dnsName`: an exclusion
  deriving Repr

structure Mesh where
  svcs : List MeshSvc := []
  vss : List VirtualService := []      -- creation order
  sidecarNs : String := ""             -- namespace of the (single) Sidecar resource, "" = none
  egress : List EgressHost := []       -- hosts of its catch-all egress listener
  egressPort : Nat := 0                -- a port-specific egress listener (0 = none) ...
  egressPortHosts : List EgressHost := []   -- ... and its hosts
  sidecarSelector : List (String × String) := []   -- its workloadSelector
  sidecarPolicy : Option OutboundPolicy := none    -- its outboundTrafficPolicy (`none` = unset)
  meshPolicy : OutboundPolicy := .allowAny         -- MeshConfig.outboundTrafficPolicy
  policy : OutboundPolicy := .allowAny             -- the policy in force for the proxy (set by `proxyView`)
  vsx : List VSExtra := []
  proxyDomain : String := ""
  built : Bool := false                -- a route configuration was built for the current mesh (driver only)
  deriving Repr

/-! ### Sidecar scope: what a `Sidecar` resource with egress hosts lets the proxy see (API text of
    `IstioEgressListener.hosts`: "services ... in namespace/dnsName format"; VirtualServices are imported by
    the same entries, a wildcard on either side matching in both directions). -/

def EgressHost.selectsNs (e : EgressHost) (own ns : String) : Bool :=
  e.ns == "*" || (if e.ns == "." then own else e.ns) == ns

/-- A `~namespace/dnsName` entry naming the namespace (or `*`) excludes every hostname under `dnsName`. -/
def excludedBy (es : List EgressHost) (own ns h : String) : Bool :=
  es.any fun e => e.excl && e.selectsNs own ns && hostSubsetOf h e.host

def svcImported (es : List EgressHost) (own : String) (s : MeshSvc) : Bool :=
  !excludedBy es own s.ns s.host &&
  es.any fun e => !e.excl && e.selectsNs own s.ns &&
    (e.host == s.host || ((isWildcarded e.host || isWildcarded s.host) && hostSubsetOf s.host e.host))

/-- A VirtualService is imported through any one of its hosts that an entry matches and no exclusion covers. -/
def vsImported (es : List EgressHost) (own : String) (v : VirtualService) : Bool :=
  v.hosts.any fun h => !excludedBy es own v.ns h &&
    es.any fun e => !e.excl && e.selectsNs own v.ns &&
      (e.host == h || ((isWildcarded e.host || isWildcarded h) && hostMatches h e.host))

/-- `matchingAliasService`: a service keeps the aliases that the entries which imported it (those naming its
    namespace if one of them matches it, else the `*/` ones) match as well. -/
def aliasesKept (es : List EgressHost) (own : String) (s : MeshSvc) : List String :=
  let nsE := es.filter (fun e => !e.excl && e.ns != "*" && (if e.ns == "." then own else e.ns) == s.ns)
  let wE := es.filter (fun e => !e.excl && e.ns == "*")
  let hit (l : List EgressHost) (h : String) : Bool :=
    l.any fun e => e.host == h || ((isWildcarded e.host || isWildcarded h) && hostSubsetOf h e.host)
  if hit nsE s.host then s.aliases.filter (hit nsE) else s.aliases.filter (hit wE)

/-- Root namespace of the mesh: a Sidecar resource there, without workloadSelector, is the default of every namespace
    that has none of its own. -/
def rootNamespace : String := "istio-system"

/-- Does the (single) Sidecar resource apply to a proxy of namespace `pns` with these workload labels?  In its own
    namespace: iff its workloadSelector is a subset of the labels; elsewhere: iff it is the root-namespace default. -/
def sidecarApplies (m : Mesh) (pns : String) (labels : List (String × String)) : Bool :=
  m.sidecarNs != "" &&
  (if m.sidecarNs == pns then m.sidecarSelector.all (fun kv => labels.contains kv)
   else m.sidecarNs == rootNamespace && m.sidecarSelector.isEmpty)

/-- API text of `VirtualService.exportTo` / `gateways`: a sidecar of namespace `pns` sees a VirtualService iff it is
    exported to `pns` (`*`, the namespace itself, `.` = the VirtualService's own namespace; unset = `*`) and bound to
    the mesh gateway (`gateways` unset or containing `mesh`). -/
def vsForSidecar (m : Mesh) (pns : String) (v : VirtualService) : Bool :=
  match m.vsx.find? (fun x => x.name == v.name && x.ns == v.ns) with
  | none => true
  | some x =>
    (x.exportTo.isEmpty || x.exportTo.contains "*" || x.exportTo.contains pns || (x.exportTo.contains "." && v.ns == pns))
    && (x.gateways.isEmpty || x.gateways.contains "mesh")

/-- The mesh as a proxy of namespace `pns` sees it on listener port `port`: the egress listener declared for
    that port if there is one (`GetEgressListenerForRDS`), else the catch-all listener. -/
def scopeMesh (m : Mesh) (pns : String) (labels : List (String × String)) (port : Nat) : Mesh :=
  if !sidecarApplies m pns labels then m
  else
    let es := if m.egressPort != 0 && m.egressPort == port then m.egressPortHosts else m.egress
    { m with svcs := (m.svcs.filter (svcImported es pns)).map (fun s => { s with aliases := aliasesKept es pns s }),
             vss := m.vss.filter (vsImported es pns) }

/-- CODE-DERIVED precedence among the VirtualServices a sidecar sees (`VirtualServicesForGateway`): first those exported
    to their own namespace only (the proxy's), then those exported to the proxy's namespace by name, then the public
    ones; creation order inside each class.  Where several VirtualServices compete for a host, "the oldest" therefore
    means the oldest of the most narrowly exported class. -/
def exportClass (m : Mesh) (pns : String) (v : VirtualService) : Nat :=
  match m.vsx.find? (fun x => x.name == v.name && x.ns == v.ns) with
  | none => 2
  | some x =>
    if x.exportTo.isEmpty || x.exportTo.contains "*" then 2
    else if v.ns == pns && (x.exportTo.contains "." || x.exportTo.contains v.ns) then 0
    else 1

def byExportClass (m : Mesh) (pns : String) (vss : List VirtualService) : List VirtualService :=
  vss.filter (fun v => exportClass m pns v == 0) ++ vss.filter (fun v => exportClass m pns v == 1)
    ++ vss.filter (fun v => exportClass m pns v == 2)

/-- Everything proxy-specific at once: VirtualServices exported to / bound for the proxy, the Sidecar scope, the
    service addresses of the proxy's cluster, the outbound traffic policy in force (the Sidecar's if it applies and
    sets one, else the mesh-wide one). -/
def proxyView (m : Mesh) (pns : String) (labels : List (String × String)) (port : Nat) (cluster : String) : Mesh :=
  let m1 := { m with vss := byExportClass m pns (m.vss.filter (vsForSidecar m pns)) }
  let m2 := scopeMesh m1 pns labels port
  { m2 with svcs := m2.svcs.map (forCluster cluster),
            policy := if sidecarApplies m pns labels then m.sidecarPolicy.getD m.meshPolicy else m.meshPolicy }

/-- API text of `VirtualService.hosts` / `Destination.host`: "short names ... Istio will interpret the short name
    based on the namespace of the rule": a name without dots (other than `*` or an IP address) means
    `<name>.<namespace of the VirtualService>.svc.<cluster domain>` (`ResolveVirtualServiceShortnames`). -/
def resolveShortname (ns domain h : String) : String :=
  if h == "*" || h == "" || containsStr "." h || containsStr ":" h then h
  else h ++ "." ++ ns ++ ".svc." ++ domain

def resolveVS (domain : String) (v : VirtualService) : VirtualService :=
  { v with hosts := v.hosts.map (resolveShortname v.ns domain),
           http := v.http.map fun r =>
             { r with route := r.route.map fun d => { d with dest := { d.dest with host := resolveShortname v.ns domain d.dest.host } } } }

/-- Names of a service as seen from the proxy: label-level rendering of the Kubernetes DNS search
    path for `<name>.<ns>.svc.<suffix>` seen from `<pns>.svc.<suffix>`. -/
def hostNames (h : String) (proxyDomain : String) : List String :=
  let base := [h, h ++ "."]
  match splitDots h, splitDots proxyDomain with
  | name :: ns :: "svc" :: suffix, pns :: "svc" :: psuffix =>
    if suffix == psuffix && !suffix.isEmpty then
      base ++ [name ++ "." ++ ns, name ++ "." ++ ns ++ ".svc"] ++ (if ns == pns then [name] else [])
    else base
  | _, _ => base

def svcNames (s : MeshSvc) (proxyDomain : String) : List String :=
  (s.host :: s.aliases).flatMap (fun h => hostNames h proxyDomain)
    ++ ((s.addr :: s.moreAddrs).filter (fun a => a != "" && a != "0.0.0.0")).map ipv6Compliant

/-- The longest string of a list (any of them among equals: matching wildcard hosts of equal length
    are equal). -/
def longestStr : List String → Option String
  | [] => none
  | h :: hs =>
    match longestStr hs with
    | none => some h
    | some b => if b.length > h.length then some b else some h

/-- The oldest VirtualService (creation order) that lists host `h`. -/
def oldestWithHost (vss : List VirtualService) (h : String) : Option VirtualService :=
  vss.find? (fun v => v.hosts.contains h)

/-- All wildcard hosts of the VirtualServices that match the service hostname. -/
def matchingWildcards (vss : List VirtualService) (hostname : String) : List String :=
  (vss.flatMap (·.hosts)).filter (fun h => isWildcarded h && hasSuffixStr hostname (lower (drop1 h)))

/-- The VirtualService for a service hostname - most specific host wins: a VirtualService listing the
    hostname itself (the oldest one), else the oldest VirtualService listing the longest matching
    wildcard host. -/
def vsFor (vss : List VirtualService) (hostname : String) : Option VirtualService :=
  match vss.find? (fun v => v.hosts.any (fun h => !isWildcarded h && lower h == hostname)) with
  | some v => some v
  | none => (longestStr (matchingWildcards vss hostname)).bind (oldestWithHost vss)

/-- The VirtualService that answers for a service hostname on this proxy: among the VirtualServices
    listing the MOST SPECIFIC host for it (the hostname itself if any lists it, else the longest matching
    wildcard host), the oldest one that has a rule for this proxy; none -> the service's default route. -/
def vsChoice (c : Ctx) (vss : List VirtualService) (hostname : String) : Option VirtualService :=
  let exact := vss.filter (fun v => v.hosts.any (fun h => !isWildcarded h && lower h == hostname))
  if !exact.isEmpty then exact.find? (vsApplies c)
  else match longestStr (matchingWildcards vss hostname) with
    | some h => (vss.filter (fun v => v.hosts.contains h)).find? (vsApplies c)
    | none => none

def decideFor (re : Regex) (c : Ctx) (m : Mesh) (s : MeshSvc) (req : Request) : Decision :=
  match vsChoice c m.vss s.host with
  | some vs => vsSpec re c vs req
  | none => .forward [(subsetKey "" s.host c.listenPort, 1)]

def meshSpec (re : Regex) (c : Ctx) (m : Mesh) (req : Request) : Decision :=
  let a := lower (stripPort req.authority)    -- the outbound listener already fixes the port
  match (m.svcs.filter (fun s => s.ports.contains c.listenPort)).find?
      (fun s => (svcNames s m.proxyDomain).any (fun n => lower n == a)) with
  | none => .forward [("PassthroughCluster", 1)]   -- catch-all virtual host (outboundTrafficPolicy ALLOW_ANY)
  | some s => decideFor re c m s req

/-- Contest-aware form used by stream `rds`: an authority that is the FQDN (or absolute FQDN) of a service
    addresses that service even when it is also an abbreviation or VIP of another one; otherwise a name
    claimed by several services is CONTESTED and the spec is silent (`none`); otherwise as `meshSpec`. -/
def meshSpecC (re : Regex) (c : Ctx) (m : Mesh) (req : Request) : Option Decision :=
  let a := lower (stripPort req.authority)
  let on := m.svcs.filter (fun s => s.ports.contains c.listenPort)
  match on.find? (fun s => lower s.host == a || lower (s.host ++ ".") == a) with
  | some s => some (decideFor re c m s req)
  | none =>
    match on.filter (fun s => (svcNames s m.proxyDomain).any (fun n => lower n == a)) with
    | [] => some (.forward [("PassthroughCluster", 1)])
    | [s] => some (decideFor re c m s req)
    | _ => none

end IstioModel.C12
