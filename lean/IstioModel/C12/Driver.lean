import IstioModel.Common.Wire
import IstioModel.C12.Spec
import IstioModel.C12.VHosts
import IstioModel.C12.MeshSpec
import IstioModel.C12.MeshModel
import IstioModel.C12.MeshFull
import IstioModel.C12.Gateway

/-! Line-protocol driver for C12 (streams `routes`, `requests`, `vhosts`). See harness/c12. -/
namespace IstioModel.C12
open IstioModel.Wire

/-! ### decoding -/

def split2 (t : String) : String × String :=
  match t.splitOn "!" with
  | a :: rest => (a, "!".intercalate rest)
  | [] => ("", "")

def decSMKind (k v : String) : StringMatch :=
  if k == "e" then .exact (dec v) else if k == "p" then .pfx (dec v) else if k == "r" then .regex (dec v) else .unset

/-- `-` nil, `u!~` unset, `e!..`, `p!..`, `r!..`. -/
def decSM (t : String) : Option StringMatch :=
  if t == "-" then none else
  let p := split2 t
  some (decSMKind p.1 p.2)

/-- Map entries `name!kind!value`; kind `n` (nil pointer) and `u` both read as `unset`. -/
def decSMMap (t : String) : List (String × StringMatch) :=
  if t == "-" then [] else
  (t.splitOn ",").map fun e =>
    match e.splitOn "!" with
    | [n, k, v] => (dec n, decSMKind k v)
    | _ => ("", .unset)

def decPairs (t : String) : List (String × String) :=
  if t == "-" then [] else
  (t.splitOn ",").map fun e =>
    let p := split2 e
    (dec p.1, dec p.2)

def decDests (t : String) : List RouteDest :=
  if t == "-" then [] else
  (t.splitOn ",").filterMap fun e =>
    match e.splitOn "!" with
    | [h, s, p, w] =>
      some { dest := { host := dec h, subset := dec s, port := if p == "-" then none else some p.toNat! }, weight := w.toNat! }
    | _ => none

def decRedirectPort (t : String) : RedirectPortSel :=
  if t == "-" then .unset
  else if t == "d:default" then .fromProtocolDefault
  else if t == "d:request" then .fromRequestPort
  else .port ((t.drop 2).toString.toNat!)

/-! ### canonical printing (must agree byte for byte with harness/c12/interp.go) -/

def showSpec : StrSpec → String
  | .exact s => "e:" ++ enc s
  | .pfx s => "p:" ++ enc s
  | .regex s => "r:" ++ enc s
  | .present b => "P" ++ boolTok b

def showHeader (h : HeaderMatcher) : String :=
  enc h.name ++ "!" ++ showSpec h.spec ++ "!" ++ boolTok h.invert ++ "!" ++ boolTok h.treatMissing

def showQuery (q : QueryMatcher) : String := enc q.name ++ "!" ++ showSpec q.spec

def joinOrDash (l : List String) : String := if l.isEmpty then "-" else ",".intercalate l

def sortStrings (l : List String) : List String := l.mergeSort (fun a b => !(b < a))

def showDist (d : List (String × Nat)) : String :=
  joinOrDash (d.map fun e => enc e.1 ++ "!" ++ toString e.2)

def showRedirect (r : RedirectAction) : String :=
  let p := match r.path with
    | .pathRedirect s => "pa:" ++ enc s
    | .prefixRewrite s => "pr:" ++ enc s
  "rd:" ++ enc r.host ++ "!" ++ p ++ "!" ++ enc r.scheme ++ "!" ++ toString r.port ++ "!" ++ toString r.code

def showBody : Option String → String
  | none => "-"
  | some b => enc b

def showAction : Action → String
  | .cluster c => "c:" ++ enc c
  | .weighted cs => "w:" ++ showDist cs
  | .redirect r => showRedirect r
  | .direct s b => "dr:" ++ toString s ++ "!" ++ showBody b
  | .none => "none"

def showPath : PathSpec → String
  | .pfx p => "pre:" ++ enc p
  | .path p => "path:" ++ enc p
  | .safeRegex r => "re:" ++ enc r
  | .pathSepPrefix p => "psp:" ++ enc p

def showMeta (mm : MetaMatcher) : String :=
  enc (".".intercalate mm.path) ++ "!" ++ showSpec mm.spec ++ "!" ++ boolTok mm.invert

def showRoute (r : Route) : String :=
  "R[" ++ enc r.name ++ "|" ++ showPath r.match.path ++ "|cs=" ++ boolTok r.match.caseSensitive
    ++ "|H:" ++ joinOrDash (r.match.headers.map showHeader)
    ++ "|Q:" ++ joinOrDash (r.match.query.map showQuery)
    ++ (if r.match.metadata.isEmpty then "" else "|M:" ++ joinOrDash (r.match.metadata.map showMeta))
    ++ "|A:" ++ showAction r.action ++ "]"

def showRoutes (rs : List Route) : String :=
  if rs.isEmpty then "err" else " ".intercalate (rs.map showRoute)

/-- The virtual-host table of a route configuration: `ip=<ignore port>` and, sorted, one entry
    `name[domains]<requireTls>#<number of routes>` per virtual host. -/
def showVHostTable (ignorePort : Bool) (vhs : List VirtualHost) : String :=
  "ip=" ++ boolTok ignorePort ++ " " ++
    " ".intercalate (sortStrings (vhs.map fun v =>
      enc v.name ++ "[" ++ encList v.domains ++ "]" ++ boolTok v.requireTls ++ "#" ++ toString v.routes.length))

def showDecision : Decision → String
  | .forward d => "fwd:" ++ showDist d
  | .redirect r => showRedirect r
  | .direct s b => "dr:" ++ toString s ++ "!" ++ showBody b
  | .invalid => "invalid"
  | .notFound => "404"
  | .tlsRedirect => "tls-redirect"

/-! ### state -/

structure DState where
  stream : String := "routes"
  ctx : Ctx := {}
  vs : VirtualService := {}
  vh : VHDriver := {}
  mesh : Mesh := {}
  cluster : String := ""        -- cluster id of the proxy of the last `rds`
  gws : List Gateway := []      -- creation order; servers are added to the last one
  gvss : List GwVS := []
  gsvcNs : List (String × Service) := []     -- gateway stream: registry services with their namespace
  gwSels : List (String × List (String × String)) := []   -- Gateway resource (ns/name) -> selector labels
  gwRoute : String := ""
  gwBuilt : Bool := false

/-- The opaque regex semantics for one request: the (regex, subject) pairs Go's RE2 engine accepts,
    carried on the `req` line. -/
def tableRe (tab : List (String × String)) : Regex := fun r s => tab.contains (r, s)

def addMatch (vs : VirtualService) (m : HTTPMatch) : VirtualService :=
  match vs.http.reverse with
  | [] => vs
  | r :: rest => { vs with http := (({ r with matchBlocks := r.matchBlocks ++ [m] }) :: rest).reverse }

/-- Claims token: pairs (claim path joined by `.`, value); a repeated path is a list claim. -/
def decClaims (t : String) : List (List String × List String) :=
  (decPairs t).foldl (fun acc kv =>
    let p := kv.1.splitOn "."
    if acc.any (fun e => e.1 == p) then acc.map (fun e => if e.1 == p then (e.1, e.2 ++ [kv.2]) else e)
    else acc ++ [(p, [kv.2])]) []

def decReq (f : List String) : Option (Request × Regex) :=
  match f with
  | [p, q, m, a, s, h, t, cl] =>
    some ({ path := dec p, query := decPairs q, method := dec m, authority := dec a, scheme := dec s, headers := decPairs h,
            claims := decClaims cl }, tableRe (decPairs t))
  | [p, q, m, a, s, h, t] =>
    some ({ path := dec p, query := decPairs q, method := dec m, authority := dec a, scheme := dec s, headers := decPairs h },
          tableRe (decPairs t))
  | [p, q, m, a, s, h] =>
    some ({ path := dec p, query := decPairs q, method := dec m, authority := dec a, scheme := dec s, headers := decPairs h },
          tableRe [])
  | _ => none

/-- Export class of a gateway-bound VirtualService for a router of namespace `pns` (`VirtualServicesForGateway`):
    0 exported to its own namespace only (the router's), 1 exported to the router's namespace by name, 2 public,
    3 not visible to the router at all. -/
def gwExportClass (pns : String) (v : GwVS) : Nat :=
  if v.exportTo.isEmpty || v.exportTo.contains "*" then 2
  else if v.vs.ns == pns && (v.exportTo.contains "." || v.exportTo.contains v.vs.ns) then 0
  else if v.exportTo.contains pns then 1
  else 3

/-- The gateway-bound VirtualServices a router of namespace `pns` sees, by export class (CODE-DERIVED order, creation
    order inside a class), each with its own view of the registry: services of the VirtualService's namespace come
    first (so a hostname registered in two namespaces resolves to the VirtualService's own). -/
def gwViews (d : DState) (pns : String) : List GwVS :=
  let vis := d.gvss.filter (fun v => gwExportClass pns v == 0) ++ d.gvss.filter (fun v => gwExportClass pns v == 1)
    ++ d.gvss.filter (fun v => gwExportClass pns v == 2)
  if d.gsvcNs.isEmpty then vis else
  vis.map fun v =>
    { v with services := some (((d.gsvcNs.filter (fun e => e.1 == v.vs.ns)).map (·.2))
                                ++ ((d.gsvcNs.filter (fun e => e.1 != v.vs.ns)).map (·.2))) }

def splitStr (c : Char) (s : String) : List String := (splitChar c s.toList).map String.ofList

/-- Policy token of the `sidecar` / `meshpolicy` ops: `allow` = unset. -/
def decPolicy (p : String) : Option OutboundPolicy :=
  if p == "registry" then some .registryOnly
  else if p == "dynamic" then some .dynamicDNS
  else if p == "allowany" then some .allowAny
  else if p.startsWith "egress=" then
    (match splitStr '|' (dec (p.drop 7).toString) with
     | [h, pt] => some (.egressProxy (subsetKey "" h pt.toNat!))
     | _ => none)
  else none

def policyTok : OutboundPolicy → String
  | .allowAny => "allow"
  | .registryOnly => "registry"
  | .egressProxy _ => "egress"
  | .dynamicDNS => "dynamic"

/-- The Gateway resources that configure a router: those whose selector labels the router carries. -/
def gwsFor (d : DState) (labels : List (String × String)) : List Gateway :=
  d.gws.filter fun g =>
    match d.gwSels.find? (fun e => e.1 == g.fullName) with
    | some e => e.2.all (fun kv => labels.contains kv)
    | none => true

def stepD (d : DState) (toks : List String) : DState × String :=
  match toks with
  | "case" :: _ => ({ stream := d.stream }, "ok")
  | ["proxy", ns, labels, gws] =>
    ({ d with ctx := { d.ctx with proxyNamespace := dec ns, proxyLabels := decPairs labels, gatewayNames := decList gws } }, "ok")
  | ["svc", h, ports, ext] =>
    ({ d with ctx := { d.ctx with services :=
        d.ctx.services ++ [{ host := dec h, ports := (decList ports).map String.toNat!, externalName := dec ext }] } }, "ok")
  | ["vs", name, ns, sem, hosts] =>
    let s : Semantics := if sem == "gateway" then .gateway else if sem == "ingress" then .ingress else .plain
    ({ d with vs := { name := dec name, ns := dec ns, sem := s, hosts := decList hosts, http := [] } }, "ok")
  | ["rule", name, "route", dests] =>
    ({ d with vs := { d.vs with http := d.vs.http ++ [{ name := dec name, route := decDests dests }] } }, "ok")
  | ["rule", name, "redirect", uri, auth, pr, scheme, port, code] =>
    let rd : Redirect := { uri := if dec pr != "" then "" else dec uri, authority := dec auth, prefixRewrite := dec pr,
                           scheme := dec scheme, port := decRedirectPort port, code := code.toNat! }
    ({ d with vs := { d.vs with http := d.vs.http ++ [{ name := dec name, redirect := some rd }] } }, "ok")
  | "rule" :: name :: "direct" :: status :: body :: _ =>
    -- an optional further token `bytes` says the body is written as HTTPBody.bytes: the same response body
    let dr : DirectResponse := { status := status.toNat!, body := if body == "-" then none else some (dec body) }
    ({ d with vs := { d.vs with http := d.vs.http ++ [{ name := dec name, direct := some dr }] } }, "ok")
  | ["match", name, uri, scheme, method, auth, hs, ws, qs, icase, port, sl, sns, gws] =>
    let m : HTTPMatch :=
      { name := dec name, uri := decSM uri, scheme := decSM scheme, method := decSM method, authority := decSM auth,
        headers := decSMMap hs, withoutHeaders := decSMMap ws, queryParams := decSMMap qs,
        ignoreUriCase := tokBool icase, port := port.toNat!, sourceLabels := decPairs sl,
        sourceNamespace := dec sns, gateways := decList gws }
    ({ d with vs := addMatch d.vs m }, "ok")
  | ["validate"] =>
    -- the one validator clause the model relies on: redirect codes the translation supports
    (d, if d.vs.http.all redirectOK then "valid" else "invalid")
  | ["build", port] =>
    let d' := { d with ctx := { d.ctx with listenPort := port.toNat! } }
    if d.stream == "requests" then (d', "ok") else (d', showRoutes (compile d'.ctx d'.vs))
  | "req" :: f =>
    match decReq f with
    | none => (d, "bad-op")
    | some (req, re) =>
      if d.stream == "requests" then
        -- the VirtualService's verdict (source semantics only; the Lean compiler is not involved)
        let sc := if sideConditions re d.vs req then "" else " !side-conditions"
        (d, showDecision (vsSpec re d.ctx d.vs req) ++ sc)
      else
        -- the model compiler's routes under the Lean Envoy semantics
        (d, showDecision (evalRoutes re (compile d.ctx d.vs) req))
  | ["dom", h, aliases, isIPs, pt, addr, lp, port, pd, proxyless] =>
    let svc : DomSvc := { hostname := dec h, aliases := decList aliases, isIP := (decList isIPs).map tokBool,
                          passthroughKube := tokBool pt, addresses := if dec addr == "" then [] else [dec addr] }
    let r := generateVirtualHostDomains svc lp.toNat! port.toNat! (dec pd) (tokBool proxyless)
    (d, "D:" ++ encList r.1 ++ " A:" ++ encList r.2)
  | ["known", l] => ({ d with vh := { d.vh with known := decList l, inputs := [] } }, "ok")
  | ["vh", name, doms, alts] =>
    -- one more call of the buildVirtualHost closure: the whole sequence is re-run through `buildVHosts`
    let v := d.vh
    let i : VHInput := { name := dec name, domains := decList doms, altHosts := decList alts }
    let before := buildVHosts v.known v.inputs [] []
    let after := buildVHosts v.known (v.inputs ++ [i]) [] []
    let d' := { d with vh := { v with inputs := v.inputs ++ [i] } }
    if v.inputs.any (fun x => x.name == i.name) then (d', "dup-name")
    else if after.length == before.length then (d', "empty")
    else (d', "kept:" ++ encList ((after.getLast?.map (·.domains)).getD []))
  | ["sel", a] =>
    match selectVHost (buildVHosts d.vh.known d.vh.inputs [] []) (dec a) with
    | some v => (d, enc v.name)
    | none => (d, "none")
  | ["msh", needle, sp, wc] =>
    match mostSpecificHostMatch (dec needle) (decList sp) (decList wc) with
    | some h => (d, enc h)
    | none => (d, "none")
  | ["selvs", svcs, vss] =>
    let l := if vss == "-" then [] else (vss.splitOn ";")
    let named := (List.range l.length).zip l |>.map (fun p => ("vs" ++ toString p.1, decList p.2))
    (d, encList (selectVS (decList svcs) named))
  | ["tls", b] => ({ d with ctx := { d.ctx with isTLS := tokBool b } }, "ok")
  | ["gsvc", h, ns, ports] =>
    let sv : Service := { host := dec h, ports := (decList ports).map String.toNat! }
    ({ d with ctx := { d.ctx with services := d.ctx.services ++ [sv] }, gsvcNs := d.gsvcNs ++ [(dec ns, sv)],
              gwBuilt := false }, "ok")
  | ["gateway", name, ns, sel] =>
    ({ d with gws := d.gws ++ [{ name := dec name, ns := dec ns, servers := [] }],
              gwSels := d.gwSels ++ [(dec ns ++ "/" ++ dec name, decPairs sel)], gwBuilt := false }, "ok")
  | ["server", port, proto, pname, hosts, tls, redirect] =>
    let https := proto == "HTTPS"
    let sv : GwServer := { port := port.toNat!, https := https, portName := dec pname, hosts := decList hosts,
                           hasTLS := tokBool tls || https, redirect := tokBool redirect && !https }
    match d.gws.reverse with
    | [] => (d, "ok")
    | g :: rest => ({ d with gws := ({ g with servers := g.servers ++ [sv] } :: rest).reverse, gwBuilt := false }, "ok")
  | "gvs" :: gws :: rest =>
    -- gvs <gateways> [<exportTo>]
    if d.vs.http.isEmpty || d.gvss.any (fun v => v.vs.name == d.vs.name && v.vs.ns == d.vs.ns) then (d, "ok")
    else
      let ex := match rest with | e :: _ => decList e | _ => []
      ({ d with gvss := d.gvss ++ [{ vs := d.vs, gateways := decList gws, exportTo := ex }], gwBuilt := false }, "ok")
  | ["grds", ns, labels, rn] =>
    let c2 : Ctx := { d.ctx with proxyNamespace := dec ns, proxyLabels := decPairs labels }
    ({ d with ctx := c2, gwRoute := dec rn, gwBuilt := true }, showVHostTable (!(gwServers (gwsFor d c2.proxyLabels) (dec rn)).isEmpty) (gwVHosts c2 (gwsFor d c2.proxyLabels) (gwViews d c2.proxyNamespace) (dec rn)))
  | "greq" :: f =>
    match decReq f with
    | none => (d, "bad-op")
    | some (req, re) =>
      if !d.gwBuilt then (d, "no-grds") else
      -- the model of buildGatewayHTTPRouteConfig under the Lean Envoy semantics, checked against the SPEC
      let m := evalRouteConfig re true (gwVHosts d.ctx (gwsFor d d.ctx.proxyLabels) (gwViews d d.ctx.proxyNamespace) d.gwRoute) req
      let sp := gwSpec re d.ctx (gwsFor d d.ctx.proxyLabels) (gwViews d d.ctx.proxyNamespace) d.gwRoute req
      (d, showDecision m ++ (if sp == m then "" else " !spec:" ++ showDecision sp))
  | "msvc" :: h :: ns :: ports :: addr :: rest =>
    -- msvc <host> <ns> <ports, `t<port>` = a TCP port> <addr> [<ExternalName> [<aliases> [<cluster VIPs c=a+b;c2=a>]]]
    let ptoks := decList ports
    let num (t : String) : Nat := if t.startsWith "t" then (t.drop 1).toString.toNat! else t.toNat!
    let ps := ptoks.map num
    let tps := (ptoks.filter (·.startsWith "t")).map num
    let ext0 := match rest with | e :: _ => dec e | _ => ""
    let headless := ext0 == "headless"      -- the ExternalName slot carries the marker of a headless service
    let ext := if headless then "" else ext0
    let als := match rest with | _ :: a :: _ => decList a | _ => []
    let vips : List (String × List String) := match rest with
      | [_, _, v] => (splitStr ';' (dec v)).filterMap fun e =>
          match splitStr '=' e with
          | [cl, as] => some (cl, splitStr '+' as)
          | _ => none
      | _ => []
    ({ d with mesh := { d.mesh with svcs := d.mesh.svcs ++ [{ host := dec h, ns := dec ns, ports := ps, tcpPorts := tps, addr := dec addr,
                                                              aliases := als, alias := ext != "", headless := headless, clusterVIPs := vips }],
                                    built := false },
              -- the spec resolves destinations against the FULL registry
              ctx := { d.ctx with services := d.ctx.services ++ [{ host := dec h, ports := ps, externalName := ext }] } }, "ok")
  | "sidecar" :: ns :: hosts :: rest =>
    -- sidecar <ns> <catch-all egress hosts> [<policy> [<port> <hosts of the port-specific listener> [<workloadSelector>]]]
    let decE (t : String) : List EgressHost := (decList t).map fun h =>
      match cutSlash h with
      | some p =>
        if p.1.startsWith "~" then { ns := (if p.1 == "~" then "*" else (p.1.drop 1).toString), host := p.2, excl := true }
        else { ns := p.1, host := p.2 }
      | none => { ns := "*", host := h }
    let pol : Option OutboundPolicy := match rest with
      | p :: _ => decPolicy p
      | [] => none
    let pp : Nat × List EgressHost := match rest with
      | _ :: port :: hs :: _ => (port.toNat!, decE hs)
      | _ => (0, [])
    let sel : List (String × String) := match rest with
      | [_, _, _, sl] => decPairs sl
      | _ => []
    ({ d with mesh := { d.mesh with sidecarNs := dec ns, egress := decE hosts, egressPort := pp.1, egressPortHosts := pp.2,
                                    sidecarSelector := sel, sidecarPolicy := pol, built := false } }, "ok")
  | ["meshpolicy", p] =>
    ({ d with mesh := { d.mesh with meshPolicy := (decPolicy p).getD .allowAny, built := false } }, "ok")
  | "mdr" :: _ => (d, "ok")    -- a DestinationRule object: no influence on where a request goes
  | "mvs" :: rest =>
    -- mvs [<exportTo> [<gateways>]]; VirtualServices are identified by name AND namespace
    if d.vs.http.isEmpty || d.mesh.vss.any (fun v => v.name == d.vs.name && v.ns == d.vs.ns) then (d, "ok")
    else
      let ex := match rest with | e :: _ => decList e | _ => []
      let gs := match rest with | [_, g] => decList g | _ => []
      ({ d with mesh := { d.mesh with vss := d.mesh.vss ++ [resolveVS "cluster.local" d.vs],
                                      vsx := d.mesh.vsx ++ [{ name := d.vs.name, ns := d.vs.ns, exportTo := ex, gateways := gs }],
                                      built := false } }, "ok")
  | "rds" :: ns :: labels :: port :: rest =>
    let cl := match rest with | c :: _ => dec c | _ => ""
    let c2 : Ctx := { d.ctx with proxyNamespace := dec ns, proxyLabels := decPairs labels, gatewayNames := ["mesh"],
                                 listenPort := port.toNat! }
    let m2 : Mesh := { d.mesh with proxyDomain := dec ns ++ ".svc.cluster.local", built := true }
    let sm := proxyView m2 c2.proxyNamespace c2.proxyLabels c2.listenPort cl
    let cS : Ctx := { c2 with services := c2.services.filter (fun s => sm.svcs.any (fun x => x.host == s.host)) }
    let full := sidecarRDSFull cS sm
    if d.stream == "certs-rds" then
      -- statistics only (not compared with the implementation): the hypotheses of sidecar_rds_correct on this build,
      -- and - whenever they hold - whether the theorem's model produces the same table as the full one
      let cert := rdsCert cS sm && certVSHosts cS sm && certRegistry cS sm
      let same := showVHostTable true full == showVHostTable true (sidecarRDS cS sm)
      ({ d with ctx := c2, mesh := m2, cluster := cl },
        "cert=" ++ boolTok cert ++ " noDrop=" ++ boolTok (certNoDrop cS sm) ++ " vsHosts=" ++ boolTok (certVSHosts cS sm)
          ++ " models=" ++ (if cert then boolTok same else "-")
          ++ " port80=" ++ boolTok (c2.listenPort == 80) ++ " policy=" ++ policyTok sm.policy
          ++ " sidecar=" ++ boolTok (sidecarApplies m2 c2.proxyNamespace c2.proxyLabels)
          ++ " stray=" ++ toString (strayHosts cS sm).length)
    else ({ d with ctx := c2, mesh := m2, cluster := cl }, showVHostTable true full)
  | "rreq" :: f =>
    match decReq f with
    | none => (d, "bad-op")
    | some (req, re) =>
      if !d.mesh.built then (d, "no-rds") else
      -- what this proxy sees: exported / mesh-bound VirtualServices, Sidecar scope, its cluster's VIPs, its policy
      let sm := proxyView d.mesh d.ctx.proxyNamespace d.ctx.proxyLabels d.ctx.listenPort d.cluster
      -- the route compiler only sees the egress listener's services: in scope (and, inside the model, on the port)
      let cS : Ctx := { d.ctx with services := d.ctx.services.filter (fun s => sm.svcs.any (fun x => x.host == s.host)) }
      if d.stream == "certs-rds" then
        (d, "side=" ++ boolTok (meshSide re cS sm req) ++ " why=" ++ meshWhy re d.ctx sm req) else
      -- the full model of the route configuration under the Lean Envoy semantics, checked against the SPEC
      let mo := evalRouteConfig re true (sidecarRDSFull cS sm) req
      -- F-C12-4 class: the spec read against that restricted registry explains the model's (= the code's) answer
      let cR : Ctx := { cS with services := restrictRegistry cS.listenPort cS.services }
      let f4 := meshSpecF re cR sm req == some mo
      -- the SPEC is silent (`none`) for contested names
      match meshSpecF re d.ctx sm req with
      | none => (d, showDecision mo)
      | some sp =>
        -- deviations of the known classes F-C12-4 / F-C12-6 are left to the oracle, which classifies them
        (d, showDecision mo ++ (if sp == mo || f4 || !certWild cS sm then "" else " !spec:" ++ showDecision sp))
  | ["acc"] => ({ d with vh := { d.vh with acc := d.vh.acc ++ compile d.ctx d.vs } }, "ok")
  | ["sortv"] => (d, showRoutes (sortVHostRoutes d.vh.acc))
  | "sreq" :: f =>
    match decReq f with
    | none => (d, "bad-op")
    | some (req, re) =>
      (d, showDecision (evalRoutes re (sortVHostRoutes d.vh.acc) req) ++ " " ++ showDecision (evalRoutes re d.vh.acc req)
          ++ " safe=" ++ boolTok (sortSafe re d.vh.acc req))
  | _ => (d, "bad-op")

end IstioModel.C12
