import IstioModel.C12.Theorems
import IstioModel.C12.VHosts

/-!
# C12 theorems, part 2: virtual-host domains, selection by authority, SortVHostRoutes
-/
namespace IstioModel.C12

/-! ## dedupeDomains -/

/-- What one `dedupeDomains` call guarantees, for any starting `vhdomains` set: kept domains are
    pairwise distinct after lower-casing, none was already claimed, and the new set is the old one
    plus exactly the kept domains (lower-cased). -/
theorem dedupe_spec (e k : List String) (ds vh : List String) :
    ((dedupeLoop e k ds vh).1.map lower).Nodup
    ∧ (∀ d ∈ (dedupeLoop e k ds vh).1, lower d ∉ vh)
    ∧ (∀ x, x ∈ (dedupeLoop e k ds vh).2 ↔ x ∈ vh ∨ x ∈ (dedupeLoop e k ds vh).1.map lower) := by
  induction ds generalizing vh with
  | nil => simp [dedupeLoop]
  | cons d ds ih =>
    unfold dedupeLoop
    by_cases h1 : vh.contains (lower d) = true
    · simp only [h1, ↓reduceIte]; exact ih vh
    · by_cases h2 : (e.contains d && k.contains d) = true
      · simp only [h1, h2, ↓reduceIte, Bool.false_eq_true]; exact ih vh
      · simp only [h1, h2, ↓reduceIte, Bool.false_eq_true]
        obtain ⟨n, a, s⟩ := ih (lower d :: vh)
        have hd : lower d ∉ vh := by simpa using h1
        refine ⟨?_, ?_, ?_⟩
        · simp only [List.map_cons, List.nodup_cons]
          refine ⟨?_, n⟩
          intro hm
          obtain ⟨x, hx, hxe⟩ := List.mem_map.mp hm
          have := a x hx
          rw [hxe] at this
          simp at this
        · intro x hx
          simp only [List.mem_cons] at hx
          rcases hx with rfl | hx
          · exact hd
          · have := a x hx
            simp only [List.mem_cons, not_or] at this
            exact this.2
        · intro x
          rw [s x]
          simp only [List.mem_cons, List.map_cons]
          constructor
          · rintro ((h | h) | h)
            · exact Or.inr (Or.inl h)
            · exact Or.inl h
            · exact Or.inr (Or.inr h)
          · rintro (h | h | h)
            · exact Or.inl (Or.inr h)
            · exact Or.inl (Or.inl h)
            · exact Or.inr h

/-- Kept domains are a sub-list of the generated ones (order kept, nothing invented). -/
theorem dedupe_sublist (e k : List String) (ds vh : List String) :
    (dedupeLoop e k ds vh).1.Sublist ds := by
  induction ds generalizing vh with
  | nil => simp [dedupeLoop]
  | cons d ds ih =>
    unfold dedupeLoop
    split
    · exact (ih vh).cons d
    · split
      · exact (ih vh).cons d
      · exact (ih (lower d :: vh)).cons_cons d

/-- A generated domain is dropped only if it was already claimed (case-insensitively), or it is an
    expanded (alt) host that equals a known service FQDN. -/
theorem dedupe_dropped (e k : List String) (ds vh : List String) (d : String) (hd : d ∈ ds)
    (hn : d ∉ (dedupeLoop e k ds vh).1) :
    lower d ∈ (dedupeLoop e k ds vh).2 ∨ (d ∈ e ∧ d ∈ k) := by
  induction ds generalizing vh with
  | nil => simp at hd
  | cons x xs ih =>
    unfold dedupeLoop at hn ⊢
    by_cases h1 : vh.contains (lower x) = true
    · simp only [h1, ↓reduceIte] at hn ⊢
      rcases List.mem_cons.mp hd with rfl | hm
      · left
        rw [(dedupe_spec e k xs vh).2.2]
        exact Or.inl (by simpa using h1)
      · exact ih vh hm hn
    · by_cases h2 : (e.contains x && k.contains x) = true
      · simp only [h1, h2, ↓reduceIte, Bool.false_eq_true] at hn ⊢
        rcases List.mem_cons.mp hd with rfl | hm
        · right; simpa using h2
        · exact ih vh hm hn
      · simp only [h1, h2, ↓reduceIte, Bool.false_eq_true] at hn ⊢
        simp only [List.mem_cons, not_or] at hn
        rcases List.mem_cons.mp hd with rfl | hm
        · exact absurd rfl hn.1
        · exact ih (lower x :: vh) hm hn.2

/-! ## the virtual-host loop -/

theorem map_lower_pair (v : VirtualHost) (l : List String) :
    (l.map (fun d => (v, d))).map (fun p => lower p.2) = l.map lower := by
  simp [List.map_map, Function.comp_def]

theorem nodup_map_inj {α β : Type} (f : α → β) (l : List α) (h : (l.map f).Nodup) (a b : α)
    (ha : a ∈ l) (hb : b ∈ l) (e : f a = f b) : a = b := by
  induction l with
  | nil => simp at ha
  | cons x xs ih =>
    simp only [List.map_cons, List.nodup_cons, List.mem_map, not_exists, not_and] at h
    rcases List.mem_cons.mp ha with rfl | ha' <;> rcases List.mem_cons.mp hb with rfl | hb'
    · rfl
    · exact absurd e.symm (h.1 b hb')
    · exact absurd e (h.1 a ha')
    · exact ih h.2 ha' hb'

theorem allDomains_cons (v : VirtualHost) (vs : List VirtualHost) :
    allDomains (v :: vs) = v.domains.map (fun d => (v, d)) ++ allDomains vs := by
  simp [allDomains]

/-- Invariant of the `buildVirtualHost` sequence, for any set of names / domains claimed before. -/
theorem buildVHosts_inv (known : List String) (is : List VHInput) (names vhd : List String) :
    ((allDomains (buildVHosts known is names vhd)).map (fun p => lower p.2)).Nodup
    ∧ ∀ p ∈ allDomains (buildVHosts known is names vhd), lower p.2 ∉ vhd := by
  induction is generalizing names vhd with
  | nil => simp [buildVHosts, allDomains]
  | cons i is ih =>
    unfold buildVHosts
    by_cases hn : names.contains i.name = true
    · simp only [hn, ↓reduceIte]; exact ih names vhd
    · obtain ⟨dn, da, ds⟩ := dedupe_spec i.altHosts known i.domains vhd
      obtain ⟨rn, ra⟩ := ih (i.name :: names) (dedupeLoop i.altHosts known i.domains vhd).2
      have ra' : ∀ p ∈ allDomains (buildVHosts known is (i.name :: names) (dedupeLoop i.altHosts known i.domains vhd).2),
          lower p.2 ∉ vhd ∧ lower p.2 ∉ (dedupeLoop i.altHosts known i.domains vhd).1.map lower := by
        intro p hp
        have := ra p hp
        rw [ds] at this
        simp only [not_or] at this
        exact this
      by_cases he : (dedupeLoop i.altHosts known i.domains vhd).1.isEmpty = true
      · simp only [hn, he, ↓reduceIte, Bool.false_eq_true]
        exact ⟨rn, fun p hp => (ra' p hp).1⟩
      · simp only [hn, he, ↓reduceIte, Bool.false_eq_true]
        rw [allDomains_cons]
        simp only [List.map_append, map_lower_pair]
        refine ⟨?_, ?_⟩
        · rw [List.nodup_append]
          refine ⟨dn, rn, ?_⟩
          intro a ha b hb hab
          obtain ⟨p, hp, hpe⟩ := List.mem_map.mp hb
          apply (ra' p hp).2
          rw [hpe, ← hab]
          exact ha
        · intro p hp
          rcases List.mem_append.mp hp with h | h
          · obtain ⟨d, hd, hde⟩ := List.mem_map.mp h
            rw [← hde]
            exact da d hd
          · exact (ra' p h).1

/-- **domains_unique.**  After `dedupeDomains`, no domain (lower-cased) occurs twice in the route
    configuration - neither in two virtual hosts nor twice in one. -/
theorem domains_unique (known : List String) (is : List VHInput) :
    ((allDomains (buildVHosts known is [] [])).map (fun p => lower p.2)).Nodup :=
  (buildVHosts_inv known is [] []).1

/-- Virtual-host names are unique as well (`vhosts.InsertContains(name)`). -/
theorem vhost_names_unique (known : List String) (is : List VHInput) (names vhd : List String) :
    ((buildVHosts known is names vhd).map (·.name)).Nodup
    ∧ ∀ v ∈ buildVHosts known is names vhd, v.name ∉ names := by
  induction is generalizing names vhd with
  | nil => simp [buildVHosts]
  | cons i is ih =>
    unfold buildVHosts
    by_cases hn : names.contains i.name = true
    · simp only [hn, ↓reduceIte]; exact ih names vhd
    · obtain ⟨rn, ra⟩ := ih (i.name :: names) (dedupeLoop i.altHosts known i.domains vhd).2
      have ra' : ∀ v ∈ buildVHosts known is (i.name :: names) (dedupeLoop i.altHosts known i.domains vhd).2,
          v.name ≠ i.name ∧ v.name ∉ names := by
        intro v hv
        have := ra v hv
        simpa [not_or] using this
      by_cases he : (dedupeLoop i.altHosts known i.domains vhd).1.isEmpty = true
      · simp only [hn, he, ↓reduceIte, Bool.false_eq_true]
        exact ⟨rn, fun v hv => (ra' v hv).2⟩
      · simp only [hn, he, ↓reduceIte, Bool.false_eq_true, List.map_cons, List.nodup_cons, List.mem_cons]
        refine ⟨⟨?_, rn⟩, ?_⟩
        · intro hm
          obtain ⟨v, hv, hve⟩ := List.mem_map.mp hm
          exact (ra' v hv).1 hve
        · rintro v (rfl | hv)
          · simpa using hn
          · exact (ra' v hv).2

/-! ## selection by authority -/

/-- Exact (case-insensitive) domain match wins: if the authority equals a domain of some virtual host
    then a virtual host carrying that domain is selected. -/
theorem select_exact_some (vhs : List VirtualHost) (v : VirtualHost) (d a : String)
    (hv : v ∈ vhs) (hd : d ∈ v.domains) (ha : lower a = lower d) :
    ∃ v' d', selectVHost vhs a = some v' ∧ (v', d') ∈ allDomains vhs ∧ lower d' = lower a := by
  have hmem : (v, d) ∈ allDomains vhs := by
    unfold allDomains
    exact List.mem_flatMap.mpr ⟨v, hv, List.mem_map.mpr ⟨d, hd, rfl⟩⟩
  cases hf : (allDomains vhs).find? (fun p => lower p.2 == lower a) with
  | none =>
    have := List.find?_eq_none.mp hf (v, d) hmem
    simp [ha] at this
  | some p =>
    refine ⟨p.1, p.2, ?_, List.mem_of_find?_eq_some hf, ?_⟩
    · simp only [selectVHost, hf]
    · have := List.find?_some hf
      simpa using this

/-- **select_unique.**  With unique domains (`domains_unique`), an authority equal to one of the domains
    kept for virtual host `v` selects `v` itself. -/
theorem select_unique (vhs : List VirtualHost) (v : VirtualHost) (d a : String)
    (hu : ((allDomains vhs).map (fun p => lower p.2)).Nodup)
    (hv : v ∈ vhs) (hd : d ∈ v.domains) (ha : lower a = lower d) :
    selectVHost vhs a = some v := by
  obtain ⟨v', d', hs, hm, he⟩ := select_exact_some vhs v d a hv hd ha
  have hmem : (v, d) ∈ allDomains vhs := by
    unfold allDomains
    exact List.mem_flatMap.mpr ⟨v, hv, List.mem_map.mpr ⟨d, hd, rfl⟩⟩
  have : (v', d') = (v, d) := by
    apply nodup_map_inj (fun p : VirtualHost × String => lower p.2) _ hu _ _ hm hmem
    simp [he, ha]
  rw [hs]
  cases this
  rfl

/-- End to end for the sidecar loop: any authority equal (case-insensitively) to a domain the loop
    kept for a virtual host is routed by that virtual host. -/
theorem select_built (known : List String) (is : List VHInput) (v : VirtualHost) (d a : String)
    (hv : v ∈ buildVHosts known is [] []) (hd : d ∈ v.domains) (ha : lower a = lower d) :
    selectVHost (buildVHosts known is [] []) a = some v :=
  select_unique _ v d a (domains_unique known is) hv hd ha

/-! ## SortVHostRoutes -/

theorem find?_filter_none (re : Regex) (req : Request) (rs : List Route)
    (h : rs.all (fun r => isCatchAll r || !r.match.eval re req) = true) :
    (rs.filter (fun r => !isCatchAll r)).find? (fun r => r.match.eval re req) = none := by
  rw [List.find?_eq_none]
  intro r hr
  rw [List.mem_filter] at hr
  rw [List.all_eq_true] at h
  have := h r hr.1
  simp_all

/-- **sortVHost_sound.**  Moving the catch-all routes to the end preserves the decision for every
    request satisfying `sortSafe` (given that catch-all routes do match: `catchall_sound`). -/
theorem sortVHost_sound (re : Regex) (hre : DotStar re) (routes : List Route) (req : Request)
    (hwf : req.wf = true) (hp : ∀ r ∈ routes, r.match.path ≠ .pathSepPrefix "/")
    (hs : sortSafe re routes req = true) :
    evalRoutes re (sortVHostRoutes routes) req = evalRoutes re routes req := by
  unfold evalRoutes firstMatch sortVHostRoutes
  induction routes with
  | nil => rfl
  | cons r rs ih =>
    by_cases hc : isCatchAll r = true
    · have hm : r.match.eval re req = true := catchall_sound re hre r req hwf (hp r (by simp)) hc
      have hs' : rs.all (fun r => isCatchAll r || !r.match.eval re req) = true := by
        simpa [sortSafe, List.dropWhile, hc] using hs
      simp only [List.filter_cons, hc, Bool.not_true, Bool.false_eq_true, ↓reduceIte, List.find?_append,
        find?_filter_none re req rs hs', List.find?_cons, hm, Option.none_or]
    · have hs' : sortSafe re rs req = true := by
        simpa [sortSafe, List.dropWhile, hc] using hs
      have ih' := ih (fun x hx => hp x (by simp [hx])) hs'
      simp only [Bool.not_eq_true] at hc
      simp only [List.filter_cons, hc, Bool.not_false, ↓reduceIte, Bool.false_eq_true, List.cons_append, List.find?_cons]
      cases r.match.eval re req
      · simpa using ih'
      · rfl

/-- Without the side condition the statement is false: a specific route placed after a catch-all
    route (as happens when the routes of two VirtualServices are concatenated) overtakes it. -/
theorem sortVHost_unsafe_witness :
    let c1 : Route := { name := "vs1-default", action := .cluster "a" }
    let b : Route := { name := "vs2-api", «match» := { path := .pfx "/api" }, action := .cluster "b" }
    let req : Request := { path := "/api/x" }
    evalRoutes (fun _ _ => true) [c1, b] req = .forward [("a", 1)]
    ∧ evalRoutes (fun _ _ => true) (sortVHostRoutes [c1, b]) req = .forward [("b", 1)] := by
  decide

/-- The sort only moves catch-all routes: the non-catch-all routes keep their relative order and the
    result is a permutation. -/
theorem sortVHost_perm (routes : List Route) : (sortVHostRoutes routes).Perm routes := by
  unfold sortVHostRoutes
  induction routes with
  | nil => simp
  | cons r rs ih =>
    by_cases hc : isCatchAll r = true
    · simp only [List.filter_cons, hc, Bool.not_true, Bool.false_eq_true, ↓reduceIte]
      exact (List.perm_middle).trans (ih.cons r)
    · simp only [Bool.not_eq_true] at hc
      simp only [List.filter_cons, hc, Bool.not_false, ↓reduceIte, Bool.false_eq_true, List.cons_append]
      exact ih.cons r

/-- Routes emitted for ONE VirtualService are already in sorted form (a catch-all can only be last),
    so the sort is the identity on them. -/
theorem sortVHost_compile_id (c : Ctx) (vs : VirtualService) :
    sortVHostRoutes (compile c vs) = compile c vs := by
  rw [compile_eq_takeThrough]
  generalize compileAll c vs = l
  unfold sortVHostRoutes
  induction l with
  | nil => simp [takeThrough]
  | cons r rs ih =>
    unfold takeThrough
    by_cases hc : isCatchAll r = true
    · simp [hc]
    · simp only [Bool.not_eq_true] at hc
      simp only [hc, Bool.false_eq_true, ↓reduceIte, List.filter_cons, Bool.not_false, List.cons_append]
      rw [ih]

/-! ## Most specific VirtualService host -/

/-- "wildcard host `h` matches `needle`" as `mostSpecificHostWildcardMatch` tests it. -/
def wcMatches (needle h : String) : Bool := hasSuffixStr needle (mk ((cs h).drop 1))

theorem moreSpecific_false_len (a b : String) (h : moreSpecific a b = false) : a.length ≤ b.length := by
  unfold moreSpecific at h
  split at h
  · rename_i he; simp at he; omega
  · simpa using h

theorem moreSpecific_true_len (a b : String) (h : moreSpecific a b = true) : b.length ≤ a.length := by
  unfold moreSpecific at h
  split at h
  · rename_i he; simp at he; omega
  · have : a.length > b.length := by simpa using h
    omega

/-- Running invariant of the fold: the result is the initial candidate or a matching element, and it
    is at least as long as every matching element and as the initial candidate. -/
theorem wildcardMatch_inv (needle : String) (l : List String) (best : Option String) :
    (wildcardMatch needle l best = none ↔ best = none ∧ ∀ h ∈ l, wcMatches needle h = false)
    ∧ (∀ x, wildcardMatch needle l best = some x →
        ((x ∈ l ∧ wcMatches needle x = true) ∨ best = some x)
        ∧ (∀ h ∈ l, wcMatches needle h = true → h.length ≤ x.length)
        ∧ (∀ b, best = some b → b.length ≤ x.length)) := by
  induction l generalizing best with
  | nil =>
    simp only [wildcardMatch, List.not_mem_nil, false_implies, implies_true, and_true, false_and, false_or, true_and]
    intro x hx
    refine ⟨hx, ?_⟩
    intro b hb
    rw [hx] at hb
    cases hb
    exact Nat.le_refl _
  | cons h hs ih =>
    unfold wildcardMatch
    by_cases hm : hasSuffixStr needle (mk ((cs h).drop 1)) = true
    · have hm' : wcMatches needle h = true := hm
      simp only [hm, ↓reduceIte]
      cases best with
      | none =>
        simp only
        obtain ⟨i1, i2⟩ := ih (some h)
        refine ⟨?_, ?_⟩
        · rw [i1]; simp [hm']
        · intro x hx
          obtain ⟨a, b, c⟩ := i2 x hx
          refine ⟨?_, ?_, ?_⟩
          · rcases a with ⟨a1, a2⟩ | a
            · exact Or.inl ⟨by simp [a1], a2⟩
            · cases a; exact Or.inl ⟨by simp, hm'⟩
          · intro y hy hym
            rcases List.mem_cons.mp hy with rfl | hy'
            · exact c _ rfl
            · exact b y hy' hym
          · intro b hb; cases hb
      | some b0 =>
        simp only
        by_cases hs : moreSpecific h b0 = true
        · simp only [hs, ↓reduceIte]
          obtain ⟨i1, i2⟩ := ih (some h)
          refine ⟨?_, ?_⟩
          · rw [i1]; simp
          · intro x hx
            obtain ⟨a, b, c⟩ := i2 x hx
            have hlen := c h rfl
            refine ⟨?_, ?_, ?_⟩
            · rcases a with ⟨a1, a2⟩ | a
              · exact Or.inl ⟨by simp [a1], a2⟩
              · cases a; exact Or.inl ⟨by simp, hm'⟩
            · intro y hy hym
              rcases List.mem_cons.mp hy with rfl | hy'
              · exact hlen
              · exact b y hy' hym
            · intro b1 hb1
              cases hb1
              have := moreSpecific_true_len h b0 hs
              omega
        · simp only [hs, Bool.false_eq_true, ↓reduceIte]
          have hs' : moreSpecific h b0 = false := by simpa using hs
          obtain ⟨i1, i2⟩ := ih (some b0)
          refine ⟨?_, ?_⟩
          · rw [i1]; simp
          · intro x hx
            obtain ⟨a, b, c⟩ := i2 x hx
            have hlen := c b0 rfl
            refine ⟨?_, ?_, ?_⟩
            · rcases a with ⟨a1, a2⟩ | a
              · exact Or.inl ⟨by simp [a1], a2⟩
              · exact Or.inr a
            · intro y hy hym
              rcases List.mem_cons.mp hy with rfl | hy'
              · have := moreSpecific_false_len y b0 hs'
                omega
              · exact b y hy' hym
            · intro b1 hb1
              cases hb1
              exact hlen
    · have hm' : wcMatches needle h = false := by simpa [wcMatches] using hm
      simp only [hm, Bool.false_eq_true, ↓reduceIte]
      obtain ⟨i1, i2⟩ := ih best
      refine ⟨?_, ?_⟩
      · rw [i1]; simp [hm']
      · intro x hx
        obtain ⟨a, b, c⟩ := i2 x hx
        refine ⟨?_, ?_, c⟩
        · rcases a with ⟨a1, a2⟩ | a
          · exact Or.inl ⟨by simp [a1], a2⟩
          · exact Or.inr a
        · intro y hy hym
          rcases List.mem_cons.mp hy with rfl | hy'
          · rw [hm'] at hym; cases hym
          · exact b y hy' hym

/-- Two wildcard hosts matching the same needle and of the same length are the same host. -/
theorem wcMatches_same_length_eq (needle a b : String)
    (wa : isWildcarded a = true) (wb : isWildcarded b = true)
    (ma : wcMatches needle a = true) (mb : wcMatches needle b = true) (hl : a.length = b.length) : a = b := by
  unfold wcMatches hasSuffixStr cs mk at ma mb
  simp only [String.toList_ofList] at ma mb
  rw [List.isPrefixOf_iff_prefix] at ma mb
  unfold isWildcarded hasPrefix at wa wb
  have hla : a.toList.length = b.toList.length := by simp [String.length_toList, hl]
  cases ha : a.toList with
  | nil => rw [ha] at wa; simp at wa
  | cons ca ta =>
    cases hb : b.toList with
    | nil => rw [hb] at wb; simp at wb
    | cons cb tb =>
      rw [ha] at ma wa hla
      rw [hb] at mb wb hla
      have hstar : ("*" : String).toList = ['*'] := by decide
      rw [hstar] at wa wb
      simp only [List.isPrefixOf_cons_cons, List.isPrefixOf_nil_left, Bool.and_true, beq_iff_eq] at wa wb
      simp only [List.drop_succ_cons, List.drop_zero] at ma mb
      have hlt : ta.reverse.length = tb.reverse.length := by simpa using hla
      have := (List.prefix_of_prefix_length_le ma mb (by omega)).eq_of_length hlt
      have ht : ta = tb := by simpa using this
      apply String.ext
      rw [ha, hb, ← wa, ← wb, ht]

/-- **Most specific wins, whatever the enumeration order** (the wildcard index is a Go map):
    the fold returns the same host for every permutation of the wildcard keys. -/
theorem wildcardMatch_perm (needle : String) (l l' : List String) (hp : l.Perm l')
    (hw : ∀ h ∈ l, isWildcarded h = true) :
    wildcardMatch needle l none = wildcardMatch needle l' none := by
  obtain ⟨n1, s1⟩ := wildcardMatch_inv needle l none
  obtain ⟨n2, s2⟩ := wildcardMatch_inv needle l' none
  cases r : wildcardMatch needle l none with
  | none =>
    cases r' : wildcardMatch needle l' none with
    | none => rfl
    | some x' =>
      obtain ⟨a, _, _⟩ := s2 x' r'
      rcases a with ⟨a1, a2⟩ | a
      · have := (n1.mp r).2 x' (hp.mem_iff.mpr a1)
        rw [this] at a2; cases a2
      · cases a
  | some x =>
    obtain ⟨a, b, _⟩ := s1 x r
    rcases a with ⟨a1, a2⟩ | a
    · cases r' : wildcardMatch needle l' none with
      | none =>
        have := (n2.mp r').2 x (hp.mem_iff.mp a1)
        rw [this] at a2; cases a2
      | some x' =>
        obtain ⟨a', b', _⟩ := s2 x' r'
        rcases a' with ⟨a1', a2'⟩ | a'
        · have h1 := b x' (hp.mem_iff.mpr a1') a2'
          have h2 := b' x (hp.mem_iff.mp a1) a2
          have := wcMatches_same_length_eq needle x x' (hw x a1) (hw x' (hp.mem_iff.mpr a1')) a2 a2' (by omega)
          rw [this]
        · cases a'
    · cases a

/-- The wildcard answer is a matching key and no matching key is longer. -/
theorem wildcardMatch_longest (needle : String) (l : List String) (x : String)
    (h : wildcardMatch needle l none = some x) :
    x ∈ l ∧ wcMatches needle x = true ∧ ∀ y ∈ l, wcMatches needle y = true → y.length ≤ x.length := by
  obtain ⟨a, b, _⟩ := (wildcardMatch_inv needle l none).2 x h
  rcases a with ⟨a1, a2⟩ | a
  · exact ⟨a1, a2, b⟩
  · cases a

/-- No answer only when no wildcard key matches. -/
theorem wildcardMatch_none (needle : String) (l : List String) :
    wildcardMatch needle l none = none ↔ ∀ y ∈ l, wcMatches needle y = false := by
  rw [(wildcardMatch_inv needle l none).1]; simp

/-- An exact key always beats every wildcard. -/
theorem mostSpecific_exact_first (needle : String) (sp wc : List String)
    (hn : isWildcarded needle = false) (h : needle ∈ sp) :
    mostSpecificHostMatch needle sp wc = some needle := by
  unfold mostSpecificHostMatch
  simp [hn, h]

/-- `MostSpecificHostMatch` is independent of the enumeration order of both maps. -/
theorem mostSpecific_perm (needle : String) (sp sp' wc wc' : List String)
    (hs : sp.Perm sp') (hwc : wc.Perm wc') (hw : ∀ h ∈ wc, isWildcarded h = true) :
    mostSpecificHostMatch needle sp wc = mostSpecificHostMatch needle sp' wc' := by
  unfold mostSpecificHostMatch
  have c1 : wc.contains needle = wc'.contains needle := by
    rw [Bool.eq_iff_iff, List.contains_iff_mem, List.contains_iff_mem]; exact hwc.mem_iff
  have c2 : sp.contains needle = sp'.contains needle := by
    rw [Bool.eq_iff_iff, List.contains_iff_mem, List.contains_iff_mem]; exact hs.mem_iff
  rw [c1, c2, wildcardMatch_perm _ wc wc' hwc hw, wildcardMatch_perm needle wc wc' hwc hw]

example : mostSpecificHostMatch "a.api.example.com" ["api.example.com"] ["*.com", "*.api.example.com", "*.example.com"]
    = some "*.api.example.com" := by decide

/-! ## Alternate host names -/

/-- F-C12-3 (before the fix): for a service whose hostname is a parent of the proxy's DNS domain the
    "unique" part is empty and the empty string (and `:80`) became virtual-host domains. -/
theorem altHosts_empty_witness_unfixed :
    altHostsGenericUnfixed "campus.net" 80 "local.campus.net" = ["", ":80"] := by decide

/-- After the fix such a service only gets its absolute FQDN forms. -/
theorem altHosts_parent_domain_fixed :
    altHosts "campus.net" false 80 "local.campus.net" = ["campus.net.", "campus.net.:80"]
    ∧ altHosts "example.com" false 0 "example.com" = ["example.com."] := by decide

/-- Kubernetes names: same namespace gets `name`, `name.ns.svc`, `name.ns`; another namespace never
    gets the bare `name` (it would shadow the proxy's own namespace). -/
theorem altHosts_kube_examples :
    altHosts "reviews.default.svc.cluster.local" false 0 "default.svc.cluster.local"
      = ["reviews.default.svc.cluster.local.", "reviews", "reviews.default.svc", "reviews.default"]
    ∧ altHosts "reviews.other.svc.cluster.local" false 0 "default.svc.cluster.local"
      = ["reviews.other.svc.cluster.local.", "reviews.other", "reviews.other.svc"] := by decide

/-- Wildcard service names (/repo a8f0821): never abbreviated to the bare `*`, which is the domain of
    the catch-all virtual host; the namespace-qualified forms are kept. -/
theorem altHosts_wildcard_no_star :
    altHosts "*.default.svc.cluster.local" false 0 "default.svc.cluster.local"
      = ["*.default.svc.cluster.local.", "*.default", "*.default.svc"]
    ∧ altHosts "*.local.campus.net" false 0 "local.campus.net" = ["*.local.campus.net."] := by decide

/-! ## Non-vacuity -/

def exInputs : List VHInput :=
  [ { name := "reviews.default.svc.cluster.local:9080",
      domains := (generateVirtualHostDomains { hostname := "reviews.default.svc.cluster.local", addresses := ["10.0.0.1"] } 9080 9080 "default.svc.cluster.local" false).1,
      altHosts := (generateVirtualHostDomains { hostname := "reviews.default.svc.cluster.local", addresses := ["10.0.0.1"] } 9080 9080 "default.svc.cluster.local" false).2 },
    { name := "reviews.default:9080", domains := ["reviews.default", "REVIEWS", "x.example.com"] } ]

example : (buildVHosts [] exInputs [] []).map (·.domains) =
    [["reviews.default.svc.cluster.local", "reviews.default.svc.cluster.local.", "reviews", "reviews.default.svc",
      "reviews.default", "10.0.0.1"], ["x.example.com"]] := by decide
example : (selectVHost (buildVHosts [] exInputs [] []) "Reviews").map (·.name) = some "reviews.default.svc.cluster.local:9080" := by
  decide

end IstioModel.C12
