import IstioModel.C12.VHostsTheorems
import IstioModel.C12.Gateway

/-!
# C12 theorems, part 3: several VirtualServices merged on one gateway host

`gateway_merge_correct`: the route list `buildGatewayHTTPRouteConfig` builds for one virtual host -
the routes of every contributing VirtualService appended in order, then `SortVHostRoutes` - decides
every request as the source-level `mergedSpec` says: the first specific rule that fires
(VirtualServices in order, each one's rules before its own first catch-all), else the first catch-all.
No `sortSafe` side condition is needed: the deferral of catch-all rules is part of the spec.
-/
namespace IstioModel.C12

/-! ## list lemmas -/

theorem filter_not_takeThrough {α : Type} (p : α → Bool) (l : List α) :
    (takeThrough p l).filter (fun x => !p x) = l.takeWhile (fun x => !p x) := by
  induction l with
  | nil => rfl
  | cons x xs ih =>
    unfold takeThrough
    cases hx : p x <;> simp [List.takeWhile_cons, List.filter_cons, hx, ih]

theorem filter_takeThrough {α : Type} (p : α → Bool) (l : List α) :
    (takeThrough p l).filter p = (l.find? p).toList := by
  induction l with
  | nil => rfl
  | cons x xs ih =>
    unfold takeThrough
    cases hx : p x <;> simp [List.filter_cons, List.find?_cons, hx, ih]

theorem find?_congr_mem {α : Type} (p q : α → Bool) (l : List α) (h : ∀ x ∈ l, p x = q x) :
    l.find? p = l.find? q := by
  induction l with
  | nil => rfl
  | cons x xs ih =>
    simp only [List.find?_cons, h x (by simp)]
    rw [ih (fun y hy => h y (by simp [hy]))]

theorem takeWhile_congr_mem {α : Type} (p q : α → Bool) (l : List α) (h : ∀ x ∈ l, p x = q x) :
    l.takeWhile p = l.takeWhile q := by
  induction l with
  | nil => rfl
  | cons x xs ih =>
    simp only [List.takeWhile_cons, h x (by simp)]
    rw [ih (fun y hy => h y (by simp [hy]))]

theorem findSome?_congr_mem {α β : Type} (f g : α → Option β) (l : List α) (h : ∀ x ∈ l, f x = g x) :
    l.findSome? f = l.findSome? g := by
  induction l with
  | nil => rfl
  | cons x xs ih =>
    simp only [List.findSome?_cons, h x (by simp)]
    rw [ih (fun y hy => h y (by simp [hy]))]

theorem mem_of_mem_takeWhile {α : Type} (p : α → Bool) (l : List α) (x : α) (h : x ∈ l.takeWhile p) : x ∈ l :=
  (List.takeWhile_sublist p).subset h

/-- Decision of the first matching route, if any. -/
def evalOpt (re : Regex) (routes : List Route) (req : Request) : Option Decision :=
  (firstMatch re routes req).map (fun r => r.action.decision)

theorem evalRoutes_eq_evalOpt (re : Regex) (routes : List Route) (req : Request) :
    evalRoutes re routes req = (evalOpt re routes req).getD .notFound := by
  unfold evalRoutes evalOpt
  cases firstMatch re routes req <;> rfl

theorem evalOpt_append (re : Regex) (a b : List Route) (req : Request) :
    evalOpt re (a ++ b) req = (evalOpt re a req).or (evalOpt re b req) := by
  unfold evalOpt firstMatch
  rw [List.find?_append]
  cases List.find? (fun r => r.match.eval re req) a <;> simp

theorem evalOpt_flatMap {α : Type} (re : Regex) (l : List α) (g : α → List Route) (req : Request) :
    evalOpt re (l.flatMap g) req = l.findSome? (fun x => evalOpt re (g x) req) := by
  induction l with
  | nil => rfl
  | cons x xs ih =>
    simp only [List.flatMap_cons, evalOpt_append, ih, List.findSome?_cons]
    cases evalOpt re (g x) req <;> simp

/-! ## the untruncated translation as a map over the applicable (rule, block) pairs -/

def translatePair (c : Ctx) (vs : VirtualService) (p : HTTPRoute × Option HTTPMatch) : Route :=
  { name := routeName p.1 p.2, «match» := translateRouteMatch vs.sem p.2, action := translateAction c p.1 }

theorem compileRule_eq_pairs (c : Ctx) (vs : VirtualService) (r : HTTPRoute) :
    compileRule c vs r =
      (if r.matchBlocks.isEmpty then [(r, none)]
       else (r.matchBlocks.filter (fun m => applicable m c)).map (fun m => (r, some m))).map (translatePair c vs) := by
  unfold compileRule
  cases he : r.matchBlocks.isEmpty
  · simp only [Bool.false_eq_true, ↓reduceIte]
    induction r.matchBlocks with
    | nil => rfl
    | cons m ms ih =>
      rw [List.filterMap_cons, translateRoute_some]
      by_cases ha : applicable m c = true
      · simp [ha, ih, translatePair, List.filter_cons]
      · simp [ha, ih, List.filter_cons]
  · simp [translateRoute_none, translatePair]

theorem compileAll_eq_pairs (c : Ctx) (vs : VirtualService) :
    compileAll c vs = (applicablePairs c vs).map (translatePair c vs) := by
  unfold compileAll applicablePairs
  rw [List.map_flatMap]
  congr 1
  funext r
  rw [compileRule_eq_pairs]

theorem sortByName_eq_nil (l : List HeaderMatcher) : sortByName l = [] ↔ l = [] := by
  constructor
  · intro h
    cases l with
    | nil => rfl
    | cons x xs =>
      have : x ∈ sortByName (x :: xs) := (mem_sortByName x (x :: xs)).mpr (by simp)
      rw [h] at this; simp at this
  · intro h; subst h; rfl

theorem sortQByName_eq_nil (l : List QueryMatcher) : sortQByName l = [] ↔ l = [] := by
  constructor
  · intro h
    cases l with
    | nil => rfl
    | cons x xs =>
      have hall := all_sortQByName (fun _ => false) (x :: xs)
      rw [h] at hall
      simp at hall
  · intro h; subst h; rfl

theorem entries_nonempty (inv : Bool) (f : String × StringMatch → HeaderMatcher) (l : List (String × StringMatch))
    (h : l ≠ []) : (l.filter (fun e => !isClaimKey e)).map f ≠ [] ∨ claimMatchers inv l ≠ [] := by
  cases l with
  | nil => exact absurd rfl h
  | cons e es =>
    cases hc : claimPath e.1 with
    | none => left; simp [List.filter_cons, isClaimKey, hc]
    | some p => right; rw [claimMatchers_cons_some inv e es p hc]; simp

/-- Source-level catch-all test = `IsCatchAllRoute` on the translated route. -/
theorem srcCatchAll_correct (sem : Semantics) (m : HTTPMatch) (hp : prefixOK sem m = true) :
    isCatchAll { name := "", «match» := translateRouteMatch sem (some m), action := .none } = srcCatchAll m := by
  by_cases hne : m.headers = [] ∧ m.withoutHeaders = []
  case neg =>
    -- some `headers` / `withoutHeaders` entry: a header matcher or a metadata matcher is emitted
    have hr : srcCatchAll m = false := by
      unfold srcCatchAll
      by_cases h1 : m.headers = []
      · have h2 : m.withoutHeaders ≠ [] := fun h2 => hne ⟨h1, h2⟩
        cases hw : m.withoutHeaders with
        | nil => exact absurd hw h2
        | cons x xs => simp
      · cases hh : m.headers with
        | nil => exact absurd hh h1
        | cons x xs => simp
    rw [hr]
    unfold isCatchAll
    simp only [translateRouteMatch]
    have hdisj : (sortByName (((sortEntries m.headers).filter (fun e => !isClaimKey e)).map (fun e => translateHeaderMatch e.1 e.2)
          ++ ((sortEntries m.withoutHeaders).filter (fun e => !isClaimKey e)).map (fun e => translateWithoutHeader e.1 e.2))
          ++ pseudoHeader ":method" m.method ++ pseudoHeader ":authority" m.authority ++ pseudoHeader ":scheme" m.scheme).isEmpty = false
        ∨ (claimMatchers false (sortEntries m.headers) ++ claimMatchers true (sortEntries m.withoutHeaders)).isEmpty = false := by
      by_cases h1 : m.headers = []
      · have h2 : sortEntries m.withoutHeaders ≠ [] := fun h2 => hne ⟨h1, (sortEntries_eq_nil _).mp h2⟩
        rcases entries_nonempty true (fun e => translateWithoutHeader e.1 e.2) _ h2 with h | h
        · left
          rw [Bool.eq_false_iff]
          intro hx
          simp only [List.isEmpty_iff, List.append_eq_nil_iff, sortByName_eq_nil] at hx
          exact h hx.1.1.1.2
        · right
          rw [Bool.eq_false_iff]
          intro hx
          simp only [List.isEmpty_iff, List.append_eq_nil_iff] at hx
          exact h hx.2
      · have h2 : sortEntries m.headers ≠ [] := fun h2 => h1 ((sortEntries_eq_nil _).mp h2)
        rcases entries_nonempty false (fun e => translateHeaderMatch e.1 e.2) _ h2 with h | h
        · left
          rw [Bool.eq_false_iff]
          intro hx
          simp only [List.isEmpty_iff, List.append_eq_nil_iff, sortByName_eq_nil] at hx
          exact h hx.1.1.1.1
        · right
          rw [Bool.eq_false_iff]
          intro hx
          simp only [List.isEmpty_iff, List.append_eq_nil_iff] at hx
          exact h hx.1
    rcases hdisj with h | h
    · rw [h]; simp
    · rw [h]; simp
  obtain ⟨hh1, hh2⟩ := hne
  have hpath := translate_no_pathSepRoot sem m hp
  unfold isCatchAll srcCatchAll
  simp only [translateRouteMatch, hh1, hh2, sortEntries, List.filter_nil, List.map_nil, List.append_nil, sortByName,
    claimMatchers, List.filterMap_nil, List.isEmpty_nil, Bool.and_true, Bool.true_and, List.nil_append] at hpath ⊢
  have hhead : (pseudoHeader ":method" m.method ++ pseudoHeader ":authority" m.authority ++ pseudoHeader ":scheme" m.scheme).isEmpty
      = (m.method.isNone && m.authority.isNone && m.scheme.isNone) := by
    cases m.method <;> cases m.authority <;> cases m.scheme <;> simp [pseudoHeader]
  have hq : (sortQByName (m.queryParams.map (fun e => translateQueryMatch e.1 e.2))).isEmpty = m.queryParams.isEmpty := by
    rw [Bool.eq_iff_iff]
    simp only [List.isEmpty_iff, sortQByName_eq_nil, List.map_eq_nil_iff]
  rw [hhead, hq]
  cases hu : m.uri with
  | none => simp [translateUri, Bool.and_assoc, Bool.and_comm, Bool.and_left_comm]
  | some sm =>
    cases sm with
    | unset => simp [translateUri, Bool.and_assoc, Bool.and_comm, Bool.and_left_comm]
    | exact s => simp [translateUri]
    | regex r => simp [translateUri, Bool.and_assoc, Bool.and_comm, Bool.and_left_comm]
    | pfx p =>
      by_cases hc : ((sem == .ingress || sem == .gateway) && p != "/") = true
      · have hne : trimSlash p ≠ "/" := by
          intro he
          apply hpath
          simp [hu, translateUri, hc, he]
        simp only [Bool.and_eq_true, bne_iff_ne, ne_eq] at hc
        have hp2 : (p == "/") = false := by simpa using hc.2
        have ht : (trimSlash p == "/") = false := by simpa using hne
        have hcc : ((sem == .ingress || sem == .gateway) && p != "/") = true := by simp [hc.1, hc.2]
        simp [translateUri, hcc, hp2, ht]
      · simp [translateUri, hc, Bool.and_assoc, Bool.and_comm, Bool.and_left_comm]

theorem pairCatchAll_correct (c : Ctx) (vs : VirtualService) (p : HTTPRoute × Option HTTPMatch)
    (hp : ∀ m, p.2 = some m → prefixOK vs.sem m = true) :
    isCatchAll (translatePair c vs p) = pairCatchAll p := by
  obtain ⟨r, o⟩ := p
  cases o with
  | none => simp [translatePair, isCatchAll, translateRouteMatch, pairCatchAll]
  | some m =>
    have := srcCatchAll_correct vs.sem m (hp m rfl)
    simp only [translatePair, pairCatchAll]
    rw [← this]
    rfl

/-! ## one VirtualService's share of a merged virtual host -/

/-- Side conditions for every rule / block of a VirtualService (request well-formedness apart). -/
def vsOK (re : Regex) (vs : VirtualService) (req : Request) : Bool :=
  vs.http.all (fun r => redirectOK r && r.matchBlocks.all (fun m => withoutOK re m req && prefixOK vs.sem m))

theorem mem_applicablePairs (c : Ctx) (vs : VirtualService) (p : HTTPRoute × Option HTTPMatch)
    (h : p ∈ applicablePairs c vs) :
    p.1 ∈ vs.http ∧ ∀ m, p.2 = some m → m ∈ p.1.matchBlocks := by
  unfold applicablePairs at h
  rw [List.mem_flatMap] at h
  obtain ⟨r, hr, hp⟩ := h
  split at hp
  · simp only [List.mem_singleton] at hp
    subst hp
    exact ⟨hr, fun m hm => by cases hm⟩
  · rw [List.mem_map] at hp
    obtain ⟨m, hm, rfl⟩ := hp
    exact ⟨hr, fun m' hm' => by cases hm'; exact (List.mem_filter.mp hm).1⟩

theorem pair_facts (re : Regex) (c : Ctx) (vs : VirtualService) (req : Request)
    (hwf : req.wf = true) (hok : vsOK re vs req = true) (p : HTTPRoute × Option HTTPMatch)
    (h : p ∈ applicablePairs c vs) :
    isCatchAll (translatePair c vs p) = pairCatchAll p
    ∧ (translatePair c vs p).match.eval re req = pairHolds re vs.sem req p
    ∧ (translatePair c vs p).action.decision = specAction c p.1 := by
  obtain ⟨hr, hm⟩ := mem_applicablePairs c vs p h
  unfold vsOK at hok
  rw [List.all_eq_true] at hok
  have hrule := hok p.1 hr
  simp only [Bool.and_eq_true] at hrule
  have hblocks := hrule.2
  rw [List.all_eq_true] at hblocks
  refine ⟨?_, ?_, ?_⟩
  · apply pairCatchAll_correct
    intro m hpm
    have := hblocks m (hm m hpm)
    simp only [Bool.and_eq_true] at this
    exact this.2
  · obtain ⟨r, o⟩ := p
    cases o with
    | none => simp [translatePair, pairHolds, routeMatch_nil re vs.sem req hwf]
    | some m =>
      have := hblocks m (hm m rfl)
      simp only [Bool.and_eq_true] at this
      simp only [translatePair, pairHolds]
      exact routeMatch_correct re vs.sem m req hwf this.1
  · simp only [translatePair]
    exact action_correct c p.1 hrule.1

/-- The specific routes a VirtualService contributes, and what they decide. -/
theorem specific_share (re : Regex) (c : Ctx) (vs : VirtualService) (req : Request)
    (hwf : req.wf = true) (hok : vsOK re vs req = true) :
    evalOpt re ((compile c vs).filter (fun r => !isCatchAll r)) req =
      ((specificPairs c vs).find? (pairHolds re vs.sem req)).map (fun p => specAction c p.1) := by
  rw [compile_eq_takeThrough, filter_not_takeThrough, compileAll_eq_pairs, List.takeWhile_map]
  have htw : (applicablePairs c vs).takeWhile ((fun x => !isCatchAll x) ∘ translatePair c vs) = specificPairs c vs := by
    unfold specificPairs
    apply takeWhile_congr_mem
    intro p hp
    simp [(pair_facts re c vs req hwf hok p hp).1]
  rw [htw]
  unfold evalOpt firstMatch
  rw [List.find?_map, Option.map_map]
  have hf : (specificPairs c vs).find? ((fun r => r.match.eval re req) ∘ translatePair c vs)
      = (specificPairs c vs).find? (pairHolds re vs.sem req) := by
    apply find?_congr_mem
    intro p hp
    have hp' : p ∈ applicablePairs c vs := mem_of_mem_takeWhile _ _ _ hp
    simp [(pair_facts re c vs req hwf hok p hp').2.1]
  rw [hf]
  cases hfd : (specificPairs c vs).find? (pairHolds re vs.sem req) with
  | none => rfl
  | some p =>
    have hp' : p ∈ applicablePairs c vs := mem_of_mem_takeWhile _ _ _ (List.mem_of_find?_eq_some hfd)
    simp [(pair_facts re c vs req hwf hok p hp').2.2]

/-- The catch-all route a VirtualService contributes (at most one), and what it decides. -/
theorem catchall_share (re : Regex) (hre : DotStar re) (c : Ctx) (vs : VirtualService) (req : Request)
    (hwf : req.wf = true) (hok : vsOK re vs req = true) :
    evalOpt re ((compile c vs).filter isCatchAll) req =
      (catchAllPair c vs).map (fun p => specAction c p.1) := by
  rw [compile_eq_takeThrough, filter_takeThrough, compileAll_eq_pairs, List.find?_map]
  have hf : (applicablePairs c vs).find? (isCatchAll ∘ translatePair c vs) = catchAllPair c vs := by
    unfold catchAllPair
    apply find?_congr_mem
    intro p hp
    simp [(pair_facts re c vs req hwf hok p hp).1]
  rw [hf]
  cases hfd : catchAllPair c vs with
  | none => rfl
  | some p =>
    have hmem : p ∈ applicablePairs c vs := List.mem_of_find?_eq_some hfd
    have hca : pairCatchAll p = true := by simpa using List.find?_some hfd
    obtain ⟨f1, f2, f3⟩ := pair_facts re c vs req hwf hok p hmem
    have hca' : isCatchAll (translatePair c vs p) = true := by rw [f1]; exact hca
    -- a catch-all pair holds for every request
    have hholds : pairHolds re vs.sem req p = true := by
      rw [← f2]
      apply catchall_sound re hre _ req hwf _ hca'
      obtain ⟨r, o⟩ := p
      cases o with
      | none => simp [translatePair, translateRouteMatch]
      | some m =>
        simp only [translatePair]
        apply translate_no_pathSepRoot
        obtain ⟨hr, hm⟩ := mem_applicablePairs c vs (r, some m) hmem
        unfold vsOK at hok
        rw [List.all_eq_true] at hok
        have := hok r hr
        simp only [Bool.and_eq_true] at this
        have := List.all_eq_true.mp this.2 m (hm m rfl)
        simp only [Bool.and_eq_true] at this
        exact this.2
    simp [evalOpt, firstMatch, List.find?_cons, f2, hholds, f3]

/-! ## the merged virtual host -/

/-- **gateway_merge_correct.**  For every list of contributing (context, VirtualService) pairs, the
    routes of the merged gateway virtual host - concatenation in order, then `SortVHostRoutes` - decide
    every request as `mergedSpec`. -/
theorem gateway_merge_correct (re : Regex) (hre : DotStar re) (l : List (Ctx × VirtualService)) (req : Request)
    (hwf : req.wf = true) (hok : ∀ cv ∈ l, vsOK re cv.2 req = true) :
    evalRoutes re (sortVHostRoutes (l.flatMap (fun cv => compile cv.1 cv.2))) req = mergedSpec re l req := by
  rw [evalRoutes_eq_evalOpt]
  unfold sortVHostRoutes mergedSpec
  rw [evalOpt_append, List.filter_flatMap, List.filter_flatMap, evalOpt_flatMap, evalOpt_flatMap]
  have h1 : l.findSome? (fun cv => evalOpt re ((compile cv.1 cv.2).filter (fun r => !isCatchAll r)) req)
      = l.findSome? (fun cv => ((specificPairs cv.1 cv.2).find? (pairHolds re cv.2.sem req)).map (fun p => specAction cv.1 p.1)) :=
    findSome?_congr_mem _ _ l (fun cv hcv => specific_share re cv.1 cv.2 req hwf (hok cv hcv))
  have h2 : l.findSome? (fun cv => evalOpt re ((compile cv.1 cv.2).filter isCatchAll) req)
      = l.findSome? (fun cv => (catchAllPair cv.1 cv.2).map (fun p => specAction cv.1 p.1)) :=
    findSome?_congr_mem _ _ l (fun cv hcv => catchall_share re hre cv.1 cv.2 req hwf (hok cv hcv))
  rw [h1, h2]
  cases l.findSome? (fun cv => ((specificPairs cv.1 cv.2).find? (pairHolds re cv.2.sem req)).map (fun p => specAction cv.1 p.1)) with
  | some d => rfl
  | none =>
    cases l.findSome? (fun cv => (catchAllPair cv.1 cv.2).map (fun p => specAction cv.1 p.1)) <;> rfl

/-- For a single VirtualService the merged spec is the ordinary one. -/
theorem mergedSpec_single (re : Regex) (hre : DotStar re) (c : Ctx) (vs : VirtualService) (req : Request)
    (h : sideConditions re vs req = true) :
    mergedSpec re [(c, vs)] req = vsSpec re c vs req := by
  have hwf : req.wf = true := by
    unfold sideConditions at h; simp only [Bool.and_eq_true] at h; exact h.1
  have hok : vsOK re vs req = true := by
    unfold sideConditions at h; simp only [Bool.and_eq_true] at h; exact h.2
  rw [← gateway_merge_correct re hre [(c, vs)] req hwf (by intro cv hcv; simp at hcv; subst hcv; exact hok)]
  simp only [List.flatMap_cons, List.flatMap_nil, List.append_nil]
  rw [sortVHost_compile_id, vs_compile_correct re hre c vs req h]

/-! ## Non-vacuity -/

def exVS2 : VirtualService :=
  { name := "api", ns := "default", hosts := ["api.example.com"],
    http := [ { name := "v2", matchBlocks := [ { uri := some (.pfx "/v2") } ], route := [ { dest := { host := "v2.example.com" } } ] } ] }

/-- `exVS` ends in a catch-all (its regex `.*` rule); merged before `exVS2`, the specific `/v2` rule of
    the later VirtualService still wins over that catch-all. -/
example : mergedSpec exRe [(exCtx, exVS), (exCtx, exVS2)] { path := "/v2/x" } =
    .forward [("outbound|9080||v2.example.com", 1)] := by decide
example : vsOK exRe exVS { path := "/v2/x" } = true ∧ vsOK exRe exVS2 { path := "/v2/x" } = true := by decide

end IstioModel.C12
