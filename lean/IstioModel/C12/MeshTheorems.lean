import IstioModel.C12.GatewayTheorems
import IstioModel.C12.MeshModel
import IstioModel.C12.MeshFull

/-!
# C12 theorems, part 4: the sidecar route configuration end to end

`sidecar_rds_correct`: for every mesh, proxy context and request meeting the stated (decidable)
hypotheses, evaluating the composed model of the sidecar's route configuration - virtual host by
authority, then first matching route - gives exactly what the end-to-end SPEC `meshSpec` says.
-/
namespace IstioModel.C12

/-! ## the port-restricted registry -/

theorem applicable_sidecarCtx (m : HTTPMatch) (c : Ctx) : applicable m (sidecarCtx c) = applicable m c := rfl

theorem vsApplies_sidecarCtx (c : Ctx) (vs : VirtualService) : vsApplies (sidecarCtx c) vs = vsApplies c vs := rfl

theorem ruleFires_sidecarCtx (re : Regex) (c : Ctx) (vs : VirtualService) (r : HTTPRoute) (req : Request) :
    ruleFires re (sidecarCtx c) vs r req = ruleFires re c vs r req := rfl

theorem lookup_restrict (port : Nat) (svcs : List Service) (h : String)
    (hn : (svcs.map (·.host)).Nodup) :
    (restrictRegistry port svcs).find? (fun s => s.host == h) = filteredView port (svcs.find? (fun s => s.host == h)) := by
  induction svcs with
  | nil => rfl
  | cons s rest ih =>
    simp only [List.map_cons, List.nodup_cons] at hn
    have ih' := ih hn.2
    by_cases hs : (s.host == h) = true
    · -- the head is the service; no later service has this host
      have hnone : rest.find? (fun t => t.host == h) = none := by
        rw [List.find?_eq_none]
        intro t ht hth
        have : t.host = s.host := by
          have h1 : s.host = h := by simpa using hs
          have h2 : t.host = h := by simpa using hth
          rw [h1, h2]
        exact hn.1 (this ▸ List.mem_map.mpr ⟨t, ht, rfl⟩)
      by_cases hp : s.ports.contains port = true
      · simp only [restrictRegistry, List.filterMap_cons, hp, ↓reduceIte, List.find?_cons, hs, filteredView,
          Option.bind_some]
      · have hr : (restrictRegistry port rest).find? (fun t => t.host == h) = none := by
          rw [ih', hnone]; rfl
        simp only [restrictRegistry, List.filterMap_cons, hp, Bool.false_eq_true, ↓reduceIte, List.find?_cons, hs,
          filteredView, Option.bind_some]
        exact hr
    · by_cases hp : s.ports.contains port = true
      · simp only [restrictRegistry, List.filterMap_cons, hp, ↓reduceIte, List.find?_cons, hs, Bool.false_eq_true]
        exact ih'
      · simp only [restrictRegistry, List.filterMap_cons, hp, Bool.false_eq_true, ↓reduceIte, List.find?_cons, hs]
        exact ih'

theorem destinationCluster_sidecar (c : Ctx) (d : Destination) (hn : (c.services.map (·.host)).Nodup)
    (h : destViewOK c.listenPort (c.lookupService d.host) d = true) :
    destinationCluster (sidecarCtx c) d = destinationCluster c d := by
  unfold destinationCluster
  have hl : (sidecarCtx c).lookupService d.host = filteredView c.listenPort (c.lookupService d.host) := by
    unfold Ctx.lookupService sidecarCtx
    exact lookup_restrict c.listenPort c.services d.host hn
  rw [hl]
  obtain ⟨h1, h2⟩ := filteredView_sound c (c.lookupService d.host) d h
  have h1' : destPort (sidecarCtx c) (filteredView c.listenPort (c.lookupService d.host)) d
      = destPort c (filteredView c.listenPort (c.lookupService d.host)) d := rfl
  rw [h1', h1, h2]

theorem specAction_sidecar (c : Ctx) (r : HTTPRoute) (hn : (c.services.map (·.host)).Nodup)
    (h : r.route.all (fun d => destViewOK c.listenPort (c.lookupService d.dest.host) d.dest) = true) :
    specAction (sidecarCtx c) r = specAction c r := by
  unfold specAction
  cases r.redirect with
  | some rd => rfl
  | none =>
    cases r.direct with
    | some d => rfl
    | none =>
      simp only
      congr 1
      rw [List.all_eq_true] at h
      unfold specForward
      simp only [← cluster_correct]
      have hmap : ∀ ds : List RouteDest, (∀ d ∈ ds, d ∈ r.route) →
          ds.map (fun d => (destinationCluster (sidecarCtx c) d.dest, d.weight))
            = ds.map (fun d => (destinationCluster c d.dest, d.weight)) := by
        intro ds hds
        apply List.map_congr_left
        intro d hd
        rw [destinationCluster_sidecar c d.dest hn (h d (hds d hd))]
      cases hr : r.route with
      | nil => rfl
      | cons d0 rest =>
        cases rest with
        | nil =>
          simp only
          rw [destinationCluster_sidecar c d0.dest hn (h d0 (by simp [hr]))]
        | cons d1 rest' =>
          simp only
          apply hmap
          intro d hd
          rw [hr]
          exact (List.mem_filter.mp hd).1

theorem vsSpec_sidecar (re : Regex) (c : Ctx) (vs : VirtualService) (req : Request)
    (hn : (c.services.map (·.host)).Nodup) (h : destsOK c vs = true) :
    vsSpec re (sidecarCtx c) vs req = vsSpec re c vs req := by
  unfold vsSpec
  have hf : vs.http.find? (fun r => ruleFires re (sidecarCtx c) vs r req) = vs.http.find? (fun r => ruleFires re c vs r req) := rfl
  rw [hf]
  cases hfd : vs.http.find? (fun r => ruleFires re c vs r req) with
  | none => rfl
  | some r =>
    simp only
    unfold destsOK at h
    rw [List.all_eq_true] at h
    exact specAction_sidecar c r hn (h r (List.mem_of_find?_eq_some hfd))

/-! ## the routes of one service's virtual host -/

theorem evalRoutes_default (re : Regex) (port : Nat) (host : String) (req : Request) (hwf : req.wf = true) :
    evalRoutes re [defaultRoute port host] req = .forward [(subsetKey "" host port, 1)] := by
  unfold Request.wf at hwf
  simp [evalRoutes, firstMatch, defaultRoute, RouteMatch.eval, PathSpec.eval, hwf, Action.decision]

theorem compile_isEmpty_iff (c : Ctx) (vs : VirtualService) : (compile c vs).isEmpty = !vsApplies c vs := by
  have h := buildHTTPRoutes_none_iff c vs
  unfold buildHTTPRoutes at h
  simp only [compile]
  cases he : (ruleLoop c vs vs.http).isEmpty
  · simp only [he, Bool.false_eq_true, ↓reduceIte] at h
    cases hv : vsApplies c vs
    · exact absurd (h.mpr hv) (by simp)
    · rfl
  · simp only [he, ↓reduceIte, true_iff] at h
    simp [h]

theorem mem_of_vsChoiceModel (c : Ctx) (vss : List VirtualService) (hostname : String) (vs : VirtualService)
    (h : vsChoiceModel c vss hostname = some vs) : vs ∈ vss ∧ (compile (sidecarCtx c) vs).isEmpty = false := by
  unfold vsChoiceModel at h
  dsimp only at h
  split at h
  · have hm := List.mem_of_find?_eq_some h
    have hp := List.find?_some h
    exact ⟨(List.mem_filter.mp hm).1, by simpa using hp⟩
  · cases hv : vsForModel vss hostname with
    | none => rw [hv] at h; cases h
    | some v =>
      rw [hv] at h
      have hmem : v ∈ vss := by
        unfold vsForModel at hv
        cases hm : mostSpecificHostMatch hostname (fqdnHosts vss) (wildHosts vss) with
        | none => rw [hm] at hv; cases hv
        | some h' => rw [hm] at hv; exact List.mem_of_find?_eq_some hv
      simp only [Option.filter] at h
      split at h
      · cases h; rename_i hp; exact ⟨hmem, by simpa using hp⟩
      · cases h

/-- What the virtual host of service `s` decides: the chosen VirtualService, the default route otherwise. -/
theorem routesForSvc_correct (re : Regex) (hre : DotStar re) (c : Ctx) (vss : List VirtualService) (s : MeshSvc)
    (req : Request) (hwf : req.wf = true) (hn : (c.services.map (·.host)).Nodup)
    (hside : ∀ vs ∈ vss, sideConditions re vs req = true ∧ destsOK c vs = true) :
    evalRoutes re (routesForSvc c vss s) req =
      (match vsChoiceModel c vss s.host with
       | some vs => vsSpec re c vs req
       | none => .forward [(subsetKey "" s.host c.listenPort, 1)]) := by
  unfold routesForSvc
  cases hv : vsChoiceModel c vss s.host with
  | none => exact evalRoutes_default re c.listenPort s.host req hwf
  | some vs =>
    have hmem := (mem_of_vsChoiceModel c vss s.host vs hv).1
    simp only
    rw [vs_compile_correct re hre (sidecarCtx c) vs req (hside vs hmem).1, vsSpec_sidecar re c vs req hn (hside vs hmem).2]

/-! ## most specific VirtualService: the index lookup of the code = the declarative choice of the spec -/

theorem longestStr_spec (l : List String) :
    (longestStr l = none ↔ l = []) ∧
    (∀ x, longestStr l = some x → x ∈ l ∧ ∀ y ∈ l, y.length ≤ x.length) := by
  induction l with
  | nil => simp [longestStr]
  | cons h hs ih =>
    unfold longestStr
    cases hl : longestStr hs with
    | none =>
      have : hs = [] := ih.1.mp hl
      subst this
      simp
    | some b =>
      obtain ⟨hb1, hb2⟩ := ih.2 b hl
      simp only
      by_cases hc : b.length > h.length
      · simp only [hc, ↓reduceIte]
        refine ⟨by simp, ?_⟩
        intro x hx
        cases hx
        refine ⟨by simp [hb1], ?_⟩
        intro y hy
        rcases List.mem_cons.mp hy with rfl | hy'
        · omega
        · exact hb2 y hy'
      · simp only [hc, ↓reduceIte]
        refine ⟨by simp, ?_⟩
        intro x hx
        cases hx
        refine ⟨by simp, ?_⟩
        intro y hy
        rcases List.mem_cons.mp hy with rfl | hy'
        · exact Nat.le_refl _
        · have := hb2 y hy'; omega

theorem lower_drop1 (h : String) : lower (drop1 h) = drop1 (lower h) := by
  unfold lower drop1 cs mk
  simp [String.toList_ofList, List.map_drop]

/-- The code's index lookup finds the same host as the spec's "longest matching wildcard". -/
theorem wildcardMatch_eq_longestStr (needle : String) (w : List String)
    (hw : ∀ h ∈ w, isWildcarded h = true) :
    wildcardMatch needle w none = longestStr (w.filter (fun h => wcMatches needle h)) := by
  cases hr : wildcardMatch needle w none with
  | none =>
    have hnone := (wildcardMatch_none needle w).mp hr
    have : w.filter (fun h => wcMatches needle h) = [] := by
      rw [List.filter_eq_nil_iff]
      intro h hh
      simp [hnone h hh]
    rw [this]; rfl
  | some x =>
    obtain ⟨hx1, hx2, hx3⟩ := wildcardMatch_longest needle w x hr
    cases hl : longestStr (w.filter (fun h => wcMatches needle h)) with
    | none =>
      have := (longestStr_spec _).1.mp hl
      have hmem : x ∈ w.filter (fun h => wcMatches needle h) := List.mem_filter.mpr ⟨hx1, hx2⟩
      rw [this] at hmem; simp at hmem
    | some y =>
      obtain ⟨hy1, hy2⟩ := (longestStr_spec _).2 y hl
      have hyw := List.mem_filter.mp hy1
      have h1 := hx3 y hyw.1 hyw.2
      have h2 := hy2 x (List.mem_filter.mpr ⟨hx1, hx2⟩)
      have := wcMatches_same_length_eq needle x y (hw x hx1) (hw y hyw.1) hx2 hyw.2 (by omega)
      rw [this]

theorem vsForModel_eq_vsFor (vss : List VirtualService) (hostname : String)
    (hl : ∀ v ∈ vss, ∀ h ∈ v.hosts, lower h = h) (hnw : isWildcarded hostname = false) :
    vsForModel vss hostname = vsFor vss hostname := by
  unfold vsForModel vsFor mostSpecificHostMatch
  simp only [hnw, Bool.false_eq_true, ↓reduceIte]
  -- the exact-host test of the spec, on members, is plain membership
  have hpred : ∀ v ∈ vss, v.hosts.any (fun h => !isWildcarded h && lower h == hostname) = v.hosts.contains hostname := by
    intro v hv
    rw [Bool.eq_iff_iff, List.any_eq_true, List.contains_iff_mem]
    constructor
    · rintro ⟨h, hh, hc⟩
      simp only [Bool.and_eq_true, beq_iff_eq] at hc
      rw [hl v hv h hh] at hc
      rw [← hc.2]; exact hh
    · intro hm
      exact ⟨hostname, hm, by simp [hnw, hl v hv hostname hm]⟩
  have hfind : vss.find? (fun v => v.hosts.any (fun h => !isWildcarded h && lower h == hostname))
      = vss.find? (fun v => v.hosts.contains hostname) := find?_congr_mem _ _ vss hpred
  rw [hfind]
  by_cases hc : (fqdnHosts vss).contains hostname = true
  · simp only [hc, ↓reduceIte, Option.bind_some, vsOfHost]
    -- some VirtualService lists the hostname, so the search succeeds
    have hex : ∃ v ∈ vss, v.hosts.contains hostname = true := by
      rw [List.contains_iff_mem] at hc
      unfold fqdnHosts at hc
      obtain ⟨hm, _⟩ := List.mem_filter.mp hc
      obtain ⟨v, hv, hvh⟩ := List.mem_flatMap.mp hm
      exact ⟨v, hv, List.contains_iff_mem.mpr hvh⟩
    cases hf : vss.find? (fun v => v.hosts.contains hostname) with
    | none =>
      obtain ⟨v, hv, hvh⟩ := hex
      have := List.find?_eq_none.mp hf v hv
      exact absurd hvh (by simpa using this)
    | some v => rfl
  · simp only [hc, Bool.false_eq_true, ↓reduceIte]
    have hnone : vss.find? (fun v => v.hosts.contains hostname) = none := by
      rw [List.find?_eq_none]
      intro v hv hvh
      apply hc
      rw [List.contains_iff_mem]
      unfold fqdnHosts
      exact List.mem_filter.mpr ⟨List.mem_flatMap.mpr ⟨v, hv, List.contains_iff_mem.mp (by simpa using hvh)⟩, by simp [hnw]⟩
    rw [hnone]
    simp only
    have hww : ∀ h ∈ wildHosts vss, isWildcarded h = true := by
      intro h hh; unfold wildHosts at hh; exact (List.mem_filter.mp hh).2
    rw [wildcardMatch_eq_longestStr hostname (wildHosts vss) hww]
    have hfil : (wildHosts vss).filter (fun h => wcMatches hostname h) = matchingWildcards vss hostname := by
      unfold wildHosts matchingWildcards
      rw [List.filter_filter]
      apply List.filter_congr
      intro h hh
      obtain ⟨v, hv, hvh⟩ := List.mem_flatMap.mp hh
      have : lower (drop1 h) = drop1 h := by rw [lower_drop1, hl v hv h hvh]
      rw [this, Bool.and_comm]
      rfl
    rw [hfil]
    rfl

theorem applies_model (c : Ctx) : (fun v : VirtualService => !(compile (sidecarCtx c) v).isEmpty) = vsApplies c := by
  funext v
  rw [compile_isEmpty_iff, vsApplies_sidecarCtx]
  simp

/-- The wrapper logic of the code chooses the VirtualService the spec names (given the F-C12-6 side
    condition for wildcard hosts). -/
theorem vsChoice_eq (c : Ctx) (vss : List VirtualService) (hostname : String)
    (hl : ∀ v ∈ vss, ∀ h ∈ v.hosts, lower h = h) (hnw : isWildcarded hostname = false)
    (hw : ((longestStr (matchingWildcards vss hostname)).bind (oldestWithHost vss)).filter (vsApplies c)
      = (match longestStr (matchingWildcards vss hostname) with
         | some h => (vss.filter (fun v => v.hosts.contains h)).find? (vsApplies c)
         | none => none)) :
    vsChoiceModel c vss hostname = vsChoice c vss hostname := by
  unfold vsChoiceModel vsChoice
  dsimp only
  have hpred : ∀ v ∈ vss, v.hosts.any (fun h => !isWildcarded h && lower h == hostname) = v.hosts.contains hostname := by
    intro v hv
    rw [Bool.eq_iff_iff, List.any_eq_true, List.contains_iff_mem]
    constructor
    · rintro ⟨h, hh, hc⟩
      simp only [Bool.and_eq_true, beq_iff_eq] at hc
      rw [hl v hv h hh] at hc
      rw [← hc.2]; exact hh
    · intro hm
      exact ⟨hostname, hm, by simp [hnw, hl v hv hostname hm]⟩
  have hfil : vss.filter (fun v => v.hosts.any (fun h => !isWildcarded h && lower h == hostname))
      = vss.filter (fun v => v.hosts.contains hostname) := by
    apply List.filter_congr
    intro v hv; exact hpred v hv
  rw [hfil, applies_model]
  by_cases he : (vss.filter (fun v => v.hosts.contains hostname)).isEmpty = true
  · simp only [he, Bool.not_true, Bool.false_eq_true, ↓reduceIte]
    -- no VirtualService lists the hostname: the index is the wildcard index
    have hnone : vss.find? (fun v => v.hosts.any (fun h => !isWildcarded h && lower h == hostname)) = none := by
      rw [List.find?_eq_none]
      intro v hv hc
      have : v ∈ vss.filter (fun v => v.hosts.contains hostname) := List.mem_filter.mpr ⟨hv, by rw [← hpred v hv]; exact hc⟩
      rw [List.isEmpty_iff] at he
      rw [he] at this; simp at this
    have := vsForModel_eq_vsFor vss hostname hl hnw
    unfold vsFor at this
    rw [hnone] at this
    simp only at this
    rw [this]
    exact hw
  · have he' : (vss.filter (fun v => v.hosts.contains hostname)).isEmpty = false := by simpa using he
    simp only [he', Bool.not_false, ↓reduceIte]

/-! ## virtual-host selection on the composed configuration -/

theorem mem_insertSvcByHost (x s : MeshSvc) (l : List MeshSvc) : x ∈ insertSvcByHost s l ↔ x = s ∨ x ∈ l := by
  induction l with
  | nil => simp [insertSvcByHost]
  | cons y ys ih =>
    unfold insertSvcByHost
    split
    · simp only [List.mem_cons, ih]
      constructor
      · rintro (h | h | h) <;> simp [h]
      · rintro (h | h | h) <;> simp [h]
    · simp [List.mem_cons]

theorem mem_sortSvcsByHost (x : MeshSvc) (l : List MeshSvc) : x ∈ sortSvcsByHost l ↔ x ∈ l := by
  induction l with
  | nil => simp [sortSvcsByHost]
  | cons y ys ih => simp [sortSvcsByHost, mem_insertSvcByHost, ih]

theorem mem_vhostOrder (c : Ctx) (m : Mesh) (s : MeshSvc) : s ∈ vhostOrder c m ↔ s ∈ onPort c m := by
  unfold vhostOrder onPort
  simp only [List.mem_append, List.mem_flatMap, mem_sortSvcsByHost, List.mem_filter]
  constructor
  · rintro (⟨vs, _, h, _⟩ | ⟨h, _⟩) <;> exact h
  · intro h
    by_cases hw : hasWrapper c m.vss s = true
    · left
      unfold hasWrapper at hw
      cases hv : vsChoiceModel c m.vss s.host with
      | none => rw [hv] at hw; cases hw
      | some v =>
        have hmem : v ∈ m.vss := (mem_of_vsChoiceModel c m.vss s.host v hv).1
        refine ⟨v, hmem, h, ?_⟩
        have hw' : hasWrapper c m.vss s = true := by unfold hasWrapper; rw [hv]; rfl
        simp [hw', hv]
    · right
      exact ⟨h, by simpa using hw⟩

theorem allDomains_append (a b : List VirtualHost) : allDomains (a ++ b) = allDomains a ++ allDomains b := by
  simp [allDomains, List.flatMap_append]

theorem star_facts : isSuffixWildcard "*" = false ∧ isPrefixWildcard "*" = false ∧ lower "*" = "*" := by decide

/-- With no exact and no wildcard candidate among the service virtual hosts, the catch-all virtual
    host answers. -/
theorem select_fallback (vhs : List VirtualHost) (authority : String)
    (h : ∀ p ∈ allDomains vhs, (lower p.2 == lower authority) = false
        ∧ suffixWildcardMatches (lower p.2) (lower authority) = false
        ∧ prefixWildcardMatches (lower p.2) (lower authority) = false ∧ (p.2 == "*") = false) :
    selectVHost (vhs ++ [catchAllVHost]) authority = some catchAllVHost := by
  unfold selectVHost
  simp only [allDomains_append]
  have hca : allDomains [catchAllVHost] = [(catchAllVHost, "*")] := by simp [allDomains, catchAllVHost]
  rw [hca]
  have e1 : (allDomains vhs).find? (fun p => lower p.2 == lower authority) = none := by
    rw [List.find?_eq_none]; intro p hp; simp [(h p hp).1]
  have e2 : (allDomains vhs).filter (fun p => suffixWildcardMatches (lower p.2) (lower authority)) = [] := by
    rw [List.filter_eq_nil_iff]; intro p hp; simp [(h p hp).2.1]
  have e3 : (allDomains vhs).filter (fun p => prefixWildcardMatches (lower p.2) (lower authority)) = [] := by
    rw [List.filter_eq_nil_iff]; intro p hp; simp [(h p hp).2.2.1]
  have e4 : (allDomains vhs).find? (fun p => p.2 == "*") = none := by
    rw [List.find?_eq_none]; intro p hp; simp [(h p hp).2.2.2]
  have s1 : suffixWildcardMatches (lower "*") (lower authority) = false := by
    simp [suffixWildcardMatches, star_facts.2.2, star_facts.1]
  have s2 : prefixWildcardMatches (lower "*") (lower authority) = false := by
    simp [prefixWildcardMatches, star_facts.2.2, star_facts.2.1]
  simp only [List.find?_append, e1, Option.none_or, List.filter_append, e2, e3, List.nil_append, e4]
  by_cases hx : (lower "*" == lower authority) = true
  · simp [List.find?_cons, hx]
  · simp [List.find?_cons, hx, List.filter_cons, s1, s2, longest]

theorem evalRoutes_catchAll (re : Regex) (req : Request) (hwf : req.wf = true) :
    evalRoutes re catchAllVHost.routes req = .forward [("PassthroughCluster", 1)] := by
  unfold Request.wf at hwf
  simp [evalRoutes, firstMatch, catchAllVHost, RouteMatch.eval, PathSpec.eval, hwf, Action.decision]

/-! ## end to end -/

/-- **sidecar_rds_correct.**  For every mesh, sidecar context and request: if the (decidable) hypotheses
    `rdsCert` (generated domains = DNS search-path names, no name claimed twice, no wildcard domain,
    hygiene) and `meshSide` (well-formed request, side conditions of `vs_compile_correct`, F-C12-4
    condition) hold, then evaluating the composed route configuration - virtual host by authority, then
    first matching route - gives exactly what the VirtualService applicable to the addressed service
    says, the service's default route when none applies, and the passthrough route for an authority
    that names no service of the port.  `certVSHosts` (every VirtualService host is lower-case and names or
    matches a service of the port; lower-case service hostnames; listener port other than 80; the outbound
    traffic policy in force - a field of the mesh as the proxy sees it - is plain ALLOW_ANY; no service is a
    `Resolution: Alias` or headless service; HTTP ports only) and `certRegistry` (the context's registry is the
    mesh's) are NOT used by the proof: they delimit the meshes on which the simple model `sidecarRDS` is claimed
    to describe the code.  Outside them the code builds other virtual hosts (`sidecarRDSFull`: REGISTRY_ONLY
    answers 502 where this theorem says passthrough, an ExternalName service without its concrete service has
    no virtual host, ...).  That `sidecarRDS = sidecarRDSFull` inside them is checked by the driver on EVERY
    generated build where the hypotheses hold (evidence counters), not proved. -/
theorem sidecar_rds_correct (re : Regex) (hre : DotStar re) (c : Ctx) (m : Mesh) (req : Request)
    (hcert : rdsCert c m = true) (_hvs : certVSHosts c m = true) (_hreg : certRegistry c m = true)
    (hside : meshSide re c m req = true) :
    evalRouteConfig re true (sidecarRDS c m) req = meshSpec re c m req := by
  unfold rdsCert at hcert
  simp only [Bool.and_eq_true] at hcert
  obtain ⟨⟨⟨⟨hnd, hnames⟩, hplain⟩, hhyg⟩, hwild⟩ := hcert
  unfold meshSide at hside
  simp only [Bool.and_eq_true] at hside
  obtain ⟨hwf, hvs⟩ := hside
  rw [List.all_eq_true] at hvs
  unfold certHygiene at hhyg
  simp only [Bool.and_eq_true, decide_eq_true_eq] at hhyg
  obtain ⟨⟨hlow, hnw⟩, hnodup⟩ := hhyg
  rw [List.all_eq_true] at hlow hnw
  have hlow' : ∀ v ∈ m.vss, ∀ h ∈ v.hosts, lower h = h := by
    intro v hv h hh
    have := List.all_eq_true.mp (hlow v hv) h hh
    simpa using this
  -- the virtual hosts are exactly one per service of the port, nothing dropped
  have hrds : sidecarRDS c m = (vhostOrder c m).map (fun s => plainVHost (svcInput c m s)) ++ [catchAllVHost] := by
    unfold sidecarRDS
    unfold certNoDrop at hnd
    rw [of_decide_eq_true hnd]
  have huniq0 : ((allDomains ((vhostOrder c m).map (fun s => plainVHost (svcInput c m s)))).map (fun p => lower p.2)).Nodup := by
    have := domains_unique (knownFQDNs c m) ((vhostOrder c m).map (svcInput c m))
    unfold certNoDrop at hnd
    rw [of_decide_eq_true hnd] at this
    exact this
  -- facts about every (virtual host, domain) pair of the service part
  have hpairs : ∀ p ∈ allDomains ((vhostOrder c m).map (fun s => plainVHost (svcInput c m s))),
      ∃ s ∈ onPort c m, p.1 = plainVHost (svcInput c m s) ∧ p.2 ∈ (svcDomains c m s).1 := by
    intro p hp
    unfold allDomains at hp
    obtain ⟨v, hv, hpd⟩ := List.mem_flatMap.mp hp
    obtain ⟨s, hs, rfl⟩ := List.mem_map.mp hv
    obtain ⟨d, hd, rfl⟩ := List.mem_map.mp hpd
    exact ⟨s, (mem_vhostOrder c m s).mp hs, rfl, hd⟩
  unfold certPlain at hplain
  rw [List.all_eq_true] at hplain
  unfold certNames at hnames
  rw [List.all_eq_true] at hnames
  rw [hrds]
  unfold evalRouteConfig meshSpec hostForMatching
  dsimp only
  simp only [↓reduceIte]
  cases hfind : (m.svcs.filter (fun s => s.ports.contains c.listenPort)).find?
      (fun s => (svcNames s m.proxyDomain).any (fun n => lower n == lower (stripPort req.authority))) with
  | some s =>
    have hs : s ∈ onPort c m := List.mem_of_find?_eq_some hfind
    have hany := List.find?_some hfind
    obtain ⟨n, hn, hne⟩ := List.any_eq_true.mp hany
    have hne' : lower n = lower (stripPort req.authority) := by simpa using hne
    -- the name is one of the generated domains
    have hnm := hnames s hs
    simp only [Bool.and_eq_true] at hnm
    have hcont := List.all_eq_true.mp hnm.2 (lower n) (List.mem_map.mpr ⟨n, hn, rfl⟩)
    obtain ⟨d, hd, hde⟩ := List.mem_map.mp (List.contains_iff_mem.mp hcont)
    have hv : plainVHost (svcInput c m s) ∈ (vhostOrder c m).map (fun s => plainVHost (svcInput c m s)) ++ [catchAllVHost] :=
      List.mem_append_left _ (List.mem_map.mpr ⟨s, (mem_vhostOrder c m s).mpr hs, rfl⟩)
    have hd' : d ∈ (plainVHost (svcInput c m s)).domains := hd
    -- uniqueness of domains including the catch-all's `*`
    have huniq : ((allDomains ((vhostOrder c m).map (fun s => plainVHost (svcInput c m s)) ++ [catchAllVHost])).map
        (fun p => lower p.2)).Nodup := by
      rw [allDomains_append, List.map_append, List.nodup_append]
      refine ⟨huniq0, by simp [allDomains, catchAllVHost], ?_⟩
      intro a ha b hb hab
      obtain ⟨p, hp, rfl⟩ := List.mem_map.mp ha
      obtain ⟨s', hs', _, hpd⟩ := hpairs p hp
      have := List.all_eq_true.mp (hplain s' hs') p.2 hpd
      simp only [Bool.and_eq_true, bne_iff_ne, ne_eq] at this
      have hb' : b = "*" := by
        simp [allDomains, catchAllVHost] at hb
        rw [hb]; exact star_facts.2.2
      exact this.1.1.2 (hab.trans hb')
    rw [select_unique _ (plainVHost (svcInput c m s)) d (stripPort req.authority) huniq hv hd' (by rw [← hne', hde])]
    simp only [plainVHost, svcInput, Bool.false_and, Bool.false_eq_true, ↓reduceIte]
    rw [routesForSvc_correct re hre c m.vss s req hwf hnodup
        (fun vs hvs' => by have := hvs vs hvs'; simpa [Bool.and_eq_true] using this)]
    unfold certWild at hwild
    rw [List.all_eq_true] at hwild
    rw [vsChoice_eq c m.vss s.host hlow' (by simpa using hnw s (List.mem_filter.mp hs).1) (of_decide_eq_true (hwild s hs))]
    unfold decideFor
    cases vsChoice c m.vss s.host <;> rfl
  | none =>
    have hno := List.find?_eq_none.mp hfind
    have hfb : selectVHost ((vhostOrder c m).map (fun s => plainVHost (svcInput c m s)) ++ [catchAllVHost]) (stripPort req.authority)
        = some catchAllVHost := by
      apply select_fallback
      intro p hp
      obtain ⟨s, hs, _, hpd⟩ := hpairs p hp
      have hpl := List.all_eq_true.mp (hplain s hs) p.2 hpd
      simp only [Bool.and_eq_true, bne_iff_ne, ne_eq, Bool.not_eq_true'] at hpl
      refine ⟨?_, ?_, ?_, ?_⟩
      · -- an equal domain would be a name of `s`
        cases hq : (lower p.2 == lower (stripPort req.authority))
        · rfl
        · exfalso
          have hnm := hnames s hs
          simp only [Bool.and_eq_true] at hnm
          have hcont := List.all_eq_true.mp hnm.1 (lower p.2) (List.mem_map.mpr ⟨p.2, hpd, rfl⟩)
          obtain ⟨n, hn, hne⟩ := List.mem_map.mp (List.contains_iff_mem.mp hcont)
          have := hno s hs
          apply this
          rw [List.any_eq_true]
          exact ⟨n, hn, by rw [hne]; exact hq⟩
      · simp [suffixWildcardMatches, hpl.1.2]
      · simp [prefixWildcardMatches, hpl.2]
      · simpa using hpl.1.1.1
    rw [hfb]
    simp only [catchAllVHost, Bool.false_and, Bool.false_eq_true, ↓reduceIte]
    exact evalRoutes_catchAll re req hwf

/-! ## Non-vacuity -/

def exMesh : Mesh :=
  { svcs := [ { host := "reviews.default.svc.cluster.local", ns := "default", ports := [9080], addr := "10.0.0.1" },
              { host := "ratings.other.svc.cluster.local", ns := "other", ports := [9080, 8080] } ],
    vss := [ exVS ], proxyDomain := "default.svc.cluster.local", built := true }

def exMeshCtx : Ctx :=
  { exCtx with services := [ { host := "reviews.default.svc.cluster.local", ports := [9080] },
                             { host := "ratings.other.svc.cluster.local", ports := [9080, 8080] } ] }

example : rdsCert exMeshCtx exMesh = true ∧ certVSHosts exMeshCtx exMesh = true ∧ certRegistry exMeshCtx exMesh = true := by
  decide +kernel
example : meshSide exRe exMeshCtx exMesh { exReq with authority := "Reviews" } = true := by decide +kernel
/-- the short name `reviews` (any case) reaches the VirtualService of the proxy's own namespace ... -/
example : evalRouteConfig exRe true (sidecarRDS exMeshCtx exMesh) { exReq with authority := "Reviews:9080" } =
    .forward [("outbound|9080|v2|reviews.default.svc.cluster.local", 20),
              ("outbound|9080|v1|reviews.default.svc.cluster.local", 80)] := by decide +kernel
/-- ... a service of another namespace is not reachable by its bare name (passthrough) but by `name.ns`. -/
example : evalRouteConfig exRe true (sidecarRDS exMeshCtx exMesh) { exReq with authority := "ratings" } =
      .forward [("PassthroughCluster", 1)]
    ∧ evalRouteConfig exRe true (sidecarRDS exMeshCtx exMesh) { exReq with authority := "ratings.other" } =
      .forward [("outbound|9080||ratings.other.svc.cluster.local", 1)] := by decide +kernel

end IstioModel.C12
