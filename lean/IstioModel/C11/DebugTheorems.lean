import IstioModel.C11.Lemmas

/-!
C11 - the other VerifiedIdentity-gated surfaces (debug generator, status generator, API generator), as modelled by
`debugOutcome`, `debugVisible`, `debugDump`, `debugAnswer`: who is served, whose data, and never a private key.
-/
namespace IstioModel.C11

/-- **debug_needs_verified_namespace.** Only an asker with a `VerifiedIdentity` whose namespace is non-empty is served by
    the debug / status / API generators; `syncz` of the debug generator and the API generator need the system namespace. -/
theorem debug_needs_verified_namespace (asker : Option Identity) (q : DebugQuery)
    (h : debugOutcome asker q = .accepted) :
    ∃ id, asker = some id ∧ id.ns ≠ [] ∧ ((q = .syncz ∨ q = .api) → id.ns = systemNs) := by
  unfold debugOutcome at h
  cases asker with
  | none => cases h
  | some id =>
    simp only at h
    split at h
    · cases h
    · rename_i hne
      refine ⟨id, rfl, hne, ?_⟩
      intro hq
      cases hq with
      | inl hq => subst hq; simp only at h; split at h; assumption; cases h
      | inr hq => subst hq; simp only at h; split at h; assumption; cases h

/-- **debug_answer_sound.** Everything a debug / status / API answer contains is the *redacted* view of a secret the
    victim proxy itself was entitled to (its own SDS answer), and it goes only to an asker with a non-empty verified
    namespace that is the system namespace or exactly the victim's (config) namespace - no prefix, suffix or case variant,
    and never an asker without namespace. -/
theorem debug_answer_sound (asker : Option Identity) (q : DebugQuery) (victimNs : Str) (secrets : List (Str × Val))
    (x : Str) (h : x ∈ debugAnswer asker q victimNs secrets) :
    ∃ id, asker = some id ∧ id.ns ≠ [] ∧ (id.ns = systemNs ∨ victimNs = id.ns) ∧
      ∃ name v, (name, v) ∈ secrets ∧ x = v.redacted := by
  unfold debugAnswer at h
  split at h
  · rename_i hacc
    obtain ⟨id, hid, hne, _⟩ := debug_needs_verified_namespace asker q hacc
    subst hid
    unfold debugDump at h
    simp only at h
    have hvis : ∀ (y : Str), y ∈ (if debugVisible id victimNs then secrets.map (fun e => e.2.redacted) else []) →
        (id.ns = systemNs ∨ victimNs = id.ns) ∧ ∃ name v, (name, v) ∈ secrets ∧ y = v.redacted := by
      intro y hy
      split at hy
      · rename_i hv
        unfold debugVisible at hv
        simp only [Bool.or_eq_true, decide_eq_true_eq] at hv
        rw [List.mem_map] at hy
        obtain ⟨e, he, hey⟩ := hy
        exact ⟨hv, e.1, e.2, he, hey.symm⟩
      · cases hy
    cases q <;> first
      | (have h' : x ∈ (if debugVisible id victimNs then secrets.map (fun e => e.2.redacted) else []) := h
         obtain ⟨h1, h2⟩ := hvis x h'
         exact ⟨id, rfl, hne, h1, h2⟩)
      | (exact absurd h List.not_mem_nil)
  · cases h

/-- **debug_answer_no_key.** The redacted view of a secret is its certificate chain or CA certificate; the private key
    is not part of it - also when the proxy uses a private key provider (`toEnvoyTLSSecret` only moves the key). -/
theorem debug_answer_no_key (c k : Str) : (Val.tls c k).redacted = c ∧ ∀ ca, (Val.ca ca).redacted = ca :=
  ⟨rfl, fun _ => rfl⟩

/-- An asker whose namespace merely resembles the victim's (here: a prefix) gets nothing. -/
example : debugAnswer (some ⟨"td".toList, "ns".toList, "x".toList⟩) .sds "ns1".toList
    [("kubernetes://a".toList, .tls "C".toList "K".toList)] = [] := by decide

example : debugAnswer (some ⟨"td".toList, [], "x".toList⟩) .sgdump "ns1".toList
    [("kubernetes://a".toList, .tls "C".toList "K".toList)] = [] := by decide

example : debugAnswer (some ⟨"td".toList, "ns1".toList, "x".toList⟩) .sds "ns1".toList
    [("kubernetes://a".toList, .tls "C".toList "K".toList)] = ["C".toList] := by decide

end IstioModel.C11
