import IstioModel.C11.Lemmas

/-!
C11 - resource-name parsing and the cache key (`credentials.ParseResourceName`, `SecretResource.Key`).
-/
namespace IstioModel.C11

/-- Shape of every successful `ParseResourceName`: the scheme fixes the type, the namespace is the first
    path segment when there is more than one segment and the proxy namespace only in the implicit
    `kubernetes://<name>` form, the name is the second (or only) segment - later segments are ignored. -/
theorem parse_some {rn vns pc cc : Str} {sr : SR} (h : parseResourceName rn vns pc cc = some sr) :
    sr.resourceName = rn ∧ '/' ∉ sr.name ∧
    ((sr.rtype = .kubernetes ∧ sr.cluster = pc ∧ ∃ res, rn = kubernetesURI ++ res ∧
        ((split '/' res = [sr.name] ∧ sr.ns = vns) ∨ ∃ more, split '/' res = sr.ns :: sr.name :: more)) ∨
     (sr.rtype = .configmap ∧ sr.cluster = cc ∧ sr.ns ≠ [] ∧ sr.name ≠ [] ∧
        ∃ res more, rn = configmapURI ++ res ∧ split '/' res = sr.ns :: sr.name :: more) ∨
     (sr.rtype = .gateway ∧ sr.cluster = cc ∧ sr.ns ≠ [] ∧ sr.name ≠ [] ∧
        ∃ res more, rn = gatewayURI ++ res ∧ split '/' res = sr.ns :: sr.name :: more) ∨
     (sr.rtype = .invalid ∧ sr.cluster = cc ∧ sr.name = [] ∧ sr.ns = [] ∧ ∃ res, rn = invalidURI ++ res)) := by
  have nsName : ∀ (t : RType) (res cl : Str), parseNsName t rn res cl = some sr →
      sr.resourceName = rn ∧ '/' ∉ sr.name ∧ sr.rtype = t ∧ sr.cluster = cl ∧ sr.ns ≠ [] ∧ sr.name ≠ [] ∧
        ∃ more, split '/' res = sr.ns :: sr.name :: more := by
    intro t res cl hp
    unfold parseNsName at hp
    have hn := split_no_sep '/' res
    split at hp
    · rename_i a b more heq
      split at hp
      · cases hp
      · split at hp
        · cases hp
        · cases hp
          rename_i ha hb
          exact ⟨rfl, hn b (by simp [heq]), rfl, rfl, ha, hb, more, heq⟩
    · cases hp
  unfold parseResourceName at h
  cases hk : cutPrefix rn kubernetesURI with
  | some res =>
    rw [hk] at h
    simp only at h
    have hrn := cutPrefix_eq_some.mp hk
    have hn := split_no_sep '/' res
    split at h
    · rename_i a b more heq
      cases h
      exact ⟨rfl, hn b (by simp [heq]), Or.inl ⟨rfl, rfl, res, hrn, Or.inr ⟨more, heq⟩⟩⟩
    · rename_i a heq
      cases h
      exact ⟨rfl, hn a (by simp [heq]), Or.inl ⟨rfl, rfl, res, hrn, Or.inl ⟨heq, rfl⟩⟩⟩
    · rename_i heq
      exact absurd heq (split_ne_nil _ _)
  | none =>
    rw [hk] at h
    simp only at h
    cases hc : cutPrefix rn configmapURI with
    | some res =>
      rw [hc] at h
      simp only at h
      obtain ⟨h1, h2, h3, h4, h5, h6, more, h7⟩ := nsName _ _ _ h
      exact ⟨h1, h2, Or.inr (Or.inl ⟨h3, h4, h5, h6, res, more, cutPrefix_eq_some.mp hc, h7⟩)⟩
    | none =>
      rw [hc] at h
      simp only at h
      cases hg : cutPrefix rn gatewayURI with
      | some res =>
        rw [hg] at h
        simp only at h
        obtain ⟨h1, h2, h3, h4, h5, h6, more, h7⟩ := nsName _ _ _ h
        exact ⟨h1, h2, Or.inr (Or.inr (Or.inl ⟨h3, h4, h5, h6, res, more, cutPrefix_eq_some.mp hg, h7⟩))⟩
      | none =>
        rw [hg] at h
        simp only at h
        split at h
        · rename_i hi
          cases h
          unfold hasPrefix at hi
          cases hi2 : cutPrefix rn invalidURI with
          | none => simp [hi2] at hi
          | some res =>
            exact ⟨rfl, by simp, Or.inr (Or.inr (Or.inr ⟨rfl, rfl, rfl, rfl, res, cutPrefix_eq_some.mp hi2⟩))⟩
        · cases h

/-- The explicit namespace of a successfully parsed name contains no `/`. -/
theorem parse_ns_no_slash {rn vns pc cc : Str} {sr : SR} (h : parseResourceName rn vns pc cc = some sr)
    (hv : '/' ∉ vns) : '/' ∉ sr.ns := by
  obtain ⟨_, _, hk | hc | hg | hi⟩ := parse_some h
  · obtain ⟨_, _, res, _, h1 | ⟨more, h2⟩⟩ := hk
    · rw [h1.2]; exact hv
    · exact split_no_sep '/' res sr.ns (by simp [h2])
  · obtain ⟨_, _, _, _, res, more, _, h2⟩ := hc
    exact split_no_sep '/' res sr.ns (by simp [h2])
  · obtain ⟨_, _, _, _, res, more, _, h2⟩ := hg
    exact split_no_sep '/' res sr.ns (by simp [h2])
  · rw [hi.2.2.2.1]; simp

/-- **parse_namespace_binding.** A `kubernetes://` name resolves to the verified namespace `vns` only if it
    names no namespace at all (implicit form, no `/` after the scheme) or literally names `vns` as its first
    segment: a name that syntactically names another namespace never yields the verified one. -/
theorem parse_namespace_binding {rn vns pc cc : Str} {sr : SR} (h : parseResourceName rn vns pc cc = some sr)
    (ht : sr.rtype = .kubernetes) (hns : sr.ns = vns) :
    (∃ n, rn = kubernetesURI ++ n ∧ '/' ∉ n ∧ sr.name = n) ∨ (∃ rest, rn = kubernetesURI ++ vns ++ '/' :: rest) := by
  obtain ⟨_, _, hk | hc | hg | hi⟩ := parse_some h
  · obtain ⟨_, _, res, hrn, h1 | ⟨more, h2⟩⟩ := hk
    · left
      refine ⟨res, hrn, ?_, ?_⟩
      · have := split_no_sep '/' res sr.name (by simp [h1.1])
        have hj := split_join '/' res
        rw [h1.1] at hj
        simp only [joinSep] at hj
        rw [← hj]; exact this
      · have hj := split_join '/' res
        rw [h1.1] at hj
        simpa [joinSep] using hj
    · right
      have hj := split_join '/' res
      rw [h2] at hj
      simp only [joinSep] at hj
      refine ⟨joinSep '/' (sr.name :: more), ?_⟩
      rw [hrn, ← hj, hns]
      simp
  · rw [hc.1] at ht; cases ht
  · rw [hg.1] at ht; cases ht
  · rw [hi.1] at ht; cases ht

/-- The namespace named by the first segment is honoured whatever follows: `kubernetes://a/b/c/...`
    is namespace `a`, name `b` - extra path segments cannot smuggle a namespace. -/
theorem explicit_namespace_honoured (a b extra vns pc cc : Str) (ha : '/' ∉ a) (hb : '/' ∉ b) :
    parseResourceName (kubernetesURI ++ (a ++ '/' :: b)) vns pc cc =
      some ⟨.kubernetes, b, a, kubernetesURI ++ (a ++ '/' :: b), pc⟩ ∧
    parseResourceName (kubernetesURI ++ (a ++ '/' :: (b ++ '/' :: extra))) vns pc cc =
      some ⟨.kubernetes, b, a, kubernetesURI ++ (a ++ '/' :: (b ++ '/' :: extra)), pc⟩ := by
  constructor
  · unfold parseResourceName
    rw [cutPrefix_append]
    simp only
    rw [split_append_sep _ _ _ ha, split_of_not_mem _ _ hb]
  · unfold parseResourceName
    rw [cutPrefix_append]
    simp only
    rw [split_append_sep _ _ _ ha, split_append_sep _ _ _ hb]

/-- The implicit form takes the proxy's (verified) namespace. -/
theorem implicit_namespace (n vns pc cc : Str) (hn : '/' ∉ n) :
    parseResourceName (kubernetesURI ++ n) vns pc cc = some ⟨.kubernetes, n, vns, kubernetesURI ++ n, pc⟩ := by
  unfold parseResourceName
  rw [cutPrefix_append]
  simp only
  rw [split_of_not_mem _ _ hn]

/-- Names outside the four schemes are errors; `invalid://` yields the `invalid` type, which
    `filterAuthorizedResources` never lets through (`allowed_invalid`). -/
theorem malformed_unreadable {rn vns pc cc : Str}
    (h1 : ∀ r, rn ≠ kubernetesURI ++ r) (h2 : ∀ r, rn ≠ configmapURI ++ r) (h3 : ∀ r, rn ≠ gatewayURI ++ r) :
    parseResourceName rn vns pc cc = none ∨
      ∃ sr, parseResourceName rn vns pc cc = some sr ∧ sr.rtype = .invalid := by
  cases h : parseResourceName rn vns pc cc with
  | none => exact Or.inl rfl
  | some sr =>
    right
    refine ⟨sr, rfl, ?_⟩
    obtain ⟨_, _, hk | hc | hg | hi⟩ := parse_some h
    · obtain ⟨_, _, res, hrn, _⟩ := hk; exact absurd hrn (h1 res)
    · obtain ⟨_, _, _, _, res, _, hrn, _⟩ := hc; exact absurd hrn (h2 res)
    · obtain ⟨_, _, _, _, res, _, hrn, _⟩ := hg; exact absurd hrn (h3 res)
    · exact hi.1

/-- `configmap://` and `kubernetes-gateway://` need both a namespace and a name. -/
theorem namespace_required (t : RType) (rn res cl : Str) (h : '/' ∉ res) : parseNsName t rn res cl = none := by
  unfold parseNsName
  rw [split_of_not_mem _ _ h]

/-- A parsed resource whose namespace and cluster contain no `/`. -/
def SR.WF (r : SR) : Prop := '/' ∉ r.name ∧ '/' ∉ r.ns ∧ '/' ∉ r.cluster

/-- **key_injective.** The cache key string determines the resource (type, name, namespace, requested name,
    cluster): two different resources never share a cache entry. -/
theorem key_injective {r r' : SR} (hr : r.WF) (hr' : r'.WF) (h : r.key = r'.key) : r = r' := by
  unfold SR.key at h
  have e1 := append_sep_inj '/' (by simp) (by simp) h
  have e2 := append_sep_inj '/' hr.2.2 hr'.2.2 e1.1
  have e3 := append_sep_inj '/' hr.2.1 hr'.2.1 e2.1
  have e4 := append_sep_inj '/' hr.1 hr'.1 e3.1
  have e5 := append_sep_inj '/' (rtype_str_no_slash _).2 (rtype_str_no_slash _).2 e4.1
  have e6 := append_sep_inj '/' (rtype_str_no_slash _).1 (rtype_str_no_slash _).1 e5.1
  cases r; cases r'
  simp only [SR.mk.injEq]
  exact ⟨rtype_str_inj e6.2, e4.2, e3.2, e6.1, e2.2⟩

/-- **fullKey_injective.** The complete cache key - resource part plus private-key-provider hash - determines both
    the resource and the provider configuration: a proxy never hits an entry generated for another provider
    configuration, or for another resource. -/
theorem fullKey_injective {r r' : SR} {h h' : Str} (hr : r.WF) (hr' : r'.WF) (hh : '/' ∉ h) (hh' : '/' ∉ h')
    (hk : r.fullKey h = r'.fullKey h') : r = r' ∧ h = h' := by
  -- the key is `body ++ "/"`; the full key is `body ++ "/" ++ hash`
  let body : SR → Str := fun r =>
    r.resourceName ++ '/' :: r.rtype.str ++ '/' :: r.rtype.kindStr ++ '/' :: r.name ++ '/' :: r.ns ++ '/' :: r.cluster
  have hkey : ∀ x : SR, x.key = body x ++ ['/'] := fun _ => rfl
  have hfull : ∀ (x : SR) (y : Str), x.fullKey y = body x ++ '/' :: y := by
    intro x y
    simp [SR.fullKey, hkey]
  rw [hfull, hfull] at hk
  have e1 := append_sep_inj '/' hh hh' hk
  exact ⟨key_injective hr hr' (by rw [hkey, hkey, e1.1]), e1.2⟩

end IstioModel.C11
