import IstioModel.C11.ParseTheorems

/-!
C11 - definitions (cache invariant, cache-free specification, histories, entitlement) and helper lemmas for
the SDS theorems. Not counted as obligations; the statements that matter are in SdsTheorems.lean.
-/
namespace IstioModel.C11

/-- Cluster ids carry no `/` (they are path components of the cache key). -/
def WorldOK (w : World) : Prop := '/' ∉ w.configCluster ∧ ∀ c ∈ w.clusters, '/' ∉ c.id

/-- The verified namespace carries no `/` - guaranteed by `identity_binding` for every identity that
    `authorize` installs. -/
def ProxyOK (p : Proxy) : Prop := ∀ id, p.verified = some id → '/' ∉ id.ns

/-- The content `generate` computes for a resource, as a function of the world and the resource alone. -/
def genCanon (w : World) (r : SR) : Option Val :=
  match w.forCluster r.cluster with
  | some a => genVal w r a a
  | none => none

/-- Cache invariant: every entry is the canonical content of the well-formed resource its key denotes. -/
def Consistent (w : World) (c : Cache) : Prop :=
  ∀ k nv, c.get k = some nv → ∃ r : SR, r.WF ∧ k = r.key ∧ nv.1 = r.resourceName ∧ genCanon w r = some nv.2

theorem consistent_nil (w : World) : Consistent w [] := by
  intro k nv h; simp [Cache.get] at h

theorem consistent_add {w : World} {c : Cache} {r : SR} {v : Val} (hc : Consistent w c) (hr : r.WF)
    (hv : genCanon w r = some v) : Consistent w (c.add r.key (r.resourceName, v)) := by
  intro k nv h
  unfold Cache.add Cache.get at h
  split at h
  · cases h; rename_i hk; exact ⟨r, hr, hk.symm, rfl, hv⟩
  · exact hc k nv h

/-- A hit returns exactly what regeneration would return. -/
theorem consistent_hit {w : World} {c : Cache} {r : SR} {nv : Str × Val} (hc : Consistent w c) (hr : r.WF)
    (h : c.get r.key = some nv) : nv.1 = r.resourceName ∧ genCanon w r = some nv.2 := by
  obtain ⟨r', hr', hk, h1, h2⟩ := hc _ _ h
  have := key_injective hr hr' hk
  subst this
  exact ⟨h1, h2⟩

/-- What one authorised resource contributes to the answer - no cache involved. -/
def releaseOne (w : World) (rq : PushReq) (r : SR) : Option (Str × Val) :=
  if touched rq r then (genCanon w r).map (fun v => (r.resourceName, v)) else none

theorem genLoop_spec (w : World) (rq : PushReq) (pa ca : Agg) (rs : List SR) (o : GenOut)
    (hc : Consistent w o.cache) (hrs : ∀ r ∈ rs, r.WF ∧ genVal w r pa ca = genCanon w r) :
    (genLoop w rq pa ca rs o).res = o.res ++ rs.filterMap (releaseOne w rq) ∧
      Consistent w (genLoop w rq pa ca rs o).cache := by
  induction rs generalizing o with
  | nil => simp [genLoop, hc]
  | cons r rs ih =>
    have hr := hrs r List.mem_cons_self
    have hrs' : ∀ r ∈ rs, r.WF ∧ genVal w r pa ca = genCanon w r := fun x hx => hrs x (List.mem_cons_of_mem _ hx)
    unfold genLoop
    cases ht : touched rq r with
    | false =>
      simp only [Bool.not_false, if_true]
      have := ih o hc hrs'
      simp [releaseOne, ht, this.1, this.2]
    | true =>
      simp only [Bool.not_true, Bool.false_eq_true, if_false]
      cases hg : o.cache.get r.key with
      | some nv =>
        simp only
        obtain ⟨h1, h2⟩ := consistent_hit hc hr.1 hg
        have := ih { o with res := o.res ++ [nv], cached := o.cached + 1 } hc hrs'
        refine ⟨?_, this.2⟩
        rw [this.1]
        have hnv : nv = (r.resourceName, nv.2) := by rw [← h1]
        simp [releaseOne, ht, h2, ← hnv]
      | none =>
        simp only
        cases hv : genVal w r pa ca with
        | some v =>
          simp only
          have hcan : genCanon w r = some v := by rw [← hr.2, hv]
          have := ih { o with res := o.res ++ [(r.resourceName, v)], regen := o.regen + 1,
                              cache := o.cache.add r.key (r.resourceName, v) } (consistent_add hc hr.1 hcan) hrs'
          refine ⟨?_, this.2⟩
          rw [this.1]
          simp [releaseOne, ht, hcan]
        | none =>
          simp only
          have hcan : genCanon w r = none := by rw [← hr.2, hv]
          have := ih { o with regen := o.regen + 1 } hc hrs'
          refine ⟨?_, this.2⟩
          rw [this.1]
          simp [releaseOne, ht, hcan]

/-- The authorised resources of a request are well-formed and their content is canonical. -/
theorem authorised_good {w : World} (hw : WorldOK w) {p : Proxy} {id : Identity} (hid : '/' ∉ id.ns) {pa ca : Agg}
    (hpa : w.forCluster p.cluster = some pa) (hca : w.forCluster w.configCluster = some ca) (authz : Bool)
    (names : List Str) :
    ∀ r ∈ filterAuthorized p id authz (parseResources names id.ns p.cluster w.configCluster),
      r.WF ∧ genVal w r pa ca = genCanon w r := by
  intro r hr
  unfold filterAuthorized at hr
  rw [List.mem_filter] at hr
  obtain ⟨hmem, hal⟩ := hr
  unfold parseResources at hmem
  rw [List.mem_filterMap] at hmem
  obtain ⟨n, _, hp⟩ := hmem
  have hps := parse_some hp
  have hpc : '/' ∉ p.cluster := by
    have := findCluster_some (forCluster_some hpa).1
    rw [← this.2]; exact hw.2 _ this.1
  obtain ⟨_, hname, hk | hc | hg | hi⟩ := hps
  · refine ⟨⟨hname, parse_ns_no_slash hp hid, by rw [hk.2.1]; exact hpc⟩, ?_⟩
    unfold genCanon
    rw [hk.2.1, hpa, genVal_sel]
    simp [sel, hk.1]
  · refine ⟨⟨hname, parse_ns_no_slash hp hid, by rw [hc.2.1]; exact hw.1⟩, ?_⟩
    unfold genCanon
    rw [hc.2.1, hca, genVal_sel]
    simp [sel, hc.1]
  · refine ⟨⟨hname, parse_ns_no_slash hp hid, by rw [hg.2.1]; exact hw.1⟩, ?_⟩
    unfold genCanon
    rw [hg.2.1, hca, genVal_sel]
    simp [sel, hg.1]
  · simp [allowed, hi.1] at hal

/-- The cache-free specification of `Generate`: parse, filter by entitlement, read the store. -/
def spec (w : World) (p : Proxy) (names : List Str) (req : Option PushReq) : Option (List (Str × Val)) :=
  match p.verified with
  | none => none
  | some id =>
    match req with
    | none => none
    | some rq =>
      if !sdsNeedsPush rq then none
      else
        match w.forCluster p.cluster with
        | none => none
        | some pa =>
          match w.forCluster w.configCluster with
          | none => none
          | some _ =>
            some ((filterAuthorized p id (pa.authz id.sa id.ns)
              (parseResources names id.ns p.cluster w.configCluster)).filterMap (releaseOne w rq))

/-- What can happen to the shared SDS cache: a `Generate` call by any proxy for any names with any push
    request, or a full clear. -/
inductive Op
  | gen (p : Proxy) (names : List Str) (req : Option PushReq)
  | clear

def stepOp (w : World) (c : Cache) : Op → Cache × Option (List (Str × Val))
  | .gen p names req =>
    match generate w c p names req with
    | some o => (o.cache, some o.res)
    | none => (c, none)
  | .clear => ([], none)

/-- The answers to a sequence of operations, threaded through the one shared cache. -/
def runOps (w : World) : Cache → List Op → List (Option (List (Str × Val)))
  | _, [] => []
  | c, op :: ops => (stepOp w c op).2 :: runOps w (stepOp w c op).1 ops

/-- The cache after a history. -/
def finalCache (w : World) : Cache → List Op → Cache
  | c, [] => c
  | c, op :: ops => finalCache w (stepOp w c op).1 ops

/-- The answer each operation gets in isolation (no cache, no history). -/
def specOp (w : World) : Op → Option (List (Str × Val))
  | .gen p names req => spec w p names req
  | .clear => none

def OpOK : Op → Prop
  | .gen p _ _ => ProxyOK p
  | .clear => True

/-- Entitlement of proxy `p` (verified as `id`, authorising cluster `pc`) to a parsed resource: the case table
    of `filterAuthorizedResources`. -/
def Entitled (p : Proxy) (id : Identity) (pc : Cluster) (sr : SR) : Prop :=
  match sr.rtype with
  | .kubernetes => sr.ns = id.ns ∧ (hasSuffix sr.name cacertSuffix = true ∨ pc.authz id.sa id.ns = true)
  | .gateway => ∃ l, p.refs = some l ∧ sr.resourceName ∈ l
  | .configmap => True
  | .invalid => False

theorem allowed_entitled {p : Proxy} {id : Identity} {pc : Cluster} {sr : SR} {b : Bool}
    (h : allowed p id b sr = true) (hb : b = true → pc.authz id.sa id.ns = true) : Entitled p id pc sr := by
  unfold allowed at h
  unfold Entitled
  split at h
  · rename_i ht; simp only [ht]
    split at h
    · rename_i l hl; exact ⟨l, hl, by simpa using h⟩
    · cases h
  · rename_i ht; simp only [ht]
  · rename_i ht; simp only [ht]
    simp only [Bool.and_eq_true, Bool.or_eq_true, decide_eq_true_eq] at h
    refine ⟨h.1, ?_⟩
    cases h.2 with
    | inl h2 => exact Or.inl h2
    | inr h2 => exact Or.inr (hb h2)
  · cases h

/-- The aggregate authorises only if the proxy's own cluster controller runs and allows. -/
theorem agg_authz {a : Agg} {sa ns : Str} (h : a.authz sa ns = true) : a.auth.authz sa ns = true := by
  unfold Agg.authz at h
  simp only [Bool.and_eq_true] at h
  exact h.2

/-- Whatever the cache contains - consistent or poisoned - each returned element was either read from the
    cache under the key of an *authorised* resource of this request, or freshly generated for one. -/
theorem genLoop_only_authorised (w : World) (rq : PushReq) (pa ca : Agg) (rs : List SR) (o : GenOut)
    (nv : Str × Val) (h : nv ∈ (genLoop w rq pa ca rs o).res) :
    nv ∈ o.res ∨ (∃ r ∈ rs, o.cache.get r.key = some nv) ∨
      (∃ r ∈ rs, nv.1 = r.resourceName ∧ genVal w r pa ca = some nv.2) := by
  induction rs generalizing o with
  | nil => exact Or.inl (by simpa [genLoop] using h)
  | cons r rs ih =>
    unfold genLoop at h
    split at h
    · rcases ih o h with h1 | ⟨r', hr', h2⟩ | ⟨r', hr', h3⟩
      · exact Or.inl h1
      · exact Or.inr (Or.inl ⟨r', List.mem_cons_of_mem _ hr', h2⟩)
      · exact Or.inr (Or.inr ⟨r', List.mem_cons_of_mem _ hr', h3⟩)
    · split at h
      · rename_i v hv
        rcases ih _ h with h1 | ⟨r', hr', h2⟩ | ⟨r', hr', h3⟩
        · simp only [List.mem_append, List.mem_singleton] at h1
          cases h1 with
          | inl h1 => exact Or.inl h1
          | inr h1 => exact Or.inr (Or.inl ⟨r, List.mem_cons_self, h1 ▸ hv⟩)
        · exact Or.inr (Or.inl ⟨r', List.mem_cons_of_mem _ hr', h2⟩)
        · exact Or.inr (Or.inr ⟨r', List.mem_cons_of_mem _ hr', h3⟩)
      · split at h
        · rename_i v hv
          rcases ih _ h with h1 | ⟨r', hr', h2⟩ | ⟨r', hr', h3⟩
          · simp only [List.mem_append, List.mem_singleton] at h1
            cases h1 with
            | inl h1 => exact Or.inl h1
            | inr h1 => exact Or.inr (Or.inr ⟨r, List.mem_cons_self, by rw [h1], by rw [h1]; exact hv⟩)
          · simp only [Cache.add, Cache.get] at h2
            split at h2
            · cases h2
              exact Or.inr (Or.inr ⟨r, List.mem_cons_self, rfl, hv⟩)
            · exact Or.inr (Or.inl ⟨r', List.mem_cons_of_mem _ hr', h2⟩)
          · exact Or.inr (Or.inr ⟨r', List.mem_cons_of_mem _ hr', h3⟩)
        · rcases ih _ h with h1 | ⟨r', hr', h2⟩ | ⟨r', hr', h3⟩
          · exact Or.inl h1
          · exact Or.inr (Or.inl ⟨r', List.mem_cons_of_mem _ hr', h2⟩)
          · exact Or.inr (Or.inr ⟨r', List.mem_cons_of_mem _ hr', h3⟩)

end IstioModel.C11
