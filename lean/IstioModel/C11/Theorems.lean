import IstioModel.C11.Lemmas

/-!
C11 - identity binding (part 1 of the property).

"When identity checking is on, an authenticated xDS client obtains configuration only as a proxy of the
namespace and service account its credential proves."

All statements quantify over every claimed node id / metadata, every credential identity list (including
unparsable entries, several identities, the empty list) and both values of the feature flag.
-/
namespace IstioModel.C11

/-- Identity `id` proves the claim `(cfgNs, sa)`: each claimed component that is non-empty is equal to
    the credential's component (this is exactly what `checkConnectionIdentity` compares). -/
def Proves (cfgNs sa : Str) (id : Identity) : Prop :=
  (cfgNs ≠ [] → id.ns = cfgNs) ∧ (sa ≠ [] → id.sa = sa)

instance (cfgNs sa : Str) (id : Identity) : Decidable (Proves cfgNs sa id) := by
  unfold Proves; exact inferInstance

/-- `ParseIdentity` accepts exactly the strings `spiffe://<td>/ns/<ns>/sa/<sa>` with slash-free components,
    and returns those components: the verified namespace is literally in the credential. -/
theorem parseIdentity_sound {raw : Str} {id : Identity} (h : parseIdentity raw = some id) :
    raw = id.render ∧ '/' ∉ id.td ∧ '/' ∉ id.ns ∧ '/' ∉ id.sa := by
  unfold parseIdentity at h
  cases hc : cutPrefix raw spiffePrefix with
  | none => simp [hc] at h
  | some rest =>
    rw [hc] at h
    simp only at h
    have hraw := cutPrefix_eq_some.mp hc
    have hj := split_join '/' rest
    have hn := split_no_sep '/' rest
    split at h
    · rename_i td a ns b sa heq
      rw [heq] at hj hn
      split at h
      · rename_i hab
        cases h
        obtain ⟨ha, hb⟩ := hab
        subst ha; subst hb
        refine ⟨?_, hn _ (by simp), hn _ (by simp), hn _ (by simp)⟩
        rw [hraw, ← hj]
        simp [Identity.render, joinSep]
      · cases h
    · cases h

/-- Conversely every well-formed credential parses to its components. -/
theorem parseIdentity_render (id : Identity) (h1 : '/' ∉ id.td) (h2 : '/' ∉ id.ns) (h3 : '/' ∉ id.sa) :
    parseIdentity id.render = some id := by
  have hns : '/' ∉ nsSeg := by decide
  have hsa : '/' ∉ saSeg := by decide
  have hr : id.render = spiffePrefix ++ (id.td ++ '/' :: (nsSeg ++ '/' :: (id.ns ++ '/' :: (saSeg ++ '/' :: id.sa)))) := by
    simp [Identity.render]
  unfold parseIdentity
  rw [hr, cutPrefix_append]
  simp only
  rw [split_append_sep _ _ _ h1, split_append_sep _ _ _ hns, split_append_sep _ _ _ h2,
    split_append_sep _ _ _ hsa, split_of_not_mem _ _ h3]
  simp

/-- Two credentials with the same parsed identity are the same string (no aliasing). -/
theorem parseIdentity_injective {a b : Str} {id : Identity}
    (ha : parseIdentity a = some id) (hb : parseIdentity b = some id) : a = b := by
  rw [(parseIdentity_sound ha).1, (parseIdentity_sound hb).1]

/-- `checkConnectionIdentity` only ever returns an identity that one of the presented credentials
    parses to and that proves the claim. -/
theorem check_sound {cfgNs sa : Str} {ids : List Str} {id : Identity}
    (h : checkConnectionIdentity cfgNs sa ids = some id) :
    ∃ raw ∈ ids, parseIdentity raw = some id ∧ Proves cfgNs sa id := by
  induction ids with
  | nil => simp [checkConnectionIdentity] at h
  | cons raw rest ih =>
    unfold checkConnectionIdentity at h
    cases hp : parseIdentity raw with
    | none =>
      rw [hp] at h
      obtain ⟨r, hr, h2⟩ := ih h
      exact ⟨r, List.mem_cons_of_mem _ hr, h2⟩
    | some i =>
      rw [hp] at h
      simp only at h
      split at h
      · obtain ⟨r, hr, h2⟩ := ih h
        exact ⟨r, List.mem_cons_of_mem _ hr, h2⟩
      · split at h
        · obtain ⟨r, hr, h2⟩ := ih h
          exact ⟨r, List.mem_cons_of_mem _ hr, h2⟩
        · rename_i h1 h2
          cases h
          refine ⟨raw, List.mem_cons_self, hp, ?_, ?_⟩
          · intro hne
            exact Classical.byContradiction fun hh => h1 ⟨hne, hh⟩
          · intro hne
            exact Classical.byContradiction fun hh => h2 ⟨hne, hh⟩

/-- It rejects only when no presented credential proves the claim. -/
theorem check_complete {cfgNs sa : Str} {ids : List Str}
    (h : checkConnectionIdentity cfgNs sa ids = none) :
    ∀ raw ∈ ids, ∀ id, parseIdentity raw = some id → ¬ Proves cfgNs sa id := by
  induction ids with
  | nil => simp
  | cons raw rest ih =>
    unfold checkConnectionIdentity at h
    intro r hr id hp hpr
    cases hpr0 : parseIdentity raw with
    | none =>
      rw [hpr0] at h
      cases hr with
      | head => rw [hpr0] at hp; cases hp
      | tail _ hr => exact ih h r hr id hp hpr
    | some i =>
      rw [hpr0] at h
      simp only at h
      cases hr with
      | head =>
        rw [hpr0] at hp
        cases hp
        split at h
        · rename_i h1
          exact h1.2 (hpr.1 h1.1)
        · split at h
          · rename_i h2
            exact h2.2 (hpr.2 h2.1)
          · cases h
      | tail _ hr =>
        split at h
        · exact ih h r hr id hp hpr
        · split at h
          · exact ih h r hr id hp hpr
          · cases h

/-- **identity_binding.** With identity checking on and a non-nil identity list, a connection is accepted
    only if some presented credential is a well-formed SPIFFE id whose namespace equals the claimed config
    namespace and (if claimed) whose service account equals the claimed one; `VerifiedIdentity` is that
    identity, literally one of the presented credentials. -/
theorem identity_binding (prev : Option Identity) (cfgNs sa : Str) (ids : List Str) (v : Option Identity)
    (h : authorize true prev cfgNs sa (some ids) = .ok v) :
    ∃ id, v = some id ∧ id.render ∈ ids ∧ parseIdentity id.render = some id ∧
      (cfgNs ≠ [] → id.ns = cfgNs) ∧ (sa ≠ [] → id.sa = sa) ∧ '/' ∉ id.ns ∧ '/' ∉ id.sa := by
  unfold authorize at h
  simp only [if_true] at h
  cases hc : checkConnectionIdentity cfgNs sa ids with
  | none => rw [hc] at h; cases h
  | some id =>
    rw [hc] at h
    cases h
    obtain ⟨raw, hmem, hp, hpr⟩ := check_sound hc
    have hs := parseIdentity_sound hp
    refine ⟨id, rfl, hs.1 ▸ hmem, hs.1 ▸ hp, hpr.1, hpr.2, hs.2.2.1, hs.2.2.2⟩

/-- The check is not stricter than stated: a connection is denied only if none of the presented
    credentials proves the claim. -/
theorem identity_binding_denied (prev : Option Identity) (cfgNs sa : Str) (ids : List Str)
    (h : authorize true prev cfgNs sa (some ids) = .denied) :
    ∀ raw ∈ ids, ∀ id, parseIdentity raw = some id → ¬ Proves cfgNs sa id := by
  unfold authorize at h
  simp only [if_true] at h
  cases hc : checkConnectionIdentity cfgNs sa ids with
  | none => exact check_complete hc
  | some id => rw [hc] at h; cases h

/-- An authenticated connection whose credentials all name other namespaces is rejected. -/
theorem wrong_namespace_denied (prev : Option Identity) (cfgNs sa : Str) (ids : List Str) (hne : cfgNs ≠ [])
    (h : ∀ raw ∈ ids, ∀ id, parseIdentity raw = some id → id.ns ≠ cfgNs) :
    authorize true prev cfgNs sa (some ids) = .denied := by
  cases ha : authorize true prev cfgNs sa (some ids) with
  | denied => rfl
  | ok v =>
    obtain ⟨id, _, hmem, hp, hns, _⟩ := identity_binding prev cfgNs sa ids v ha
    exact absurd (hns hne) (h _ hmem id hp)

/-- Without the check (flag off, or an unauthenticated stream whose identity list is nil) the connection is
    accepted and `VerifiedIdentity` is left as it was - `none` for a new proxy, which `SecretGen` refuses. -/
theorem authorize_unchecked (flag : Bool) (prev : Option Identity) (cfgNs sa : Str) (ids : Option (List Str))
    (h : flag = false ∨ ids = none) : authorize flag prev cfgNs sa ids = .ok prev := by
  unfold authorize
  cases ids with
  | none => rfl
  | some l =>
    cases h with
    | inl h => simp [h]
    | inr h => cases h

/-- A verified identity never appears out of thin air: after `authorize`, a `VerifiedIdentity` that was not
    there before is a presented credential. -/
theorem verified_only_from_credentials (flag : Bool) (cfgNs sa : Str) (ids : Option (List Str)) (id : Identity)
    (h : authorize flag none cfgNs sa ids = .ok (some id)) :
    ∃ l, ids = some l ∧ id.render ∈ l ∧ flag = true := by
  cases ids with
  | none => simp [authorize] at h
  | some l =>
    cases flag with
    | false => simp [authorize] at h
    | true =>
      obtain ⟨id', hv, hmem, _⟩ := identity_binding none cfgNs sa l _ h
      cases hv
      exact ⟨l, rfl, hmem, rfl⟩

/-- `authenticate` yields identities only on a TLS stream (or plaintext when `XDS_AUTH_PLAINTEXT` is set),
    only from a configured authenticator, and never an empty list: the list handed to `authorize` is either
    nil (unauthenticated) or non-empty. -/
theorem authenticate_sound (xdsAuth : Bool) (peer : Peer) (pt : Bool) (results : List (Option (List Str)))
    (ids : List Str) (h : authenticate xdsAuth peer pt results = some (some ids)) :
    xdsAuth = true ∧ ids ≠ [] ∧ some ids ∈ results ∧ (peer = .tls ∨ (peer = .plain ∧ pt = true)) := by
  unfold authenticate at h
  cases xdsAuth with
  | false => simp at h
  | true =>
    simp only [Bool.not_true, Bool.false_eq_true, if_false] at h
    cases peer with
    | none => cases h
    | plain =>
      simp only at h
      split at h
      · rename_i hpt
        exact ⟨rfl, (firstAuth_some h).1, (firstAuth_some h).2, Or.inr ⟨rfl, hpt⟩⟩
      · cases h
    | tls =>
      simp only at h
      exact ⟨rfl, (firstAuth_some h).1, (firstAuth_some h).2, Or.inl rfl⟩

/-- A plaintext stream (port 15010) is never authenticated: its identity list is nil. -/
theorem plaintext_unauthenticated (results : List (Option (List Str))) :
    authenticate true .plain false results = some none := by
  simp [authenticate]

/-- On a TLS stream with authentication on, the stream is either rejected or carries identities: it is
    never silently treated as unauthenticated. -/
theorem tls_never_unauthenticated (pt : Bool) (results : List (Option (List Str))) :
    authenticate true .tls pt results ≠ some none := by
  simp only [authenticate, Bool.not_true, Bool.false_eq_true, if_false]
  exact firstAuth_ne_nil results

/-- **trust_domain_not_compared** (a caveat, stated as a theorem so that it cannot be overlooked): the binding looks
    at namespace and service account only. A credential of *any* trust domain whose namespace / service account
    prove the claim is accepted, and the foreign trust domain is what ends up in `VerifiedIdentity`. Which trust
    domains can present credentials at all is decided earlier, by the authenticators (certificate chain against the
    mesh roots, JWT issuer) - an input here. -/
theorem trust_domain_not_compared (cfgNs sa : Str) (id : Identity) (td' : Str)
    (h2 : '/' ∉ id.ns) (h3 : '/' ∉ id.sa) (htd : '/' ∉ td') (hp : Proves cfgNs sa id) :
    checkConnectionIdentity cfgNs sa [({ id with td := td' } : Identity).render] = some { id with td := td' } := by
  have hparse := parseIdentity_render { id with td := td' } htd h2 h3
  unfold checkConnectionIdentity
  rw [hparse]
  simp only
  have n1 : ¬ (cfgNs ≠ [] ∧ id.ns ≠ cfgNs) := fun hc => hc.2 (hp.1 hc.1)
  have n2 : ¬ (sa ≠ [] ∧ id.sa ≠ sa) := fun hc => hc.2 (hp.2 hc.1)
  simp [n1, n2]

/-- `GetProxyConfigNamespace`: metadata wins. -/
theorem configNamespace_meta (c : Claim) (h : c.metaNs ≠ []) : configNamespace c = c.metaNs := by
  simp [configNamespace, h]

/-- `GetProxyConfigNamespace`: otherwise the first label of a dotted DNS domain. -/
theorem configNamespace_domain (p rest sa : Str) (h : '.' ∉ p) :
    configNamespace ⟨[], p ++ '.' :: rest, sa⟩ = p := by
  unfold configNamespace
  simp only [ne_eq, not_true_eq_false, if_false]
  rw [split_append_sep _ _ _ h]
  cases hs : split '.' rest with
  | nil => exact absurd hs (split_ne_nil _ _)
  | cons a b => rfl

/-- End to end for `initConnection` (`initProxyMetadata` then `authorize`): the namespace the proxy is
    treated as (`ConfigNamespace`, derived from what the client claims) is, when non-empty, the namespace
    of one of its credentials, and the claimed service account likewise. -/
theorem connect_binding (nodeId : Str) (ipOK : Bool) (metaNs metaSA : Str) (ids : List Str) (cfg : Str)
    (v : Option Identity) (h : connect true nodeId ipOK metaNs metaSA (some ids) = some (cfg, .ok v)) :
    (metaNs ≠ [] → cfg = metaNs) ∧
    ∃ id, v = some id ∧ id.render ∈ ids ∧ (cfg ≠ [] → id.ns = cfg) ∧ (metaSA ≠ [] → id.sa = metaSA) := by
  unfold connect at h
  cases hd : parseNodeDomain nodeId ipOK with
  | none => rw [hd] at h; cases h
  | some dom =>
    rw [hd] at h
    simp only [Option.some.injEq, Prod.mk.injEq] at h
    obtain ⟨hcfg, hauth⟩ := h
    subst hcfg
    obtain ⟨id, hv, hmem, _, hns, hsa, _⟩ := identity_binding none _ metaSA ids v hauth
    exact ⟨fun hne => configNamespace_meta ⟨metaNs, dom, metaSA⟩ hne, id, hv, hmem, hns, hsa⟩

/-! Non-vacuity: concrete connections. -/

def ex_good : Str := "spiffe://cluster.local/ns/ns1/sa/sa1".toList
def ex_other : Str := "spiffe://cluster.local/ns/ns2/sa/sa1".toList
def ex_node : Str := "router~1.2.3.4~gw.ns1~ns1.svc.cluster.local".toList

example : connect true ex_node true "ns1".toList "sa1".toList (some ["junk".toList, ex_other, ex_good]) =
    some ("ns1".toList, .ok (some ⟨"cluster.local".toList, "ns1".toList, "sa1".toList⟩)) := by decide

example : connect true ex_node true "ns1".toList [] (some [ex_other]) = some ("ns1".toList, .denied) := by decide

example : connect true ex_node true [] [] (some [ex_other]) = some ("ns1".toList, .denied) := by decide

example : connect true ex_node true "ns1".toList [] none = some ("ns1".toList, .ok none) := by decide

/-- A credential of another trust domain binds as `ns1` (see `trust_domain_not_compared`). -/
example : connect true ex_node true "ns1".toList [] (some ["spiffe://other-td/ns/ns1/sa/x".toList]) =
    some ("ns1".toList, .ok (some ⟨"other-td".toList, "ns1".toList, "x".toList⟩)) := by decide

end IstioModel.C11
