/-
C11 - executable model of identity binding and SDS secret release.

Go sources modelled (istio/istio):
  pkg/spiffe/spiffe.go                       ParseIdentity
  pilot/pkg/model/context.go                 GetProxyConfigNamespace, ParseServiceNodeWithMetadata (split/type/IP gate only)
  pilot/pkg/xds/auth.go                      authenticate, authorize, checkConnectionIdentity
  pkg/security/authentication.go, security.go Authenticate, authenticationManager.authenticate
  pilot/pkg/xds/ads.go                       initProxyMetadata (composition of the two above)
  pilot/pkg/model/credentials/resource.go    ParseResourceName, SecretResource.Key
  pilot/pkg/xds/sds.go                       SecretGen.Generate, sdsNeedsPush, parseResources,
                                             filterAuthorizedResources, generate, relatedConfigs, SecretResource.Key
  pilot/pkg/credentials/kube/secrets.go      GetCertInfo, GetCaCert, GetConfigMapCaCert, ExtractCertInfo, ExtractRoot
                                             (Authorize is the abstract function `Cluster.authz`)
  pilot/pkg/credentials/kube/multicluster.go ForCluster, AggregateController (lookup order, auth controller)
  pilot/pkg/model/typed_xds_cache.go         Get / Add / ClearAll of the SDS cache as a map keyed by the key string
  pilot/pkg/model/gateway.go                 mergeGateways: the computation of VerifiedCertificateReferences
  pilot/pkg/model/credentials/resource.go    ToResourceName

Conventions: a Go string is a `List Char` (`Str`), so that splitting and prefix tests are structural
recursions the theorems can reason about; the driver converts with `String.toList` / `String.ofList`.
A Go `error` return is `none`.  Secret payloads are opaque strings (the harness tags them with their origin).
-/
namespace IstioModel.C11

abbrev Str := List Char

/-! ### strings -/

/-- `strings.Split(s, sep)` for a one-character separator (never returns the empty list). -/
def split (sep : Char) : Str → List Str
  | [] => [[]]
  | c :: cs =>
    if c = sep then [] :: split sep cs
    else match split sep cs with
      | [] => [[c]]
      | h :: t => (c :: h) :: t

/-- `strings.CutPrefix(s, p)`: `some rest` when `s = p ++ rest`. -/
def cutPrefix : Str → Str → Option Str
  | s, [] => some s
  | [], _ :: _ => none
  | c :: cs, p :: ps => if c = p then cutPrefix cs ps else none

/-- `strings.HasPrefix`. -/
def hasPrefix (s p : Str) : Bool := (cutPrefix s p).isSome

/-- `strings.HasSuffix`. -/
def hasSuffix (s suf : Str) : Bool := (cutPrefix s.reverse suf.reverse).isSome

/-- `strings.TrimSuffix`. -/
def trimSuffix (s suf : Str) : Str :=
  match cutPrefix s.reverse suf.reverse with
  | some r => r.reverse
  | none => s

def spiffePrefix : Str := ['s', 'p', 'i', 'f', 'f', 'e', ':', '/', '/']
def nsSeg : Str := ['n', 's']
def saSeg : Str := ['s', 'a']
def kubernetesTy : Str := ['k', 'u', 'b', 'e', 'r', 'n', 'e', 't', 'e', 's']
def gatewayTy : Str := ['k', 'u', 'b', 'e', 'r', 'n', 'e', 't', 'e', 's', '-', 'g', 'a', 't', 'e', 'w', 'a', 'y']
def configmapTy : Str := ['c', 'o', 'n', 'f', 'i', 'g', 'm', 'a', 'p']
def invalidTy : Str := ['i', 'n', 'v', 'a', 'l', 'i', 'd']
def uriSep : Str := [':', '/', '/']
def kubernetesURI : Str := kubernetesTy ++ uriSep
def gatewayURI : Str := gatewayTy ++ uriSep
def configmapURI : Str := configmapTy ++ uriSep
def invalidURI : Str := invalidTy ++ uriSep
def cacertSuffix : Str := ['-', 'c', 'a', 'c', 'e', 'r', 't']
def secretKindStr : Str := ['S', 'e', 'c', 'r', 'e', 't']
def configMapKindStr : Str := ['C', 'o', 'n', 'f', 'i', 'g', 'M', 'a', 'p']
def unknownKindStr : Str := ['U', 'n', 'k', 'n', 'o', 'w', 'n']

/-! ### identity binding (auth.go) -/

/-- `spiffe.Identity`. -/
structure Identity where
  td : Str
  ns : Str
  sa : Str
  deriving DecidableEq, Repr

/-- `spiffe.ParseIdentity` (`none` = error). -/
def parseIdentity (s : Str) : Option Identity :=
  match cutPrefix s spiffePrefix with
  | none => none
  | some rest =>
    match split '/' rest with
    | [td, a, ns, b, sa] => if a = nsSeg ∧ b = saSeg then some ⟨td, ns, sa⟩ else none
    | _ => none

/-- `Identity.String`. -/
def Identity.render (i : Identity) : Str :=
  spiffePrefix ++ i.td ++ ('/' :: nsSeg) ++ ('/' :: i.ns) ++ ('/' :: saSeg) ++ ('/' :: i.sa)

/-- What a client claims about itself: node metadata `NAMESPACE`, the DNS domain (4th part of the node
    id) and metadata `SERVICE_ACCOUNT`. -/
structure Claim where
  metaNs    : Str
  dnsDomain : Str
  metaSA    : Str
  deriving DecidableEq, Repr

/-- `model.GetProxyConfigNamespace`. -/
def configNamespace (c : Claim) : Str :=
  if c.metaNs ≠ [] then c.metaNs
  else match split '.' c.dnsDomain with
    | p :: _ :: _ => p
    | _ => []

/-- `checkConnectionIdentity`: the first identity that parses and matches the claimed config namespace
    and service account (each compared only when claimed non-empty). `none` = error. -/
def checkConnectionIdentity (cfgNs sa : Str) : List Str → Option Identity
  | [] => none
  | raw :: rest =>
    match parseIdentity raw with
    | none => checkConnectionIdentity cfgNs sa rest
    | some id =>
      if cfgNs ≠ [] ∧ id.ns ≠ cfgNs then checkConnectionIdentity cfgNs sa rest
      else if sa ≠ [] ∧ id.sa ≠ sa then checkConnectionIdentity cfgNs sa rest
      else some id

/-- Result of `authorize`: PermissionDenied, or accepted with the resulting `Proxy.VerifiedIdentity`. -/
inductive AuthRes
  | denied
  | ok (verified : Option Identity)
  deriving DecidableEq, Repr

/-- `DiscoveryServer.authorize` for a connection with a proxy. `flag` = `features.EnableXDSIdentityCheck`,
    `ids = none` is a nil identity slice (unauthenticated / plaintext stream), `prev` the previous
    `VerifiedIdentity` (nil for a proxy fresh from `initProxyMetadata`). -/
def authorize (flag : Bool) (prev : Option Identity) (cfgNs sa : Str) (ids : Option (List Str)) : AuthRes :=
  match ids with
  | none => .ok prev
  | some l =>
    if flag then
      match checkConnectionIdentity cfgNs sa l with
      | none => .denied
      | some id => .ok (some id)
    else .ok prev

/-- What the gRPC context says about the peer: no peer info, a plaintext connection, a TLS connection. -/
inductive Peer
  | none | plain | tls
  deriving DecidableEq, Repr

/-- `DiscoveryServer.authenticate` = `security.Authenticate` + `authenticationManager.authenticate`, as a
    function of `features.XDSAuth`, the peer, `security.AuthPlaintext` and what each configured authenticator
    answers for this stream (`none` = it fails or returns no caller; `some ids` = a caller with identities).
    Outer `none` = error (stream rejected as Unauthenticated); `some none` = accepted with a nil identity
    list; `some (some ids)` = authenticated. -/
def authenticate (xdsAuth : Bool) (peer : Peer) (plaintextOK : Bool) (results : List (Option (List Str))) :
    Option (Option (List Str)) :=
  if !xdsAuth then some none
  else
    match peer with
    | .none => none
    | .plain => if plaintextOK then firstAuth results else some none
    | .tls => firstAuth results
where
  firstAuth : List (Option (List Str)) → Option (Option (List Str))
    | [] => none
    | some ids :: rest => if ids ≠ [] then some (some ids) else firstAuth rest
    | none :: rest => firstAuth rest

def nodeTypes : List Str :=
  [['s', 'i', 'd', 'e', 'c', 'a', 'r'], ['r', 'o', 'u', 't', 'e', 'r'], ['w', 'a', 'y', 'p', 'o', 'i', 'n', 't'],
   ['z', 't', 'u', 'n', 'n', 'e', 'l'], ['a', 'g', 'e', 'n', 't', 'g', 'a', 't', 'e', 'w', 'a', 'y']]

/-- `ParseServiceNodeWithMetadata` as far as the claim is concerned: four `~` parts, an application
    node type and a valid IP (`ipOK`: metadata IPs or the second part parse as an address - abstract).
    Returns the DNS domain. -/
def parseNodeDomain (nodeId : Str) (ipOK : Bool) : Option Str :=
  match split '~' nodeId with
  | [ty, _, _, dom] => if nodeTypes.contains ty ∧ ipOK then some dom else none
  | _ => none

/-- `initProxyMetadata` followed by `authorize`, as `initConnection` runs them. -/
def connect (flag : Bool) (nodeId : Str) (ipOK : Bool) (metaNs metaSA : Str) (ids : Option (List Str)) :
    Option (Str × AuthRes) :=
  match parseNodeDomain nodeId ipOK with
  | none => none
  | some dom =>
    let cfg := configNamespace ⟨metaNs, dom, metaSA⟩
    some (cfg, authorize flag none cfg metaSA ids)

/-! ### resource names (credentials/resource.go) -/

inductive RType
  | kubernetes | gateway | configmap | invalid
  deriving DecidableEq, Repr

def RType.str : RType → Str
  | .kubernetes => kubernetesTy
  | .gateway => gatewayTy
  | .configmap => configmapTy
  | .invalid => invalidTy

/-- `ResourceKind.String()` (the zero kind of an `invalid` resource prints as "Unknown"). -/
def RType.kindStr : RType → Str
  | .kubernetes => secretKindStr
  | .gateway => secretKindStr
  | .configmap => configMapKindStr
  | .invalid => unknownKindStr

/-- `credentials.SecretResource` (`ResourceKind` is a function of the type). -/
structure SR where
  rtype        : RType
  name         : Str
  ns           : Str
  resourceName : Str
  cluster      : Str
  deriving DecidableEq, Repr

/-- The `namespace/name` forms (`configmap://`, `kubernetes-gateway://`): both parts required. -/
def parseNsName (t : RType) (rn res cluster : Str) : Option SR :=
  match split '/' res with
  | a :: b :: _ => if a = [] then none else if b = [] then none else some ⟨t, b, a, rn, cluster⟩
  | _ => none

/-- `credentials.ParseResourceName` (`none` = error). -/
def parseResourceName (rn proxyNs proxyCluster configCluster : Str) : Option SR :=
  match cutPrefix rn kubernetesURI with
  | some res =>
    match split '/' res with
    | a :: b :: _ => some ⟨.kubernetes, b, a, rn, proxyCluster⟩
    | [a] => some ⟨.kubernetes, a, proxyNs, rn, proxyCluster⟩
    | [] => some ⟨.kubernetes, [], proxyNs, rn, proxyCluster⟩
  | none =>
    match cutPrefix rn configmapURI with
    | some res => parseNsName .configmap rn res configCluster
    | none =>
      match cutPrefix rn gatewayURI with
      | some res => parseNsName .gateway rn res configCluster
      | none =>
        if hasPrefix rn invalidURI then some ⟨.invalid, [], [], rn, configCluster⟩ else none

/-- `xds.SecretResource.Key()` = `credentials.SecretResource.Key() + "/" + pkpConfHash`
    (no private-key-provider configuration: the hash is empty). -/
def SR.key (r : SR) : Str :=
  r.resourceName ++ '/' :: r.rtype.str ++ '/' :: r.rtype.kindStr ++ '/' :: r.name ++ '/' :: r.ns ++
    '/' :: r.cluster ++ ['/']

/-! ### secret stores (credentials/kube) -/

/-- The data keys of a Kubernetes secret that the extraction reads; `[]` = missing or empty. -/
structure SecretData where
  cert   : Str := []
  key    : Str := []
  cacert : Str := []
  tlsCrt : Str := []
  tlsKey : Str := []
  caCrt  : Str := []
  deriving DecidableEq, Repr

/-- Content of an Envoy `Secret`: a TLS certificate with its private key, or a validation context. -/
inductive Val
  | tls (cert key : Str)
  | ca (cert : Str)
  deriving DecidableEq, Repr

def Val.hasKey : Val → Bool
  | .tls _ _ => true
  | .ca _ => false

/-- `ExtractCertInfo`. -/
def extractCertInfo (d : SecretData) : Option Val :=
  if d.cert ≠ [] ∧ d.key ≠ [] then some (.tls d.cert d.key)
  else if d.tlsCrt ≠ [] ∧ d.tlsKey ≠ [] then some (.tls d.tlsCrt d.tlsKey)
  else none

/-- `ExtractRoot`. -/
def extractRoot (d : SecretData) : Option Val :=
  if d.cacert ≠ [] then some (.ca d.cacert)
  else if d.caCrt ≠ [] then some (.ca d.caCrt)
  else none

/-- One cluster's `CredentialsController`: secrets and config maps by `(name, namespace)`, and the
    SubjectAccessReview outcome as an abstract function of `(serviceAccount, namespace)`. -/
structure Cluster where
  id         : Str
  secrets    : Str → Str → Option SecretData
  configMaps : Str → Str → Option SecretData
  authz      : Str → Str → Bool

/-- `CredentialsController.GetCertInfo`. -/
def Cluster.getCertInfo (c : Cluster) (name ns : Str) : Option Val :=
  match c.secrets name ns with
  | none => none
  | some d => extractCertInfo d

/-- `CredentialsController.GetCaCert`. -/
def Cluster.getCaCert (c : Cluster) (name ns : Str) : Option Val :=
  match c.secrets name ns with
  | some d => extractRoot d
  | none =>
    match c.secrets (trimSuffix name cacertSuffix) ns with
    | some d => extractRoot d
    | none => none

/-- `CredentialsController.GetConfigMapCaCert`. -/
def Cluster.getConfigMapCaCert (c : Cluster) (isConfig : Bool) (name ns : Str) : Option Val :=
  if !isConfig then none
  else match c.configMaps (trimSuffix name cacertSuffix) ns with
    | none => none
    | some d => extractRoot d

/-- The credential controllers istiod holds: the config cluster id and the configured clusters. -/
structure World where
  configCluster : Str
  clusters      : List Cluster
  /-- `features.EnableRemoteCredentialsController` at the time the clusters were added (default true). -/
  remoteCreds   : Bool := true

def findCluster (id : Str) : List Cluster → Option Cluster
  | [] => none
  | c :: cs => if c.id = id then some c else findCluster id cs

/-- `AggregateController`: lookup order and the controller used for `Authorize`. -/
structure Agg where
  controllers : List Cluster
  auth        : Cluster
  /-- false when the proxy's cluster is a remote cluster whose credentials controller is disabled
      (`authController == nil`): `Authorize` then fails with `ErrNoAuthController`. -/
  authOK      : Bool := true

/-- `AggregateController.Authorize` as a Boolean. -/
def Agg.authz (a : Agg) (sa ns : Str) : Bool := a.authOK && a.auth.authz sa ns

/-- The proxy cluster's own controller: consulted first, when the proxy is in a remote cluster whose controller runs. -/
def ownList (w : World) (id : Str) (c : Cluster) : List Cluster :=
  if id ≠ w.configCluster ∧ w.remoteCreds = true then [c] else []

/-- The config cluster's controller (always running when the config cluster is configured). -/
def cfgList (w : World) : List Cluster :=
  match findCluster w.configCluster w.clusters with
  | some k => [k]
  | none => []

/-- `Multicluster.ForCluster`. With remote credential controllers disabled a remote cluster has no controller of
    its own: lookups go to the config cluster only and nobody can authorise. -/
def World.forCluster (w : World) (id : Str) : Option Agg :=
  match findCluster id w.clusters with
  | none => none
  | some c =>
    let enabled := decide (id = w.configCluster) || w.remoteCreds
    if (ownList w id c ++ cfgList w).isEmpty && !enabled then none
    else some ⟨ownList w id c ++ cfgList w, c, enabled⟩

/-- First successful lookup over the aggregated controllers. -/
def firstSome (cfgId : Str) (f : Cluster → Bool → Option Val) : List Cluster → Option Val
  | [] => none
  | c :: cs =>
    match f c (c.id = cfgId) with
    | some v => some v
    | none => firstSome cfgId f cs

/-- `SecretGen.generate` (the value; the resource is named `sr.resourceName`). -/
def genVal (w : World) (r : SR) (proxyAgg cfgAgg : Agg) : Option Val :=
  let ctl := match r.rtype with
    | .gateway | .configmap => cfgAgg
    | _ => proxyAgg
  if r.rtype = .configmap then
    firstSome w.configCluster (fun c isCfg => c.getConfigMapCaCert isCfg r.name r.ns) ctl.controllers
  else if hasSuffix r.name cacertSuffix then
    firstSome w.configCluster (fun c _ => c.getCaCert r.name r.ns) ctl.controllers
  else
    firstSome w.configCluster (fun c _ => c.getCertInfo r.name r.ns) ctl.controllers

/-! ### SecretGen.Generate -/

/-- `model.Proxy` as read by `SecretGen`: `refs = none` is a nil `MergedGateway`. -/
structure Proxy where
  verified : Option Identity
  cluster  : Str
  refs     : Option (List Str)
  deriving DecidableEq, Repr

inductive CK
  | secret | configMap | other
  deriving DecidableEq, Repr

/-- `model.ConfigKey` (kind, name, namespace). -/
structure CKey where
  kind : CK
  name : Str
  ns   : Str
  deriving DecidableEq, Repr

/-- `model.PushRequest` (fields read by `Generate`). -/
structure PushReq where
  forced  : Bool
  updates : List CKey
  deriving DecidableEq, Repr

/-- `sdsNeedsPush`. -/
def sdsNeedsPush (r : PushReq) : Bool :=
  r.forced || r.updates.any (fun u => u.kind = .secret || u.kind = .configMap)

def RType.ck : RType → CK
  | .configmap => .configMap
  | .invalid => .other
  | _ => .secret

/-- `relatedConfigs`. -/
def relatedConfigs (r : SR) : List CKey :=
  let k : CKey := ⟨r.rtype.ck, r.name, r.ns⟩
  if hasSuffix r.name cacertSuffix then [k, ⟨k.kind, trimSuffix r.name cacertSuffix, r.ns⟩]
  else [k, ⟨k.kind, r.name ++ cacertSuffix, r.ns⟩]

/-- The incremental-push filter of `Generate` (`containsAny(updatedSecrets, relatedConfigs(..))`). -/
def touched (req : PushReq) (r : SR) : Bool :=
  req.forced ||
    (relatedConfigs r).any (fun k => req.updates.any (fun u => (u.kind = .secret || u.kind = .configMap) && u = k))

/-- `parseResources`: unparsable names are dropped. -/
def parseResources (names : List Str) (vns proxyCluster configCluster : Str) : List SR :=
  names.filterMap (fun n => parseResourceName n vns proxyCluster configCluster)

/-- One arm of the `switch` in `filterAuthorizedResources`. -/
def allowed (p : Proxy) (id : Identity) (authz : Bool) (r : SR) : Bool :=
  match r.rtype with
  | .gateway =>
    match p.refs with
    | some l => l.contains r.resourceName
    | none => false
  | .configmap => true
  | .kubernetes => r.ns = id.ns && (hasSuffix r.name cacertSuffix || authz)
  | .invalid => false

/-- `filterAuthorizedResources`. -/
def filterAuthorized (p : Proxy) (id : Identity) (authz : Bool) (rs : List SR) : List SR :=
  rs.filter (allowed p id authz)

/-- The SDS part of the xDS cache: key string ↦ cached resource (name, content). -/
abbrev Cache := List (Str × (Str × Val))

def Cache.get : Cache → Str → Option (Str × Val)
  | [], _ => none
  | (k, v) :: rest, q => if k = q then some v else Cache.get rest q

def Cache.add (c : Cache) (k : Str) (v : Str × Val) : Cache := (k, v) :: c

structure GenOut where
  res    : List (Str × Val) := []
  cached : Nat := 0
  regen  : Nat := 0
  cache  : Cache
  deriving Repr

/-- The loop of `Generate` over the authorised resources. -/
def genLoop (w : World) (req : PushReq) (pa ca : Agg) : List SR → GenOut → GenOut
  | [], o => o
  | r :: rs, o =>
    if !touched req r then genLoop w req pa ca rs o
    else
      match o.cache.get r.key with
      | some v => genLoop w req pa ca rs { o with res := o.res ++ [v], cached := o.cached + 1 }
      | none =>
        match genVal w r pa ca with
        | some v =>
          genLoop w req pa ca rs { o with res := o.res ++ [(r.resourceName, v)], regen := o.regen + 1,
                                          cache := o.cache.add r.key (r.resourceName, v) }
        | none => genLoop w req pa ca rs { o with regen := o.regen + 1 }

/-- `SecretGen.Generate`. `none` = the early `return nil, DefaultXdsLogDetails, nil` exits. -/
def generate (w : World) (cache : Cache) (p : Proxy) (names : List Str) (req : Option PushReq) : Option GenOut :=
  match p.verified with
  | none => none
  | some id =>
    match req with
    | none => none
    | some rq =>
      if !sdsNeedsPush rq then none
      else
        match w.forCluster p.cluster with
        | none => none
        | some pa =>
          match w.forCluster w.configCluster with
          | none => none
          | some ca =>
            let rs := filterAuthorized p id (pa.authz id.sa id.ns)
              (parseResources names id.ns p.cluster w.configCluster)
            some (genLoop w rq pa ca rs { cache := cache })

/-! ### MergedGateway.VerifiedCertificateReferences (pilot/pkg/model/gateway.go mergeGateways) -/

def builtinURI : Str := ['b', 'u', 'i', 'l', 't', 'i', 'n', ':', '/', '/']
def defaultName : Str := ['d', 'e', 'f', 'a', 'u', 'l', 't']
def listenerSetPrefix : Str := ['L', 'i', 's', 't', 'e', 'n', 'e', 'r', 'S', 'e', 't', '/']

/-- `credentials.ToResourceName`. -/
def toResourceName (name : Str) : Str :=
  if hasPrefix name builtinURI then defaultName
  else if hasPrefix name invalidURI then invalidURI
  else if hasPrefix name configmapURI || hasPrefix name kubernetesURI || hasPrefix name gatewayURI then name
  else kubernetesURI ++ name

/-- `credentials.ToKubernetesGatewayResource`. -/
def toKubernetesGatewayResource (ns name : Str) : Str :=
  if hasPrefix name builtinURI then builtinURI else gatewayURI ++ ns ++ '/' :: name

/-- `SecretResource.KubernetesResourceName`. -/
def SR.kubernetesResourceName (r : SR) : Str := r.rtype.str ++ uriSep ++ r.ns ++ '/' :: r.name

/-- A `networking.Server` as far as the reference computation reads it. -/
structure GwServer where
  hasPort   : Bool
  credNames : List Str
  credName  : Str
  isMutual  : Bool
  caCert    : Str
  deriving DecidableEq, Repr

/-- A Gateway `config.Config`: namespace, the three internal annotations, servers. -/
structure GwConfig where
  ns          : Str
  saAnn       : Str
  parentNsAnn : Str
  parentsAnn  : Str
  servers     : List GwServer
  /-- `Gateway.selector` (`none`: no selector). -/
  selector    : Option (List (Str × Str)) := none
  deriving DecidableEq, Repr

/-- `gwKind == gvk.ListenerSet`. -/
def GwConfig.listenerSet (g : GwConfig) : Bool := hasPrefix g.parentsAnn listenerSetPrefix

/-- `expectedNS`. -/
def GwConfig.expectedNs (g : GwConfig) : Str := if g.parentNsAnn ≠ [] then g.parentNsAnn else g.ns

/-- `identityVerified`: the proxy's verified identity when it matches the gateway's expected namespace and
    (if annotated) service account. -/
def identityVerified (vid : Option Identity) (g : GwConfig) : Option Identity :=
  match vid with
  | some id => if id.ns = g.expectedNs ∧ (id.sa = g.saAnn ∨ g.saAnn = []) then some id else none
  | none => none

/-- `PushContext.SecretAllowed(kind, resourceName, namespace)` - ReferenceGrant evaluation, abstract.
    The first argument says whether the kind is ListenerSet (else KubernetesGateway). -/
abbrev Grants := Bool → Str → Str → Bool

/-- `lookupNamespace`. -/
def lookupNs (g : GwConfig) (id : Identity) : Str := if g.listenerSet then g.ns else id.ns

/-- "same namespace is always allowed": `err == nil && configAndProxyAllowed && parse.Namespace == lookupNamespace`. -/
def sameNsRef (g : GwConfig) (id : Identity) (rn : Str) : Bool :=
  match parseResourceName rn id.ns [] [] with
  | some sr => (g.ns = id.ns || g.listenerSet) && sr.ns = lookupNs g id
  | none => false

/-- References inserted for one credential name of a server. -/
def credRefs (granted : Grants) (g : GwConfig) (id : Identity) (mtls : Bool) (cn : Str) : List Str :=
  if cn = [] then []
  else if hasPrefix cn builtinURI then []
  else
    let rn := toResourceName cn
    if sameNsRef g id rn || granted g.listenerSet rn (lookupNs g id) then
      (if mtls then [rn, rn ++ cacertSuffix] else [rn])
    else []

/-- The reference inserted for `caCertCredentialName`. -/
def caRefs (granted : Grants) (g : GwConfig) (id : Identity) (ca : Str) : List Str :=
  if ca ≠ [] ∧ hasPrefix ca gatewayURI then
    let rn := toResourceName ca
    match parseResourceName rn id.ns [] [] with
    | some _ => if sameNsRef g id rn || granted g.listenerSet rn (lookupNs g id) then [rn] else []
    | none => []
  else []

def serverRefs (granted : Grants) (g : GwConfig) (id : Identity) (s : GwServer) : List Str :=
  if !s.hasPort then []
  else
    (if s.credNames.isEmpty then [s.credName] else s.credNames).flatMap (credRefs granted g id s.isMutual) ++
      caRefs granted g id s.caCert

def gatewayRefs (granted : Grants) (vid : Option Identity) (g : GwConfig) : List Str :=
  match identityVerified vid g with
  | none => []
  | some id => g.servers.flatMap (serverRefs granted g id)

/-- `mergeGateways(...).VerifiedCertificateReferences` (as a list read as a set). -/
def verifiedRefs (granted : Grants) (vid : Option Identity) (gws : List GwConfig) : List Str :=
  gws.flatMap (gatewayRefs granted vid)

/-- `PushContext.mergeGateways` attachment for selector-based Gateways (gateways are not scoped to the proxy's
    namespace - the default): no selector applies to every gateway proxy, otherwise the selector must be a subset of
    the proxy's labels. -/
def attached (labels : List (Str × Str)) (g : GwConfig) : Bool :=
  match g.selector with
  | none => true
  | some sel => sel.all fun kv => labels.contains kv

/-- `DiscoveryServer.ClusterAliases`: the client-claimed `CLUSTER_ID` is rewritten in `initConnection`, before
    authorisation and before any credentials controller is chosen. -/
def resolveAlias (aliases : List (Str × Str)) (cid : Str) : Str :=
  match aliases.find? (fun a => a.1 = cid) with
  | some a => a.2
  | none => cid

/-! ### ListenerSet attachment (gatewaycommon.NamespaceAcceptedByAllowListeners) -/

/-- `spec.allowedListeners` of the parent Gateway as the predicate reads it: absent, `namespaces` absent, or a
    `from` value (`none` when unset or unknown... see `mode`) with an optional label selector (match labels). -/
inductive ALMode
  | absent | noNamespaces | all | same | none_ | selector | unset | bogus
  deriving DecidableEq, Repr

def nameLabel : Str := "kubernetes.io/metadata.name".toList

/-- `toNamespaceSet`: the namespace's labels with the implicit name label forced to the namespace's name. -/
def namespaceSet (name : Str) (labels : List (Str × Str)) : List (Str × Str) :=
  (nameLabel, name) :: labels.filter (fun kv => kv.1 ≠ nameLabel)

/-- `metav1.LabelSelectorRequirement` operators. -/
inductive LOp
  | in_ | notIn | exists_ | doesNotExist | bogus
  deriving DecidableEq, Repr

/-- One `matchExpressions` entry. -/
structure LExpr where
  key  : Str
  op   : LOp
  vals : List Str
  deriving DecidableEq, Repr

/-- `LabelSelectorAsSelector` fails (and the namespace is then refused) on `In`/`NotIn` without values, on
    `Exists`/`DoesNotExist` with values and on unknown operators. -/
def LExpr.valid (e : LExpr) : Bool :=
  match e.op with
  | .in_ | .notIn => !e.vals.isEmpty
  | .exists_ | .doesNotExist => e.vals.isEmpty
  | .bogus => false

def lookupLabel (labels : List (Str × Str)) (k : Str) : Option Str :=
  match labels.find? (fun kv => kv.1 = k) with
  | some kv => some kv.2
  | none => none

/-- `labels.Requirement.Matches`. -/
def LExpr.matches (e : LExpr) (labels : List (Str × Str)) : Bool :=
  match e.op, lookupLabel labels e.key with
  | .in_, some v => e.vals.contains v
  | .in_, none => false
  | .notIn, some v => !e.vals.contains v
  | .notIn, none => true
  | .exists_, some _ => true
  | .exists_, none => false
  | .doesNotExist, some _ => false
  | .doesNotExist, none => true
  | .bogus, _ => false

/-- `NamespaceAcceptedByAllowListeners(local, parent, lookup)`. `nsLabels = none`: the namespace object is not found.
    The selector is `matchLabels` (`sel`) plus `matchExpressions` (`exprs`). -/
def nsAccepted (localNs parentNs : Str) (mode : ALMode) (sel : Option (List (Str × Str))) (exprs : List LExpr)
    (nsLabels : Option (List (Str × Str))) : Bool :=
  match mode with
  | .absent | .noNamespaces | .none_ | .bogus => false
  | .all => true
  | .same => localNs = parentNs
  | .selector | .unset =>
    match sel, nsLabels with
    | some s, some l =>
      exprs.all LExpr.valid &&
        (s.all fun kv => lookupLabel (namespaceSet localNs l) kv.1 = some kv.2) &&
        (exprs.all fun e => e.matches (namespaceSet localNs l))
    | _, _ => false

/-! ### ReferenceGrant evaluation (pilot/pkg/config/kube/gatewaycommon/references.go) -/

/-- One (from, to) pair of a gateway-api `ReferenceGrant` object as `ReferenceGrantsCollection` keeps it.
    `fromLS = some true/false`: from kind ListenerSet / Gateway; `none`: another or unsupported from kind.
    `toKind`: Secret / ConfigMap / anything else. `srcNs` is the namespace the object lives in (= the `To`
    namespace). `name = none`: all names. -/
structure RefGrant where
  srcNs  : Str
  fromLS : Option Bool
  fromNs : Str
  toKind : CK
  name   : Option Str
  deriving DecidableEq, Repr

/-- `ReferenceGrants.SecretAllowed(kind, resourceName, namespace)`: the resource name is parsed with an empty
    proxy namespace; a grant must live in the parsed namespace, be for the parsed kind, name the requesting kind
    and namespace, and allow all names or exactly the parsed name. -/
def grantEval (grants : List RefGrant) : Grants := fun ls rn ns =>
  match parseResourceName rn [] [] [] with
  | none => false
  | some p =>
    grants.any fun g =>
      g.fromLS = some ls && g.fromNs = ns && g.srcNs = p.ns &&
        ((g.toKind = .secret && p.rtype.ck = .secret) || (g.toKind = .configMap && p.rtype.ck = .configMap)) &&
        (match g.name with
         | none => true
         | some n => n = p.name)

/-! ### The SubjectAccessReview result cache (kube/secrets.go: authorizationCache, cachedAuthorization, insertCache) -/

/-- One cached verdict: the user `(serviceAccount, namespace)`, the verdict, and the clock second at which it
    expires. -/
structure ACEntry where
  sa      : Str
  ns      : Str
  verdict : Bool
  exp     : Nat
  deriving DecidableEq, Repr

abbrev AuthCache := List ACEntry

/-- `cacheTTL`: one minute for a refusal (or an API error), five minutes for a success. -/
def authTTL (v : Bool) : Nat := if v then 300 else 60

/-- `clearExpiredCache` at clock second `now`. -/
def AuthCache.clear (now : Nat) (ac : AuthCache) : AuthCache := ac.filter (fun e => now < e.exp)

def AuthCache.find (ac : AuthCache) (sa ns : Str) : Option ACEntry :=
  List.find? (fun e => e.sa = sa && e.ns = ns) ac

/-- `CredentialsController.Authorize` with its cache: expired entries are dropped, a hit answers from the cache,
    a miss asks the API server (`truth`, false on an API error) and stores the answer. -/
def authorizeCached (truth : Str → Str → Bool) (now : Nat) (ac : AuthCache) (sa ns : Str) : Bool × AuthCache :=
  match (ac.clear now).find sa ns with
  | some e => (e.verdict, ac.clear now)
  | none => (truth sa ns, ⟨sa, ns, truth sa ns, now + authTTL (truth sa ns)⟩ :: ac.clear now)

/-- `isAuthorized()` is evaluated lazily: only when some `kubernetes://` resource of the verified namespace is not
    CA-only. -/
def needsAuthz (id : Identity) (rs : List SR) : Bool :=
  rs.any fun r => r.rtype = .kubernetes && r.ns = id.ns && !hasSuffix r.name cacertSuffix

/-- The world in which cluster `cid` answers every review with `v`. -/
def withVerdict (w : World) (cid : Str) (v : Bool) : World :=
  { w with clusters := w.clusters.map fun c => if c.id = cid then { c with authz := fun _ _ => v } else c }

/-- State threaded through a timed history: the xDS cache, the clock, one authorization cache per cluster. -/
structure TState where
  cache : Cache := []
  now   : Nat := 0
  acs   : List (Str × AuthCache) := []

def TState.acOf (s : TState) (cid : Str) : AuthCache :=
  match s.acs.find? (fun e => e.1 = cid) with
  | some e => e.2
  | none => []

def TState.setAc (s : TState) (cid : Str) (ac : AuthCache) : TState :=
  { s with acs := (cid, ac) :: s.acs.filter (fun e => e.1 ≠ cid) }

/-- `SecretGen.Generate` with the authorization cache in the loop: the verdict used by the filter is the cached or
    fresh answer of the proxy cluster's controller, obtained only if the filter needs it. -/
def generateT (w : World) (s : TState) (p : Proxy) (names : List Str) (req : Option PushReq) :
    Option GenOut × TState :=
  let plain := generate w s.cache p names req
  let fin := fun (o : Option GenOut) (s' : TState) =>
    match o with
    | some g => (o, { s' with cache := g.cache })
    | none => (o, s')
  match p.verified, req with
  | some id, some rq =>
    if !sdsNeedsPush rq then (none, s)
    else
      match w.forCluster p.cluster, w.forCluster w.configCluster with
      | some pa, some _ =>
        if needsAuthz id (parseResources names id.ns p.cluster w.configCluster) && pa.authOK then
          let r := authorizeCached pa.auth.authz s.now (s.acOf p.cluster) id.sa id.ns
          fin (generate (withVerdict w p.cluster r.1) s.cache p names req) (s.setAc p.cluster r.2)
        else fin plain s
      | _, _ => (none, s)
  | _, _ => (none, s)

/-! ### The other VerifiedIdentity-gated surfaces: debug / status / API generators -/

/-- What a debug config dump shows of a secret (`getConfigDumpByResourceType`): the certificate chain or CA; the
    private key - inline or inside a private-key-provider config - is redacted. -/
def Val.redacted : Val → Str
  | .tls c _ => c
  | .ca c => c

def systemNs : Str := "istio-system".toList

/-- What a proxy may ask: debug generator `config_dump?proxyID=V&types=sds` / `config_dump?proxyID=V` / `syncz` /
    its own `config_dump`; status generator `istio.io/debug/config_dump` / `istio.io/debug/syncz`; API generator. -/
inductive DebugQuery
  | sds | full | sgdump | syncz | sgsyncz | api | self
  | sdscds  -- config_dump?proxyID=V&types=sds,cds
  | cds     -- config_dump?proxyID=V&types=cds (no secrets in it)
  | ndsz | edsz
  deriving DecidableEq, Repr

inductive DebugOutcome
  | accepted | denied | unauthenticated
  deriving DecidableEq, Repr

/-- How the asking stream ends: all three generators refuse a proxy without `VerifiedIdentity`; `syncz` of the debug
    generator and the API generator are for the system namespace only. -/
def debugOutcome (asker : Option Identity) (q : DebugQuery) : DebugOutcome :=
  match asker with
  | none => .unauthenticated
  | some id =>
    -- an identity without namespace proves no namespace: refused (an empty caller namespace would read as "unrestricted")
    if id.ns = [] then .denied
    else
      match q with
      | .syncz | .api => if id.ns = systemNs then .accepted else .denied
      | _ => .accepted

/-- Config dumps of another proxy are visible to the system namespace and to the proxy's own (config) namespace. -/
def debugVisible (asker : Identity) (victimCfgNs : Str) : Bool := asker.ns = systemNs || victimCfgNs = asker.ns

/-- The secret payloads a dump of the victim's SDS state shows to the asker. -/
def debugDump (asker : Option Identity) (q : DebugQuery) (victimCfgNs : Str) (victimSecrets : List (Str × Val)) : List Str :=
  match asker with
  | none => []
  | some id =>
    match q with
    | .sds | .full | .sgdump | .sdscds =>
      if debugVisible id victimCfgNs then victimSecrets.map (fun e => e.2.redacted) else []
    | _ => []

/-- What the asker is actually sent: the dump, if its stream is served at all. -/
def debugAnswer (asker : Option Identity) (q : DebugQuery) (victimCfgNs : Str) (victimSecrets : List (Str × Val)) : List Str :=
  if debugOutcome asker q = .accepted then debugDump asker q victimCfgNs victimSecrets else []

/-! ### Private key providers (sds.go: pkpConfHash in the cache key, toEnvoyTLSSecret) -/

/-- The effective private key provider of a proxy (`Metadata.ProxyConfigOrDefault(mesh default)`): the proxy's own
    ProxyConfig when it sent one - even one without a provider - else the mesh-wide default. The string is the label of
    the provider configuration (`[]` = none); in the real key it is the xxhash of the configuration. -/
def effectivePkp (meshDefault : Str) (own : Option Str) : Str :=
  match own with
  | some k => k
  | none => meshDefault

/-- The real cache key: `credentials.SecretResource.Key() + "/" + pkpConfHash`. -/
def SR.fullKey (r : SR) (hash : Str) : Str := r.key ++ hash

/-- The xDS cache seen through its key suffixes: one partition per provider hash. Because the hash is the last,
    slash-free component of the key (`fullKey_injective`), entries of different partitions never meet. -/
abbrev PCaches := List (Str × Cache)

def PCaches.part (pcs : PCaches) (hash : Str) : Cache :=
  match pcs.find? (fun e => e.1 = hash) with
  | some e => e.2
  | none => []

def PCaches.setPart (pcs : PCaches) (hash : Str) (c : Cache) : PCaches :=
  (hash, c) :: pcs.filter (fun e => e.1 ≠ hash)

/-- `SecretGen.Generate` for a proxy with effective provider `hash`: `generateT` on the partition of that hash. The
    released content is the same; `toEnvoyTLSSecret` only moves the key into the provider's config. -/
def generateP (w : World) (pcs : PCaches) (now : Nat) (acs : List (Str × AuthCache)) (hash : Str) (p : Proxy)
    (names : List Str) (req : Option PushReq) : Option GenOut × PCaches × List (Str × AuthCache) :=
  let r := generateT w { cache := pcs.part hash, now := now, acs := acs } p names req
  match r.1 with
  | some o => (some o, pcs.setPart hash r.2.cache, r.2.acs)
  | none => (none, pcs, r.2.acs)

end IstioModel.C11
