import IstioModel.C11.SdsTheorems

/-!
C11 - the grant clause: how `MergedGateway.VerifiedCertificateReferences` is filled (`mergeGateways`).

"... or for references explicitly verified by a grant ... never across namespaces": every name that
`mergeGateways` inserts into the verified set is justified by the proxy's *verified* identity matching the
Gateway config's expected namespace / service account, and either names a secret in the verified identity's own
namespace (through a config living in that namespace; for ListenerSet children: the config's namespace) or is
explicitly allowed by `SecretAllowed` (ReferenceGrant) for exactly that name and lookup namespace.
-/
namespace IstioModel.C11

/-- Why a resource name `base` may enter the verified set for gateway config `g` and verified identity `id`. -/
def RefJustified (granted : Grants) (g : GwConfig) (id : Identity) (base : Str) : Prop :=
  (∃ sr, parseResourceName base id.ns [] [] = some sr ∧ (g.ns = id.ns ∨ g.listenerSet = true) ∧
      sr.ns = lookupNs g id) ∨
    granted g.listenerSet base (lookupNs g id) = true

/-- `identityVerified` holds only for the proxy's verified identity, and only if its namespace is the one the
    Gateway expects and its service account is the annotated one (when annotated). -/
theorem identityVerified_some {vid : Option Identity} {g : GwConfig} {id : Identity}
    (h : identityVerified vid g = some id) :
    vid = some id ∧ id.ns = g.expectedNs ∧ (id.sa = g.saAnn ∨ g.saAnn = []) := by
  unfold identityVerified at h
  cases vid with
  | none => cases h
  | some i =>
    simp only at h
    split at h
    · rename_i hc; cases h; exact ⟨rfl, hc.1, hc.2⟩
    · cases h

theorem sameNsRef_true {g : GwConfig} {id : Identity} {rn : Str} (h : sameNsRef g id rn = true) :
    ∃ sr, parseResourceName rn id.ns [] [] = some sr ∧ (g.ns = id.ns ∨ g.listenerSet = true) ∧
      sr.ns = lookupNs g id := by
  unfold sameNsRef at h
  cases hp : parseResourceName rn id.ns [] [] with
  | none => rw [hp] at h; cases h
  | some sr =>
    rw [hp] at h
    simp only [Bool.and_eq_true, Bool.or_eq_true, decide_eq_true_eq] at h
    exact ⟨sr, rfl, h.1, h.2⟩

theorem justified_of_or {granted : Grants} {g : GwConfig} {id : Identity} {rn : Str}
    (h : (sameNsRef g id rn || granted g.listenerSet rn (lookupNs g id)) = true) : RefJustified granted g id rn := by
  simp only [Bool.or_eq_true] at h
  cases h with
  | inl h => exact Or.inl (sameNsRef_true h)
  | inr h => exact Or.inr h

/-- References inserted for a credential name: the resource name itself, plus its `-cacert` companion for
    (OPTIONAL_)MUTUAL servers - both justified by the base name. -/
theorem credRefs_sound {granted : Grants} {g : GwConfig} {id : Identity} {m : Bool} {cn rn : Str}
    (h : rn ∈ credRefs granted g id m cn) :
    ∃ base, (rn = base ∨ rn = base ++ cacertSuffix) ∧ RefJustified granted g id base := by
  unfold credRefs at h
  split at h
  · cases h
  · split at h
    · cases h
    · simp only at h
      split at h
      · rename_i hj
        refine ⟨toResourceName cn, ?_, justified_of_or hj⟩
        split at h
        · simp only [List.mem_cons, List.not_mem_nil, or_false] at h
          exact h
        · simp only [List.mem_cons, List.not_mem_nil, or_false] at h
          exact Or.inl h
      · cases h

theorem caRefs_sound {granted : Grants} {g : GwConfig} {id : Identity} {ca rn : Str}
    (h : rn ∈ caRefs granted g id ca) : RefJustified granted g id rn := by
  unfold caRefs at h
  split at h
  · simp only at h
    split at h
    · split at h
      · rename_i hj
        simp only [List.mem_cons, List.not_mem_nil, or_false] at h
        subst h
        exact justified_of_or hj
      · cases h
    · cases h
  · cases h

/-- **refs_sound.** Every name in `VerifiedCertificateReferences` exists because the proxy's verified identity
    `id` is the one a Gateway config `g` expects (namespace = parent-namespace annotation or the config's
    namespace, service account = annotation when present), and its base name (the name, or the name without the
    `-cacert` companion suffix) parses - against the verified namespace - to a secret in the lookup namespace
    through a config of that namespace, or is granted for exactly (kind, base name, lookup namespace). -/
theorem refs_sound (granted : Grants) (vid : Option Identity) (gws : List GwConfig) (rn : Str)
    (h : rn ∈ verifiedRefs granted vid gws) :
    ∃ id g, vid = some id ∧ g ∈ gws ∧ id.ns = g.expectedNs ∧ (id.sa = g.saAnn ∨ g.saAnn = []) ∧
      ∃ base, (rn = base ∨ rn = base ++ cacertSuffix) ∧ RefJustified granted g id base := by
  unfold verifiedRefs at h
  rw [List.mem_flatMap] at h
  obtain ⟨g, hg, hrn⟩ := h
  unfold gatewayRefs at hrn
  cases hi : identityVerified vid g with
  | none => rw [hi] at hrn; cases hrn
  | some id =>
    rw [hi] at hrn
    simp only at hrn
    obtain ⟨hv, hns, hsa⟩ := identityVerified_some hi
    rw [List.mem_flatMap] at hrn
    obtain ⟨s, _, hs⟩ := hrn
    unfold serverRefs at hs
    split at hs
    · cases hs
    · rw [List.mem_append] at hs
      cases hs with
      | inl hs =>
        rw [List.mem_flatMap] at hs
        obtain ⟨cn, _, hcn⟩ := hs
        exact ⟨id, g, hv, hg, hns, hsa, credRefs_sound hcn⟩
      | inr hs => exact ⟨id, g, hv, hg, hns, hsa, rn, Or.inl rfl, caRefs_sound hs⟩

/-- A proxy without `VerifiedIdentity` has no verified reference at all. -/
theorem refs_unverified (granted : Grants) (gws : List GwConfig) : verifiedRefs granted none gws = [] := by
  unfold verifiedRefs
  induction gws with
  | nil => rfl
  | cons g gs ih => simp [List.flatMap_cons, gatewayRefs, identityVerified, ih]

/-- **refs_same_namespace_or_granted.** For an ordinary Gateway (not a ListenerSet child): an inserted base name
    names a secret in the verified identity's own namespace and the Gateway config lives there too - or the
    reference is granted to the verified namespace. Never across namespaces without a grant. -/
theorem refs_same_namespace_or_granted {granted : Grants} {g : GwConfig} {id : Identity} {base : Str}
    (hls : g.listenerSet = false) (h : RefJustified granted g id base) :
    (∃ sr, parseResourceName base id.ns [] [] = some sr ∧ g.ns = id.ns ∧ sr.ns = id.ns) ∨
      granted false base id.ns = true := by
  unfold RefJustified at h
  have hl : lookupNs g id = id.ns := by simp [lookupNs, hls]
  rw [hl, hls] at h
  cases h with
  | inl h =>
    obtain ⟨sr, hp, hc, hn⟩ := h
    left
    refine ⟨sr, hp, ?_, hn⟩
    cases hc with
    | inl hc => exact hc
    | inr hc => cases hc
  | inr h => exact Or.inr h

/-- **gateway_release_bound.** End of the chain for the grant clause: when the proxy's verified set is the one
    `mergeGateways` computes from its verified identity, a `kubernetes-gateway://` key pair is released only under a
    name justified as in `refs_sound`. -/
theorem gateway_release_bound (w : World) (hw : WorldOK w) (granted : Grants) (gws : List GwConfig)
    (vid : Option Identity) (cluster : Str) (hp : ProxyOK ⟨vid, cluster, some (verifiedRefs granted vid gws)⟩)
    (c : Cache) (hc : Consistent w c) (names : List Str) (req : Option PushReq) (o : GenOut)
    (h : generate w c ⟨vid, cluster, some (verifiedRefs granted vid gws)⟩ names req = some o)
    (name : Str) (v : Val) (hm : (name, v) ∈ o.res) (hk : v.hasKey = true) :
    (∃ id sr, vid = some id ∧ parseResourceName name id.ns cluster w.configCluster = some sr ∧
        sr.rtype = .kubernetes ∧ sr.ns = id.ns) ∨
    (∃ id g, vid = some id ∧ g ∈ gws ∧ id.ns = g.expectedNs ∧ (id.sa = g.saAnn ∨ g.saAnn = []) ∧
        ∃ base, (name = base ∨ name = base ++ cacertSuffix) ∧ RefJustified granted g id base) := by
  obtain ⟨id, sr, pc, hv, _, hparse, _, hcase, _⟩ :=
    sds_release_sound w hw _ hp c hc names req o h name v hm hk
  cases hcase with
  | inl hkube => exact Or.inl ⟨id, sr, hv, hparse, hkube.1, hkube.2.1⟩
  | inr hgw =>
    obtain ⟨l, hl, hmem⟩ := hgw.2
    simp only [Option.some.injEq] at hl
    subst hl
    obtain ⟨id', g, hv', hg, hns, hsa, hb⟩ := refs_sound granted vid gws name hmem
    exact Or.inr ⟨id', g, hv', hg, hns, hsa, hb⟩

/-! Non-vacuity. -/

def exGw : GwConfig :=
  { ns := "ns1".toList, saAnn := "sa1".toList, parentNsAnn := [], parentsAnn := [],
    servers := [⟨true, [], "kubernetes-gateway://ns1/a".toList, true, "kubernetes-gateway://ns2/ca".toList⟩,
                ⟨true, ["kubernetes-gateway://ns2/b".toList, "c".toList], [], false, []⟩] }

def exGrants : Grants := fun ls rn ns => !ls && rn = "kubernetes-gateway://ns2/b".toList && ns = "ns1".toList

example : verifiedRefs exGrants (some ⟨"td".toList, "ns1".toList, "sa1".toList⟩) [exGw] =
    ["kubernetes-gateway://ns1/a".toList, "kubernetes-gateway://ns1/a-cacert".toList,
     "kubernetes-gateway://ns2/b".toList, "kubernetes://c".toList] := by decide

example : verifiedRefs exGrants (some ⟨"td".toList, "ns1".toList, "sa2".toList⟩) [exGw] = [] := by decide
example : verifiedRefs exGrants (some ⟨"td".toList, "ns2".toList, "sa1".toList⟩) [exGw] = [] := by decide

end IstioModel.C11
