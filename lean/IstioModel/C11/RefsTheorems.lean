import IstioModel.C11.SdsTheorems

/-!
C11 - the grant clause: how `MergedGateway.VerifiedCertificateReferences` is filled (`mergeGateways`).

"... or for references explicitly verified by a grant ... never across namespaces": every name that
`mergeGateways` inserts into the verified set is justified by the proxy's *verified* identity matching the
Gateway config's expected namespace / service account, and either names a secret in the verified identity's own
namespace (through a config living in that namespace; for ListenerSet children: the config's namespace) or is
explicitly allowed by `SecretAllowed` (ReferenceGrant) for exactly that name and lookup namespace.
-/
namespace IstioModel.C11

/-- Why a resource name `base` may enter the verified set for gateway config `g` and verified identity `id`. -/
def RefJustified (granted : Grants) (g : GwConfig) (id : Identity) (base : Str) : Prop :=
  (∃ sr, parseResourceName base id.ns [] [] = some sr ∧ (g.ns = id.ns ∨ g.listenerSet = true) ∧
      sr.ns = lookupNs g id) ∨
    granted g.listenerSet base (lookupNs g id) = true

/-- `identityVerified` holds only for the proxy's verified identity, and only if its namespace is the one the
    Gateway expects and its service account is the annotated one (when annotated). -/
theorem identityVerified_some {vid : Option Identity} {g : GwConfig} {id : Identity}
    (h : identityVerified vid g = some id) :
    vid = some id ∧ id.ns = g.expectedNs ∧ (id.sa = g.saAnn ∨ g.saAnn = []) := by
  unfold identityVerified at h
  cases vid with
  | none => cases h
  | some i =>
    simp only at h
    split at h
    · rename_i hc; cases h; exact ⟨rfl, hc.1, hc.2⟩
    · cases h

theorem sameNsRef_true {g : GwConfig} {id : Identity} {rn : Str} (h : sameNsRef g id rn = true) :
    ∃ sr, parseResourceName rn id.ns [] [] = some sr ∧ (g.ns = id.ns ∨ g.listenerSet = true) ∧
      sr.ns = lookupNs g id := by
  unfold sameNsRef at h
  cases hp : parseResourceName rn id.ns [] [] with
  | none => rw [hp] at h; cases h
  | some sr =>
    rw [hp] at h
    simp only [Bool.and_eq_true, Bool.or_eq_true, decide_eq_true_eq] at h
    exact ⟨sr, rfl, h.1, h.2⟩

theorem justified_of_or {granted : Grants} {g : GwConfig} {id : Identity} {rn : Str}
    (h : (sameNsRef g id rn || granted g.listenerSet rn (lookupNs g id)) = true) : RefJustified granted g id rn := by
  simp only [Bool.or_eq_true] at h
  cases h with
  | inl h => exact Or.inl (sameNsRef_true h)
  | inr h => exact Or.inr h

/-- References inserted for a credential name: the resource name itself, plus its `-cacert` companion for
    (OPTIONAL_)MUTUAL servers - both justified by the base name. -/
theorem credRefs_sound {granted : Grants} {g : GwConfig} {id : Identity} {m : Bool} {cn rn : Str}
    (h : rn ∈ credRefs granted g id m cn) :
    ∃ base, (rn = base ∨ rn = base ++ cacertSuffix) ∧ RefJustified granted g id base := by
  unfold credRefs at h
  split at h
  · cases h
  · split at h
    · cases h
    · simp only at h
      split at h
      · rename_i hj
        refine ⟨toResourceName cn, ?_, justified_of_or hj⟩
        split at h
        · simp only [List.mem_cons, List.not_mem_nil, or_false] at h
          exact h
        · simp only [List.mem_cons, List.not_mem_nil, or_false] at h
          exact Or.inl h
      · cases h

theorem caRefs_sound {granted : Grants} {g : GwConfig} {id : Identity} {ca rn : Str}
    (h : rn ∈ caRefs granted g id ca) : RefJustified granted g id rn := by
  unfold caRefs at h
  split at h
  · simp only at h
    split at h
    · split at h
      · rename_i hj
        simp only [List.mem_cons, List.not_mem_nil, or_false] at h
        subst h
        exact justified_of_or hj
      · cases h
    · cases h
  · cases h

/-- **refs_sound.** Every name in `VerifiedCertificateReferences` exists because the proxy's verified identity
    `id` is the one a Gateway config `g` expects (namespace = parent-namespace annotation or the config's
    namespace, service account = annotation when present), and its base name (the name, or the name without the
    `-cacert` companion suffix) parses - against the verified namespace - to a secret in the lookup namespace
    through a config of that namespace, or is granted for exactly (kind, base name, lookup namespace). -/
theorem refs_sound (granted : Grants) (vid : Option Identity) (gws : List GwConfig) (rn : Str)
    (h : rn ∈ verifiedRefs granted vid gws) :
    ∃ id g, vid = some id ∧ g ∈ gws ∧ id.ns = g.expectedNs ∧ (id.sa = g.saAnn ∨ g.saAnn = []) ∧
      ∃ base, (rn = base ∨ rn = base ++ cacertSuffix) ∧ RefJustified granted g id base := by
  unfold verifiedRefs at h
  rw [List.mem_flatMap] at h
  obtain ⟨g, hg, hrn⟩ := h
  unfold gatewayRefs at hrn
  cases hi : identityVerified vid g with
  | none => rw [hi] at hrn; cases hrn
  | some id =>
    rw [hi] at hrn
    simp only at hrn
    obtain ⟨hv, hns, hsa⟩ := identityVerified_some hi
    rw [List.mem_flatMap] at hrn
    obtain ⟨s, _, hs⟩ := hrn
    unfold serverRefs at hs
    split at hs
    · cases hs
    · rw [List.mem_append] at hs
      cases hs with
      | inl hs =>
        rw [List.mem_flatMap] at hs
        obtain ⟨cn, _, hcn⟩ := hs
        exact ⟨id, g, hv, hg, hns, hsa, credRefs_sound hcn⟩
      | inr hs => exact ⟨id, g, hv, hg, hns, hsa, rn, Or.inl rfl, caRefs_sound hs⟩

/-- A proxy without `VerifiedIdentity` has no verified reference at all. -/
theorem refs_unverified (granted : Grants) (gws : List GwConfig) : verifiedRefs granted none gws = [] := by
  unfold verifiedRefs
  induction gws with
  | nil => rfl
  | cons g gs ih => simp [List.flatMap_cons, gatewayRefs, identityVerified, ih]

/-- **refs_same_namespace_or_granted.** For an ordinary Gateway (not a ListenerSet child): an inserted base name
    names a secret in the verified identity's own namespace and the Gateway config lives there too - or the
    reference is granted to the verified namespace. Never across namespaces without a grant. -/
theorem refs_same_namespace_or_granted {granted : Grants} {g : GwConfig} {id : Identity} {base : Str}
    (hls : g.listenerSet = false) (h : RefJustified granted g id base) :
    (∃ sr, parseResourceName base id.ns [] [] = some sr ∧ g.ns = id.ns ∧ sr.ns = id.ns) ∨
      granted false base id.ns = true := by
  unfold RefJustified at h
  have hl : lookupNs g id = id.ns := by simp [lookupNs, hls]
  rw [hl, hls] at h
  cases h with
  | inl h =>
    obtain ⟨sr, hp, hc, hn⟩ := h
    left
    refine ⟨sr, hp, ?_, hn⟩
    cases hc with
    | inl hc => exact hc
    | inr hc => cases hc
  | inr h => exact Or.inr h

/-- **refs_listenerset_config_namespace.** For a ListenerSet child (a config whose parents annotation starts with
    `ListenerSet/`) the lookup namespace is the *config's* namespace, not the verified identity's: an inserted base
    name names a secret in the namespace the ListenerSet lives in, or is granted to that namespace. This is
    cross-namespace with respect to the proxy by design; it is safe only under the AllowedListeners handshake: such
    configs are emitted by the ListenerSet conversion (`gateway_collection.go`) only after
    `NamespaceAcceptedByAllowListeners(listenerSetNamespace, parentGateway)` holds, with parent-namespace = the parent
    Gateway's namespace - an ASSUMPTION of this property about whoever creates configs carrying the internal
    annotations (the secrets exposed are always those of the config author's own namespace). -/
theorem refs_listenerset_config_namespace {granted : Grants} {g : GwConfig} {id : Identity} {base : Str}
    (hls : g.listenerSet = true) (h : RefJustified granted g id base) :
    (∃ sr, parseResourceName base id.ns [] [] = some sr ∧ sr.ns = g.ns) ∨ granted true base g.ns = true := by
  unfold RefJustified at h
  have hl : lookupNs g id = g.ns := by simp [lookupNs, hls]
  rw [hl, hls] at h
  cases h with
  | inl h =>
    obtain ⟨sr, hp, _, hn⟩ := h
    exact Or.inl ⟨sr, hp, hn⟩
  | inr h => exact Or.inr h

/-- The witness behind the assumption: with no grant at all, a config in namespace `other` that carries
    `parent-namespace: ns1` and `parents: ListenerSet/x` makes an ns1 gateway proxy's verified set contain
    `kubernetes-gateway://other/s`. -/
example : verifiedRefs (fun _ _ _ => false) (some ⟨"td".toList, "ns1".toList, "sa".toList⟩)
      [{ ns := "other".toList, saAnn := [], parentNsAnn := "ns1".toList, parentsAnn := "ListenerSet/x".toList,
         servers := [⟨true, [], "kubernetes-gateway://other/s".toList, false, []⟩] }] =
    ["kubernetes-gateway://other/s".toList] := by decide

/-- Without the ListenerSet marker the same config yields nothing: the config's namespace must be the verified one. -/
example : verifiedRefs (fun _ _ _ => false) (some ⟨"td".toList, "ns1".toList, "sa".toList⟩)
      [{ ns := "other".toList, saAnn := [], parentNsAnn := "ns1".toList, parentsAnn := "Gateway/x".toList,
         servers := [⟨true, [], "kubernetes-gateway://other/s".toList, false, []⟩] }] = [] := by decide

/-- **refs_only_from_attached.** With selector-based attachment (`PushContext.mergeGateways`) a verified reference
    comes from a Gateway whose selector is contained in the proxy's labels (or that has no selector). -/
theorem refs_only_from_attached (granted : Grants) (vid : Option Identity) (gws : List GwConfig)
    (labels : List (Str × Str)) (rn : Str) (h : rn ∈ verifiedRefs granted vid (gws.filter (attached labels))) :
    ∃ id g, vid = some id ∧ g ∈ gws ∧ attached labels g = true ∧
      (∀ sel, g.selector = some sel → ∀ kv ∈ sel, kv ∈ labels) ∧
      id.ns = g.expectedNs ∧ (id.sa = g.saAnn ∨ g.saAnn = []) := by
  obtain ⟨id, g, hv, hg, hns, hsa, _⟩ := refs_sound granted vid _ rn h
  obtain ⟨hg1, hg2⟩ := List.mem_filter.mp hg
  refine ⟨id, g, hv, hg1, hg2, ?_, hns, hsa⟩
  intro sel hsel kv hkv
  unfold attached at hg2
  rw [hsel] at hg2
  simp only [List.all_eq_true] at hg2
  simpa using hg2 kv hkv

/-- Type, namespace and name of a parsed resource do not depend on the cluster arguments. -/
theorem parse_clusters_irrelevant (rn vns pc cc pc' cc' : Str) {sr : SR}
    (h : parseResourceName rn vns pc cc = some sr) :
    ∃ sr', parseResourceName rn vns pc' cc' = some sr' ∧ sr'.rtype = sr.rtype ∧ sr'.ns = sr.ns ∧ sr'.name = sr.name := by
  have nsName : ∀ (t : RType) (res cl cl' : Str), parseNsName t rn res cl = some sr →
      ∃ sr', parseNsName t rn res cl' = some sr' ∧ sr'.rtype = sr.rtype ∧ sr'.ns = sr.ns ∧ sr'.name = sr.name := by
    intro t res cl cl' hp
    unfold parseNsName at hp ⊢
    split at hp
    · split at hp
      · cases hp
      · split at hp
        · cases hp
        · cases hp
          rename_i ha hb
          simp [ha, hb]
    · cases hp
  unfold parseResourceName at h ⊢
  cases hk : cutPrefix rn kubernetesURI with
  | some res =>
    rw [hk] at h
    simp only at h ⊢
    split at h <;> (cases h; simp)
  | none =>
    rw [hk] at h
    simp only at h ⊢
    cases hc : cutPrefix rn configmapURI with
    | some res => rw [hc] at h; simp only at h ⊢; exact nsName _ _ _ _ h
    | none =>
      rw [hc] at h
      simp only at h ⊢
      cases hg : cutPrefix rn gatewayURI with
      | some res => rw [hg] at h; simp only at h ⊢; exact nsName _ _ _ _ h
      | none =>
        rw [hg] at h
        simp only at h ⊢
        split at h
        · rename_i hi; cases h; simp [hi]
        · cases h

/-- **cacert_companion_same_secret.** The `-cacert` companion name `base ++ "-cacert"` that `mergeGateways`
    inserts for (OPTIONAL_)MUTUAL servers can release a *key pair* only when the suffix sits in a later path
    segment - and then it denotes exactly the secret `(namespace, name)` that `base` denotes. (When the suffix
    ends the parsed name the resource is CA-only and carries no key.) -/
theorem cacert_companion_same_secret {base vns pc cc : Str} {sr : SR}
    (h : parseResourceName (base ++ cacertSuffix) vns pc cc = some sr) (ht : sr.rtype = .gateway)
    (hns : hasSuffix sr.name cacertSuffix = false) :
    ∃ sr', parseResourceName base vns pc cc = some sr' ∧ sr'.rtype = .gateway ∧ sr'.ns = sr.ns ∧
      sr'.name = sr.name := by
  obtain ⟨_, _, hk | hc | hg | hi⟩ := parse_some h
  · rw [hk.1] at ht; cases ht
  · rw [hc.1] at ht; cases ht
  · obtain ⟨_, _, hnse, hnme, res, more, hrn, hsp⟩ := hg
    have hsep : '/' ∈ res := sep_mem_of_split_two hsp
    have hsuf : '/' ∉ cacertSuffix := by decide
    obtain ⟨res', hres, hbase⟩ := suffix_inside '/' hsuf hsep hrn.symm
    rw [hres, split_append_nosep '/' res' cacertSuffix hsuf] at hsp
    have key : ∃ z r, split '/' res' = sr.ns :: sr.name :: z :: r := by
      cases hs : split '/' res' with
      | nil => exact absurd hs (split_ne_nil _ _)
      | cons x t =>
        rw [hs] at hsp
        cases t with
        | nil => simp [appendLast] at hsp
        | cons y t2 =>
          cases t2 with
          | nil =>
            simp only [appendLast, List.cons.injEq] at hsp
            have : hasSuffix sr.name cacertSuffix = true := hasSuffix_iff.mpr ⟨y, hsp.2.1.symm⟩
            rw [hns] at this; cases this
          | cons z r =>
            simp only [appendLast, List.cons.injEq] at hsp
            exact ⟨z, r, by rw [hsp.1, hsp.2.1]⟩
    obtain ⟨z, r, hsplit⟩ := key
    refine ⟨⟨.gateway, sr.name, sr.ns, base, cc⟩, ?_, rfl, rfl, rfl⟩
    unfold parseResourceName
    rw [hbase, cutPrefix_gateway_kubernetes]
    simp only
    rw [cutPrefix_gateway_configmap]
    simp only
    rw [cutPrefix_append]
    simp only [parseNsName, hsplit]
    simp [hnse, hnme]
  · rw [hi.1] at ht; cases ht

/-- **grantEval_sound.** The real ReferenceGrant evaluation allows a reference only if a grant object lives in the
    namespace the resource name itself names (parsed with an empty proxy namespace, so never an implicit one), is
    for Secrets (ConfigMaps for `configmap://`), names the requesting kind and namespace, and allows the name. -/
theorem grantEval_sound {grants : List RefGrant} {ls : Bool} {rn ns : Str}
    (h : grantEval grants ls rn ns = true) :
    ∃ p g, parseResourceName rn [] [] [] = some p ∧ g ∈ grants ∧ g.srcNs = p.ns ∧ g.fromNs = ns ∧
      g.fromLS = some ls ∧ (g.name = none ∨ g.name = some p.name) ∧ g.toKind = p.rtype.ck ∧ g.toKind ≠ .other := by
  unfold grantEval at h
  cases hp : parseResourceName rn [] [] [] with
  | none => rw [hp] at h; cases h
  | some p =>
    rw [hp] at h
    simp only [List.any_eq_true] at h
    obtain ⟨g, hg, hc⟩ := h
    simp only [Bool.and_eq_true, Bool.or_eq_true, decide_eq_true_eq] at hc
    obtain ⟨⟨⟨⟨h1, h2⟩, h3⟩, h4⟩, h5⟩ := hc
    refine ⟨p, g, rfl, hg, h3, h2, h1, ?_, ?_, ?_⟩
    · cases hn : g.name with
      | none => exact Or.inl rfl
      | some n =>
        rw [hn] at h5
        simp only [decide_eq_true_eq] at h5
        exact Or.inr (by rw [h5])
    · cases h4 with
      | inl h4 => rw [h4.1, h4.2]
      | inr h4 => rw [h4.1, h4.2]
    · cases h4 with
      | inl h4 => rw [h4.1]; decide
      | inr h4 => rw [h4.1]; decide

/-- **gateway_release_bound.** End of the chain for the grant clause: when the proxy's verified set is the one
    `mergeGateways` computes from its verified identity, a `kubernetes-gateway://` key pair released under `name` is
    the key pair of the secret `(sr.name, sr.ns)` the name parses to, stored in the config cluster or the proxy's
    cluster, and that very `(namespace, name)` is what a justified base reference denotes: `name` itself, or `name`
    without the `-cacert` companion suffix (`cacert_companion_same_secret`). -/
theorem gateway_release_bound (w : World) (hw : WorldOK w) (granted : Grants) (gws : List GwConfig)
    (vid : Option Identity) (cluster : Str) (hp : ProxyOK ⟨vid, cluster, some (verifiedRefs granted vid gws)⟩)
    (c : Cache) (hc : Consistent w c) (names : List Str) (req : Option PushReq) (o : GenOut)
    (h : generate w c ⟨vid, cluster, some (verifiedRefs granted vid gws)⟩ names req = some o)
    (name : Str) (v : Val) (hm : (name, v) ∈ o.res) (hk : v.hasKey = true) :
    ∃ id sr, vid = some id ∧ parseResourceName name id.ns cluster w.configCluster = some sr ∧
      (∃ cl ∈ w.clusters, (cl.id = w.configCluster ∨ (sr.rtype = .kubernetes ∧ cl.id = cluster)) ∧
        ∃ d, cl.secrets sr.name sr.ns = some d ∧ extractCertInfo d = some v) ∧
      ((sr.rtype = .kubernetes ∧ sr.ns = id.ns) ∨
       (sr.rtype = .gateway ∧ ∃ g, g ∈ gws ∧ id.ns = g.expectedNs ∧ (id.sa = g.saAnn ∨ g.saAnn = []) ∧
          ∃ base sr0, (name = base ∨ name = base ++ cacertSuffix) ∧
            parseResourceName base id.ns [] [] = some sr0 ∧ sr0.ns = sr.ns ∧ sr0.name = sr.name ∧
            RefJustified granted g id base)) := by
  obtain ⟨id, sr, pc, hv, _, hparse, _, hcase, hnca, hstore⟩ :=
    sds_release_sound w hw _ hp c hc names req o h name v hm hk
  refine ⟨id, sr, hv, hparse, hstore, ?_⟩
  cases hcase with
  | inl hkube => exact Or.inl ⟨hkube.1, hkube.2.1⟩
  | inr hgw =>
    right
    refine ⟨hgw.1, ?_⟩
    obtain ⟨l, hl, hmem⟩ := hgw.2
    simp only [Option.some.injEq] at hl
    subst hl
    obtain ⟨id', g, hv', hg, hns, hsa, base, hb, hj⟩ := refs_sound granted vid gws name hmem
    have hid : id' = id := by
      have hv2 : vid = some id := hv
      rw [hv2] at hv'
      exact (Option.some.inj hv').symm
    subst hid
    refine ⟨g, hg, hns, hsa, base, ?_⟩
    cases hb with
    | inl hb =>
      subst hb
      obtain ⟨sr0, hp0, _, h2, h3⟩ := parse_clusters_irrelevant name id'.ns cluster w.configCluster [] [] hparse
      exact ⟨sr0, Or.inl rfl, hp0, h2, h3, hj⟩
    | inr hb =>
      subst hb
      obtain ⟨sr1, hp1, _, h2, h3⟩ := cacert_companion_same_secret hparse hgw.1 hnca
      obtain ⟨sr0, hp0, _, h4, h5⟩ := parse_clusters_irrelevant base id'.ns cluster w.configCluster [] [] hp1
      exact ⟨sr0, Or.inr rfl, hp0, by rw [h4, h2], by rw [h5, h3], hj⟩

/-- **gateway_key_own_namespace_or_granted.** For an ordinary Gateway (not a ListenerSet child) the secret whose key
    pair is released under a verified `kubernetes-gateway://` name lives in the verified identity's own namespace
    (and so does the Gateway config), or the base reference is granted to the verified namespace. -/
theorem gateway_key_own_namespace_or_granted {granted : Grants} {g : GwConfig} {id : Identity} {base : Str}
    {sr0 sr : SR} (hls : g.listenerSet = false) (hp0 : parseResourceName base id.ns [] [] = some sr0)
    (hns : sr0.ns = sr.ns) (hj : RefJustified granted g id base) :
    (sr.ns = id.ns ∧ g.ns = id.ns) ∨ granted false base id.ns = true := by
  cases refs_same_namespace_or_granted hls hj with
  | inl h =>
    obtain ⟨sr1, hp1, hg, hn⟩ := h
    rw [hp0] at hp1
    cases hp1
    exact Or.inl ⟨by rw [← hns, hn], hg⟩
  | inr h => exact Or.inr h

/-! Non-vacuity. -/

def exGw : GwConfig :=
  { ns := "ns1".toList, saAnn := "sa1".toList, parentNsAnn := [], parentsAnn := [],
    servers := [⟨true, [], "kubernetes-gateway://ns1/a".toList, true, "kubernetes-gateway://ns2/ca".toList⟩,
                ⟨true, ["kubernetes-gateway://ns2/b".toList, "c".toList], [], false, []⟩] }

def exGrants : Grants := fun ls rn ns => !ls && rn = "kubernetes-gateway://ns2/b".toList && ns = "ns1".toList

example : verifiedRefs exGrants (some ⟨"td".toList, "ns1".toList, "sa1".toList⟩) [exGw] =
    ["kubernetes-gateway://ns1/a".toList, "kubernetes-gateway://ns1/a-cacert".toList,
     "kubernetes-gateway://ns2/b".toList, "kubernetes://c".toList] := by decide

example : verifiedRefs exGrants (some ⟨"td".toList, "ns1".toList, "sa2".toList⟩) [exGw] = [] := by decide
example : verifiedRefs exGrants (some ⟨"td".toList, "ns2".toList, "sa1".toList⟩) [exGw] = [] := by decide

end IstioModel.C11
