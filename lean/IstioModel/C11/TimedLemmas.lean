import IstioModel.C11.SdsTheorems

/-! C11 - helper lemmas for the `generateT` theorems: worlds that differ in RBAC answers only, state bookkeeping
    (not counted as obligations). -/
namespace IstioModel.C11

/-! ### Worlds that differ in the RBAC answers only -/

/-- A change of clusters that keeps ids and stores (only `authz` may differ). -/
def StorePreserving (g : Cluster → Cluster) : Prop :=
  ∀ c, (g c).id = c.id ∧ (g c).secrets = c.secrets ∧ (g c).configMaps = c.configMaps

def mapClusters (w : World) (g : Cluster → Cluster) : World := { w with clusters := w.clusters.map g }

theorem findCluster_map {g : Cluster → Cluster} (hg : StorePreserving g) (id : Str) (cs : List Cluster) :
    findCluster id (cs.map g) = (findCluster id cs).map g := by
  induction cs with
  | nil => rfl
  | cons c cs ih =>
    simp only [List.map_cons, findCluster, (hg c).1]
    split
    · rfl
    · exact ih

theorem firstSome_map {g : Cluster → Cluster} (hg : StorePreserving g) (cfgId : Str)
    (f : Cluster → Bool → Option Val) (hf : ∀ c b, f (g c) b = f c b) (l : List Cluster) :
    firstSome cfgId f (l.map g) = firstSome cfgId f l := by
  induction l with
  | nil => rfl
  | cons c cs ih =>
    simp only [List.map_cons, firstSome, (hg c).1, hf, ih]

theorem forCluster_map {g : Cluster → Cluster} (hg : StorePreserving g) (w : World) (id : Str) :
    (mapClusters w g).forCluster id =
      (w.forCluster id).map (fun a => ⟨a.controllers.map g, g a.auth, a.authOK⟩) := by
  unfold World.forCluster mapClusters
  simp only
  rw [findCluster_map hg]
  cases hf : findCluster id w.clusters with
  | none => rfl
  | some c =>
    simp only [Option.map_some]
    have hown : ownList { w with clusters := w.clusters.map g } id (g c) = (ownList w id c).map g := by
      unfold ownList
      simp only
      split <;> rfl
    have hcfg : cfgList { w with clusters := w.clusters.map g } = (cfgList w).map g := by
      unfold cfgList
      simp only
      rw [findCluster_map hg]
      cases findCluster w.configCluster w.clusters <;> rfl
    rw [hown, hcfg, ← List.map_append]
    simp only [List.isEmpty_map]
    split <;> simp

/-- The canonical content of a resource does not depend on anybody's RBAC answers. -/
theorem genCanon_map {g : Cluster → Cluster} (hg : StorePreserving g) (w : World) (r : SR) :
    genCanon (mapClusters w g) r = genCanon w r := by
  unfold genCanon
  rw [forCluster_map hg]
  cases hf : w.forCluster r.cluster with
  | none => rfl
  | some a =>
    simp only [Option.map_some]
    rw [genVal_same, genVal_same]
    unfold genFrom
    have h1 : ∀ c b, (g c).getConfigMapCaCert b r.name r.ns = c.getConfigMapCaCert b r.name r.ns := by
      intro c b; simp [Cluster.getConfigMapCaCert, (hg c).2.2]
    have h2 : ∀ c, (g c).getCaCert r.name r.ns = c.getCaCert r.name r.ns := by
      intro c; simp [Cluster.getCaCert, (hg c).2.1]
    have h3 : ∀ c, (g c).getCertInfo r.name r.ns = c.getCertInfo r.name r.ns := by
      intro c; simp [Cluster.getCertInfo, (hg c).2.1]
    have hcc : (mapClusters w g).configCluster = w.configCluster := rfl
    simp only [hcc]
    split
    · exact firstSome_map hg _ _ (fun c b => h1 c b) _
    · split
      · exact firstSome_map hg _ _ (fun c _ => h2 c) _
      · exact firstSome_map hg _ _ (fun c _ => h3 c) _

theorem consistent_map {g : Cluster → Cluster} (hg : StorePreserving g) {w : World} {c : Cache} :
    Consistent (mapClusters w g) c ↔ Consistent w c := by
  unfold Consistent
  constructor
  · intro h k nv hk
    obtain ⟨r, h1, h2, h3, h4⟩ := h k nv hk
    exact ⟨r, h1, h2, h3, by rw [← genCanon_map hg]; exact h4⟩
  · intro h k nv hk
    obtain ⟨r, h1, h2, h3, h4⟩ := h k nv hk
    exact ⟨r, h1, h2, h3, by rw [genCanon_map hg]; exact h4⟩

theorem worldOK_map {g : Cluster → Cluster} (hg : StorePreserving g) {w : World} (hw : WorldOK w) :
    WorldOK (mapClusters w g) := by
  refine ⟨hw.1, ?_⟩
  intro c hc
  simp only [mapClusters, List.mem_map] at hc
  obtain ⟨c0, hc0, rfl⟩ := hc
  rw [(hg c0).1]
  exact hw.2 c0 hc0

def verdictMap (cid : Str) (v : Bool) : Cluster → Cluster :=
  fun c => if c.id = cid then { c with authz := fun _ _ => v } else c

theorem verdictMap_preserving (cid : Str) (v : Bool) : StorePreserving (verdictMap cid v) := by
  intro c
  unfold verdictMap
  split <;> simp

theorem withVerdict_eq (w : World) (cid : Str) (v : Bool) : withVerdict w cid v = mapClusters w (verdictMap cid v) := rfl

theorem acOf_setAc_same (s : TState) (cid : Str) (ac : AuthCache) : (s.setAc cid ac).acOf cid = ac := by
  simp [TState.setAc, TState.acOf]

theorem find_filter_ne {α : Type} (l : List (Str × α)) (a b : Str) (h : b ≠ a) :
    (l.filter (fun e => e.1 ≠ a)).find? (fun e => e.1 = b) = l.find? (fun e => e.1 = b) := by
  induction l with
  | nil => rfl
  | cons e es ih =>
    by_cases he : e.1 = a
    · have hb : ¬ e.1 = b := fun e2 => h (by rw [← e2, he])
      have hf : (List.filter (fun e => decide (e.1 ≠ a)) (e :: es)) = List.filter (fun e => decide (e.1 ≠ a)) es := by
        simp [List.filter_cons, he]
      rw [hf, ih]
      simp [List.find?_cons, hb]
    · have hf : (List.filter (fun e => decide (e.1 ≠ a)) (e :: es)) = e :: List.filter (fun e => decide (e.1 ≠ a)) es := by
        simp [List.filter_cons, he]
      rw [hf]
      by_cases hb : e.1 = b
      · simp [List.find?_cons, hb]
      · simp only [List.find?_cons, hb, decide_false]
        exact ih

theorem acOf_setAc_other (s : TState) (cid cid' : Str) (ac : AuthCache) (h : cid' ≠ cid) :
    (s.setAc cid ac).acOf cid' = s.acOf cid' := by
  unfold TState.setAc TState.acOf
  have hne : ¬ cid = cid' := fun e => h e.symm
  simp only [List.find?_cons, hne, decide_false]
  rw [find_filter_ne s.acs cid cid' h]

end IstioModel.C11
