import IstioModel.Common.Wire
import IstioModel.C11.Model

/-! Line-protocol driver for C11 (streams `auth`, `parse`, `sds`). See harness/c11. -/
namespace IstioModel.C11
open IstioModel.Wire

def s2l (t : String) : Str := (dec t).toList
def l2t (l : Str) : String := enc (String.ofList l)
def decL (t : String) : List Str := (decList t).map String.toList

def sortDedup (l : List String) : List String :=
  let s := l.mergeSort (fun a b => !(b < a))
  s.foldr (fun x acc => match acc with
    | y :: _ => if x = y then acc else x :: acc
    | [] => [x]) []

def encSet (l : List String) : String := encList (sortDedup l)

def showId : Option Identity → String
  | none => "none"
  | some i => s!"{l2t i.td} {l2t i.ns} {l2t i.sa}"

def decIds (t : String) : Option (List Str) :=
  if t == "nil" then none else some (decL t)

/-- One scripted authenticator answer: only a caller without error counts (`err`, `nil`, `both:<ids>` do not). -/
def decAuthn (r : String) : Option (List Str) :=
  if r == "err" || r == "nil" || r.startsWith "both:" then none else some (decL r)

def sortOnly (l : List String) : List String := l.mergeSort (fun a b => !(b < a))

def decPeer : String → Peer
  | "tls" => .tls
  | "plain" => .plain
  | _ => .none

def showRType (t : RType) : String := l2t t.str

def SR.baseKey (r : SR) : Str :=
  r.resourceName ++ '/' :: r.rtype.str ++ '/' :: r.rtype.kindStr ++ '/' :: r.name ++ '/' :: r.ns ++ '/' :: r.cluster

/-! ### sds world -/

structure ClusterSpec where
  id      : Str
  secrets : List ((Str × Str) × SecretData) := []
  cms     : List ((Str × Str) × SecretData) := []
  allow   : List (Str × Str) := []
  sarErr  : Bool := false

def lookup2 (l : List ((Str × Str) × SecretData)) (name ns : Str) : Option SecretData :=
  match l.find? (fun e => e.1 == (name, ns)) with
  | some e => some e.2
  | none => none

def ClusterSpec.toCluster (c : ClusterSpec) : Cluster :=
  { id := c.id, secrets := lookup2 c.secrets, configMaps := lookup2 c.cms,
    authz := fun sa ns => !c.sarErr && c.allow.contains (sa, ns) }

structure DState where
  specs : List ClusterSpec := []
  world : World := { configCluster := [], clusters := [] }
  cache : Cache := []
  grants : List RefGrant := []
  gws : List GwConfig := []

def DState.upd (d : DState) (id : Str) (f : ClusterSpec → ClusterSpec) : DState :=
  if d.specs.any (fun c => c.id == id) then
    { d with specs := d.specs.map (fun c => if c.id == id then f c else c) }
  else { d with specs := d.specs ++ [f { id := id }] }

def decData (t : String) : Str := if t == "~" || t == "EMPTY" then [] else s2l t

def showVal (name : Str) : Val → String
  | .tls c k => String.ofList name ++ " K " ++ String.ofList c ++ " " ++ String.ofList k
  | .ca c => String.ofList name ++ " C " ++ String.ofList c

def showKeys (c : Cache) : String := "keys=" ++ encSet (c.map (fun e => String.ofList e.1))

def decKind : String → CK
  | "S" => .secret
  | "M" => .configMap
  | _ => .other

def zip3 : List String → List String → List String → List CKey
  | k :: ks, n :: ns, s :: ss => ⟨decKind k, n.toList, s.toList⟩ :: zip3 ks ns ss
  | _, _, _ => []

def stepD (d : DState) (toks : List String) : DState × String :=
  match toks with
  | "case" :: _ => ({}, "ok")
  -- stream auth
  | ["pid", raw] =>
    match parseIdentity (s2l raw) with
    | none => (d, "err")
    | some i => (d, "ok " ++ showId (some i))
  | ["check", cfg, sa, ids] =>
    match checkConnectionIdentity (s2l cfg) (s2l sa) (decL ids) with
    | none => (d, "err")
    | some i => (d, "ok " ++ showId (some i))
  | ["conn", flag, node, ipok, mns, msa, ids] =>
    match connect (tokBool flag) (s2l node) (tokBool ipok) (s2l mns) (s2l msa) (decIds ids) with
    | none => (d, "badnode")
    | some (cfg, .denied) => (d, s!"cfg={l2t cfg} denied")
    | some (cfg, .ok v) => (d, s!"cfg={l2t cfg} ok {showId v}")
  | "authn" :: xa :: peer :: pt :: rs =>
    match authenticate (tokBool xa) (decPeer peer) (tokBool pt) (rs.map decAuthn) with
    | none => (d, "err")
    | some none => (d, "nil")
    | some (some ids) => (d, "ids " ++ encList (ids.map String.ofList))
  -- stream parse
  | ["prn", rn, pns, pc, cc] =>
    match parseResourceName (s2l rn) (s2l pns) (s2l pc) (s2l cc) with
    | none => (d, "err")
    | some r =>
      (d, s!"ok {showRType r.rtype} {l2t r.rtype.kindStr} {l2t r.name} {l2t r.ns} {l2t r.resourceName} {l2t r.cluster} key={l2t r.baseKey}")
  -- stream sds
  | ["cluster", cid] => (d.upd (s2l cid) (fun s => s), "ok")
  | ["secret", cl, ns, name, a, b, c, e, f, g] =>
    let sd : SecretData := { cert := decData a, key := decData b, cacert := decData c, tlsCrt := decData e,
                             tlsKey := decData f, caCrt := decData g }
    (d.upd (s2l cl) (fun s => { s with secrets := s.secrets ++ [((s2l name, s2l ns), sd)] }), "ok")
  | ["cm", cl, ns, name, a, b] =>
    let sd : SecretData := { cacert := decData a, caCrt := decData b }
    (d.upd (s2l cl) (fun s => { s with cms := s.cms ++ [((s2l name, s2l ns), sd)] }), "ok")
  | ["allow", cl, sa, ns] =>
    (d.upd (s2l cl) (fun s => { s with allow := (s2l sa, s2l ns) :: s.allow }), "ok")
  | ["start", cfg] =>
    ({ d with world := { configCluster := s2l cfg, clusters := d.specs.map ClusterSpec.toCluster }, cache := [] }, "ok")
  | ["start", cfg, remote] =>
    ({ d with world := { configCluster := s2l cfg, clusters := d.specs.map ClusterSpec.toCluster,
                         remoteCreds := tokBool remote }, cache := [] }, "ok")
  | ["clear"] => ({ d with cache := [] }, "ok")
  | ["gen", hasVid, td, ns, sa, cl, refs, _ptype, _claimed, names, req, uk, un, us] =>
    let p : Proxy := { verified := if tokBool hasVid then some ⟨s2l td, s2l ns, s2l sa⟩ else none,
                       cluster := s2l cl, refs := decIds refs }
    let rq : Option PushReq :=
      if req == "nil" then none else some ⟨tokBool req, zip3 (decList uk) (decList un) (decList us)⟩
    match generate d.world d.cache p (decL names) rq with
    | none => (d, "none " ++ showKeys d.cache)
    | some o =>
      let elems := o.res.map (fun e => showVal e.1 e.2)
      ({ d with cache := o.cache },
       s!"cached:{o.cached}/{o.cached + o.regen} {encList (sortOnly elems)} {showKeys o.cache}")
  | ["sarerr", cl] => (d.upd (s2l cl) (fun s => { s with sarErr := true }), "ok")
  -- stream stream: authenticate, initConnection (initProxyMetadata + authorize), one SDS request
  | "stream" :: _mode :: xa :: peer :: pt :: flag :: node :: ipok :: mns :: msa :: names :: rs =>
    match authenticate (tokBool xa) (decPeer peer) (tokBool pt) (rs.map decAuthn) with
    | none => (d, "unauthenticated")
    | some ids =>
      match connect (tokBool flag) (s2l node) (tokBool ipok) (s2l mns) (s2l msa) ids with
      | none => (d, "badnode")
      | some (_, .denied) => (d, "denied")
      | some (cfg, .ok v) =>
        -- MergedGateway exists for router proxies only; its verified set is what mergeGateways computes from the
        -- world's Gateways, the verified identity and the real ReferenceGrant evaluation
        let isRouter := (split '~' (s2l node)).head? == some "router".toList
        let p : Proxy := { verified := v, cluster := "Kubernetes".toList,
                           refs := if isRouter then some (verifiedRefs (grantEval d.grants) v d.gws) else none }
        match generate d.world d.cache p (decL names) (some ⟨true, []⟩) with
        | none => (d, s!"accepted {showId v} cfg={l2t cfg} -")
        | some o =>
          ({ d with cache := o.cache },
           s!"accepted {showId v} cfg={l2t cfg} {encList (sortOnly (o.res.map (fun e => showVal e.1 e.2)))}")
  -- stream refs
  | ["rgrant", src, frm, fns, to, name] =>
    let g : RefGrant :=
      { srcNs := s2l src, fromLS := (if frm == "G" then some false else if frm == "L" then some true else none),
        fromNs := s2l fns, toKind := (if to == "S" then .secret else if to == "M" then .configMap else .other),
        name := (if name == "*" then none else some (s2l name)) }
    ({ d with grants := g :: d.grants }, "ok")
  | ["gw", ns, sa, pns, parents] =>
    ({ d with gws := d.gws ++ [{ ns := s2l ns, saAnn := s2l sa, parentNsAnn := s2l pns, parentsAnn := s2l parents, servers := [] }] }, "ok")
  | ["srv", hasPort, cns, cn, mode, ca] =>
    let sv : GwServer :=
      if mode == "NOTLS" then { hasPort := tokBool hasPort, credNames := [], credName := [], isMutual := false, caCert := [] }
      else { hasPort := tokBool hasPort, credNames := decL cns, credName := s2l cn,
             isMutual := mode == "MUTUAL" || mode == "OPTIONAL_MUTUAL", caCert := s2l ca }
    match d.gws.reverse with
    | [] => (d, "ok")
    | g :: rest => ({ d with gws := (({ g with servers := g.servers ++ [sv] } : GwConfig) :: rest).reverse }, "ok")
  | ["merge", hasVid, td, ns, sa] =>
    let vid := if tokBool hasVid then some (⟨s2l td, s2l ns, s2l sa⟩ : Identity) else none
    let granted : Grants := grantEval d.grants
    (d, "refs=" ++ encSet ((verifiedRefs granted vid d.gws).map String.ofList))
  | _ => (d, "bad-op")

end IstioModel.C11
