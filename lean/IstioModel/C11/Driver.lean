import IstioModel.Common.Wire
import IstioModel.C11.Model

/-! Line-protocol driver for C11 (streams `auth`, `parse`, `sds`). See harness/c11. -/
namespace IstioModel.C11
open IstioModel.Wire

def s2l (t : String) : Str := (dec t).toList
def l2t (l : Str) : String := enc (String.ofList l)
def decL (t : String) : List Str := (decList t).map String.toList

def sortDedup (l : List String) : List String :=
  let s := l.mergeSort (fun a b => !(b < a))
  s.foldr (fun x acc => match acc with
    | y :: _ => if x = y then acc else x :: acc
    | [] => [x]) []

def encSet (l : List String) : String := encList (sortDedup l)

def showId : Option Identity → String
  | none => "none"
  | some i => s!"{l2t i.td} {l2t i.ns} {l2t i.sa}"

def decIds (t : String) : Option (List Str) :=
  if t == "nil" then none else some (decL t)

/-- One scripted authenticator answer: only a caller without error counts (`err`, `nil`, `both:<ids>` do not). -/
def decAuthn (r : String) : Option (List Str) :=
  if r == "err" || r == "nil" || r.startsWith "both:" then none else some (decL r)

def sortOnly (l : List String) : List String := l.mergeSort (fun a b => !(b < a))

def decPeer : String → Peer
  | "tls" => .tls
  | "plain" => .plain
  | _ => .none

def showRType (t : RType) : String := l2t t.str

def SR.baseKey (r : SR) : Str :=
  r.resourceName ++ '/' :: r.rtype.str ++ '/' :: r.rtype.kindStr ++ '/' :: r.name ++ '/' :: r.ns ++ '/' :: r.cluster

/-! ### sds world -/

structure ClusterSpec where
  id      : Str
  secrets : List ((Str × Str) × SecretData) := []
  cms     : List ((Str × Str) × SecretData) := []
  allow   : List (Str × Str) := []
  sarErr  : Bool := false

def lookup2 (l : List ((Str × Str) × SecretData)) (name ns : Str) : Option SecretData :=
  match l.find? (fun e => e.1 == (name, ns)) with
  | some e => some e.2
  | none => none

def ClusterSpec.toCluster (c : ClusterSpec) : Cluster :=
  { id := c.id, secrets := lookup2 c.secrets, configMaps := lookup2 c.cms,
    authz := fun sa ns => !c.sarErr && c.allow.contains (sa, ns) }

structure DState where
  specs : List ClusterSpec := []
  world : World := { configCluster := [], clusters := [] }
  cache : Cache := []
  /-- caches of proxies with a private-key-provider config: their cache keys end in the config's hash, so they
      form partitions of the one xDS cache that never meet the plain keys (or each other) -/
  pcaches : PCaches := []
  /-- label of the mesh-wide default private key provider ("" = none) -/
  meshPkp : String := ""
  now : Nat := 0
  acs : List (Str × AuthCache) := []
  started : Bool := false
  grants : List RefGrant := []
  gws : List GwConfig := []
  aliases : List (Str × Str) := []
  /-- the Gateway that streams see created / deleted while alive -/
  gwOpt : List GwConfig := []

def DState.upd (d : DState) (id : Str) (f : ClusterSpec → ClusterSpec) : DState :=
  if d.specs.any (fun c => c.id == id) then
    { d with specs := d.specs.map (fun c => if c.id == id then f c else c) }
  else { d with specs := d.specs ++ [f { id := id }] }

def decData (t : String) : Str := if t == "~" || t == "EMPTY" then [] else s2l t

def showVal (name : Str) : Val → String
  | .tls c k => String.ofList name ++ " K " ++ String.ofList c ++ " " ++ String.ofList k
  | .ca c => String.ofList name ++ " C " ++ String.ofList c

/-- With a private key provider `toEnvoyTLSSecret` wraps the key in the provider's config. -/
def showValP (pkp : String) (name : Str) : Val → String
  | .tls c k =>
    if pkp == "" then showVal name (.tls c k)
    else String.ofList name ++ " P:" ++ pkp ++ " " ++ String.ofList c ++ " " ++ String.ofList k
  | v => showVal name v

/-- All cache keys: the partition of the empty hash holds the plain keys, the others carry their provider label. -/
def showAllKeys (ps : PCaches) : String :=
  "keys=" ++ encSet (ps.flatMap (fun pc => pc.2.map (fun e =>
    String.ofList e.1 ++ (if pc.1.isEmpty then "" else "H-" ++ String.ofList pc.1))))

def showKeys (c : Cache) : String := "keys=" ++ encSet (c.map (fun e => String.ofList e.1))

def decKind : String → CK
  | "S" => .secret
  | "M" => .configMap
  | _ => .other

def zip3 : List String → List String → List String → List CKey
  | k :: ks, n :: ns, s :: ss => ⟨decKind k, n.toList, s.toList⟩ :: zip3 ks ns ss
  | _, _, _ => []

/-- A policy change after `start`: 60 clock seconds pass, then the clusters answer according to the new policy. -/
def policy (d : DState) : DState :=
  if d.started then
    { d with now := d.now + 60, world := { d.world with clusters := d.specs.map ClusterSpec.toCluster } }
  else d

/-- The proxy of a `stream` op as `SecretGen` sees it: alias-resolved cluster; for routers the verified references that
    `mergeGateways` computes from the attached Gateways (with or without the optional one). -/
def streamProxy (d : DState) (v : Option Identity) (cid : Str) (isRouter : Bool) (lbls : List (Str × Str))
    (withOpt : Bool) : Proxy :=
  let gws := (d.gws ++ (if withOpt then d.gwOpt else [])).filter (attached lbls)
  { verified := v, cluster := resolveAlias d.aliases cid,
    refs := if isRouter then some (verifiedRefs (grantEval d.grants) v gws) else none }

/-- A policy op: before `start` it configures (creating the cluster spec if needed); afterwards it applies to
    configured clusters only. -/
def policyOn (d : DState) (cid : Str) (f : ClusterSpec → ClusterSpec) : DState :=
  if d.started && !d.specs.any (fun c => c.id == cid) then d else policy (d.upd cid f)

def stepD (d : DState) (toks : List String) : DState × String :=
  match toks with
  | "case" :: _ => ({}, "ok")
  -- stream auth
  | ["pid", raw] =>
    match parseIdentity (s2l raw) with
    | none => (d, "err")
    | some i => (d, "ok " ++ showId (some i))
  | ["check", cfg, sa, ids] =>
    match checkConnectionIdentity (s2l cfg) (s2l sa) (decL ids) with
    | none => (d, "err")
    | some i => (d, "ok " ++ showId (some i))
  | ["conn", flag, node, ipok, mns, msa, ids] =>
    match connect (tokBool flag) (s2l node) (tokBool ipok) (s2l mns) (s2l msa) (decIds ids) with
    | none => (d, "badnode")
    | some (cfg, .denied) => (d, s!"cfg={l2t cfg} denied")
    | some (cfg, .ok v) => (d, s!"cfg={l2t cfg} ok {showId v}")
  | "authn" :: xa :: peer :: pt :: rs =>
    match authenticate (tokBool xa) (decPeer peer) (tokBool pt) (rs.map decAuthn) with
    | none => (d, "err")
    | some none => (d, "nil")
    | some (some ids) => (d, "ids " ++ encList (ids.map String.ofList))
  -- stream parse
  | ["prn", rn, pns, pc, cc] =>
    match parseResourceName (s2l rn) (s2l pns) (s2l pc) (s2l cc) with
    | none => (d, "err")
    | some r =>
      (d, s!"ok {showRType r.rtype} {l2t r.rtype.kindStr} {l2t r.name} {l2t r.ns} {l2t r.resourceName} {l2t r.cluster} key={l2t r.baseKey}")
  | ["tkgr", ns, name] => (d, "ok " ++ l2t (toKubernetesGatewayResource (s2l ns) (s2l name)))
  | ["krn", rn, pns] =>
    match parseResourceName (s2l rn) (s2l pns) [] [] with
    | none => (d, "err")
    | some r => (d, "ok " ++ l2t r.kubernetesResourceName)
  | ["trn", name] => (d, "ok " ++ l2t (toResourceName (s2l name)))
  -- stream sds
  | ["cluster", cid] => (d.upd (s2l cid) (fun s => s), "ok")
  | ["secret", cl, ns, name, a, b, c, e, f, g] =>
    let sd : SecretData := { cert := decData a, key := decData b, cacert := decData c, tlsCrt := decData e,
                             tlsKey := decData f, caCrt := decData g }
    (d.upd (s2l cl) (fun s => { s with secrets := s.secrets ++ [((s2l name, s2l ns), sd)] }), "ok")
  | ["cm", cl, ns, name, a, b] =>
    let sd : SecretData := { cacert := decData a, caCrt := decData b }
    (d.upd (s2l cl) (fun s => { s with cms := s.cms ++ [((s2l name, s2l ns), sd)] }), "ok")
  | ["allow", cl, sa, ns] =>
    (policyOn d (s2l cl) (fun s => { s with allow := (s2l sa, s2l ns) :: s.allow }), "ok")
  | ["deny", cl, sa, ns] =>
    (policyOn d (s2l cl) (fun s => { s with allow := s.allow.filter (· ≠ (s2l sa, s2l ns)) }), "ok")
  | ["sarok", cl] => (policyOn d (s2l cl) (fun s => { s with sarErr := false }), "ok")
  | ["tick", n] => ({ d with now := d.now + n.toNat! }, "ok")
  | ["start", cfg] =>
    ({ d with world := { configCluster := s2l cfg, clusters := d.specs.map ClusterSpec.toCluster }, cache := [],
              pcaches := [], started := true }, "ok")
  | ["start", cfg, remote] =>
    ({ d with world := { configCluster := s2l cfg, clusters := d.specs.map ClusterSpec.toCluster,
                         remoteCreds := tokBool remote }, cache := [], started := true }, "ok")
  | ["clear"] => ({ d with cache := [], pcaches := [] }, "ok")
  | ["sarmode", _, _] => (d, "ok")
  | ["meshpkp", k] => ({ d with meshPkp := if k == "~" then "" else k }, "ok")
  | ["gen", hasVid, td, ns, sa, cl, refs, ptype, _claimed, names, req, uk, un, us] =>
    let p : Proxy := { verified := if tokBool hasVid then some ⟨s2l td, s2l ns, s2l sa⟩ else none,
                       cluster := s2l cl, refs := decIds refs }
    let rq : Option PushReq :=
      if req == "nil" then none else some ⟨tokBool req, zip3 (decList uk) (decList un) (decList us)⟩
    -- the proxy's own ProxyConfig ("+none": sent without a provider), else the mesh default
    let own : Option Str := match ptype.splitOn "+" with
      | [_, "none"] => some []
      | [_, k] => some k.toList
      | _ => none
    let pkp := effectivePkp d.meshPkp.toList own
    match generateP d.world d.pcaches d.now d.acs pkp p (decL names) rq with
    | (none, pcs, acs) => ({ d with pcaches := pcs, acs := acs }, "none " ++ showAllKeys d.pcaches)
    | (some o, pcs, acs) =>
      let elems := o.res.map (fun e => showValP (String.ofList pkp) e.1 e.2)
      ({ d with pcaches := pcs, acs := acs },
       s!"cached:{o.cached}/{o.cached + o.regen} {encList (sortOnly elems)} {showAllKeys pcs}")
  | ["sarerr", cl] => (policyOn d (s2l cl) (fun s => { s with sarErr := true }), "ok")
  -- stream stream: authenticate, initConnection (initProxyMetadata + authorize), one SDS request
  | ["gwopt", ns, cred] =>
    ({ d with gwOpt := [{ ns := s2l ns, saAnn := [], parentNsAnn := [], parentsAnn := [],
                          servers := [⟨true, [], s2l cred, false, []⟩] }] }, "ok")
  | "stream" :: mode :: xa :: peer :: pt :: flag :: node :: ipok :: mns :: msa :: names :: cid :: labels :: names2 ::
      push :: gwop :: rs =>
    match authenticate (tokBool xa) (decPeer peer) (tokBool pt) (rs.map decAuthn) with
    | none => (d, "unauthenticated")
    | some ids =>
      match connect (tokBool flag) (s2l node) (tokBool ipok) (s2l mns) (s2l msa) ids with
      | none => (d, "badnode")
      | some (_, .denied) => (d, "denied")
      | some (cfg, .ok v) =>
        -- MergedGateway exists for router proxies only; its verified set is what mergeGateways computes from the
        -- Gateways attached to the proxy, the verified identity and the real ReferenceGrant evaluation
        let isRouter := (split '~' (s2l node)).head? == some "router".toList
        let lbls := (decL labels).map fun kv =>
          match split '=' kv with
          | [k, x] => (k, x)
          | _ => (kv, [])
        -- the optional Gateway exists in phase 1 iff it is deleted afterwards, and later iff it is created
        let p1 := streamProxy d v (s2l cid) isRouter lbls (gwop == "del")
        let p2 := streamProxy d v (s2l cid) isRouter lbls (gwop == "add")
        let n1 := decL names
        let n2 := decL names2
        -- what each phase asks for: request 1; request 2 (SotW: exactly the new list; delta: the names it subscribes);
        -- the push (everything watched: SotW the latest list, delta the union)
        let forced : PushReq := ⟨true, []⟩
        -- after a Gateway change the server pushes one Secret (ns1/e) scoped and not forced: SDS answers incrementally
        -- from the proxy state the Gateway push left behind
        let secretPush : PushReq := ⟨false, [⟨.secret, "e".toList, "ns1".toList⟩]⟩
        let changed := gwop == "add" || gwop == "del"
        let phases : List (List Str × Proxy × PushReq) :=
          [(n1, p1, forced)] ++ (if changed then [(n1, p2, secretPush)] else []) ++
          (if names2 == "none" then [] else [(n2, p2, forced)]) ++
          (if tokBool push then
             [(if names2 == "none" then n1 else if mode == "delta" then n1 ++ n2.filter (fun x => !n1.contains x) else n2,
               p2, forced)]
           else [])
        let run := phases.foldl (fun (acc : Cache × List String) (ph : List Str × Proxy × PushReq) =>
          match generate d.world acc.1 ph.2.1 ph.1 (some ph.2.2) with
          | none => (acc.1, acc.2 ++ ["-"])
          | some o => (o.cache, acc.2 ++ [encList (sortOnly (o.res.map (fun e => showVal e.1 e.2)))])) (d.cache, [])
        ({ d with cache := run.1 }, s!"accepted {showId v} cfg={l2t cfg} " ++ " ".intercalate run.2)
  | ["debug", _mode, vns, vsa, _vpkp, vlabels, vnames, ans, asa, atls, query, vtls, aclaim] =>
    let lbls := (decL vlabels).map fun kv =>
      match split '=' kv with
      | [k, x] => (k, x)
      | _ => (kv, [])
    let vid : Identity := ⟨"cluster.local".toList, s2l vns, s2l vsa⟩
    -- a victim on a plaintext stream has no VerifiedIdentity (and so no secrets)
    let vver : Option Identity := if tokBool vtls then some vid else none
    let victim : Proxy := { verified := vver, cluster := "Kubernetes".toList,
                            refs := some (verifiedRefs (grantEval d.grants) vver (d.gws.filter (attached lbls))) }
    let q : DebugQuery := match query with
      | "sds" => .sds | "full" => .full | "sgdump" => .sgdump | "syncz" => .syncz | "sgsyncz" => .sgsyncz
      | "api" => .api | "sdscds" => .sdscds | "cds" => .cds | "ndsz" => .ndsz | "edsz" => .edsz | _ => .self
    -- the asker claims its verified namespace ("same"), no namespace at all ("none": bound by any credential), or
    -- another one ("other": the connection itself is refused)
    let aid : Identity := ⟨"cluster.local".toList, s2l ans, s2l asa⟩
    let asker : Option Identity := if tokBool atls then some aid else none
    let gen := generate d.world d.cache victim (decL vnames) (some ⟨true, []⟩)
    let secrets := match gen with
      | some o => o.res
      | none => []
    let d' := match gen with
      | some o => { d with cache := o.cache }
      | none => d
    if tokBool atls && aclaim == "other" then (d', "debug denied certs=- keys=-")
    else
      let oc := match debugOutcome asker q with
        | .accepted => "accepted" | .denied => "denied" | .unauthenticated => "unauthenticated"
      (d', s!"debug {oc} certs={encSet ((debugAnswer asker q (s2l vns) secrets).map String.ofList)} keys=-")
  -- stream refs
  | ["rgrant", src, frm, fns, to, name] =>
    let g : RefGrant :=
      { srcNs := s2l src, fromLS := (if frm == "G" then some false else if frm == "L" then some true else none),
        fromNs := s2l fns, toKind := (if to == "S" then .secret else if to == "M" then .configMap else .other),
        name := (if name == "*" then none else some (s2l name)) }
    ({ d with grants := g :: d.grants }, "ok")
  | ["alias", a, b] => ({ d with aliases := d.aliases ++ [(s2l a, s2l b)] }, "ok")
  | ["gw", ns, sa, pns, parents, sel] =>
    let kvs := (decL sel).map fun kv =>
      match split '=' kv with
      | [k, x] => (k, x)
      | _ => (kv, [])
    ({ d with gws := d.gws ++ [{ ns := s2l ns, saAnn := s2l sa, parentNsAnn := s2l pns, parentsAnn := s2l parents, servers := [],
                                  selector := some kvs }] }, "ok")
  | ["gw", ns, sa, pns, parents] =>
    ({ d with gws := d.gws ++ [{ ns := s2l ns, saAnn := s2l sa, parentNsAnn := s2l pns, parentsAnn := s2l parents, servers := [] }] }, "ok")
  | ["srv", hasPort, cns, cn, mode, ca] =>
    let sv : GwServer :=
      if mode == "NOTLS" then { hasPort := tokBool hasPort, credNames := [], credName := [], isMutual := false, caCert := [] }
      else { hasPort := tokBool hasPort, credNames := decL cns, credName := s2l cn,
             isMutual := mode == "MUTUAL" || mode == "OPTIONAL_MUTUAL", caCert := s2l ca }
    match d.gws.reverse with
    | [] => (d, "ok")
    | g :: rest => ({ d with gws := (({ g with servers := g.servers ++ [sv] } : GwConfig) :: rest).reverse }, "ok")
  | ["lsacc", loc, par, mode, sel, nsl] =>
    let kvs := fun (t : String) => (decL t).filterMap fun kv =>
      match split ':' kv with
      | [_, _, _] => none
      | _ =>
        match split '=' kv with
        | [k, x] => some (k, x)
        | k :: x :: more => some (k, x ++ more.flatMap (fun m => '=' :: m))
        | _ => some (kv, [])
    let exprs : List LExpr := (decL sel).filterMap fun kv =>
      match split ':' kv with
      | [k, op, vs] =>
        let o : LOp := if op == "In".toList then .in_ else if op == "NotIn".toList then .notIn
          else if op == "Exists".toList then .exists_ else if op == "DoesNotExist".toList then .doesNotExist else .bogus
        some ⟨k, o, if vs.isEmpty then [] else split '|' vs⟩
      | _ => none
    let m : ALMode := match mode with
      | "nil" => .absent | "nons" => .noNamespaces | "All" => .all | "Same" => .same | "None" => .none_
      | "Selector" => .selector | "Unset" => .unset | _ => .bogus
    (d, "acc=" ++ boolTok (nsAccepted (s2l loc) (s2l par) m (if sel == "nil" then none else some (kvs sel))
      (if sel == "nil" then [] else exprs) (if nsl == "nil" then none else some (kvs nsl))))
  | ["merge", hasVid, td, ns, sa] =>
    let vid := if tokBool hasVid then some (⟨s2l td, s2l ns, s2l sa⟩ : Identity) else none
    let granted : Grants := grantEval d.grants
    (d, "refs=" ++ encSet ((verifiedRefs granted vid d.gws).map String.ofList))
  | _ => (d, "bad-op")

end IstioModel.C11
