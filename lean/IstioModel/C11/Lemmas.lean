import IstioModel.C11.Model

/-! Helper lemmas for C11: `split`, `cutPrefix`, suffixes, separators. -/
namespace IstioModel.C11

/-- `strings.Join(l, sep)` for a one-character separator. -/
def joinSep (sep : Char) : List Str → Str
  | [] => []
  | [a] => a
  | a :: b :: r => a ++ sep :: joinSep sep (b :: r)

theorem split_ne_nil (sep : Char) (s : Str) : split sep s ≠ [] := by
  induction s with
  | nil => simp [split]
  | cons c cs ih =>
    unfold split
    split
    · simp
    · split
      · simp
      · simp

theorem split_cons_sep (sep : Char) (s : Str) : split sep (sep :: s) = [] :: split sep s := by
  simp [split]

theorem split_cons_ne (sep c : Char) (s : Str) (h : c ≠ sep) :
    ∃ hd tl, split sep s = hd :: tl ∧ split sep (c :: s) = (c :: hd) :: tl := by
  cases hs : split sep s with
  | nil => exact absurd hs (split_ne_nil sep s)
  | cons hd tl => exact ⟨hd, tl, rfl, by simp [split, h, hs]⟩

/-- No element of a split contains the separator. -/
theorem split_no_sep (sep : Char) (s : Str) : ∀ x ∈ split sep s, sep ∉ x := by
  induction s with
  | nil => simp [split]
  | cons c cs ih =>
    by_cases h : c = sep
    · subst h
      rw [split_cons_sep]
      intro x hx
      cases hx with
      | head => simp
      | tail _ hx => exact ih x hx
    · obtain ⟨hd, tl, h1, h2⟩ := split_cons_ne sep c cs h
      rw [h2]
      rw [h1] at ih
      intro x hx
      cases hx with
      | head =>
        intro hm
        cases hm with
        | head => exact h rfl
        | tail _ hm => exact ih hd (List.mem_cons_self) hm
      | tail _ hx => exact ih x (List.mem_cons_of_mem _ hx)

/-- Joining the split gives the string back. -/
theorem split_join (sep : Char) (s : Str) : joinSep sep (split sep s) = s := by
  induction s with
  | nil => simp [split, joinSep]
  | cons c cs ih =>
    by_cases h : c = sep
    · subst h
      rw [split_cons_sep]
      cases hs : split c cs with
      | nil => exact absurd hs (split_ne_nil c cs)
      | cons hd tl =>
        rw [hs] at ih
        simp [joinSep, ih]
    · obtain ⟨hd, tl, h1, h2⟩ := split_cons_ne sep c cs h
      rw [h2]
      rw [h1] at ih
      cases tl with
      | nil => simpa [joinSep] using ih
      | cons b r =>
        simp only [joinSep] at ih ⊢
        simp [ih]

/-- A string without the separator splits into itself. -/
theorem split_of_not_mem (sep : Char) (a : Str) (h : sep ∉ a) : split sep a = [a] := by
  induction a with
  | nil => simp [split]
  | cons c cs ih =>
    have hc : c ≠ sep := fun e => h (e ▸ List.mem_cons_self)
    have hcs : sep ∉ cs := fun m => h (List.mem_cons_of_mem _ m)
    simp [split, hc, ih hcs]

/-- Splitting `a ++ sep :: r` when `a` has no separator. -/
theorem split_append_sep (sep : Char) (a r : Str) (h : sep ∉ a) :
    split sep (a ++ sep :: r) = a :: split sep r := by
  induction a with
  | nil => simp [split]
  | cons c cs ih =>
    have hc : c ≠ sep := fun e => h (e ▸ List.mem_cons_self)
    have hcs : sep ∉ cs := fun m => h (List.mem_cons_of_mem _ m)
    simp [split, hc, ih hcs]

theorem cutPrefix_eq_some {s p r : Str} : cutPrefix s p = some r ↔ s = p ++ r := by
  induction p generalizing s with
  | nil => cases s <;> simp [cutPrefix, eq_comm]
  | cons q ps ih =>
    cases s with
    | nil => simp [cutPrefix]
    | cons c cs =>
      by_cases h : c = q
      · subst h
        simp [cutPrefix, ih]
      · simp [cutPrefix, h]

theorem cutPrefix_append (p r : Str) : cutPrefix (p ++ r) p = some r :=
  cutPrefix_eq_some.mpr rfl

theorem cutPrefix_eq_none {s p : Str} : cutPrefix s p = none ↔ ∀ r, s ≠ p ++ r := by
  constructor
  · intro h r e
    have := cutPrefix_eq_some.mpr e
    rw [h] at this
    cases this
  · intro h
    cases hc : cutPrefix s p with
    | none => rfl
    | some r => exact absurd (cutPrefix_eq_some.mp hc) (h r)

theorem hasSuffix_iff {s suf : Str} : hasSuffix s suf = true ↔ ∃ a, s = a ++ suf := by
  unfold hasSuffix
  constructor
  · intro h
    cases hc : cutPrefix s.reverse suf.reverse with
    | none => simp [hc] at h
    | some r =>
      have := cutPrefix_eq_some.mp hc
      refine ⟨r.reverse, ?_⟩
      have h2 := congrArg List.reverse this
      simpa using h2
  · rintro ⟨a, rfl⟩
    have : cutPrefix (a ++ suf).reverse suf.reverse = some a.reverse := by
      apply cutPrefix_eq_some.mpr
      simp
    rw [this]; rfl

theorem trimSuffix_append (a suf : Str) : trimSuffix (a ++ suf) suf = a := by
  unfold trimSuffix
  have : cutPrefix (a ++ suf).reverse suf.reverse = some a.reverse := by
    apply cutPrefix_eq_some.mpr
    simp
  rw [this]; simp

/-- Cutting a string at its last separator is unambiguous when the tails have no separator. -/
theorem append_sep_inj (sep : Char) {a a' b b' : Str} (hb : sep ∉ b) (hb' : sep ∉ b')
    (h : a ++ sep :: b = a' ++ sep :: b') : a = a' ∧ b = b' := by
  have h2 := congrArg List.reverse h
  simp only [List.reverse_append, List.reverse_cons, List.append_assoc, List.singleton_append] at h2
  -- b.reverse ++ sep :: a.reverse = b'.reverse ++ sep :: a'.reverse
  have key : ∀ (x y u v : Str), sep ∉ x → sep ∉ y → x ++ sep :: u = y ++ sep :: v → x = y ∧ u = v := by
    intro x
    induction x with
    | nil =>
      intro y u v _ hy e
      cases y with
      | nil => simpa using e
      | cons c cs =>
        simp at e
        exact absurd (e.1 ▸ List.mem_cons_self) hy
    | cons c cs ih =>
      intro y u v hx hy e
      cases y with
      | nil =>
        simp at e
        exact absurd (e.1 ▸ List.mem_cons_self) hx
      | cons d ds =>
        simp at e
        have := ih ds u v (fun m => hx (List.mem_cons_of_mem _ m)) (fun m => hy (List.mem_cons_of_mem _ m)) e.2
        exact ⟨by rw [e.1, this.1], this.2⟩
  have := key b.reverse b'.reverse a.reverse a'.reverse (by simpa using hb) (by simpa using hb') h2
  exact ⟨by simpa using this.2, by simpa using this.1⟩

/-! ### Helper lemmas about the model functions (not counted as obligations) -/

theorem firstAuth_some {results : List (Option (List Str))} {ids : List Str}
    (h : authenticate.firstAuth results = some (some ids)) : ids ≠ [] ∧ some ids ∈ results := by
  induction results with
  | nil => simp [authenticate.firstAuth] at h
  | cons r rest ih =>
    cases r with
    | none =>
      simp only [authenticate.firstAuth] at h
      exact ⟨(ih h).1, List.mem_cons_of_mem _ (ih h).2⟩
    | some l =>
      simp only [authenticate.firstAuth] at h
      split at h
      · rename_i hne
        cases h
        exact ⟨hne, List.mem_cons_self⟩
      · exact ⟨(ih h).1, List.mem_cons_of_mem _ (ih h).2⟩

theorem firstAuth_ne_nil (results : List (Option (List Str))) : authenticate.firstAuth results ≠ some none := by
  induction results with
  | nil => simp [authenticate.firstAuth]
  | cons r rest ih =>
    cases r with
    | none => simpa [authenticate.firstAuth] using ih
    | some l =>
      simp only [authenticate.firstAuth]
      split
      · simp
      · exact ih

theorem rtype_str_no_slash (t : RType) : '/' ∉ t.str ∧ '/' ∉ t.kindStr := by
  cases t <;> decide

theorem rtype_str_inj {t t' : RType} (h : t.str = t'.str) : t = t' := by
  cases t <;> cases t' <;> first | rfl | (revert h; decide)

theorem extractRoot_no_key {d : SecretData} {v : Val} (h : extractRoot d = some v) : v.hasKey = false := by
  unfold extractRoot at h
  split at h
  · cases h; rfl
  · split at h
    · cases h; rfl
    · cases h

theorem firstSome_some {cfgId : Str} {f : Cluster → Bool → Option Val} {l : List Cluster} {v : Val}
    (h : firstSome cfgId f l = some v) : ∃ c ∈ l, f c (c.id = cfgId) = some v := by
  induction l with
  | nil => simp [firstSome] at h
  | cons c cs ih =>
    unfold firstSome at h
    cases hf : f c (decide (c.id = cfgId)) with
    | some x =>
      rw [hf] at h
      cases h
      exact ⟨c, List.mem_cons_self, hf⟩
    | none =>
      rw [hf] at h
      obtain ⟨c', hc', h'⟩ := ih h
      exact ⟨c', List.mem_cons_of_mem _ hc', h'⟩

/-- The controller `generate` reads from. -/
def sel (r : SR) (pa ca : Agg) : Agg :=
  match r.rtype with
  | .gateway | .configmap => ca
  | _ => pa

theorem genVal_sel (w : World) (r : SR) (pa ca : Agg) :
    genVal w r pa ca = genVal w r (sel r pa ca) (sel r pa ca) := by
  unfold genVal sel
  cases r.rtype <;> rfl

/-- `generate` once the controller is chosen. -/
def genFrom (w : World) (r : SR) (ctl : Agg) : Option Val :=
  if r.rtype = .configmap then
    firstSome w.configCluster (fun c isCfg => c.getConfigMapCaCert isCfg r.name r.ns) ctl.controllers
  else if hasSuffix r.name cacertSuffix then
    firstSome w.configCluster (fun c _ => c.getCaCert r.name r.ns) ctl.controllers
  else
    firstSome w.configCluster (fun c _ => c.getCertInfo r.name r.ns) ctl.controllers

theorem genVal_same (w : World) (r : SR) (ctl : Agg) : genVal w r ctl ctl = genFrom w r ctl := by
  unfold genVal genFrom
  cases r.rtype <;> rfl

theorem findCluster_some {id : Str} {cs : List Cluster} {c : Cluster} (h : findCluster id cs = some c) :
    c ∈ cs ∧ c.id = id := by
  induction cs with
  | nil => simp [findCluster] at h
  | cons x xs ih =>
    unfold findCluster at h
    split at h
    · cases h; rename_i hx; exact ⟨List.mem_cons_self, hx⟩
    · obtain ⟨h1, h2⟩ := ih h; exact ⟨List.mem_cons_of_mem _ h1, h2⟩

/-- `ForCluster`: the authorising controller is the proxy's own cluster; lookups go to the proxy's cluster
    and the config cluster only. -/
theorem forCluster_some {w : World} {id : Str} {a : Agg} (h : w.forCluster id = some a) :
    findCluster id w.clusters = some a.auth ∧
    ∀ c ∈ a.controllers, c ∈ w.clusters ∧ (c.id = id ∨ c.id = w.configCluster) := by
  unfold World.forCluster at h
  cases hf : findCluster id w.clusters with
  | none => rw [hf] at h; cases h
  | some c =>
    rw [hf] at h
    simp only at h
    split at h
    · cases h
    · cases h
      refine ⟨rfl, ?_⟩
      intro x hx
      simp only [List.mem_append] at hx
      cases hx with
      | inl hx =>
        unfold ownList at hx
        split at hx
        · simp at hx; subst hx; exact ⟨(findCluster_some hf).1, Or.inl (findCluster_some hf).2⟩
        · simp at hx
      | inr hx =>
        unfold cfgList at hx
        cases hg : findCluster w.configCluster w.clusters with
        | none => rw [hg] at hx; simp at hx
        | some k =>
          rw [hg] at hx
          simp at hx
          subst hx
          exact ⟨(findCluster_some hg).1, Or.inr (findCluster_some hg).2⟩

/-! ### Appending a separator-free suffix -/

/-- Append `s` to the last element of a list of strings. -/
def appendLast : List Str → Str → List Str
  | [], s => [s]
  | [x], s => [x ++ s]
  | x :: y :: r, s => x :: appendLast (y :: r) s

/-- Splitting `a ++ s` when `s` has no separator: the split of `a` with `s` appended to its last segment. -/
theorem split_append_nosep (sep : Char) (a s : Str) (h : sep ∉ s) :
    split sep (a ++ s) = appendLast (split sep a) s := by
  induction a with
  | nil => simp [split, appendLast, split_of_not_mem sep s h]
  | cons c cs ih =>
    by_cases hc : c = sep
    · subst hc
      simp only [List.cons_append, split_cons_sep, ih]
      cases hs : split c cs with
      | nil => exact absurd hs (split_ne_nil _ _)
      | cons x r => simp [appendLast]
    · obtain ⟨hd, tl, h1, h2⟩ := split_cons_ne sep c cs hc
      obtain ⟨hd', tl', h1', h2'⟩ := split_cons_ne sep c (cs ++ s) hc
      simp only [List.cons_append]
      rw [h2', h2]
      rw [ih, h1] at h1'
      cases tl with
      | nil =>
        simp only [appendLast, List.cons.injEq] at h1' ⊢
        obtain ⟨e1, e2⟩ := h1'
        subst e1; subst e2
        simp
      | cons y r =>
        simp only [appendLast, List.cons.injEq] at h1' ⊢
        obtain ⟨e1, e2⟩ := h1'
        subst e1; subst e2
        simp

/-- If `u` (separator-free) and `v` (containing the separator) start the same string, `u` is a prefix of `v`. -/
theorem prefix_of_no_sep (sep : Char) {u v a b : Str} (hu : sep ∉ u) (hv : sep ∈ v) (h : u ++ a = v ++ b) :
    ∃ w, v = u ++ w := by
  induction u generalizing v with
  | nil => exact ⟨v, rfl⟩
  | cons c us ih =>
    cases v with
    | nil => cases hv
    | cons d vs =>
      simp only [List.cons_append, List.cons.injEq] at h
      obtain ⟨hcd, ht⟩ := h
      subst hcd
      have hvs : sep ∈ vs := by
        cases hv with
        | head => exact absurd List.mem_cons_self hu
        | tail _ hm => exact hm
      obtain ⟨w, hw⟩ := ih (fun m => hu (List.mem_cons_of_mem _ m)) hvs ht
      exact ⟨w, by rw [hw]; rfl⟩

/-- A string `p ++ res` that ends in the separator-free `s`, where `res` contains the separator: the suffix lies
    inside `res`. -/
theorem suffix_inside (sep : Char) {p res base s : Str} (hs : sep ∉ s) (hres : sep ∈ res)
    (h : p ++ res = base ++ s) : ∃ res', res = res' ++ s ∧ base = p ++ res' := by
  have h2 := congrArg List.reverse h
  simp only [List.reverse_append] at h2
  obtain ⟨w, hw⟩ := prefix_of_no_sep sep (u := s.reverse) (v := res.reverse) (by simpa using hs) (by simpa using hres) h2.symm
  have hr : res = w.reverse ++ s := by
    have := congrArg List.reverse hw
    simpa using this
  refine ⟨w.reverse, hr, ?_⟩
  rw [hr, ← List.append_assoc] at h
  exact (List.append_cancel_right h).symm

theorem sep_mem_of_split_two {sep : Char} {res x y : Str} {r : List Str} (h : split sep res = x :: y :: r) :
    sep ∈ res := by
  apply Classical.byContradiction
  intro hn
  rw [split_of_not_mem sep res hn] at h
  cases h

theorem cutPrefix_gateway_kubernetes (r : Str) : cutPrefix (gatewayURI ++ r) kubernetesURI = none := by
  simp [cutPrefix, gatewayURI, gatewayTy, kubernetesURI, kubernetesTy, uriSep]

theorem cutPrefix_gateway_configmap (r : Str) : cutPrefix (gatewayURI ++ r) configmapURI = none := by
  simp [cutPrefix, gatewayURI, gatewayTy, configmapURI, configmapTy, uriSep]

end IstioModel.C11
