import IstioModel.C11.Lemmas

/-! C11 - definitions and helper lemmas for the authorization-cache theorems (not counted as obligations). -/
namespace IstioModel.C11

/-- The API server's true answer as a function of the clock second. -/
abbrev Truth := Nat → Str → Str → Bool

/-- Cache invariant at clock second `now`: every entry is the true answer of some second `t0 ≤ now` and expires
    exactly its TTL after `t0`. -/
def ACInv (truth : Truth) (now : Nat) (ac : AuthCache) : Prop :=
  ∀ e ∈ ac, ∃ t0, t0 ≤ now ∧ e.exp = t0 + authTTL e.verdict ∧ e.verdict = truth t0 e.sa e.ns

theorem acinv_nil (truth : Truth) (now : Nat) : ACInv truth now [] := by
  intro e he; cases he

/-- The clock only moves forward; the invariant survives. -/
theorem acinv_mono {truth : Truth} {now now' : Nat} {ac : AuthCache} (h : ACInv truth now ac) (hle : now ≤ now') :
    ACInv truth now' ac := by
  intro e he
  obtain ⟨t0, h1, h2, h3⟩ := h e he
  exact ⟨t0, Nat.le_trans h1 hle, h2, h3⟩

theorem acinv_clear {truth : Truth} {now : Nat} {ac : AuthCache} (h : ACInv truth now ac) :
    ACInv truth now (ac.clear now) := by
  intro e he
  unfold AuthCache.clear at he
  exact h e (List.mem_filter.mp he).1

theorem find_some {ac : AuthCache} {sa ns : Str} {e : ACEntry} (h : ac.find sa ns = some e) :
    e ∈ ac ∧ e.sa = sa ∧ e.ns = ns := by
  unfold AuthCache.find at h
  have h1 := List.find?_some h
  have h2 := List.mem_of_find?_eq_some h
  simp only [Bool.and_eq_true, decide_eq_true_eq] at h1
  exact ⟨h2, h1.1, h1.2⟩

end IstioModel.C11
