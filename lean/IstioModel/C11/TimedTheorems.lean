import IstioModel.C11.TimedLemmas
import IstioModel.C11.AuthCacheTheorems

/-!
C11 - `generateT`: `SecretGen.Generate` with the SubjectAccessReview result cache in the loop, over time.

`sds_release_sound` / `sds_noninterference` speak about `generate` in a world whose RBAC outcome is a constant. What
istiod runs - and what the sds stream drives - is `generateT`: the verdict the filter uses is the proxy cluster
controller's *cached or fresh* answer, while the true RBAC outcome changes with the clock. These theorems carry the
release property over to that setting: a `kubernetes://` key pair is released only if the API server truly authorised
the requester at some second less than five minutes ago (`timed_release_sound`), for every history of clock advances,
RBAC changes, cache clears and requests by arbitrary proxies (`timed_history_release_sound`); and every answer equals
the cache-free specification evaluated with the *effective* (possibly stale, boundedly so) verdict
(`generateT_spec`) - i.e. the answer depends on the past only through the requester's own cached verdict.
-/
namespace IstioModel.C11

/-! ### What a released key needs from the filter -/

/-- Every element of the specification's answer was let through by `filterAuthorizedResources` with the aggregate's
    verdict, for a resource parsed from a requested name. -/
theorem spec_mem {w : World} {p : Proxy} {names : List Str} {req : Option PushReq} {res : List (Str × Val)}
    (h : spec w p names req = some res) (name : Str) (v : Val) (hm : (name, v) ∈ res) :
    ∃ id pa sr, p.verified = some id ∧ w.forCluster p.cluster = some pa ∧
      sr ∈ parseResources names id.ns p.cluster w.configCluster ∧
      allowed p id (pa.authz id.sa id.ns) sr = true ∧ sr.resourceName = name ∧ genCanon w sr = some v := by
  unfold spec at h
  cases hv : p.verified with
  | none => rw [hv] at h; cases h
  | some id =>
    rw [hv] at h
    simp only at h
    cases req with
    | none => cases h
    | some rq =>
      simp only at h
      split at h
      · cases h
      · cases hpa : w.forCluster p.cluster with
        | none => rw [hpa] at h; cases h
        | some pa =>
          rw [hpa] at h
          simp only at h
          cases hca : w.forCluster w.configCluster with
          | none => rw [hca] at h; cases h
          | some ca =>
            rw [hca] at h
            cases h
            rw [List.mem_filterMap] at hm
            obtain ⟨sr, hsr, hrel⟩ := hm
            unfold filterAuthorized at hsr
            rw [List.mem_filter] at hsr
            obtain ⟨hmem, hal⟩ := hsr
            unfold releaseOne at hrel
            split at hrel
            · cases hc : genCanon w sr with
              | none => rw [hc] at hrel; cases hrel
              | some v' =>
                rw [hc] at hrel
                simp only [Option.map_some, Option.some.injEq, Prod.mk.injEq] at hrel
                obtain ⟨h1, h2⟩ := hrel
                subst h2
                exact ⟨id, pa, sr, rfl, rfl, hmem, hal, h1, hc⟩
            · cases hrel

/-- A key pair in the answer of `generate` came through the `kubernetes` arm with the aggregate's verdict `true` -
    and the filter did have to ask - or through a verified `kubernetes-gateway` reference. -/
theorem key_needs_verdict (w : World) (hw : WorldOK w) (p : Proxy) (hp : ProxyOK p) (c : Cache) (hc : Consistent w c)
    (names : List Str) (req : Option PushReq) (o : GenOut) (h : generate w c p names req = some o)
    (name : Str) (v : Val) (hm : (name, v) ∈ o.res) (hk : v.hasKey = true) :
    ∃ id pa, p.verified = some id ∧ w.forCluster p.cluster = some pa ∧
      ((pa.authz id.sa id.ns = true ∧ needsAuthz id (parseResources names id.ns p.cluster w.configCluster) = true) ∨
       (∃ l, p.refs = some l ∧ name ∈ l)) := by
  have hs := (generate_spec w hw p hp c hc names req).1
  rw [h] at hs
  simp only [Option.map_some] at hs
  obtain ⟨id, pa, sr, hv, hpa, hmem, hal, hrn, hcan⟩ := spec_mem hs.symm name v hm
  refine ⟨id, pa, hv, hpa, ?_⟩
  -- the value has a key: not a config map, not CA-only
  unfold genCanon at hcan
  cases hf : w.forCluster sr.cluster with
  | none => rw [hf] at hcan; cases hcan
  | some a =>
    rw [hf] at hcan
    simp only at hcan
    obtain ⟨hncm, hnca, _⟩ := genVal_key hcan hk
    unfold allowed at hal
    split at hal
    · -- gateway
      right
      split at hal
      · rename_i l hl
        exact ⟨l, hl, by rw [← hrn]; simpa using hal⟩
      · cases hal
    · rename_i ht; exact absurd ht hncm
    · -- kubernetes
      rename_i ht
      left
      simp only [Bool.and_eq_true, Bool.or_eq_true, decide_eq_true_eq] at hal
      constructor
      · cases hal.2 with
        | inl hca => rw [hnca] at hca; cases hca
        | inr ha => exact ha
      · unfold needsAuthz
        rw [List.any_eq_true]
        exact ⟨sr, hmem, by simp [ht, hal.1, hnca]⟩
    · cases hal

/-! ### One timed request -/

/-- State invariant at clock second `now`: the xDS cache holds canonical content, and every cluster's authorization
    cache holds true answers of the past with their TTLs (`truth t cid` = what cluster `cid`'s API server says at `t`). -/
def TInv (w : World) (truth : Nat → Str → Str → Str → Bool) (s : TState) : Prop :=
  Consistent w s.cache ∧ ∀ cid, ACInv (fun t => truth t cid) s.now (s.acOf cid)

/-- The world at second `t`: every cluster answers reviews as `truth t` says. Stores never change. -/
def worldAt (w : World) (truth : Nat → Str → Str → Str → Bool) (t : Nat) : World :=
  mapClusters w (fun c => { c with authz := truth t c.id })

theorem worldAt_preserving (truth : Nat → Str → Str → Str → Bool) (t : Nat) :
    StorePreserving (fun c => ({ c with authz := truth t c.id } : Cluster)) := by
  intro c; simp

/-- **generateT_spec.** One timed request answers the cache-free specification of the world in which the requester's
    cluster gives the *effective* verdict - the cached or fresh answer of `Authorize` - and otherwise the plain
    specification (when the filter never asks, or nobody can authorise); the invariant is preserved. The past
    influences the answer only through the requester's own cached verdict. -/
theorem generateT_spec (w : World) (hw : WorldOK w) (truth : Nat → Str → Str → Str → Bool) (s : TState)
    (hinv : TInv w truth s) (p : Proxy) (hp : ProxyOK p) (names : List Str) (req : Option PushReq) :
    let wn := worldAt w truth s.now
    let r := generateT wn s p names req
    (r.1.map (·.res) = spec wn p names req ∨
      ∃ id pa, p.verified = some id ∧ wn.forCluster p.cluster = some pa ∧
        r.1.map (·.res) =
          spec (withVerdict wn p.cluster (authorizeCached pa.auth.authz s.now (s.acOf p.cluster) id.sa id.ns).1) p names req) ∧
    TInv w truth r.2 ∧ r.2.now = s.now := by
  intro wn r
  have hwn : WorldOK wn := worldOK_map (worldAt_preserving truth s.now) hw
  have hcn : Consistent wn s.cache := (consistent_map (worldAt_preserving truth s.now)).mpr hinv.1
  have hplain := generate_spec wn hwn p hp s.cache hcn names req
  -- helper: finishing with an unchanged auth cache
  have fin_inv : ∀ (o : Option GenOut) (s' : TState), s'.now = s.now → (∀ cid, ACInv (fun t => truth t cid) s.now (s'.acOf cid)) →
      (∀ g, o = some g → Consistent w g.cache) → Consistent w s'.cache →
      TInv w truth (match o with | some g => (o, { s' with cache := g.cache }) | none => (o, s')).2 ∧
        (match o with | some g => (o, { s' with cache := g.cache }) | none => (o, s')).2.now = s.now := by
    intro o s' hnow hac hgc hsc
    cases o with
    | none => exact ⟨⟨hsc, by rw [hnow]; exact hac⟩, hnow⟩
    | some g => exact ⟨⟨hgc g rfl, by simp only [hnow]; exact hac⟩, hnow⟩
  show (r.1.map (·.res) = _ ∨ _) ∧ _
  have hr : r = generateT wn s p names req := rfl
  unfold generateT at hr
  cases hv : p.verified with
  | none =>
    simp only [hv] at hr
    rw [hr]
    refine ⟨Or.inl ?_, hinv, rfl⟩
    simp [spec, hv]
  | some id =>
    cases req with
    | none =>
      simp only [hv] at hr
      rw [hr]
      refine ⟨Or.inl ?_, hinv, rfl⟩
      simp [spec, hv]
    | some rq =>
      simp only [hv] at hr
      by_cases hnp : sdsNeedsPush rq = true
      · simp only [hnp, Bool.not_true, Bool.false_eq_true, if_false] at hr
        cases hpa : wn.forCluster p.cluster with
        | none =>
          simp only [hpa] at hr
          rw [hr]
          refine ⟨Or.inl ?_, hinv, rfl⟩
          simp [spec, hv, hnp, hpa]
        | some pa =>
          cases hca : wn.forCluster wn.configCluster with
          | none =>
            simp only [hpa, hca] at hr
            rw [hr]
            refine ⟨Or.inl ?_, hinv, rfl⟩
            simp [spec, hv, hnp, hpa, hca]
          | some ca =>
            simp only [hpa, hca] at hr
            split at hr
            · -- the filter asks: effective verdict
              rename_i hask
              rw [hr]
              let ar := authorizeCached pa.auth.authz s.now (s.acOf p.cluster) id.sa id.ns
              have hvp := verdictMap_preserving p.cluster ar.1
              have hwv : WorldOK (withVerdict wn p.cluster ar.1) := worldOK_map hvp hwn
              have hcv : Consistent (withVerdict wn p.cluster ar.1) s.cache := (consistent_map hvp).mpr hcn
              have hg := generate_spec (withVerdict wn p.cluster ar.1) hwv p hp s.cache hcv names (some rq)
              -- the authorization cache step keeps the invariant for the requester's cluster
              have hauth : pa.auth.authz = truth s.now p.cluster := by
                have := (forCluster_some hpa).1
                have hfm := findCluster_map (worldAt_preserving truth s.now) p.cluster w.clusters
                simp only [wn, worldAt, mapClusters] at this
                rw [hfm] at this
                cases hfc : findCluster p.cluster w.clusters with
                | none => rw [hfc] at this; cases this
                | some c0 =>
                  rw [hfc] at this
                  simp only [Option.map_some, Option.some.injEq] at this
                  rw [← this]
                  simp only
                  rw [(findCluster_some hfc).2]
              have hst := authorize_bounded_staleness (fun t => truth t p.cluster) s.now (s.acOf p.cluster)
                (hinv.2 p.cluster) id.sa id.ns
              have hacs : ∀ cid, ACInv (fun t => truth t cid) s.now ((s.setAc p.cluster ar.2).acOf cid) := by
                intro cid
                by_cases hc : cid = p.cluster
                · subst hc
                  rw [acOf_setAc_same]
                  have := hst.2
                  simp only [ar, hauth]
                  exact this
                · rw [acOf_setAc_other _ _ _ _ hc]
                  exact hinv.2 cid
              have hfin := fin_inv (generate (withVerdict wn p.cluster ar.1) s.cache p names (some rq))
                (s.setAc p.cluster ar.2) rfl hacs
                (fun g hgg => (consistent_map (worldAt_preserving truth s.now)).mp ((consistent_map hvp).mp (hg.2 g hgg)))
                hinv.1
              refine ⟨Or.inr ⟨id, pa, rfl, rfl, ?_⟩, hfin⟩
              have h1 := hg.1
              cases hgen : generate (withVerdict wn p.cluster ar.1) s.cache p names (some rq) with
              | none => rw [hgen] at h1; simpa using h1
              | some g => rw [hgen] at h1; simpa using h1
            · rw [hr]
              have hfin := fin_inv (generate wn s.cache p names (some rq)) s rfl hinv.2
                (fun g hgg => (consistent_map (worldAt_preserving truth s.now)).mp (hplain.2 g hgg)) hinv.1
              refine ⟨Or.inl ?_, hfin⟩
              have h1 := hplain.1
              cases hgen : generate wn s.cache p names (some rq) with
              | none => rw [hgen] at h1; simpa using h1
              | some g => rw [hgen] at h1; simpa using h1
      · have hnp' : sdsNeedsPush rq = false := by simpa using hnp
        simp only [hnp', Bool.not_false, if_true] at hr
        rw [hr]
        refine ⟨Or.inl ?_, hinv, rfl⟩
        simp [spec, hv, hnp']

/-- `key_needs_verdict` on the specification itself (no cache involved). -/
theorem spec_key_needs_verdict {w : World} {p : Proxy} {names : List Str} {req : Option PushReq}
    {res : List (Str × Val)} (h : spec w p names req = some res) (name : Str) (v : Val) (hm : (name, v) ∈ res)
    (hk : v.hasKey = true) :
    ∃ id pa, p.verified = some id ∧ w.forCluster p.cluster = some pa ∧
      (pa.authz id.sa id.ns = true ∨
        ∃ sr l, parseResourceName name id.ns p.cluster w.configCluster = some sr ∧ sr.rtype = .gateway ∧
          p.refs = some l ∧ name ∈ l) := by
  obtain ⟨id, pa, sr, hv, hpa, hmem, hal, hrn, hcan⟩ := spec_mem h name v hm
  refine ⟨id, pa, hv, hpa, ?_⟩
  have hparse : parseResourceName name id.ns p.cluster w.configCluster = some sr := by
    unfold parseResources at hmem
    rw [List.mem_filterMap] at hmem
    obtain ⟨n, _, hp⟩ := hmem
    have hn : n = name := by rw [← (parse_some hp).1, hrn]
    rw [← hn]; exact hp
  unfold genCanon at hcan
  cases hf : w.forCluster sr.cluster with
  | none => rw [hf] at hcan; cases hcan
  | some a =>
    rw [hf] at hcan
    simp only at hcan
    obtain ⟨hncm, hnca, _⟩ := genVal_key hcan hk
    unfold allowed at hal
    split at hal
    · rename_i ht
      right
      split at hal
      · rename_i l hl
        exact ⟨sr, l, hparse, ht, hl, by rw [← hrn]; simpa using hal⟩
      · cases hal
    · rename_i ht; exact absurd ht hncm
    · left
      simp only [Bool.and_eq_true, Bool.or_eq_true, decide_eq_true_eq] at hal
      cases hal.2 with
      | inl hca => rw [hnca] at hca; cases hca
      | inr ha => exact ha
    · cases hal

/-- **timed_release_sound.** With the authorization cache in the loop and the RBAC outcome changing over time: a
    key pair released at clock second `now` under a name that is not a verified reference implies that the API server of
    the requester's cluster truly authorised the requester's `(serviceAccount, namespace)` at some second `t0 ≤ now` with
    `now < t0 + 300` - whatever was cached, whatever anybody requested before. The only other way for a key is a name that *parses to the
    `kubernetes-gateway` type* and is an exact verified reference: a `kubernetes://` name gains nothing from being listed in
    `VerifiedCertificateReferences` (an ordinary Gateway with `credentialName: a` lists `kubernetes://a`). -/
theorem timed_release_sound (w : World) (hw : WorldOK w) (truth : Nat → Str → Str → Str → Bool) (s : TState)
    (hinv : TInv w truth s) (p : Proxy) (hp : ProxyOK p) (names : List Str) (req : Option PushReq)
    (o : GenOut) (ho : (generateT (worldAt w truth s.now) s p names req).1 = some o)
    (name : Str) (v : Val) (hm : (name, v) ∈ o.res) (hk : v.hasKey = true) :
    (∃ id sr l, p.verified = some id ∧ parseResourceName name id.ns p.cluster w.configCluster = some sr ∧
        sr.rtype = .gateway ∧ p.refs = some l ∧ name ∈ l) ∨
      ∃ id t0, p.verified = some id ∧ t0 ≤ s.now ∧ s.now < t0 + 300 ∧ truth t0 p.cluster id.sa id.ns = true := by
  have hspec := (generateT_spec w hw truth s hinv p hp names req).1
  simp only at hspec
  rw [ho] at hspec
  simp only [Option.map_some] at hspec
  -- the authorising controller of the requester's cluster answers with the truth of this second
  have hauth : ∀ pa, (worldAt w truth s.now).forCluster p.cluster = some pa → pa.auth.authz = truth s.now p.cluster := by
    intro pa hpa
    have := (forCluster_some hpa).1
    have hfm := findCluster_map (worldAt_preserving truth s.now) p.cluster w.clusters
    simp only [worldAt, mapClusters] at this
    rw [hfm] at this
    cases hfc : findCluster p.cluster w.clusters with
    | none => rw [hfc] at this; cases this
    | some c0 =>
      rw [hfc] at this
      simp only [Option.map_some, Option.some.injEq] at this
      rw [← this]
      simp only
      rw [(findCluster_some hfc).2]
  cases hspec with
  | inl h1 =>
    obtain ⟨id, pa, hv, hpa, hcase⟩ := spec_key_needs_verdict h1.symm name v hm hk
    cases hcase with
    | inr hr =>
      obtain ⟨sr, l, h1', h2', h3', h4'⟩ := hr
      exact Or.inl ⟨id, sr, l, hv, h1', h2', h3', h4'⟩
    | inl ha =>
      right
      refine ⟨id, s.now, hv, Nat.le_refl _, by omega, ?_⟩
      have := agg_authz ha
      rw [hauth pa hpa] at this
      exact this
  | inr h2 =>
    obtain ⟨id, pa, hv, hpa, h2⟩ := h2
    obtain ⟨id', pa', hv', hpa', hcase⟩ := spec_key_needs_verdict h2.symm name v hm hk
    rw [hv] at hv'
    cases hv'
    cases hcase with
    | inr hr =>
      obtain ⟨sr, l, h1', h2', h3', h4'⟩ := hr
      exact Or.inl ⟨id, sr, l, hv, h1', h2', h3', h4'⟩
    | inl ha =>
      right
      -- in the verdict world the authorising controller answers the effective verdict
      have hva := agg_authz ha
      rw [withVerdict_eq, forCluster_map (verdictMap_preserving _ _), hpa] at hpa'
      simp only [Option.map_some, Option.some.injEq] at hpa'
      rw [← hpa'] at hva
      simp only at hva
      have hid : pa.auth.id = p.cluster := (findCluster_some (forCluster_some hpa).1).2
      simp only [verdictMap, hid, if_true] at hva
      -- bounded staleness of that verdict
      have hst := (authorize_bounded_staleness (fun t => truth t p.cluster) s.now (s.acOf p.cluster)
        (hinv.2 p.cluster) id.sa id.ns).1
      rw [hauth pa hpa] at hva
      obtain ⟨t0, h1, h2', h3⟩ := hst
      rw [hva] at h2' h3
      exact ⟨id, t0, hv, h1, by simpa [authTTL] using h2', h3.symm⟩

/-! ### Histories -/

/-- What happens over time: the clock advances (the RBAC truth may be different afterwards), the xDS cache is cleared,
    some proxy requests some names. -/
inductive TEv
  | tick (n : Nat)
  | clear
  | gen (p : Proxy) (names : List Str) (req : Option PushReq)

def stepT (w : World) (truth : Nat → Str → Str → Str → Bool) (s : TState) : TEv → TState
  | .tick n => { s with now := s.now + n }
  | .clear => { s with cache := [] }
  | .gen p names req => (generateT (worldAt w truth s.now) s p names req).2

def TEvOK : TEv → Prop
  | .gen p _ _ => ProxyOK p
  | _ => True

/-- The answers of a history: (clock second, requester, released resources). -/
def runT (w : World) (truth : Nat → Str → Str → Str → Bool) : TState → List TEv → List (Nat × Proxy × List (Str × Val))
  | _, [] => []
  | s, .gen p names req :: evs =>
    (match (generateT (worldAt w truth s.now) s p names req).1 with
     | some o => [(s.now, p, o.res)]
     | none => []) ++ runT w truth (stepT w truth s (.gen p names req)) evs
  | s, ev :: evs => runT w truth (stepT w truth s ev) evs

theorem stepT_inv (w : World) (hw : WorldOK w) (truth : Nat → Str → Str → Str → Bool) (s : TState) (hinv : TInv w truth s)
    (ev : TEv) (hev : TEvOK ev) : TInv w truth (stepT w truth s ev) := by
  cases ev with
  | tick n => exact ⟨hinv.1, fun cid => acinv_mono (hinv.2 cid) (Nat.le_add_right _ _)⟩
  | clear => exact ⟨consistent_nil w, hinv.2⟩
  | gen p names req => exact (generateT_spec w hw truth s hinv p hev names req).2.1

/-- **timed_history_release_sound.** For every world, every RBAC truth that varies with the clock, every history of clock
    advances, cache clears and requests by arbitrary, differently privileged proxies on the shared caches, starting from
    the empty state: every key pair ever released under a name that is not a verified reference went to a requester whom
    its cluster's API server truly authorised less than 300 s before the release. -/
theorem timed_history_release_sound (w : World) (hw : WorldOK w) (truth : Nat → Str → Str → Str → Bool)
    (evs : List TEv) (hevs : ∀ ev ∈ evs, TEvOK ev) (s : TState) (hinv : TInv w truth s) :
    ∀ a ∈ runT w truth s evs, ∀ name v, (name, v) ∈ a.2.2 → v.hasKey = true →
      (∃ id sr l, a.2.1.verified = some id ∧
          parseResourceName name id.ns a.2.1.cluster w.configCluster = some sr ∧ sr.rtype = .gateway ∧
          a.2.1.refs = some l ∧ name ∈ l) ∨
        ∃ id t0, a.2.1.verified = some id ∧ t0 ≤ a.1 ∧ a.1 < t0 + 300 ∧ truth t0 a.2.1.cluster id.sa id.ns = true := by
  induction evs generalizing s with
  | nil => intro a ha; cases ha
  | cons ev evs ih =>
    have hev := hevs ev List.mem_cons_self
    have hrest : ∀ e ∈ evs, TEvOK e := fun e he => hevs e (List.mem_cons_of_mem _ he)
    have hnext := stepT_inv w hw truth s hinv ev hev
    cases ev with
    | tick n => exact ih hrest _ hnext
    | clear => exact ih hrest _ hnext
    | gen p names req =>
      intro a ha
      simp only [runT, List.mem_append] at ha
      cases ha with
      | inr ha => exact ih hrest _ hnext a ha
      | inl ha =>
        cases ho : (generateT (worldAt w truth s.now) s p names req).1 with
        | none => rw [ho] at ha; cases ha
        | some o =>
          rw [ho] at ha
          simp only [List.mem_singleton] at ha
          subst ha
          intro name v hm hk
          exact timed_release_sound w hw truth s hinv p hev names req o ho name v hm hk

theorem tinv_init (w : World) (truth : Nat → Str → Str → Str → Bool) : TInv w truth {} :=
  ⟨consistent_nil w, fun _ => acinv_nil _ _⟩

/-! Non-vacuity, and the reviewer's observation as a checked fact: in the *same* denying world, the same request at the
    same clock second is refused from a fresh state but served after one earlier request made while RBAC still allowed -
    the cached verdict, less than 300 s old; five minutes later it is refused. -/

def exTruthT : Nat → Str → Str → Str → Bool := fun t _ _ _ => decide (t < 100)

example : runT exWorld exTruthT {} [.tick 150, .gen exP2 ["kubernetes://a".toList] exForced] =
    [(150, exP2, [])] := by decide

example : runT exWorld exTruthT {} [.tick 90, .gen exP2 ["kubernetes://a".toList] exForced, .tick 60, .clear,
      .gen exP2 ["kubernetes://a".toList] exForced, .tick 300, .gen exP2 ["kubernetes://a".toList] exForced] =
    [(90, exP2, [("kubernetes://a".toList, .tls "C2".toList "K2".toList)]),
     (150, exP2, [("kubernetes://a".toList, .tls "C2".toList "K2".toList)]),
     (450, exP2, [])] := by decide

/-! ### Private key providers: the timed theorems on cache partitions (`generateP`) -/

theorem part_setPart_same (pcs : PCaches) (h : Str) (c : Cache) : (pcs.setPart h c).part h = c := by
  simp [PCaches.setPart, PCaches.part]

theorem part_setPart_other (pcs : PCaches) (h h' : Str) (c : Cache) (hne : h' ≠ h) :
    (pcs.setPart h c).part h' = pcs.part h' := by
  unfold PCaches.setPart PCaches.part
  have : ¬ h = h' := fun e => hne e.symm
  simp only [List.find?_cons, this, decide_false]
  rw [find_filter_ne pcs h h' hne]

/-- Invariant of the partitioned state: every partition holds canonical content; the authorization caches hold true
    answers of the past. -/
def PInv (w : World) (truth : Nat → Str → Str → Str → Bool) (pcs : PCaches) (now : Nat) (acs : List (Str × AuthCache)) : Prop :=
  (∀ h, Consistent w (pcs.part h)) ∧
    ∀ cid, ACInv (fun t => truth t cid) now (({ cache := [], now := now, acs := acs } : TState).acOf cid)

/-- `effectivePkp`: a proxy that sent a ProxyConfig is governed by it alone - also when it names no provider - and
    only a proxy that sent none gets the mesh default. -/
theorem effectivePkp_cases (meshDefault : Str) (own : Option Str) :
    (∀ k, own = some k → effectivePkp meshDefault own = k) ∧ (own = none → effectivePkp meshDefault own = meshDefault) := by
  constructor
  · intro k h; subst h; rfl
  · intro h; subst h; rfl

/-- **provider_release_sound.** The release property holds on every cache partition, i.e. for proxies with any
    effective private-key-provider configuration (`hash`), own or mesh default: a key pair released by `generateP` under a
    name that is not a verified `kubernetes-gateway` reference went to a requester its cluster truly authorised less than
    300 s before - whatever the other partitions hold; and the invariant is preserved, the other partitions untouched. -/
theorem provider_release_sound (w : World) (hw : WorldOK w) (truth : Nat → Str → Str → Str → Bool) (pcs : PCaches)
    (now : Nat) (acs : List (Str × AuthCache)) (hinv : PInv w truth pcs now acs) (hash : Str) (p : Proxy) (hp : ProxyOK p)
    (names : List Str) (req : Option PushReq) :
    let r := generateP (worldAt w truth now) pcs now acs hash p names req
    (∀ o, r.1 = some o → ∀ name v, (name, v) ∈ o.res → v.hasKey = true →
      (∃ id sr l, p.verified = some id ∧ parseResourceName name id.ns p.cluster w.configCluster = some sr ∧
          sr.rtype = .gateway ∧ p.refs = some l ∧ name ∈ l) ∨
        ∃ id t0, p.verified = some id ∧ t0 ≤ now ∧ now < t0 + 300 ∧ truth t0 p.cluster id.sa id.ns = true) ∧
    PInv w truth r.2.1 now r.2.2 ∧ ∀ h', h' ≠ hash → r.2.1.part h' = pcs.part h' := by
  intro r
  let s : TState := { cache := pcs.part hash, now := now, acs := acs }
  have hs : TInv w truth s := ⟨hinv.1 hash, hinv.2⟩
  have hspec := generateT_spec w hw truth s hs p hp names req
  simp only at hspec
  have hr : r = generateP (worldAt w truth now) pcs now acs hash p names req := rfl
  unfold generateP at hr
  simp only at hr
  cases hg : (generateT (worldAt w truth now) s p names req).1 with
  | none =>
    have hr' : r = (none, pcs, (generateT (worldAt w truth now) s p names req).2.acs) := by
      rw [hr]; simp only [s] at hg; rw [hg]
    rw [hr']
    refine ⟨?_, ?_, ?_⟩
    · intro o ho; cases ho
    · refine ⟨hinv.1, ?_⟩
      intro cid
      have := hspec.2.1.2 cid
      rw [hspec.2.2] at this
      exact this
    · intro _ _; rfl
  | some o =>
    have hr' : r = (some o, pcs.setPart hash (generateT (worldAt w truth now) s p names req).2.cache,
        (generateT (worldAt w truth now) s p names req).2.acs) := by
      rw [hr]; simp only [s] at hg; rw [hg]
    rw [hr']
    refine ⟨?_, ?_, ?_⟩
    · intro o' ho' name v hm hk
      cases ho'
      exact timed_release_sound w hw truth s hs p hp names req o hg name v hm hk
    · refine ⟨?_, ?_⟩
      · intro h'
        by_cases he : h' = hash
        · subst he
          rw [part_setPart_same]
          exact hspec.2.1.1
        · rw [part_setPart_other _ _ _ _ he]; exact hinv.1 h'
      · intro cid
        have := hspec.2.1.2 cid
        rw [hspec.2.2] at this
        exact this
    · intro h' hne
      exact part_setPart_other _ _ _ _ hne

end IstioModel.C11
