import IstioModel.C11.AuthCacheLemmas

/-!
C11 - the SubjectAccessReview result cache (`CredentialsController.authorizationCache`): bounded staleness.

"... all RBAC outcomes ...": the RBAC outcome may change over time. `Authorize` answers from a per-user cache whose
entries live one minute (refusal / API error) or five minutes (success). The theorems say that every verdict served
is the API server's true answer at some moment less than that TTL ago - so a revocation takes effect within five
minutes and a new grant within one minute - for every history of clock advances, policy changes and queries.
-/
namespace IstioModel.C11

/-- **authorize_bounded_staleness.** Whatever the cache holds (under the invariant), the verdict `Authorize` returns
    at second `now` for user `(sa, ns)` is the API server's true answer at some second `t0 ≤ now` with
    `now < t0 + TTL(verdict)`: at most 60 s old for a refusal, at most 300 s old for a success. The invariant is
    preserved. -/
theorem authorize_bounded_staleness (truth : Truth) (now : Nat) (ac : AuthCache) (h : ACInv truth now ac)
    (sa ns : Str) :
    (∃ t0, t0 ≤ now ∧ now < t0 + authTTL (authorizeCached (truth now) now ac sa ns).1 ∧
        (authorizeCached (truth now) now ac sa ns).1 = truth t0 sa ns) ∧
      ACInv truth now (authorizeCached (truth now) now ac sa ns).2 := by
  unfold authorizeCached
  cases hf : (ac.clear now).find sa ns with
  | some e =>
    simp only
    obtain ⟨hmem, hsa, hns⟩ := find_some hf
    have hlive : now < e.exp := by
      unfold AuthCache.clear at hmem
      have := (List.mem_filter.mp hmem).2
      simpa using this
    obtain ⟨t0, h1, h2, h3⟩ := acinv_clear h e hmem
    refine ⟨⟨t0, h1, by rw [← h2]; exact hlive, by rw [h3, hsa, hns]⟩, acinv_clear h⟩
  | none =>
    simp only
    refine ⟨⟨now, Nat.le_refl _, ?_, rfl⟩, ?_⟩
    · unfold authTTL; split <;> omega
    · intro e he
      cases he with
      | head => exact ⟨now, Nat.le_refl _, rfl, rfl⟩
      | tail _ he => exact acinv_clear h e he

/-- **revocation_effective_within_ttl.** If the API server has refused the user at every second of the last five
    minutes, `Authorize` refuses - whatever was cached before. -/
theorem revocation_effective_within_ttl (truth : Truth) (now : Nat) (ac : AuthCache) (h : ACInv truth now ac)
    (sa ns : Str) (hrev : ∀ t, t ≤ now → now < t + 300 → truth t sa ns = false) :
    (authorizeCached (truth now) now ac sa ns).1 = false := by
  obtain ⟨⟨t0, h1, h2, h3⟩, _⟩ := authorize_bounded_staleness truth now ac h sa ns
  cases hv : (authorizeCached (truth now) now ac sa ns).1 with
  | false => rfl
  | true =>
    rw [hv] at h2 h3
    have := hrev t0 h1 (by simpa [authTTL] using h2)
    rw [this] at h3
    cases h3

/-- **grant_effective_within_ttl.** If the API server has allowed the user at every second of the last minute,
    `Authorize` allows. -/
theorem grant_effective_within_ttl (truth : Truth) (now : Nat) (ac : AuthCache) (h : ACInv truth now ac)
    (sa ns : Str) (hgr : ∀ t, t ≤ now → now < t + 60 → truth t sa ns = true) :
    (authorizeCached (truth now) now ac sa ns).1 = true := by
  obtain ⟨⟨t0, h1, h2, h3⟩, _⟩ := authorize_bounded_staleness truth now ac h sa ns
  cases hv : (authorizeCached (truth now) now ac sa ns).1 with
  | true => rfl
  | false =>
    rw [hv] at h2 h3
    have := hgr t0 h1 (by simpa [authTTL] using h2)
    rw [this] at h3
    cases h3

/-- A history of the cache: the clock advances, or somebody's authorisation is queried. -/
inductive AEv
  | tick (n : Nat)
  | query (sa ns : Str)

def runAuth (truth : Truth) : Nat → AuthCache → List AEv → List (Nat × Str × Str × Bool)
  | _, _, [] => []
  | now, ac, .tick n :: evs => runAuth truth (now + n) ac evs
  | now, ac, .query sa ns :: evs =>
    (now, sa, ns, (authorizeCached (truth now) now ac sa ns).1) ::
      runAuth truth now (authorizeCached (truth now) now ac sa ns).2 evs

/-- **auth_history_bounded_staleness.** Over every history of clock advances and queries (any users, any order)
    starting from a consistent (e.g. empty) cache, every answer is a true answer less than its TTL old. -/
theorem auth_history_bounded_staleness (truth : Truth) (evs : List AEv) (now : Nat) (ac : AuthCache)
    (h : ACInv truth now ac) :
    ∀ r ∈ runAuth truth now ac evs, ∃ t0, t0 ≤ r.1 ∧ r.1 < t0 + authTTL r.2.2.2 ∧ r.2.2.2 = truth t0 r.2.1 r.2.2.1 := by
  induction evs generalizing now ac with
  | nil => intro r hr; cases hr
  | cons ev evs ih =>
    cases ev with
    | tick n =>
      simp only [runAuth]
      exact ih (now + n) ac (acinv_mono h (Nat.le_add_right _ _))
    | query sa ns =>
      simp only [runAuth]
      obtain ⟨hq, hinv⟩ := authorize_bounded_staleness truth now ac h sa ns
      intro r hr
      cases hr with
      | head => exact hq
      | tail _ hr => exact ih now _ hinv r hr

/-! Non-vacuity: a user allowed until second 100, queried before and after the revocation. -/

def exTruth : Truth := fun t _ _ => decide (t < 100)

example : runAuth exTruth 90 [] [.query "sa".toList "ns".toList, .tick 20, .query "sa".toList "ns".toList, .tick 260,
      .query "sa".toList "ns".toList, .tick 20, .query "sa".toList "ns".toList] =
    [(90, "sa".toList, "ns".toList, true), (110, "sa".toList, "ns".toList, true),
     (370, "sa".toList, "ns".toList, true), (390, "sa".toList, "ns".toList, false)] := by decide

end IstioModel.C11
