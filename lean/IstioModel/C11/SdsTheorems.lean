import IstioModel.C11.Theorems
import IstioModel.C11.SdsLemmas

/-!
C11 - SDS secret release (part 2 of the property).

"Gateway TLS key material is returned over SDS only for secrets in the proxy's own verified namespace that
it is authorised to read, or for references explicitly verified by a grant, never to an unauthenticated
stream, never across namespaces, and independently of what other proxies requested before or what the cache
holds."
-/
namespace IstioModel.C11

/-! ### Resource-name parsing -/

/-! ### Cache key -/

/-! ### Secret lookup -/

/-- A value with a private key is the key pair of the secret stored under exactly `(r.name, r.ns)` in one
    of the consulted clusters, and the resource is neither a config map nor a `-cacert` name. -/
theorem genVal_key {w : World} {r : SR} {pa ca : Agg} {v : Val} (h : genVal w r pa ca = some v)
    (hk : v.hasKey = true) :
    r.rtype ≠ .configmap ∧ hasSuffix r.name cacertSuffix = false ∧
      ∃ c ∈ (sel r pa ca).controllers, ∃ d, c.secrets r.name r.ns = some d ∧ extractCertInfo d = some v := by
  rw [genVal_sel] at h
  generalize sel r pa ca = ctl at h ⊢
  rw [genVal_same] at h
  unfold genFrom at h
  split at h
  · obtain ⟨c, _, hc⟩ := firstSome_some h
    unfold Cluster.getConfigMapCaCert at hc
    split at hc
    · cases hc
    · split at hc
      · cases hc
      · rw [extractRoot_no_key hc] at hk; cases hk
  · rename_i hnc
    split at h
    · obtain ⟨c, _, hc⟩ := firstSome_some h
      unfold Cluster.getCaCert at hc
      split at hc
      · rw [extractRoot_no_key hc] at hk; cases hk
      · split at hc
        · rw [extractRoot_no_key hc] at hk; cases hk
        · cases hc
    · rename_i hns
      obtain ⟨c, hmem, hc⟩ := firstSome_some h
      unfold Cluster.getCertInfo at hc
      split at hc
      · cases hc
      · rename_i d hd
        exact ⟨hnc, by simpa using hns, c, hmem, d, hd, hc⟩

/-! ### Clusters -/

/-! ### The cache discipline -/

/-- One `Generate` call on a consistent cache answers exactly the specification and leaves the cache
    consistent. -/
theorem generate_spec (w : World) (hw : WorldOK w) (p : Proxy) (hp : ProxyOK p) (c : Cache)
    (hc : Consistent w c) (names : List Str) (req : Option PushReq) :
    (generate w c p names req).map (·.res) = spec w p names req ∧
      ∀ o, generate w c p names req = some o → Consistent w o.cache := by
  unfold generate spec
  cases hv : p.verified with
  | none => simp
  | some id =>
    simp only
    cases req with
    | none => simp
    | some rq =>
      simp only
      split
      · simp
      · cases hpa : w.forCluster p.cluster with
        | none => simp
        | some pa =>
          simp only
          cases hca : w.forCluster w.configCluster with
          | none => simp
          | some ca =>
            simp only
            have hgood := authorised_good hw (hp id hv) hpa hca (pa.authz id.sa id.ns) names
            have := genLoop_spec w rq pa ca _ { cache := c } hc hgood
            constructor
            · simp [this.1]
            · intro o ho
              cases ho
              exact this.2

/-! ### Histories on a shared cache -/

theorem stepOp_spec (w : World) (hw : WorldOK w) (c : Cache) (hc : Consistent w c) (op : Op) (hop : OpOK op) :
    (stepOp w c op).2 = specOp w op ∧ Consistent w (stepOp w c op).1 := by
  cases op with
  | clear => exact ⟨rfl, consistent_nil w⟩
  | gen p names req =>
    have := generate_spec w hw p hop c hc names req
    cases hg : generate w c p names req with
    | none =>
      rw [hg] at this
      simp only [stepOp, specOp, hg]
      exact ⟨by simpa using this.1, hc⟩
    | some o =>
      rw [hg] at this
      simp only [stepOp, specOp, hg]
      exact ⟨by simpa using this.1, this.2 o rfl⟩

/-- **sds_noninterference.** For every world, every consistent starting cache (e.g. the empty one) and every
    interleaved sequence of requests by arbitrary, differently privileged proxies (and cache clears), each
    answer equals the answer of the cache-free specification for that request alone: it is a function of the
    requester's entitlement (`Proxy`: verified identity, cluster, verified references), the requested names,
    the push request and the secret store only - never of what anybody requested before or what the cache holds. -/
theorem sds_noninterference (w : World) (hw : WorldOK w) (ops : List Op) (hops : ∀ op ∈ ops, OpOK op)
    (c : Cache) (hc : Consistent w c) : runOps w c ops = ops.map (specOp w) := by
  induction ops generalizing c with
  | nil => rfl
  | cons op ops ih =>
    have h1 := stepOp_spec w hw c hc op (hops op List.mem_cons_self)
    simp only [runOps, List.map_cons]
    rw [h1.1, ih (fun o ho => hops o (List.mem_cons_of_mem _ ho)) _ h1.2]

theorem finalCache_consistent (w : World) (hw : WorldOK w) (ops : List Op) (hops : ∀ op ∈ ops, OpOK op)
    (c : Cache) (hc : Consistent w c) : Consistent w (finalCache w c ops) := by
  induction ops generalizing c with
  | nil => exact hc
  | cons op ops ih =>
    exact ih (fun o ho => hops o (List.mem_cons_of_mem _ ho)) _
      (stepOp_spec w hw c hc op (hops op List.mem_cons_self)).2

/-- Two-history form: the same request gets the same answer after any two histories. -/
theorem sds_history_independent (w : World) (hw : WorldOK w) (h1 h2 : List Op)
    (hh1 : ∀ op ∈ h1, OpOK op) (hh2 : ∀ op ∈ h2, OpOK op) (op : Op) (hop : OpOK op) :
    (stepOp w (finalCache w [] h1) op).2 = (stepOp w (finalCache w [] h2) op).2 := by
  rw [(stepOp_spec w hw _ (finalCache_consistent w hw h1 hh1 [] (consistent_nil w)) op hop).1,
    (stepOp_spec w hw _ (finalCache_consistent w hw h2 hh2 [] (consistent_nil w)) op hop).1]

/-! ### Release soundness -/

theorem allowed_invalid (p : Proxy) (id : Identity) (authz : Bool) (sr : SR) (h : sr.rtype = .invalid) :
    allowed p id authz sr = false := by
  simp [allowed, h]

/-- Every element of the specification's answer comes from a requested name that parses (against the
    *verified* namespace) to a resource the proxy is entitled to, and carries that resource's canonical content. -/
theorem spec_sound {w : World} {p : Proxy} {names : List Str} {req : Option PushReq} {res : List (Str × Val)}
    (h : spec w p names req = some res) (name : Str) (v : Val) (hm : (name, v) ∈ res) :
    ∃ id sr pc, p.verified = some id ∧ name ∈ names ∧
      parseResourceName name id.ns p.cluster w.configCluster = some sr ∧
      findCluster p.cluster w.clusters = some pc ∧ Entitled p id pc sr ∧ genCanon w sr = some v := by
  unfold spec at h
  cases hv : p.verified with
  | none => rw [hv] at h; cases h
  | some id =>
    rw [hv] at h
    simp only at h
    cases req with
    | none => cases h
    | some rq =>
      simp only at h
      split at h
      · cases h
      · cases hpa : w.forCluster p.cluster with
        | none => rw [hpa] at h; cases h
        | some pa =>
          rw [hpa] at h
          simp only at h
          cases hca : w.forCluster w.configCluster with
          | none => rw [hca] at h; cases h
          | some ca =>
            rw [hca] at h
            cases h
            rw [List.mem_filterMap] at hm
            obtain ⟨sr, hsr, hrel⟩ := hm
            unfold filterAuthorized at hsr
            rw [List.mem_filter] at hsr
            obtain ⟨hmem, hal⟩ := hsr
            unfold parseResources at hmem
            rw [List.mem_filterMap] at hmem
            obtain ⟨n, hn, hp⟩ := hmem
            unfold releaseOne at hrel
            split at hrel
            · cases hc : genCanon w sr with
              | none => rw [hc] at hrel; cases hrel
              | some v' =>
                rw [hc] at hrel
                simp only [Option.map_some, Option.some.injEq, Prod.mk.injEq] at hrel
                obtain ⟨h1, h2⟩ := hrel
                subst h2
                have hrn := (parse_some hp).1
                rw [hrn] at h1
                subst h1
                exact ⟨id, sr, pa.auth, rfl, hn, hp, (forCluster_some hpa).1, allowed_entitled hal agg_authz, hc⟩
            · cases hrel

/-- **sds_release_sound.** For every proxy, requested name set, secret store (world), consistent cache state
    (every state reachable from the empty cache) and verified-reference set: a returned resource that carries a
    private key was requested under that very name, and either has type `kubernetes` with namespace equal to
    `VerifiedIdentity.Namespace` and the proxy's cluster authorises `(serviceAccount, namespace)`, or has type
    `kubernetes-gateway` and the exact requested name is in the verified-reference set; the key pair is the one
    of the secret stored under exactly that `(name, namespace)` in the config cluster - or, for `kubernetes://` only, in
    the proxy's own cluster (`kubernetes-gateway://` secrets are read from the config cluster and nowhere else). -/
theorem sds_release_sound (w : World) (hw : WorldOK w) (p : Proxy) (hp : ProxyOK p) (c : Cache)
    (hc : Consistent w c) (names : List Str) (req : Option PushReq) (o : GenOut)
    (h : generate w c p names req = some o) (name : Str) (v : Val) (hm : (name, v) ∈ o.res)
    (hk : v.hasKey = true) :
    ∃ id sr pc, p.verified = some id ∧ name ∈ names ∧
      parseResourceName name id.ns p.cluster w.configCluster = some sr ∧
      findCluster p.cluster w.clusters = some pc ∧
      ((sr.rtype = .kubernetes ∧ sr.ns = id.ns ∧ pc.authz id.sa id.ns = true) ∨
       (sr.rtype = .gateway ∧ ∃ l, p.refs = some l ∧ name ∈ l)) ∧
      hasSuffix sr.name cacertSuffix = false ∧
      ∃ cl ∈ w.clusters, (cl.id = w.configCluster ∨ (sr.rtype = .kubernetes ∧ cl.id = p.cluster)) ∧
        ∃ d, cl.secrets sr.name sr.ns = some d ∧ extractCertInfo d = some v := by
  have hs := (generate_spec w hw p hp c hc names req).1
  rw [h] at hs
  simp only [Option.map_some] at hs
  obtain ⟨id, sr, pc, hv, hn, hparse, hpc, hent, hcan⟩ := spec_sound hs.symm name v hm
  refine ⟨id, sr, pc, hv, hn, hparse, hpc, ?_⟩
  unfold genCanon at hcan
  cases hf : w.forCluster sr.cluster with
  | none => rw [hf] at hcan; cases hcan
  | some a =>
    rw [hf] at hcan
    simp only at hcan
    obtain ⟨hncm, hnca, cl, hcl, d, hd, he⟩ := genVal_key hcan hk
    have hsel : sel sr a a = a := by unfold sel; cases sr.rtype <;> rfl
    rw [hsel] at hcl
    have hcl2 := (forCluster_some hf).2 cl hcl
    have hrn := (parse_some hparse).1
    obtain ⟨_, _, hkk | hcc | hgg | hii⟩ := parse_some hparse
    · refine ⟨Or.inl ⟨hkk.1, ?_⟩, hnca, cl, hcl2.1, (by
        cases hcl2.2 with
        | inl hh => exact Or.inr ⟨hkk.1, by rw [hh, hkk.2.1]⟩
        | inr hh => exact Or.inl hh), d, hd, he⟩
      unfold Entitled at hent
      simp only [hkk.1] at hent
      refine ⟨hent.1, ?_⟩
      cases hent.2 with
      | inl hh => rw [hnca] at hh; cases hh
      | inr hh => exact hh
    · exact absurd hcc.1 hncm
    · refine ⟨Or.inr ⟨hgg.1, ?_⟩, hnca, cl, hcl2.1, Or.inl (by
        cases hcl2.2 with
        | inl hh => rw [hh, hgg.2.1]
        | inr hh => exact hh), d, hd, he⟩
      unfold Entitled at hent
      simp only [hgg.1] at hent
      rw [hrn] at hent
      exact hent
    · unfold Entitled at hent
      simp only [hii.1] at hent

/-- Never to an unauthenticated stream: a proxy without `VerifiedIdentity` gets nothing, whatever the cache holds. -/
theorem unverified_gets_nothing (w : World) (c : Cache) (p : Proxy) (names : List Str) (req : Option PushReq)
    (h : p.verified = none) : generate w c p names req = none := by
  simp [generate, h]

/-- Never across namespaces: a `kubernetes://` key pair returned to a proxy lives in the proxy's verified
    namespace. -/
theorem never_across_namespaces (w : World) (hw : WorldOK w) (p : Proxy) (hp : ProxyOK p) (c : Cache)
    (hc : Consistent w c) (names : List Str) (req : Option PushReq) (o : GenOut)
    (h : generate w c p names req = some o) (name : Str) (v : Val) (hm : (name, v) ∈ o.res)
    (hk : v.hasKey = true) (id : Identity) (hid : p.verified = some id)
    (hnoref : ∀ l, p.refs = some l → name ∉ l) :
    ∃ sr, parseResourceName name id.ns p.cluster w.configCluster = some sr ∧ sr.ns = id.ns ∧
      ∃ cl ∈ w.clusters, ∃ d, cl.secrets sr.name id.ns = some d ∧ extractCertInfo d = some v := by
  obtain ⟨id', sr, pc, hv, _, hparse, _, hcase, _, cl, hcl, _, d, hd, he⟩ :=
    sds_release_sound w hw p hp c hc names req o h name v hm hk
  rw [hid] at hv
  cases hv
  cases hcase with
  | inl hkube => exact ⟨sr, hparse, hkube.2.1, cl, hcl, d, hkube.2.1 ▸ hd, he⟩
  | inr hgw =>
    obtain ⟨l, hl, hmem⟩ := hgw.2
    exact absurd hmem (hnoref l hl)

/-- With `PILOT_ENABLE_REMOTE_CREDENTIALS_CONTROLLER=false` a proxy of a remote cluster can never be authorised
    (`ErrNoAuthController`): it fails closed, and its lookups go to the config cluster only. -/
theorem remote_disabled_fails_closed {w : World} {id : Str} {a : Agg} (hr : w.remoteCreds = false)
    (hid : id ≠ w.configCluster) (h : w.forCluster id = some a) (sa ns : Str) :
    a.authz sa ns = false ∧ ∀ c ∈ a.controllers, c.id = w.configCluster := by
  unfold World.forCluster at h
  cases hf : findCluster id w.clusters with
  | none => rw [hf] at h; cases h
  | some c =>
    rw [hf] at h
    simp only at h
    split at h
    · cases h
    · cases h
      constructor
      · simp [Agg.authz, hr, hid]
      · intro x hx
        simp only [ownList, hr, List.mem_append] at hx
        cases hx with
        | inl hx => simp at hx
        | inr hx =>
          unfold cfgList at hx
          cases hg : findCluster w.configCluster w.clusters with
          | none => rw [hg] at hx; simp at hx
          | some k =>
            rw [hg] at hx
            simp at hx
            subst hx
            exact (findCluster_some hg).2

/-- A proxy whose (alias-resolved) `CLUSTER_ID` is not a configured cluster gets nothing: the client-claimed cluster
    id can only select among the clusters istiod is configured with (`ClusterAliases` rewrites it first). -/
theorem unknown_cluster_gets_nothing (w : World) (c : Cache) (verified : Option Identity) (refs : Option (List Str))
    (aliases : List (Str × Str)) (cid : Str) (names : List Str) (req : Option PushReq)
    (h : findCluster (resolveAlias aliases cid) w.clusters = none) :
    generate w c ⟨verified, resolveAlias aliases cid, refs⟩ names req = none := by
  unfold generate
  cases verified with
  | none => rfl
  | some id =>
    simp only
    cases req with
    | none => rfl
    | some rq =>
      simp only
      split
      · rfl
      · simp [World.forCluster, h]

/-- **unauthorised_gets_no_key.** The "CA only, no RBAC needed" shortcut is decided on the *parsed* name, the same
    field `generate` reads: a proxy whose `(serviceAccount, namespace)` its cluster does not authorise never receives
    a private key under a `kubernetes://` name - whatever the requested string looks like (extra path segments, a
    `-cacert` suffix on the last segment of `ResourceName` only, ...). -/
theorem unauthorised_gets_no_key (w : World) (hw : WorldOK w) (p : Proxy) (hp : ProxyOK p) (c : Cache)
    (hc : Consistent w c) (names : List Str) (req : Option PushReq) (o : GenOut)
    (h : generate w c p names req = some o) (id : Identity) (hid : p.verified = some id)
    (hdenied : ∀ pc, findCluster p.cluster w.clusters = some pc → pc.authz id.sa id.ns = false)
    (name : Str) (v : Val) (hm : (name, v) ∈ o.res) (hnoref : ∀ l, p.refs = some l → name ∉ l) :
    v.hasKey = false := by
  cases hk : v.hasKey with
  | false => rfl
  | true =>
    obtain ⟨id', sr, pc, hv, _, _, hpc, hcase, _⟩ := sds_release_sound w hw p hp c hc names req o h name v hm hk
    rw [hid] at hv
    cases hv
    cases hcase with
    | inl hkube =>
      have := hdenied pc hpc
      rw [hkube.2.2] at this
      cases this
    | inr hgw =>
      obtain ⟨l, hl, hmem⟩ := hgw.2
      exact absurd hmem (hnoref l hl)

/-! ### Authorisation precedes every cache lookup (no assumption on the cache) -/

/-- **cache_lookup_only_authorised.** For an arbitrary cache state: every returned element is tied to a requested
    name that parses to a resource the requester is entitled to; only keys of such resources are ever looked up. -/
theorem cache_lookup_only_authorised (w : World) (c : Cache) (p : Proxy) (names : List Str) (req : Option PushReq)
    (o : GenOut) (h : generate w c p names req = some o) (nv : Str × Val) (hm : nv ∈ o.res) :
    ∃ id sr pc n, p.verified = some id ∧ n ∈ names ∧
      parseResourceName n id.ns p.cluster w.configCluster = some sr ∧
      findCluster p.cluster w.clusters = some pc ∧ Entitled p id pc sr ∧
      (c.get sr.key = some nv ∨
        (nv.1 = n ∧ ∃ pa ca, w.forCluster p.cluster = some pa ∧ w.forCluster w.configCluster = some ca ∧
          genVal w sr pa ca = some nv.2)) := by
  unfold generate at h
  cases hv : p.verified with
  | none => rw [hv] at h; cases h
  | some id =>
    rw [hv] at h
    simp only at h
    cases req with
    | none => cases h
    | some rq =>
      simp only at h
      split at h
      · cases h
      · cases hpa : w.forCluster p.cluster with
        | none => rw [hpa] at h; cases h
        | some pa =>
          rw [hpa] at h
          simp only at h
          cases hca : w.forCluster w.configCluster with
          | none => rw [hca] at h; cases h
          | some ca =>
            rw [hca] at h
            cases h
            have key : ∀ r ∈ filterAuthorized p id (pa.authz id.sa id.ns)
                (parseResources names id.ns p.cluster w.configCluster),
                ∃ n, n ∈ names ∧ parseResourceName n id.ns p.cluster w.configCluster = some r ∧
                  Entitled p id pa.auth r := by
              intro r hr
              unfold filterAuthorized at hr
              rw [List.mem_filter] at hr
              obtain ⟨hmem, hal⟩ := hr
              unfold parseResources at hmem
              rw [List.mem_filterMap] at hmem
              obtain ⟨n, hn, hp⟩ := hmem
              exact ⟨n, hn, hp, allowed_entitled hal agg_authz⟩
            rcases genLoop_only_authorised w rq pa ca _ _ nv hm with h1 | ⟨r, hr, h2⟩ | ⟨r, hr, h3⟩
            · simp at h1
            · obtain ⟨n, hn, hp, he⟩ := key r hr
              exact ⟨id, r, pa.auth, n, rfl, hn, hp, (forCluster_some hpa).1, he, Or.inl h2⟩
            · obtain ⟨n, hn, hp, he⟩ := key r hr
              exact ⟨id, r, pa.auth, n, rfl, hn, hp, (forCluster_some hpa).1, he,
                Or.inr ⟨by rw [h3.1, (parse_some hp).1], pa, ca, rfl, rfl, h3.2⟩⟩

/-! ### End to end: connection identity and release -/

/-- A proxy accepted by `initConnection` with identity checking on gets `kubernetes://` key material only
    from the namespace of one of the credentials it presented - whatever namespace it claimed - and an
    unauthenticated stream (nil identities) gets no secret at all. -/
theorem end_to_end (w : World) (hw : WorldOK w) (nodeId : Str) (ipOK : Bool) (metaNs metaSA : Str)
    (ids : Option (List Str)) (cfg : Str) (v : Option Identity)
    (hconn : connect true nodeId ipOK metaNs metaSA ids = some (cfg, .ok v))
    (cluster : Str) (refs : Option (List Str)) (c : Cache) (hc : Consistent w c) (names : List Str)
    (req : Option PushReq) :
    (ids = none → generate w c ⟨v, cluster, refs⟩ names req = none) ∧
    ∀ o, generate w c ⟨v, cluster, refs⟩ names req = some o → ∀ name val, (name, val) ∈ o.res →
      val.hasKey = true → (∀ l, refs = some l → name ∉ l) →
      ∃ id l sr, ids = some l ∧ id.render ∈ l ∧ v = some id ∧
        parseResourceName name id.ns cluster w.configCluster = some sr ∧ sr.ns = id.ns := by
  unfold connect at hconn
  cases hd : parseNodeDomain nodeId ipOK with
  | none => rw [hd] at hconn; cases hconn
  | some dom =>
    rw [hd] at hconn
    simp only [Option.some.injEq, Prod.mk.injEq] at hconn
    obtain ⟨_, hauth⟩ := hconn
    constructor
    · intro hnil
      subst hnil
      have : v = none := by simpa [authorize] using hauth.symm
      subst this
      exact unverified_gets_nothing w c _ names req rfl
    · intro o ho name val hm hk hnoref
      cases ids with
      | none =>
        have : v = none := by simpa [authorize] using hauth.symm
        subst this
        rw [unverified_gets_nothing w c _ names req rfl] at ho
        cases ho
      | some l =>
        obtain ⟨id, hv, hmem, _, _, _, hnsl, _⟩ := identity_binding none _ metaSA l v hauth
        subst hv
        have hpok : ProxyOK ⟨some id, cluster, refs⟩ := by
          intro i hi; cases hi; exact hnsl
        obtain ⟨sr, hparse, hns, _⟩ := never_across_namespaces w hw _ hpok c hc names req o ho name val hm hk id rfl hnoref
        exact ⟨id, l, sr, rfl, hmem, rfl, hparse, hns⟩

/-- Never to an unauthenticated stream, from the wire up: a plaintext stream is given a nil identity list by
    `authenticate`, `authorize` then leaves `VerifiedIdentity` nil, and `SecretGen` returns nothing - for every
    claimed node, every world, every cache state and every request. -/
theorem plaintext_stream_gets_no_secret (results : List (Option (List Str))) (ids : Option (List Str))
    (hauth : authenticate true .plain false results = some ids)
    (flag : Bool) (nodeId : Str) (ipOK : Bool) (metaNs metaSA cfg : Str) (res : AuthRes)
    (hconn : connect flag nodeId ipOK metaNs metaSA ids = some (cfg, res)) :
    ∃ v, res = .ok v ∧
      ∀ (w : World) (c : Cache) (cluster : Str) (refs : Option (List Str)) (names : List Str) (req : Option PushReq),
        generate w c ⟨v, cluster, refs⟩ names req = none := by
  rw [plaintext_unauthenticated] at hauth
  cases hauth
  unfold connect at hconn
  cases hd : parseNodeDomain nodeId ipOK with
  | none => rw [hd] at hconn; cases hconn
  | some dom =>
    rw [hd] at hconn
    simp only [Option.some.injEq, Prod.mk.injEq] at hconn
    refine ⟨none, ?_, fun w c cluster refs names req => unverified_gets_nothing w c _ names req rfl⟩
    rw [← hconn.2]
    rfl

/-! ### Non-vacuity: a concrete world, differently privileged proxies, one shared cache -/

def exSecrets : Str → Str → Option SecretData := fun name ns =>
  if name = "a".toList ∧ ns = "ns1".toList then some { cert := "C1".toList, key := "K1".toList }
  else if name = "a".toList ∧ ns = "ns2".toList then
    some { tlsCrt := "C2".toList, tlsKey := "K2".toList, caCrt := "R2".toList }
  else none

def exCluster : Cluster :=
  { id := "c1".toList, secrets := exSecrets, configMaps := fun _ _ => none,
    authz := fun sa _ => sa = "sa1".toList }

def exWorld : World := { configCluster := "c1".toList, clusters := [exCluster] }

def exP1 : Proxy := ⟨some ⟨"td".toList, "ns1".toList, "sa1".toList⟩, "c1".toList, none⟩
def exP2 : Proxy := ⟨some ⟨"td".toList, "ns2".toList, "sa1".toList⟩, "c1".toList, none⟩
def exP2gw : Proxy :=
  ⟨some ⟨"td".toList, "ns2".toList, "sa2".toList⟩, "c1".toList, some ["kubernetes-gateway://ns1/a".toList]⟩
def exP3 : Proxy := ⟨some ⟨"td".toList, "ns2".toList, "sa2".toList⟩, "c1".toList, none⟩
def exAnon : Proxy := ⟨none, "c1".toList, none⟩

def exNames : List Str :=
  ["kubernetes://a".toList, "kubernetes://ns1/a".toList, "kubernetes://ns2/a-cacert".toList,
   "kubernetes-gateway://ns1/a".toList, "bogus://a".toList]

def exForced : Option PushReq := some ⟨true, []⟩

example : WorldOK exWorld := by unfold WorldOK; decide

example : ProxyOK exP1 ∧ ProxyOK exP2 ∧ ProxyOK exP2gw ∧ ProxyOK exP3 ∧ ProxyOK exAnon := by
  refine ⟨?_, ?_, ?_, ?_, ?_⟩ <;> (intro id h; cases h <;> decide)

/-- ns1 proxy first (fills the cache), then an ns2 proxy asking for the very same names, then an ns2 proxy
    holding a verified gateway reference, an unauthorised ns2 proxy, and an unauthenticated one. -/
example : runOps exWorld [] [.gen exP1 exNames exForced, .gen exP2 exNames exForced, .gen exP2gw exNames exForced,
      .gen exP3 exNames exForced, .gen exAnon exNames exForced, .clear, .gen exP2 exNames exForced] =
    [ some [("kubernetes://a".toList, .tls "C1".toList "K1".toList),
            ("kubernetes://ns1/a".toList, .tls "C1".toList "K1".toList)],
      some [("kubernetes://a".toList, .tls "C2".toList "K2".toList),
            ("kubernetes://ns2/a-cacert".toList, .ca "R2".toList)],
      some [("kubernetes://ns2/a-cacert".toList, .ca "R2".toList),
            ("kubernetes-gateway://ns1/a".toList, .tls "C1".toList "K1".toList)],
      some [("kubernetes://ns2/a-cacert".toList, .ca "R2".toList)],
      none, none,
      some [("kubernetes://a".toList, .tls "C2".toList "K2".toList),
            ("kubernetes://ns2/a-cacert".toList, .ca "R2".toList)] ] := by decide

/-- `-cacert` on a later path segment does not make a request CA-only: for the unauthorised `exP3` (ns2, sa2) the
    names `kubernetes://ns2/a/x-cacert` (and the variant whose third segment is just the suffix) resolve to the full
    secret `a` and are refused; only names whose *parsed* name ends in `-cacert` yield the CA. The authorised `exP2` gets the key pair. -/
example : runOps exWorld []
      [.gen exP3 ["kubernetes://ns2/a/x-cacert".toList, "kubernetes://ns2/a/-cacert".toList,
                  "kubernetes://ns2/a-cacert/x".toList] exForced,
       .gen exP2 ["kubernetes://ns2/a/x-cacert".toList] exForced,
       .gen exP3 ["kubernetes://ns2/a/x-cacert".toList] exForced] =
    [ some [("kubernetes://ns2/a-cacert/x".toList, .ca "R2".toList)],
      some [("kubernetes://ns2/a/x-cacert".toList, .tls "C2".toList "K2".toList)],
      some [] ] := by decide

end IstioModel.C11
