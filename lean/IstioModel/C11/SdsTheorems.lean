import IstioModel.C11.Theorems

/-!
C11 - SDS secret release (part 2 of the property).

"Gateway TLS key material is returned over SDS only for secrets in the proxy's own verified namespace that
it is authorised to read, or for references explicitly verified by a grant, never to an unauthenticated
stream, never across namespaces, and independently of what other proxies requested before or what the cache
holds."
-/
namespace IstioModel.C11

/-! ### Resource-name parsing -/

/-- Shape of every successful `ParseResourceName`: the scheme fixes the type, the namespace is the first
    path segment when there is more than one segment and the proxy namespace only in the implicit
    `kubernetes://<name>` form, the name is the second (or only) segment - later segments are ignored. -/
theorem parse_some {rn vns pc cc : Str} {sr : SR} (h : parseResourceName rn vns pc cc = some sr) :
    sr.resourceName = rn ∧ '/' ∉ sr.name ∧
    ((sr.rtype = .kubernetes ∧ sr.cluster = pc ∧ ∃ res, rn = kubernetesURI ++ res ∧
        ((split '/' res = [sr.name] ∧ sr.ns = vns) ∨ ∃ more, split '/' res = sr.ns :: sr.name :: more)) ∨
     (sr.rtype = .configmap ∧ sr.cluster = cc ∧ sr.ns ≠ [] ∧ sr.name ≠ [] ∧
        ∃ res more, rn = configmapURI ++ res ∧ split '/' res = sr.ns :: sr.name :: more) ∨
     (sr.rtype = .gateway ∧ sr.cluster = cc ∧ sr.ns ≠ [] ∧ sr.name ≠ [] ∧
        ∃ res more, rn = gatewayURI ++ res ∧ split '/' res = sr.ns :: sr.name :: more) ∨
     (sr.rtype = .invalid ∧ sr.cluster = cc ∧ sr.name = [] ∧ sr.ns = [] ∧ ∃ res, rn = invalidURI ++ res)) := by
  have nsName : ∀ (t : RType) (res cl : Str), parseNsName t rn res cl = some sr →
      sr.resourceName = rn ∧ '/' ∉ sr.name ∧ sr.rtype = t ∧ sr.cluster = cl ∧ sr.ns ≠ [] ∧ sr.name ≠ [] ∧
        ∃ more, split '/' res = sr.ns :: sr.name :: more := by
    intro t res cl hp
    unfold parseNsName at hp
    have hn := split_no_sep '/' res
    split at hp
    · rename_i a b more heq
      split at hp
      · cases hp
      · split at hp
        · cases hp
        · cases hp
          rename_i ha hb
          exact ⟨rfl, hn b (by simp [heq]), rfl, rfl, ha, hb, more, heq⟩
    · cases hp
  unfold parseResourceName at h
  cases hk : cutPrefix rn kubernetesURI with
  | some res =>
    rw [hk] at h
    simp only at h
    have hrn := cutPrefix_eq_some.mp hk
    have hn := split_no_sep '/' res
    split at h
    · rename_i a b more heq
      cases h
      exact ⟨rfl, hn b (by simp [heq]), Or.inl ⟨rfl, rfl, res, hrn, Or.inr ⟨more, heq⟩⟩⟩
    · rename_i a heq
      cases h
      exact ⟨rfl, hn a (by simp [heq]), Or.inl ⟨rfl, rfl, res, hrn, Or.inl ⟨heq, rfl⟩⟩⟩
    · rename_i heq
      exact absurd heq (split_ne_nil _ _)
  | none =>
    rw [hk] at h
    simp only at h
    cases hc : cutPrefix rn configmapURI with
    | some res =>
      rw [hc] at h
      simp only at h
      obtain ⟨h1, h2, h3, h4, h5, h6, more, h7⟩ := nsName _ _ _ h
      exact ⟨h1, h2, Or.inr (Or.inl ⟨h3, h4, h5, h6, res, more, cutPrefix_eq_some.mp hc, h7⟩)⟩
    | none =>
      rw [hc] at h
      simp only at h
      cases hg : cutPrefix rn gatewayURI with
      | some res =>
        rw [hg] at h
        simp only at h
        obtain ⟨h1, h2, h3, h4, h5, h6, more, h7⟩ := nsName _ _ _ h
        exact ⟨h1, h2, Or.inr (Or.inr (Or.inl ⟨h3, h4, h5, h6, res, more, cutPrefix_eq_some.mp hg, h7⟩))⟩
      | none =>
        rw [hg] at h
        simp only at h
        split at h
        · rename_i hi
          cases h
          unfold hasPrefix at hi
          cases hi2 : cutPrefix rn invalidURI with
          | none => simp [hi2] at hi
          | some res =>
            exact ⟨rfl, by simp, Or.inr (Or.inr (Or.inr ⟨rfl, rfl, rfl, rfl, res, cutPrefix_eq_some.mp hi2⟩))⟩
        · cases h

/-- The explicit namespace of a successfully parsed name contains no `/`. -/
theorem parse_ns_no_slash {rn vns pc cc : Str} {sr : SR} (h : parseResourceName rn vns pc cc = some sr)
    (hv : '/' ∉ vns) : '/' ∉ sr.ns := by
  obtain ⟨_, _, hk | hc | hg | hi⟩ := parse_some h
  · obtain ⟨_, _, res, _, h1 | ⟨more, h2⟩⟩ := hk
    · rw [h1.2]; exact hv
    · exact split_no_sep '/' res sr.ns (by simp [h2])
  · obtain ⟨_, _, _, _, res, more, _, h2⟩ := hc
    exact split_no_sep '/' res sr.ns (by simp [h2])
  · obtain ⟨_, _, _, _, res, more, _, h2⟩ := hg
    exact split_no_sep '/' res sr.ns (by simp [h2])
  · rw [hi.2.2.2.1]; simp

/-- **parse_namespace_binding.** A `kubernetes://` name resolves to the verified namespace `vns` only if it
    names no namespace at all (implicit form, no `/` after the scheme) or literally names `vns` as its first
    segment: a name that syntactically names another namespace never yields the verified one. -/
theorem parse_namespace_binding {rn vns pc cc : Str} {sr : SR} (h : parseResourceName rn vns pc cc = some sr)
    (ht : sr.rtype = .kubernetes) (hns : sr.ns = vns) :
    (∃ n, rn = kubernetesURI ++ n ∧ '/' ∉ n ∧ sr.name = n) ∨ (∃ rest, rn = kubernetesURI ++ vns ++ '/' :: rest) := by
  obtain ⟨_, _, hk | hc | hg | hi⟩ := parse_some h
  · obtain ⟨_, _, res, hrn, h1 | ⟨more, h2⟩⟩ := hk
    · left
      refine ⟨res, hrn, ?_, ?_⟩
      · have := split_no_sep '/' res sr.name (by simp [h1.1])
        have hj := split_join '/' res
        rw [h1.1] at hj
        simp only [joinSep] at hj
        rw [← hj]; exact this
      · have hj := split_join '/' res
        rw [h1.1] at hj
        simpa [joinSep] using hj
    · right
      have hj := split_join '/' res
      rw [h2] at hj
      simp only [joinSep] at hj
      refine ⟨joinSep '/' (sr.name :: more), ?_⟩
      rw [hrn, ← hj, hns]
      simp
  · rw [hc.1] at ht; cases ht
  · rw [hg.1] at ht; cases ht
  · rw [hi.1] at ht; cases ht

/-- The namespace named by the first segment is honoured whatever follows: `kubernetes://a/b/c/...`
    is namespace `a`, name `b` - extra path segments cannot smuggle a namespace. -/
theorem explicit_namespace_honoured (a b extra vns pc cc : Str) (ha : '/' ∉ a) (hb : '/' ∉ b) :
    parseResourceName (kubernetesURI ++ (a ++ '/' :: b)) vns pc cc =
      some ⟨.kubernetes, b, a, kubernetesURI ++ (a ++ '/' :: b), pc⟩ ∧
    parseResourceName (kubernetesURI ++ (a ++ '/' :: (b ++ '/' :: extra))) vns pc cc =
      some ⟨.kubernetes, b, a, kubernetesURI ++ (a ++ '/' :: (b ++ '/' :: extra)), pc⟩ := by
  constructor
  · unfold parseResourceName
    rw [cutPrefix_append]
    simp only
    rw [split_append_sep _ _ _ ha, split_of_not_mem _ _ hb]
  · unfold parseResourceName
    rw [cutPrefix_append]
    simp only
    rw [split_append_sep _ _ _ ha, split_append_sep _ _ _ hb]

/-- The implicit form takes the proxy's (verified) namespace. -/
theorem implicit_namespace (n vns pc cc : Str) (hn : '/' ∉ n) :
    parseResourceName (kubernetesURI ++ n) vns pc cc = some ⟨.kubernetes, n, vns, kubernetesURI ++ n, pc⟩ := by
  unfold parseResourceName
  rw [cutPrefix_append]
  simp only
  rw [split_of_not_mem _ _ hn]

/-- Names outside the four schemes are errors; `invalid://` yields the `invalid` type, which
    `filterAuthorizedResources` never lets through (`allowed_invalid`). -/
theorem malformed_unreadable {rn vns pc cc : Str}
    (h1 : ∀ r, rn ≠ kubernetesURI ++ r) (h2 : ∀ r, rn ≠ configmapURI ++ r) (h3 : ∀ r, rn ≠ gatewayURI ++ r) :
    parseResourceName rn vns pc cc = none ∨
      ∃ sr, parseResourceName rn vns pc cc = some sr ∧ sr.rtype = .invalid := by
  cases h : parseResourceName rn vns pc cc with
  | none => exact Or.inl rfl
  | some sr =>
    right
    refine ⟨sr, rfl, ?_⟩
    obtain ⟨_, _, hk | hc | hg | hi⟩ := parse_some h
    · obtain ⟨_, _, res, hrn, _⟩ := hk; exact absurd hrn (h1 res)
    · obtain ⟨_, _, _, _, res, _, hrn, _⟩ := hc; exact absurd hrn (h2 res)
    · obtain ⟨_, _, _, _, res, _, hrn, _⟩ := hg; exact absurd hrn (h3 res)
    · exact hi.1

/-- `configmap://` and `kubernetes-gateway://` need both a namespace and a name. -/
theorem namespace_required (t : RType) (rn res cl : Str) (h : '/' ∉ res) : parseNsName t rn res cl = none := by
  unfold parseNsName
  rw [split_of_not_mem _ _ h]

/-! ### Cache key -/

/-- A parsed resource whose namespace and cluster contain no `/`. -/
def SR.WF (r : SR) : Prop := '/' ∉ r.name ∧ '/' ∉ r.ns ∧ '/' ∉ r.cluster

theorem rtype_str_no_slash (t : RType) : '/' ∉ t.str ∧ '/' ∉ t.kindStr := by
  cases t <;> decide

theorem rtype_str_inj {t t' : RType} (h : t.str = t'.str) : t = t' := by
  cases t <;> cases t' <;> first | rfl | (revert h; decide)

/-- **key_injective.** The cache key string determines the resource (type, name, namespace, requested name,
    cluster): two different resources never share a cache entry. -/
theorem key_injective {r r' : SR} (hr : r.WF) (hr' : r'.WF) (h : r.key = r'.key) : r = r' := by
  unfold SR.key at h
  have e1 := append_sep_inj '/' (by simp) (by simp) h
  have e2 := append_sep_inj '/' hr.2.2 hr'.2.2 e1.1
  have e3 := append_sep_inj '/' hr.2.1 hr'.2.1 e2.1
  have e4 := append_sep_inj '/' hr.1 hr'.1 e3.1
  have e5 := append_sep_inj '/' (rtype_str_no_slash _).2 (rtype_str_no_slash _).2 e4.1
  have e6 := append_sep_inj '/' (rtype_str_no_slash _).1 (rtype_str_no_slash _).1 e5.1
  cases r; cases r'
  simp only [SR.mk.injEq]
  exact ⟨rtype_str_inj e6.2, e4.2, e3.2, e6.1, e2.2⟩

/-! ### Secret lookup -/

theorem extractRoot_no_key {d : SecretData} {v : Val} (h : extractRoot d = some v) : v.hasKey = false := by
  unfold extractRoot at h
  split at h
  · cases h; rfl
  · split at h
    · cases h; rfl
    · cases h

theorem firstSome_some {cfgId : Str} {f : Cluster → Bool → Option Val} {l : List Cluster} {v : Val}
    (h : firstSome cfgId f l = some v) : ∃ c ∈ l, f c (c.id = cfgId) = some v := by
  induction l with
  | nil => simp [firstSome] at h
  | cons c cs ih =>
    unfold firstSome at h
    cases hf : f c (decide (c.id = cfgId)) with
    | some x =>
      rw [hf] at h
      cases h
      exact ⟨c, List.mem_cons_self, hf⟩
    | none =>
      rw [hf] at h
      obtain ⟨c', hc', h'⟩ := ih h
      exact ⟨c', List.mem_cons_of_mem _ hc', h'⟩

/-- The controller `generate` reads from. -/
def sel (r : SR) (pa ca : Agg) : Agg :=
  match r.rtype with
  | .gateway | .configmap => ca
  | _ => pa

theorem genVal_sel (w : World) (r : SR) (pa ca : Agg) :
    genVal w r pa ca = genVal w r (sel r pa ca) (sel r pa ca) := by
  unfold genVal sel
  cases r.rtype <;> rfl

/-- `generate` once the controller is chosen. -/
def genFrom (w : World) (r : SR) (ctl : Agg) : Option Val :=
  if r.rtype = .configmap then
    firstSome w.configCluster (fun c isCfg => c.getConfigMapCaCert isCfg r.name r.ns) ctl.controllers
  else if hasSuffix r.name cacertSuffix then
    firstSome w.configCluster (fun c _ => c.getCaCert r.name r.ns) ctl.controllers
  else
    firstSome w.configCluster (fun c _ => c.getCertInfo r.name r.ns) ctl.controllers

theorem genVal_same (w : World) (r : SR) (ctl : Agg) : genVal w r ctl ctl = genFrom w r ctl := by
  unfold genVal genFrom
  cases r.rtype <;> rfl

/-- A value with a private key is the key pair of the secret stored under exactly `(r.name, r.ns)` in one
    of the consulted clusters, and the resource is neither a config map nor a `-cacert` name. -/
theorem genVal_key {w : World} {r : SR} {pa ca : Agg} {v : Val} (h : genVal w r pa ca = some v)
    (hk : v.hasKey = true) :
    r.rtype ≠ .configmap ∧ hasSuffix r.name cacertSuffix = false ∧
      ∃ c ∈ (sel r pa ca).controllers, ∃ d, c.secrets r.name r.ns = some d ∧ extractCertInfo d = some v := by
  rw [genVal_sel] at h
  generalize sel r pa ca = ctl at h ⊢
  rw [genVal_same] at h
  unfold genFrom at h
  split at h
  · obtain ⟨c, _, hc⟩ := firstSome_some h
    unfold Cluster.getConfigMapCaCert at hc
    split at hc
    · cases hc
    · split at hc
      · cases hc
      · rw [extractRoot_no_key hc] at hk; cases hk
  · rename_i hnc
    split at h
    · obtain ⟨c, _, hc⟩ := firstSome_some h
      unfold Cluster.getCaCert at hc
      split at hc
      · rw [extractRoot_no_key hc] at hk; cases hk
      · split at hc
        · rw [extractRoot_no_key hc] at hk; cases hk
        · cases hc
    · rename_i hns
      obtain ⟨c, hmem, hc⟩ := firstSome_some h
      unfold Cluster.getCertInfo at hc
      split at hc
      · cases hc
      · rename_i d hd
        exact ⟨hnc, by simpa using hns, c, hmem, d, hd, hc⟩

/-! ### Clusters -/

theorem findCluster_some {id : Str} {cs : List Cluster} {c : Cluster} (h : findCluster id cs = some c) :
    c ∈ cs ∧ c.id = id := by
  induction cs with
  | nil => simp [findCluster] at h
  | cons x xs ih =>
    unfold findCluster at h
    split at h
    · cases h; rename_i hx; exact ⟨List.mem_cons_self, hx⟩
    · obtain ⟨h1, h2⟩ := ih h; exact ⟨List.mem_cons_of_mem _ h1, h2⟩

/-- `ForCluster`: the authorising controller is the proxy's own cluster; lookups go to the proxy's cluster
    and the config cluster only. -/
theorem forCluster_some {w : World} {id : Str} {a : Agg} (h : w.forCluster id = some a) :
    findCluster id w.clusters = some a.auth ∧
    ∀ c ∈ a.controllers, c ∈ w.clusters ∧ (c.id = id ∨ c.id = w.configCluster) := by
  unfold World.forCluster at h
  cases hf : findCluster id w.clusters with
  | none => rw [hf] at h; cases h
  | some c =>
    rw [hf] at h
    cases h
    refine ⟨rfl, ?_⟩
    intro x hx
    simp only [List.mem_append] at hx
    cases hx with
    | inl hx =>
      split at hx
      · simp at hx; subst hx; exact ⟨(findCluster_some hf).1, Or.inl (findCluster_some hf).2⟩
      · simp at hx
    | inr hx =>
      cases hg : findCluster w.configCluster w.clusters with
      | none => rw [hg] at hx; simp at hx
      | some k =>
        rw [hg] at hx
        simp at hx
        subst hx
        exact ⟨(findCluster_some hg).1, Or.inr (findCluster_some hg).2⟩

/-! ### The cache discipline -/

/-- Cluster ids carry no `/` (they are path components of the cache key). -/
def WorldOK (w : World) : Prop := '/' ∉ w.configCluster ∧ ∀ c ∈ w.clusters, '/' ∉ c.id

/-- The verified namespace carries no `/` - guaranteed by `identity_binding` for every identity that
    `authorize` installs. -/
def ProxyOK (p : Proxy) : Prop := ∀ id, p.verified = some id → '/' ∉ id.ns

/-- The content `generate` computes for a resource, as a function of the world and the resource alone. -/
def genCanon (w : World) (r : SR) : Option Val :=
  match w.forCluster r.cluster with
  | some a => genVal w r a a
  | none => none

/-- Cache invariant: every entry is the canonical content of the well-formed resource its key denotes. -/
def Consistent (w : World) (c : Cache) : Prop :=
  ∀ k nv, c.get k = some nv → ∃ r : SR, r.WF ∧ k = r.key ∧ nv.1 = r.resourceName ∧ genCanon w r = some nv.2

theorem consistent_nil (w : World) : Consistent w [] := by
  intro k nv h; simp [Cache.get] at h

theorem consistent_add {w : World} {c : Cache} {r : SR} {v : Val} (hc : Consistent w c) (hr : r.WF)
    (hv : genCanon w r = some v) : Consistent w (c.add r.key (r.resourceName, v)) := by
  intro k nv h
  unfold Cache.add Cache.get at h
  split at h
  · cases h; rename_i hk; exact ⟨r, hr, hk.symm, rfl, hv⟩
  · exact hc k nv h

/-- A hit returns exactly what regeneration would return. -/
theorem consistent_hit {w : World} {c : Cache} {r : SR} {nv : Str × Val} (hc : Consistent w c) (hr : r.WF)
    (h : c.get r.key = some nv) : nv.1 = r.resourceName ∧ genCanon w r = some nv.2 := by
  obtain ⟨r', hr', hk, h1, h2⟩ := hc _ _ h
  have := key_injective hr hr' hk
  subst this
  exact ⟨h1, h2⟩

/-- What one authorised resource contributes to the answer - no cache involved. -/
def releaseOne (w : World) (rq : PushReq) (r : SR) : Option (Str × Val) :=
  if touched rq r then (genCanon w r).map (fun v => (r.resourceName, v)) else none

theorem genLoop_spec (w : World) (rq : PushReq) (pa ca : Agg) (rs : List SR) (o : GenOut)
    (hc : Consistent w o.cache) (hrs : ∀ r ∈ rs, r.WF ∧ genVal w r pa ca = genCanon w r) :
    (genLoop w rq pa ca rs o).res = o.res ++ rs.filterMap (releaseOne w rq) ∧
      Consistent w (genLoop w rq pa ca rs o).cache := by
  induction rs generalizing o with
  | nil => simp [genLoop, hc]
  | cons r rs ih =>
    have hr := hrs r List.mem_cons_self
    have hrs' : ∀ r ∈ rs, r.WF ∧ genVal w r pa ca = genCanon w r := fun x hx => hrs x (List.mem_cons_of_mem _ hx)
    unfold genLoop
    cases ht : touched rq r with
    | false =>
      simp only [Bool.not_false, if_true]
      have := ih o hc hrs'
      simp [releaseOne, ht, this.1, this.2]
    | true =>
      simp only [Bool.not_true, Bool.false_eq_true, if_false]
      cases hg : o.cache.get r.key with
      | some nv =>
        simp only
        obtain ⟨h1, h2⟩ := consistent_hit hc hr.1 hg
        have := ih { o with res := o.res ++ [nv], cached := o.cached + 1 } hc hrs'
        refine ⟨?_, this.2⟩
        rw [this.1]
        have hnv : nv = (r.resourceName, nv.2) := by rw [← h1]
        simp [releaseOne, ht, h2, ← hnv]
      | none =>
        simp only
        cases hv : genVal w r pa ca with
        | some v =>
          simp only
          have hcan : genCanon w r = some v := by rw [← hr.2, hv]
          have := ih { o with res := o.res ++ [(r.resourceName, v)], regen := o.regen + 1,
                              cache := o.cache.add r.key (r.resourceName, v) } (consistent_add hc hr.1 hcan) hrs'
          refine ⟨?_, this.2⟩
          rw [this.1]
          simp [releaseOne, ht, hcan]
        | none =>
          simp only
          have hcan : genCanon w r = none := by rw [← hr.2, hv]
          have := ih { o with regen := o.regen + 1 } hc hrs'
          refine ⟨?_, this.2⟩
          rw [this.1]
          simp [releaseOne, ht, hcan]

/-- The authorised resources of a request are well-formed and their content is canonical. -/
theorem authorised_good {w : World} (hw : WorldOK w) {p : Proxy} {id : Identity} (hid : '/' ∉ id.ns) {pa ca : Agg}
    (hpa : w.forCluster p.cluster = some pa) (hca : w.forCluster w.configCluster = some ca) (authz : Bool)
    (names : List Str) :
    ∀ r ∈ filterAuthorized p id authz (parseResources names id.ns p.cluster w.configCluster),
      r.WF ∧ genVal w r pa ca = genCanon w r := by
  intro r hr
  unfold filterAuthorized at hr
  rw [List.mem_filter] at hr
  obtain ⟨hmem, hal⟩ := hr
  unfold parseResources at hmem
  rw [List.mem_filterMap] at hmem
  obtain ⟨n, _, hp⟩ := hmem
  have hps := parse_some hp
  have hpc : '/' ∉ p.cluster := by
    have := findCluster_some (forCluster_some hpa).1
    rw [← this.2]; exact hw.2 _ this.1
  obtain ⟨_, hname, hk | hc | hg | hi⟩ := hps
  · refine ⟨⟨hname, parse_ns_no_slash hp hid, by rw [hk.2.1]; exact hpc⟩, ?_⟩
    unfold genCanon
    rw [hk.2.1, hpa, genVal_sel]
    simp [sel, hk.1]
  · refine ⟨⟨hname, parse_ns_no_slash hp hid, by rw [hc.2.1]; exact hw.1⟩, ?_⟩
    unfold genCanon
    rw [hc.2.1, hca, genVal_sel]
    simp [sel, hc.1]
  · refine ⟨⟨hname, parse_ns_no_slash hp hid, by rw [hg.2.1]; exact hw.1⟩, ?_⟩
    unfold genCanon
    rw [hg.2.1, hca, genVal_sel]
    simp [sel, hg.1]
  · simp [allowed, hi.1] at hal

/-- The cache-free specification of `Generate`: parse, filter by entitlement, read the store. -/
def spec (w : World) (p : Proxy) (names : List Str) (req : Option PushReq) : Option (List (Str × Val)) :=
  match p.verified with
  | none => none
  | some id =>
    match req with
    | none => none
    | some rq =>
      if !sdsNeedsPush rq then none
      else
        match w.forCluster p.cluster with
        | none => none
        | some pa =>
          match w.forCluster w.configCluster with
          | none => none
          | some _ =>
            some ((filterAuthorized p id (pa.auth.authz id.sa id.ns)
              (parseResources names id.ns p.cluster w.configCluster)).filterMap (releaseOne w rq))

/-- One `Generate` call on a consistent cache answers exactly the specification and leaves the cache
    consistent. -/
theorem generate_spec (w : World) (hw : WorldOK w) (p : Proxy) (hp : ProxyOK p) (c : Cache)
    (hc : Consistent w c) (names : List Str) (req : Option PushReq) :
    (generate w c p names req).map (·.res) = spec w p names req ∧
      ∀ o, generate w c p names req = some o → Consistent w o.cache := by
  unfold generate spec
  cases hv : p.verified with
  | none => simp
  | some id =>
    simp only
    cases req with
    | none => simp
    | some rq =>
      simp only
      split
      · simp
      · cases hpa : w.forCluster p.cluster with
        | none => simp
        | some pa =>
          simp only
          cases hca : w.forCluster w.configCluster with
          | none => simp
          | some ca =>
            simp only
            have hgood := authorised_good hw (hp id hv) hpa hca (pa.auth.authz id.sa id.ns) names
            have := genLoop_spec w rq pa ca _ { cache := c } hc hgood
            constructor
            · simp [this.1]
            · intro o ho
              cases ho
              exact this.2

/-! ### Histories on a shared cache -/

/-- What can happen to the shared SDS cache: a `Generate` call by any proxy for any names with any push
    request, or a full clear. -/
inductive Op
  | gen (p : Proxy) (names : List Str) (req : Option PushReq)
  | clear

def stepOp (w : World) (c : Cache) : Op → Cache × Option (List (Str × Val))
  | .gen p names req =>
    match generate w c p names req with
    | some o => (o.cache, some o.res)
    | none => (c, none)
  | .clear => ([], none)

/-- The answers to a sequence of operations, threaded through the one shared cache. -/
def runOps (w : World) : Cache → List Op → List (Option (List (Str × Val)))
  | _, [] => []
  | c, op :: ops => (stepOp w c op).2 :: runOps w (stepOp w c op).1 ops

/-- The cache after a history. -/
def finalCache (w : World) : Cache → List Op → Cache
  | c, [] => c
  | c, op :: ops => finalCache w (stepOp w c op).1 ops

/-- The answer each operation gets in isolation (no cache, no history). -/
def specOp (w : World) : Op → Option (List (Str × Val))
  | .gen p names req => spec w p names req
  | .clear => none

def OpOK : Op → Prop
  | .gen p _ _ => ProxyOK p
  | .clear => True

theorem stepOp_spec (w : World) (hw : WorldOK w) (c : Cache) (hc : Consistent w c) (op : Op) (hop : OpOK op) :
    (stepOp w c op).2 = specOp w op ∧ Consistent w (stepOp w c op).1 := by
  cases op with
  | clear => exact ⟨rfl, consistent_nil w⟩
  | gen p names req =>
    have := generate_spec w hw p hop c hc names req
    cases hg : generate w c p names req with
    | none =>
      rw [hg] at this
      simp only [stepOp, specOp, hg]
      exact ⟨by simpa using this.1, hc⟩
    | some o =>
      rw [hg] at this
      simp only [stepOp, specOp, hg]
      exact ⟨by simpa using this.1, this.2 o rfl⟩

/-- **sds_noninterference.** For every world, every consistent starting cache (e.g. the empty one) and every
    interleaved sequence of requests by arbitrary, differently privileged proxies (and cache clears), each
    answer equals the answer of the cache-free specification for that request alone: it is a function of the
    requester's entitlement (`Proxy`: verified identity, cluster, verified references), the requested names,
    the push request and the secret store only - never of what anybody requested before or what the cache holds. -/
theorem sds_noninterference (w : World) (hw : WorldOK w) (ops : List Op) (hops : ∀ op ∈ ops, OpOK op)
    (c : Cache) (hc : Consistent w c) : runOps w c ops = ops.map (specOp w) := by
  induction ops generalizing c with
  | nil => rfl
  | cons op ops ih =>
    have h1 := stepOp_spec w hw c hc op (hops op List.mem_cons_self)
    simp only [runOps, List.map_cons]
    rw [h1.1, ih (fun o ho => hops o (List.mem_cons_of_mem _ ho)) _ h1.2]

theorem finalCache_consistent (w : World) (hw : WorldOK w) (ops : List Op) (hops : ∀ op ∈ ops, OpOK op)
    (c : Cache) (hc : Consistent w c) : Consistent w (finalCache w c ops) := by
  induction ops generalizing c with
  | nil => exact hc
  | cons op ops ih =>
    exact ih (fun o ho => hops o (List.mem_cons_of_mem _ ho)) _
      (stepOp_spec w hw c hc op (hops op List.mem_cons_self)).2

/-- Two-history form: the same request gets the same answer after any two histories. -/
theorem sds_history_independent (w : World) (hw : WorldOK w) (h1 h2 : List Op)
    (hh1 : ∀ op ∈ h1, OpOK op) (hh2 : ∀ op ∈ h2, OpOK op) (op : Op) (hop : OpOK op) :
    (stepOp w (finalCache w [] h1) op).2 = (stepOp w (finalCache w [] h2) op).2 := by
  rw [(stepOp_spec w hw _ (finalCache_consistent w hw h1 hh1 [] (consistent_nil w)) op hop).1,
    (stepOp_spec w hw _ (finalCache_consistent w hw h2 hh2 [] (consistent_nil w)) op hop).1]

/-! ### Release soundness -/

/-- Entitlement of proxy `p` (verified as `id`, authorising cluster `pc`) to a parsed resource: the case table
    of `filterAuthorizedResources`. -/
def Entitled (p : Proxy) (id : Identity) (pc : Cluster) (sr : SR) : Prop :=
  match sr.rtype with
  | .kubernetes => sr.ns = id.ns ∧ (hasSuffix sr.name cacertSuffix = true ∨ pc.authz id.sa id.ns = true)
  | .gateway => ∃ l, p.refs = some l ∧ sr.resourceName ∈ l
  | .configmap => True
  | .invalid => False

theorem allowed_entitled {p : Proxy} {id : Identity} {pc : Cluster} {sr : SR}
    (h : allowed p id (pc.authz id.sa id.ns) sr = true) : Entitled p id pc sr := by
  unfold allowed at h
  unfold Entitled
  split at h
  · rename_i ht; simp only [ht]
    split at h
    · rename_i l hl; exact ⟨l, hl, by simpa using h⟩
    · cases h
  · rename_i ht; simp only [ht]
  · rename_i ht; simp only [ht]
    simpa using h
  · cases h

theorem allowed_invalid (p : Proxy) (id : Identity) (authz : Bool) (sr : SR) (h : sr.rtype = .invalid) :
    allowed p id authz sr = false := by
  simp [allowed, h]

/-- Every element of the specification's answer comes from a requested name that parses (against the
    *verified* namespace) to a resource the proxy is entitled to, and carries that resource's canonical content. -/
theorem spec_sound {w : World} {p : Proxy} {names : List Str} {req : Option PushReq} {res : List (Str × Val)}
    (h : spec w p names req = some res) (name : Str) (v : Val) (hm : (name, v) ∈ res) :
    ∃ id sr pc, p.verified = some id ∧ name ∈ names ∧
      parseResourceName name id.ns p.cluster w.configCluster = some sr ∧
      findCluster p.cluster w.clusters = some pc ∧ Entitled p id pc sr ∧ genCanon w sr = some v := by
  unfold spec at h
  cases hv : p.verified with
  | none => rw [hv] at h; cases h
  | some id =>
    rw [hv] at h
    simp only at h
    cases req with
    | none => cases h
    | some rq =>
      simp only at h
      split at h
      · cases h
      · cases hpa : w.forCluster p.cluster with
        | none => rw [hpa] at h; cases h
        | some pa =>
          rw [hpa] at h
          simp only at h
          cases hca : w.forCluster w.configCluster with
          | none => rw [hca] at h; cases h
          | some ca =>
            rw [hca] at h
            cases h
            rw [List.mem_filterMap] at hm
            obtain ⟨sr, hsr, hrel⟩ := hm
            unfold filterAuthorized at hsr
            rw [List.mem_filter] at hsr
            obtain ⟨hmem, hal⟩ := hsr
            unfold parseResources at hmem
            rw [List.mem_filterMap] at hmem
            obtain ⟨n, hn, hp⟩ := hmem
            unfold releaseOne at hrel
            split at hrel
            · cases hc : genCanon w sr with
              | none => rw [hc] at hrel; cases hrel
              | some v' =>
                rw [hc] at hrel
                simp only [Option.map_some, Option.some.injEq, Prod.mk.injEq] at hrel
                obtain ⟨h1, h2⟩ := hrel
                subst h2
                have hrn := (parse_some hp).1
                rw [hrn] at h1
                subst h1
                exact ⟨id, sr, pa.auth, rfl, hn, hp, (forCluster_some hpa).1, allowed_entitled hal, hc⟩
            · cases hrel

/-- **sds_release_sound.** For every proxy, requested name set, secret store (world), consistent cache state
    (every state reachable from the empty cache) and verified-reference set: a returned resource that carries a
    private key was requested under that very name, and either has type `kubernetes` with namespace equal to
    `VerifiedIdentity.Namespace` and the proxy's cluster authorises `(serviceAccount, namespace)`, or has type
    `kubernetes-gateway` and the exact requested name is in the verified-reference set; the key pair is the one
    of the secret stored under exactly that `(name, namespace)` in the proxy's or the config cluster. -/
theorem sds_release_sound (w : World) (hw : WorldOK w) (p : Proxy) (hp : ProxyOK p) (c : Cache)
    (hc : Consistent w c) (names : List Str) (req : Option PushReq) (o : GenOut)
    (h : generate w c p names req = some o) (name : Str) (v : Val) (hm : (name, v) ∈ o.res)
    (hk : v.hasKey = true) :
    ∃ id sr pc, p.verified = some id ∧ name ∈ names ∧
      parseResourceName name id.ns p.cluster w.configCluster = some sr ∧
      findCluster p.cluster w.clusters = some pc ∧
      ((sr.rtype = .kubernetes ∧ sr.ns = id.ns ∧ pc.authz id.sa id.ns = true) ∨
       (sr.rtype = .gateway ∧ ∃ l, p.refs = some l ∧ name ∈ l)) ∧
      ∃ cl ∈ w.clusters, (cl.id = p.cluster ∨ cl.id = w.configCluster) ∧
        ∃ d, cl.secrets sr.name sr.ns = some d ∧ extractCertInfo d = some v := by
  have hs := (generate_spec w hw p hp c hc names req).1
  rw [h] at hs
  simp only [Option.map_some] at hs
  obtain ⟨id, sr, pc, hv, hn, hparse, hpc, hent, hcan⟩ := spec_sound hs.symm name v hm
  refine ⟨id, sr, pc, hv, hn, hparse, hpc, ?_⟩
  unfold genCanon at hcan
  cases hf : w.forCluster sr.cluster with
  | none => rw [hf] at hcan; cases hcan
  | some a =>
    rw [hf] at hcan
    simp only at hcan
    obtain ⟨hncm, hnca, cl, hcl, d, hd, he⟩ := genVal_key hcan hk
    have hsel : sel sr a a = a := by unfold sel; cases sr.rtype <;> rfl
    rw [hsel] at hcl
    have hcl2 := (forCluster_some hf).2 cl hcl
    have hrn := (parse_some hparse).1
    obtain ⟨_, _, hkk | hcc | hgg | hii⟩ := parse_some hparse
    · refine ⟨Or.inl ⟨hkk.1, ?_⟩, cl, hcl2.1, by rw [← hkk.2.1]; exact hcl2.2, d, hd, he⟩
      unfold Entitled at hent
      simp only [hkk.1] at hent
      refine ⟨hent.1, ?_⟩
      cases hent.2 with
      | inl hh => rw [hnca] at hh; cases hh
      | inr hh => exact hh
    · exact absurd hcc.1 hncm
    · refine ⟨Or.inr ⟨hgg.1, ?_⟩, cl, hcl2.1, Or.inr (by
        cases hcl2.2 with
        | inl hh => rw [hh, hgg.2.1]
        | inr hh => exact hh), d, hd, he⟩
      unfold Entitled at hent
      simp only [hgg.1] at hent
      rw [hrn] at hent
      exact hent
    · unfold Entitled at hent
      simp only [hii.1] at hent

/-- Never to an unauthenticated stream: a proxy without `VerifiedIdentity` gets nothing, whatever the cache holds. -/
theorem unverified_gets_nothing (w : World) (c : Cache) (p : Proxy) (names : List Str) (req : Option PushReq)
    (h : p.verified = none) : generate w c p names req = none := by
  simp [generate, h]

/-- Never across namespaces: a `kubernetes://` key pair returned to a proxy lives in the proxy's verified
    namespace. -/
theorem never_across_namespaces (w : World) (hw : WorldOK w) (p : Proxy) (hp : ProxyOK p) (c : Cache)
    (hc : Consistent w c) (names : List Str) (req : Option PushReq) (o : GenOut)
    (h : generate w c p names req = some o) (name : Str) (v : Val) (hm : (name, v) ∈ o.res)
    (hk : v.hasKey = true) (id : Identity) (hid : p.verified = some id)
    (hnoref : ∀ l, p.refs = some l → name ∉ l) :
    ∃ sr, parseResourceName name id.ns p.cluster w.configCluster = some sr ∧ sr.ns = id.ns ∧
      ∃ cl ∈ w.clusters, ∃ d, cl.secrets sr.name id.ns = some d ∧ extractCertInfo d = some v := by
  obtain ⟨id', sr, pc, hv, _, hparse, _, hcase, cl, hcl, _, d, hd, he⟩ :=
    sds_release_sound w hw p hp c hc names req o h name v hm hk
  rw [hid] at hv
  cases hv
  cases hcase with
  | inl hkube => exact ⟨sr, hparse, hkube.2.1, cl, hcl, d, hkube.2.1 ▸ hd, he⟩
  | inr hgw =>
    obtain ⟨l, hl, hmem⟩ := hgw.2
    exact absurd hmem (hnoref l hl)

/-! ### Authorisation precedes every cache lookup (no assumption on the cache) -/

/-- Whatever the cache contains - consistent or poisoned - each returned element was either read from the
    cache under the key of an *authorised* resource of this request, or freshly generated for one. -/
theorem genLoop_only_authorised (w : World) (rq : PushReq) (pa ca : Agg) (rs : List SR) (o : GenOut)
    (nv : Str × Val) (h : nv ∈ (genLoop w rq pa ca rs o).res) :
    nv ∈ o.res ∨ (∃ r ∈ rs, o.cache.get r.key = some nv) ∨
      (∃ r ∈ rs, nv.1 = r.resourceName ∧ genVal w r pa ca = some nv.2) := by
  induction rs generalizing o with
  | nil => exact Or.inl (by simpa [genLoop] using h)
  | cons r rs ih =>
    unfold genLoop at h
    split at h
    · rcases ih o h with h1 | ⟨r', hr', h2⟩ | ⟨r', hr', h3⟩
      · exact Or.inl h1
      · exact Or.inr (Or.inl ⟨r', List.mem_cons_of_mem _ hr', h2⟩)
      · exact Or.inr (Or.inr ⟨r', List.mem_cons_of_mem _ hr', h3⟩)
    · split at h
      · rename_i v hv
        rcases ih _ h with h1 | ⟨r', hr', h2⟩ | ⟨r', hr', h3⟩
        · simp only [List.mem_append, List.mem_singleton] at h1
          cases h1 with
          | inl h1 => exact Or.inl h1
          | inr h1 => exact Or.inr (Or.inl ⟨r, List.mem_cons_self, h1 ▸ hv⟩)
        · exact Or.inr (Or.inl ⟨r', List.mem_cons_of_mem _ hr', h2⟩)
        · exact Or.inr (Or.inr ⟨r', List.mem_cons_of_mem _ hr', h3⟩)
      · split at h
        · rename_i v hv
          rcases ih _ h with h1 | ⟨r', hr', h2⟩ | ⟨r', hr', h3⟩
          · simp only [List.mem_append, List.mem_singleton] at h1
            cases h1 with
            | inl h1 => exact Or.inl h1
            | inr h1 => exact Or.inr (Or.inr ⟨r, List.mem_cons_self, by rw [h1], by rw [h1]; exact hv⟩)
          · simp only [Cache.add, Cache.get] at h2
            split at h2
            · cases h2
              exact Or.inr (Or.inr ⟨r, List.mem_cons_self, rfl, hv⟩)
            · exact Or.inr (Or.inl ⟨r', List.mem_cons_of_mem _ hr', h2⟩)
          · exact Or.inr (Or.inr ⟨r', List.mem_cons_of_mem _ hr', h3⟩)
        · rcases ih _ h with h1 | ⟨r', hr', h2⟩ | ⟨r', hr', h3⟩
          · exact Or.inl h1
          · exact Or.inr (Or.inl ⟨r', List.mem_cons_of_mem _ hr', h2⟩)
          · exact Or.inr (Or.inr ⟨r', List.mem_cons_of_mem _ hr', h3⟩)

/-- **cache_lookup_only_authorised.** For an arbitrary cache state: every returned element is tied to a requested
    name that parses to a resource the requester is entitled to; only keys of such resources are ever looked up. -/
theorem cache_lookup_only_authorised (w : World) (c : Cache) (p : Proxy) (names : List Str) (req : Option PushReq)
    (o : GenOut) (h : generate w c p names req = some o) (nv : Str × Val) (hm : nv ∈ o.res) :
    ∃ id sr pc n, p.verified = some id ∧ n ∈ names ∧
      parseResourceName n id.ns p.cluster w.configCluster = some sr ∧
      findCluster p.cluster w.clusters = some pc ∧ Entitled p id pc sr ∧
      (c.get sr.key = some nv ∨ nv.1 = n) := by
  unfold generate at h
  cases hv : p.verified with
  | none => rw [hv] at h; cases h
  | some id =>
    rw [hv] at h
    simp only at h
    cases req with
    | none => cases h
    | some rq =>
      simp only at h
      split at h
      · cases h
      · cases hpa : w.forCluster p.cluster with
        | none => rw [hpa] at h; cases h
        | some pa =>
          rw [hpa] at h
          simp only at h
          cases hca : w.forCluster w.configCluster with
          | none => rw [hca] at h; cases h
          | some ca =>
            rw [hca] at h
            cases h
            have key : ∀ r ∈ filterAuthorized p id (pa.auth.authz id.sa id.ns)
                (parseResources names id.ns p.cluster w.configCluster),
                ∃ n, n ∈ names ∧ parseResourceName n id.ns p.cluster w.configCluster = some r ∧
                  Entitled p id pa.auth r := by
              intro r hr
              unfold filterAuthorized at hr
              rw [List.mem_filter] at hr
              obtain ⟨hmem, hal⟩ := hr
              unfold parseResources at hmem
              rw [List.mem_filterMap] at hmem
              obtain ⟨n, hn, hp⟩ := hmem
              exact ⟨n, hn, hp, allowed_entitled hal⟩
            rcases genLoop_only_authorised w rq pa ca _ _ nv hm with h1 | ⟨r, hr, h2⟩ | ⟨r, hr, h3⟩
            · simp at h1
            · obtain ⟨n, hn, hp, he⟩ := key r hr
              exact ⟨id, r, pa.auth, n, rfl, hn, hp, (forCluster_some hpa).1, he, Or.inl h2⟩
            · obtain ⟨n, hn, hp, he⟩ := key r hr
              exact ⟨id, r, pa.auth, n, rfl, hn, hp, (forCluster_some hpa).1, he,
                Or.inr (by rw [h3.1, (parse_some hp).1])⟩

/-! ### End to end: connection identity and release -/

/-- A proxy accepted by `initConnection` with identity checking on gets `kubernetes://` key material only
    from the namespace of one of the credentials it presented - whatever namespace it claimed - and an
    unauthenticated stream (nil identities) gets no secret at all. -/
theorem end_to_end (w : World) (hw : WorldOK w) (nodeId : Str) (ipOK : Bool) (metaNs metaSA : Str)
    (ids : Option (List Str)) (cfg : Str) (v : Option Identity)
    (hconn : connect true nodeId ipOK metaNs metaSA ids = some (cfg, .ok v))
    (cluster : Str) (refs : Option (List Str)) (c : Cache) (hc : Consistent w c) (names : List Str)
    (req : Option PushReq) :
    (ids = none → generate w c ⟨v, cluster, refs⟩ names req = none) ∧
    ∀ o, generate w c ⟨v, cluster, refs⟩ names req = some o → ∀ name val, (name, val) ∈ o.res →
      val.hasKey = true → (∀ l, refs = some l → name ∉ l) →
      ∃ id l sr, ids = some l ∧ id.render ∈ l ∧ v = some id ∧
        parseResourceName name id.ns cluster w.configCluster = some sr ∧ sr.ns = id.ns := by
  unfold connect at hconn
  cases hd : parseNodeDomain nodeId ipOK with
  | none => rw [hd] at hconn; cases hconn
  | some dom =>
    rw [hd] at hconn
    simp only [Option.some.injEq, Prod.mk.injEq] at hconn
    obtain ⟨_, hauth⟩ := hconn
    constructor
    · intro hnil
      subst hnil
      have : v = none := by simpa [authorize] using hauth.symm
      subst this
      exact unverified_gets_nothing w c _ names req rfl
    · intro o ho name val hm hk hnoref
      cases ids with
      | none =>
        have : v = none := by simpa [authorize] using hauth.symm
        subst this
        rw [unverified_gets_nothing w c _ names req rfl] at ho
        cases ho
      | some l =>
        obtain ⟨id, hv, hmem, _, _, _, hnsl, _⟩ := identity_binding none _ metaSA l v hauth
        subst hv
        have hpok : ProxyOK ⟨some id, cluster, refs⟩ := by
          intro i hi; cases hi; exact hnsl
        obtain ⟨sr, hparse, hns, _⟩ := never_across_namespaces w hw _ hpok c hc names req o ho name val hm hk id rfl hnoref
        exact ⟨id, l, sr, rfl, hmem, rfl, hparse, hns⟩

/-- Never to an unauthenticated stream, from the wire up: a plaintext stream is given a nil identity list by
    `authenticate`, `authorize` then leaves `VerifiedIdentity` nil, and `SecretGen` returns nothing - for every
    claimed node, every world, every cache state and every request. -/
theorem plaintext_stream_gets_no_secret (results : List (Option (List Str))) (ids : Option (List Str))
    (hauth : authenticate true .plain false results = some ids)
    (flag : Bool) (nodeId : Str) (ipOK : Bool) (metaNs metaSA cfg : Str) (res : AuthRes)
    (hconn : connect flag nodeId ipOK metaNs metaSA ids = some (cfg, res)) :
    res = .ok none ∧
      ∀ (w : World) (c : Cache) (cluster : Str) (refs : Option (List Str)) (names : List Str) (req : Option PushReq),
        generate w c ⟨none, cluster, refs⟩ names req = none := by
  rw [plaintext_unauthenticated] at hauth
  cases hauth
  unfold connect at hconn
  cases hd : parseNodeDomain nodeId ipOK with
  | none => rw [hd] at hconn; cases hconn
  | some dom =>
    rw [hd] at hconn
    simp only [Option.some.injEq, Prod.mk.injEq] at hconn
    refine ⟨?_, fun w c cluster refs names req => unverified_gets_nothing w c _ names req rfl⟩
    rw [← hconn.2]
    rfl

/-! ### Non-vacuity: a concrete world, differently privileged proxies, one shared cache -/

def exSecrets : Str → Str → Option SecretData := fun name ns =>
  if name = "a".toList ∧ ns = "ns1".toList then some { cert := "C1".toList, key := "K1".toList }
  else if name = "a".toList ∧ ns = "ns2".toList then
    some { tlsCrt := "C2".toList, tlsKey := "K2".toList, caCrt := "R2".toList }
  else none

def exCluster : Cluster :=
  { id := "c1".toList, secrets := exSecrets, configMaps := fun _ _ => none,
    authz := fun sa _ => sa = "sa1".toList }

def exWorld : World := { configCluster := "c1".toList, clusters := [exCluster] }

def exP1 : Proxy := ⟨some ⟨"td".toList, "ns1".toList, "sa1".toList⟩, "c1".toList, none⟩
def exP2 : Proxy := ⟨some ⟨"td".toList, "ns2".toList, "sa1".toList⟩, "c1".toList, none⟩
def exP2gw : Proxy :=
  ⟨some ⟨"td".toList, "ns2".toList, "sa2".toList⟩, "c1".toList, some ["kubernetes-gateway://ns1/a".toList]⟩
def exP3 : Proxy := ⟨some ⟨"td".toList, "ns2".toList, "sa2".toList⟩, "c1".toList, none⟩
def exAnon : Proxy := ⟨none, "c1".toList, none⟩

def exNames : List Str :=
  ["kubernetes://a".toList, "kubernetes://ns1/a".toList, "kubernetes://ns2/a-cacert".toList,
   "kubernetes-gateway://ns1/a".toList, "bogus://a".toList]

def exForced : Option PushReq := some ⟨true, []⟩

example : WorldOK exWorld := by unfold WorldOK; decide

example : ProxyOK exP1 ∧ ProxyOK exP2 ∧ ProxyOK exP2gw ∧ ProxyOK exP3 ∧ ProxyOK exAnon := by
  refine ⟨?_, ?_, ?_, ?_, ?_⟩ <;> (intro id h; cases h <;> decide)

/-- ns1 proxy first (fills the cache), then an ns2 proxy asking for the very same names, then an ns2 proxy
    holding a verified gateway reference, an unauthorised ns2 proxy, and an unauthenticated one. -/
example : runOps exWorld [] [.gen exP1 exNames exForced, .gen exP2 exNames exForced, .gen exP2gw exNames exForced,
      .gen exP3 exNames exForced, .gen exAnon exNames exForced, .clear, .gen exP2 exNames exForced] =
    [ some [("kubernetes://a".toList, .tls "C1".toList "K1".toList),
            ("kubernetes://ns1/a".toList, .tls "C1".toList "K1".toList)],
      some [("kubernetes://a".toList, .tls "C2".toList "K2".toList),
            ("kubernetes://ns2/a-cacert".toList, .ca "R2".toList)],
      some [("kubernetes://ns2/a-cacert".toList, .ca "R2".toList),
            ("kubernetes-gateway://ns1/a".toList, .tls "C1".toList "K1".toList)],
      some [("kubernetes://ns2/a-cacert".toList, .ca "R2".toList)],
      none, none,
      some [("kubernetes://a".toList, .tls "C2".toList "K2".toList),
            ("kubernetes://ns2/a-cacert".toList, .ca "R2".toList)] ] := by decide

end IstioModel.C11
