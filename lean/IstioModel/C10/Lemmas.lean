import IstioModel.C10.Spec

/-!
C10 - helper lemmas: the creation-time order, `oldest`, first match in a sorted list, the
`addPeerAuthentication` loop, the `ComposePeerAuthentication` selection loop.
-/
set_option linter.unusedSimpArgs false

namespace IstioModel.C10

/-! ## The (creation time, name, namespace) order -/

theorem cfgLe_refl (a : PA) : cfgLe a a = true := by
  simp [cfgLe]

theorem cfgLe_total (a b : PA) : (cfgLe a b || cfgLe b a) = true := by
  unfold cfgLe
  by_cases h1 : a.time < b.time
  · simp [h1]
  · by_cases h2 : b.time < a.time
    · simp [h2]
    · by_cases h3 : a.name < b.name
      · simp [h1, h2, h3]
      · by_cases h4 : b.name < a.name
        · simp [h1, h2, h4]
        · simp only [h1, h2, h3, h4, if_false]
          have := String.le_total a.ns b.ns
          simp only [Bool.or_eq_true, decide_eq_true_eq]
          exact this

theorem cfgLe_time {a b : PA} (h : cfgLe a b = true) : a.time ≤ b.time := by
  unfold cfgLe at h
  by_cases h1 : a.time < b.time
  · omega
  · by_cases h2 : b.time < a.time
    · simp [h1, h2] at h
    · omega

/-- Unfolded form of `cfgLe`. -/
theorem cfgLe_iff (a b : PA) : cfgLe a b = true ↔
    a.time < b.time ∨ (a.time = b.time ∧ (a.name < b.name ∨ (a.name = b.name ∧ a.ns ≤ b.ns))) := by
  unfold cfgLe
  by_cases h1 : a.time < b.time
  · rw [if_pos h1]; exact ⟨fun _ => Or.inl h1, fun _ => rfl⟩
  · rw [if_neg h1]
    by_cases h2 : b.time < a.time
    · rw [if_pos h2]
      constructor
      · intro h; cases h
      · rintro (h | ⟨h, _⟩) <;> omega
    · rw [if_neg h2]
      have ht : a.time = b.time := by omega
      by_cases h3 : a.name < b.name
      · rw [if_pos h3]; exact ⟨fun _ => Or.inr ⟨ht, Or.inl h3⟩, fun _ => rfl⟩
      · rw [if_neg h3]
        by_cases h4 : b.name < a.name
        · rw [if_pos h4]
          constructor
          · intro h; cases h
          · rintro (h | ⟨_, h | ⟨h, _⟩⟩)
            · exact absurd h h1
            · exact absurd h h3
            · rw [h] at h4; exact absurd h4 (String.lt_irrefl _)
        · rw [if_neg h4]
          have hn : a.name = b.name :=
            String.le_antisymm (String.not_lt.mp h4) (String.not_lt.mp h3)
          rw [decide_eq_true_eq]
          constructor
          · intro h; exact Or.inr ⟨ht, Or.inr ⟨hn, h⟩⟩
          · rintro (h | ⟨_, h | ⟨_, h⟩⟩)
            · exact absurd h h1
            · exact absurd h h3
            · exact h

theorem cfgLe_trans {a b c : PA} (h1 : cfgLe a b = true) (h2 : cfgLe b c = true) : cfgLe a c = true := by
  rw [cfgLe_iff] at *
  rcases h1 with h1 | ⟨t1, h1⟩
  · rcases h2 with h2 | ⟨t2, _⟩
    · left; omega
    · left; omega
  · rcases h2 with h2 | ⟨t2, h2⟩
    · left; omega
    · right
      refine ⟨by omega, ?_⟩
      rcases h1 with h1 | ⟨n1, h1⟩
      · rcases h2 with h2 | ⟨n2, _⟩
        · exact Or.inl (String.lt_trans h1 h2)
        · exact Or.inl (n2 ▸ h1)
      · rcases h2 with h2 | ⟨n2, h2⟩
        · exact Or.inl (n1 ▸ h2)
        · exact Or.inr ⟨n1.trans n2, String.le_trans h1 h2⟩

theorem cfgLe_antisymm {a b : PA} (h1 : cfgLe a b = true) (h2 : cfgLe b a = true) :
    a.name = b.name ∧ a.ns = b.ns := by
  rw [cfgLe_iff] at *
  rcases h1 with h1 | ⟨_, h1⟩
  · rcases h2 with h2 | ⟨t2, _⟩ <;> omega
  · rcases h2 with h2 | ⟨_, h2⟩
    · omega
    · rcases h1 with h1 | ⟨n1, h1⟩
      · rcases h2 with h2 | ⟨n2, _⟩
        · exact absurd h2 (String.lt_asymm h1)
        · rw [n2] at h1; exact absurd h1 (String.lt_irrefl _)
      · rcases h2 with h2 | ⟨_, h2⟩
        · rw [n1] at h2; exact absurd h2 (String.lt_irrefl _)
        · exact ⟨n1, String.le_antisymm h1 h2⟩

/-- Kubernetes invariant: (namespace, name) identifies a PeerAuthentication. -/
def UniqueKeys (ps : List PA) : Prop :=
  ps.Pairwise (fun a b => ¬ (a.name = b.name ∧ a.ns = b.ns))

instance (ps : List PA) : Decidable (UniqueKeys ps) := by
  unfold UniqueKeys; infer_instance

theorem UniqueKeys.eq_of_key {ps : List PA} (h : UniqueKeys ps) {a b : PA} (ha : a ∈ ps) (hb : b ∈ ps)
    (hk : a.name = b.name ∧ a.ns = b.ns) : a = b := by
  induction ps with
  | nil => cases ha
  | cons x xs ih =>
    rw [UniqueKeys, List.pairwise_cons] at h
    rcases List.mem_cons.mp ha with rfl | ha'
    · rcases List.mem_cons.mp hb with rfl | hb'
      · rfl
      · exact absurd hk (h.1 b hb')
    · rcases List.mem_cons.mp hb with rfl | hb'
      · exact absurd ⟨hk.1.symm, hk.2.symm⟩ (h.1 a ha')
      · exact ih h.2 ha' hb'

/-! ## `oldest` is the minimum -/

theorem oldest_eq_none {l : List PA} : oldest l = none ↔ l = [] := by
  cases l with
  | nil => simp [oldest]
  | cons a t =>
    simp only [oldest]
    cases oldest t with
    | none => simp
    | some b => by_cases h : cfgLe a b = true <;> simp [h]

theorem oldest_spec {l : List PA} {x : PA} (h : oldest l = some x) :
    x ∈ l ∧ ∀ y ∈ l, cfgLe x y = true := by
  induction l generalizing x with
  | nil => simp [oldest] at h
  | cons a t ih =>
    simp only [oldest] at h
    cases ht : oldest t with
    | none =>
      rw [ht] at h
      have : t = [] := oldest_eq_none.mp ht
      subst this
      simp only [Option.some.injEq] at h
      subst h
      simp [cfgLe_refl]
    | some b =>
      rw [ht] at h
      have hb := ih ht
      by_cases hab : cfgLe a b = true
      · simp only [hab, if_true, Option.some.injEq] at h
        subst h
        refine ⟨List.mem_cons_self, ?_⟩
        intro y hy
        rcases List.mem_cons.mp hy with rfl | hy
        · exact cfgLe_refl _
        · exact cfgLe_trans hab (hb.2 y hy)
      · simp only [hab, Bool.false_eq_true, if_false, Option.some.injEq] at h
        subst h
        refine ⟨List.mem_cons_of_mem _ hb.1, ?_⟩
        intro y hy
        rcases List.mem_cons.mp hy with hya | hy
        · subst hya
          have := cfgLe_total y b
          simp only [Bool.or_eq_true] at this
          rcases this with h | h
          · exact absurd h hab
          · exact h
        · exact hb.2 y hy

/-- The least element is unique when (namespace, name) is a key. -/
theorem min_unique {ps : List PA} (hu : UniqueKeys ps) {x y : PA} (hx : x ∈ ps) (hy : y ∈ ps)
    (hxy : cfgLe x y = true) (hyx : cfgLe y x = true) : x = y :=
  hu.eq_of_key hx hy (cfgLe_antisymm hxy hyx)

/-! ## First match in a sorted list -/

theorem sorted_pairwise (ps : List PA) : (sortByCreation ps).Pairwise (fun a b => cfgLe a b = true) :=
  List.pairwise_mergeSort (le := cfgLe) (fun _ _ _ h1 h2 => cfgLe_trans h1 h2) cfgLe_total ps

theorem mem_sorted {ps : List PA} {x : PA} : x ∈ sortByCreation ps ↔ x ∈ ps :=
  List.mem_mergeSort

theorem find_sorted_spec {l : List PA} (hs : l.Pairwise (fun a b => cfgLe a b = true))
    {P : PA → Bool} {x : PA} (h : l.find? P = some x) :
    x ∈ l ∧ P x = true ∧ ∀ y ∈ l, P y = true → cfgLe x y = true := by
  induction l with
  | nil => simp at h
  | cons a t ih =>
    rw [List.pairwise_cons] at hs
    rw [List.find?_cons] at h
    by_cases hp : P a = true
    · simp only [hp, Option.some.injEq] at h
      subst h
      refine ⟨List.mem_cons_self, hp, ?_⟩
      intro y hy _
      rcases List.mem_cons.mp hy with rfl | hy
      · exact cfgLe_refl _
      · exact hs.1 y hy
    · simp only [hp] at h
      have := ih hs.2 h
      refine ⟨List.mem_cons_of_mem _ this.1, this.2.1, ?_⟩
      intro y hy hpy
      rcases List.mem_cons.mp hy with rfl | hy
      · exact absurd hpy hp
      · exact this.2.2 y hy hpy

/-- Sorting and taking the first match = the oldest of the matching policies. -/
theorem find_sorted_eq_oldest {ps : List PA} (hu : UniqueKeys ps) (P : PA → Bool) :
    (sortByCreation ps).find? P = oldest (ps.filter P) := by
  cases hf : (sortByCreation ps).find? P with
  | none =>
    have : ps.filter P = [] := by
      rw [List.filter_eq_nil_iff]
      intro a ha
      rw [List.find?_eq_none] at hf
      exact hf a (mem_sorted.mpr ha)
    rw [this]; rfl
  | some x =>
    have hx := find_sorted_spec (sorted_pairwise ps) hf
    have hxm : x ∈ ps.filter P := List.mem_filter.mpr ⟨mem_sorted.mp hx.1, hx.2.1⟩
    cases ho : oldest (ps.filter P) with
    | none => rw [oldest_eq_none.mp ho] at hxm; cases hxm
    | some y =>
      have hy := oldest_spec ho
      have hym := List.mem_filter.mp hy.1
      have h1 : cfgLe x y = true := hx.2.2 y (mem_sorted.mpr hym.1) hym.2
      have h2 : cfgLe y x = true := hy.2 x hxm
      rw [min_unique hu (mem_sorted.mp hx.1) hym.1 h1 h2]

/-! ## The `addPeerAuthentication` loop -/

/-- Namespace/mesh-level policy of namespace `n`. -/
def isNsPol (n : String) (p : PA) : Bool := p.nsLevel && p.ns == n

/-- Mode recorded for the mesh-level policy. -/
def globalOf (c : PA) : MTLS := if c.mtls = .unset then .permissive else conv c.mtls

theorem addLoop_nil (root : String) (st : AddSt) : addLoop root st [] = st := rfl

theorem addLoop_cons (root : String) (st : AddSt) (c : PA) (cs : List PA) :
    addLoop root st (c :: cs) = addLoop root (addStep root st c) cs := rfl

theorem addStep_sel {root : String} {st : AddSt} {c : PA} (h : c.nsLevel = false) :
    addStep root st c = { st with kept := st.kept ++ [c] } := by
  simp [addStep, h]

theorem addStep_skip {root : String} {st : AddSt} {c : PA} (h : c.nsLevel = true) (hs : c.ns ∈ st.seen) :
    addStep root st c = st := by
  simp [addStep, h, hs]

theorem addStep_root {root : String} {st : AddSt} {c : PA} (h : c.nsLevel = true) (hs : c.ns ∉ st.seen)
    (hr : c.ns = root) :
    addStep root st c = { seen := c.ns :: st.seen, found := st.found, global := globalOf c,
                          kept := st.kept ++ [c] } := by
  subst hr
  simp [addStep, h, hs, globalOf]

theorem addStep_ns {root : String} {st : AddSt} {c : PA} (h : c.nsLevel = true) (hs : c.ns ∉ st.seen)
    (hr : c.ns ≠ root) :
    addStep root st c = { seen := c.ns :: st.seen, found := (c.ns, c.mtls) :: st.found,
                          global := st.global, kept := st.kept ++ [c] } := by
  simp [addStep, h, hs, hr]

theorem isNsPol_of_sel {n : String} {c : PA} (h : c.nsLevel = false) : isNsPol n c = false := by
  simp [isNsPol, h]

theorem isNsPol_self {c : PA} (h : c.nsLevel = true) : isNsPol c.ns c = true := by
  simp [isNsPol, h]

theorem isNsPol_other {n : String} {c : PA} (h : c.ns ≠ n) : isNsPol n c = false := by
  simp [isNsPol, h]

/-- Policies with a selector are all kept, in order. -/
theorem addLoop_kept_sel (root : String) (R : PA → Bool) (l : List PA) (st : AddSt) :
    (addLoop root st l).kept.filter (fun p => !p.nsLevel && R p) =
      st.kept.filter (fun p => !p.nsLevel && R p) ++ l.filter (fun p => !p.nsLevel && R p) := by
  induction l generalizing st with
  | nil => simp [addLoop_nil]
  | cons c cs ih =>
    rw [addLoop_cons, ih]
    cases hn : c.nsLevel with
    | false =>
      rw [addStep_sel hn]
      simp [List.filter_cons, hn, List.filter_append]
      split <;> simp
    | true =>
      by_cases hs : c.ns ∈ st.seen
      · rw [addStep_skip hn hs]; simp [List.filter_cons, hn]
      · by_cases hr : c.ns = root
        · rw [addStep_root hn hs hr]; simp [List.filter_cons, hn, List.filter_append]
        · rw [addStep_ns hn hs hr]; simp [List.filter_cons, hn, List.filter_append]

/-- Of the selector-less policies of a namespace only the first (in sorted order) is kept. -/
theorem addLoop_kept_ns (root n : String) (l : List PA) (st : AddSt) :
    (addLoop root st l).kept.filter (isNsPol n) =
      st.kept.filter (isNsPol n) ++
        (if n ∈ st.seen then [] else (l.find? (isNsPol n)).toList) := by
  induction l generalizing st with
  | nil => simp [addLoop_nil]
  | cons c cs ih =>
    rw [addLoop_cons, ih]
    cases hn : c.nsLevel with
    | false =>
      rw [addStep_sel hn]
      simp [List.filter_append, List.find?_cons, isNsPol_of_sel hn, List.filter_cons]
    | true =>
      by_cases hs : c.ns ∈ st.seen
      · rw [addStep_skip hn hs]
        by_cases hcn : c.ns = n
        · subst hcn; simp [hs]
        · simp [List.find?_cons, isNsPol_other hcn]
      · have key : ∀ st' : AddSt, st'.seen = c.ns :: st.seen → st'.kept = st.kept ++ [c] →
            st'.kept.filter (isNsPol n) ++ (if n ∈ st'.seen then [] else (cs.find? (isNsPol n)).toList) =
            st.kept.filter (isNsPol n) ++
              (if n ∈ st.seen then [] else ((c :: cs).find? (isNsPol n)).toList) := by
          intro st' h1 h2
          rw [h1, h2]
          by_cases hcn : c.ns = n
          · subst hcn
            simp [List.filter_append, List.find?_cons, isNsPol_self hn, hs, List.filter_cons]
          · have hne : n ≠ c.ns := fun h => hcn h.symm
            simp [List.filter_append, List.find?_cons, isNsPol_other hcn, List.filter_cons, hne]
        by_cases hr : c.ns = root
        · rw [addStep_root hn hs hr]; exact key _ rfl rfl
        · rw [addStep_ns hn hs hr]; exact key _ rfl rfl

def globalFrom (o : Option PA) (dflt : MTLS) : MTLS :=
  match o with
  | some c => globalOf c
  | none => dflt

def foundFrom (o : Option PA) (dflt : Option PMode) : Option PMode :=
  match o with
  | some c => some c.mtls
  | none => dflt

theorem addLoop_global (root : String) (l : List PA) (st : AddSt) :
    (addLoop root st l).global =
      if root ∈ st.seen then st.global
      else globalFrom (l.find? (isNsPol root)) st.global := by
  induction l generalizing st with
  | nil => simp [addLoop_nil, globalFrom, foundFrom]
  | cons c cs ih =>
    rw [addLoop_cons, ih]
    cases hn : c.nsLevel with
    | false =>
      rw [addStep_sel hn]
      simp [globalFrom, foundFrom, List.find?_cons, isNsPol_of_sel hn]
    | true =>
      by_cases hs : c.ns ∈ st.seen
      · rw [addStep_skip hn hs]
        by_cases hcr : c.ns = root
        · subst hcr; simp [hs, globalFrom]
        · simp [globalFrom, foundFrom, List.find?_cons, isNsPol_other hcr]
      · by_cases hr : c.ns = root
        · rw [addStep_root hn hs hr]
          have hq : isNsPol root c = true := hr ▸ isNsPol_self hn
          have hs' : root ∉ st.seen := hr ▸ hs
          simp [globalFrom, foundFrom, List.find?_cons, hq, hs', hr]
        · rw [addStep_ns hn hs hr]
          have hne : root ≠ c.ns := fun h => hr h.symm
          simp [globalFrom, foundFrom, List.find?_cons, isNsPol_other hr, hne]

/-- Mode recorded for the namespace-level policy of a non-root namespace. -/
theorem addLoop_found (root n : String) (hnr : n ≠ root) (l : List PA) (st : AddSt) :
    (addLoop root st l).found.lookup n =
      if n ∈ st.seen then st.found.lookup n
      else foundFrom (l.find? (isNsPol n)) (st.found.lookup n) := by
  induction l generalizing st with
  | nil => simp [addLoop_nil, globalFrom, foundFrom]
  | cons c cs ih =>
    rw [addLoop_cons, ih]
    cases hn : c.nsLevel with
    | false =>
      rw [addStep_sel hn]
      simp [globalFrom, foundFrom, List.find?_cons, isNsPol_of_sel hn]
    | true =>
      by_cases hs : c.ns ∈ st.seen
      · rw [addStep_skip hn hs]
        by_cases hcn : c.ns = n
        · subst hcn; simp [hs, foundFrom]
        · simp [globalFrom, foundFrom, List.find?_cons, isNsPol_other hcn]
      · by_cases hr : c.ns = root
        · rw [addStep_root hn hs hr]
          have hcn : c.ns ≠ n := fun h => hnr (h ▸ hr)
          have hne : n ≠ c.ns := fun h => hcn h.symm
          simp [globalFrom, foundFrom, List.find?_cons, isNsPol_other hcn, hne]
        · rw [addStep_ns hn hs hr]
          by_cases hcn : c.ns = n
          · subst hcn
            simp [globalFrom, foundFrom, List.find?_cons, isNsPol_self hn, hs, List.lookup_cons]
          · have hne : n ≠ c.ns := fun h => hcn h.symm
            have hb : (n == c.ns) = false := by simp [hne]
            simp [globalFrom, foundFrom, List.find?_cons, isNsPol_other hcn, hne, List.lookup_cons, hb]

/-- The root namespace never enters `foundNamespaceMTLS`. -/
theorem addLoop_found_root (root : String) (l : List PA) (st : AddSt) :
    (addLoop root st l).found.lookup root = st.found.lookup root := by
  induction l generalizing st with
  | nil => simp [addLoop_nil]
  | cons c cs ih =>
    rw [addLoop_cons, ih]
    cases hn : c.nsLevel with
    | false => rw [addStep_sel hn]
    | true =>
      by_cases hs : c.ns ∈ st.seen
      · rw [addStep_skip hn hs]
      · by_cases hr : c.ns = root
        · rw [addStep_root hn hs hr]
        · rw [addStep_ns hn hs hr]
          have hb : (root == c.ns) = false := by simp; exact fun h => hr h.symm
          simp [List.lookup_cons, hb]

theorem lookup_map_resolveNs (i : MTLS) (n : String) (l : List (String × PMode)) :
    (l.map (resolveNs i)).lookup n = (l.lookup n).map (fun m => if m = .unset then i else conv m) := by
  induction l with
  | nil => simp
  | cons e es ih =>
    cases e with
    | mk k v =>
      simp only [List.map_cons, List.lookup_cons, resolveNs]
      cases h : n == k <;> simp [ih]

/-! ## The selection loop of `ComposePeerAuthentication` -/

def pickStep (acc : Option PA) (p : PA) : Option PA := if takes p acc then some p else acc

/-- First policy of minimal creation time, in list order. -/
def pick (l : List PA) : Option PA := l.foldl pickStep none

def nsQ (root : String) (c : PA) : Bool := c.nsLevel && c.ns != root
def wlQ (root : String) (c : PA) : Bool := !c.nsLevel && c.ns != root

theorem composeSel_mesh (root : String) (l : List PA) (s : Sel) :
    (l.foldl (composeStep root) s).mesh = (l.filter (isNsPol root)).foldl pickStep s.mesh := by
  induction l generalizing s with
  | nil => rfl
  | cons c cs ih =>
    rw [List.foldl_cons, ih]
    unfold composeStep
    cases hn : c.nsLevel with
    | false => simp [List.filter_cons, isNsPol, hn]; split <;> (try split) <;> rfl
    | true =>
      by_cases hr : c.ns = root
      · simp only [if_true, hr]
        have : isNsPol root c = true := by simp [isNsPol, hn, hr]
        simp only [List.filter_cons, this, if_true, List.foldl_cons, pickStep]
        split <;> rfl
      · have : isNsPol root c = false := by simp [isNsPol, hr]
        simp only [if_true, hr, if_false, List.filter_cons, this]
        split <;> rfl

theorem composeSel_ns (root : String) (l : List PA) (s : Sel) :
    (l.foldl (composeStep root) s).ns = (l.filter (nsQ root)).foldl pickStep s.ns := by
  induction l generalizing s with
  | nil => rfl
  | cons c cs ih =>
    rw [List.foldl_cons, ih]
    unfold composeStep
    cases hn : c.nsLevel with
    | false => simp [List.filter_cons, nsQ, hn]; split <;> (try split) <;> rfl
    | true =>
      by_cases hr : c.ns = root
      · have : nsQ root c = false := by simp [nsQ, hr]
        simp only [if_true, hr, List.filter_cons, this]
        split <;> rfl
      · have : nsQ root c = true := by simp [nsQ, hn, hr]
        simp only [if_true, hr, if_false, List.filter_cons, this, List.foldl_cons, pickStep]
        split <;> rfl

theorem composeSel_wl (root : String) (l : List PA) (s : Sel) :
    (l.foldl (composeStep root) s).wl = (l.filter (wlQ root)).foldl pickStep s.wl := by
  induction l generalizing s with
  | nil => rfl
  | cons c cs ih =>
    rw [List.foldl_cons, ih]
    unfold composeStep
    cases hn : c.nsLevel with
    | true =>
      have : wlQ root c = false := by simp [wlQ, hn]
      simp only [if_true, List.filter_cons, this]
      split <;> (try split) <;> rfl
    | false =>
      by_cases hr : c.ns = root
      · have : wlQ root c = false := by simp [wlQ, hr]
        simp [hr, List.filter_cons, this]
      · have : wlQ root c = true := by simp [wlQ, hn, hr]
        simp only [Bool.false_eq_true, if_false, ne_eq, hr, not_false_eq_true, if_true, List.filter_cons,
          this, List.foldl_cons, pickStep]
        split <;> rfl

theorem composeSel_eq (root : String) (l : List PA) :
    composeSel root l =
      { mesh := pick (l.filter (isNsPol root)), ns := pick (l.filter (nsQ root)),
        wl := pick (l.filter (wlQ root)) } := by
  have h1 := composeSel_mesh root l {}
  have h2 := composeSel_ns root l {}
  have h3 := composeSel_wl root l {}
  unfold composeSel pick
  cases h : l.foldl (composeStep root) {} with
  | mk m n w =>
    rw [h] at h1 h2 h3
    simp only at h1 h2 h3
    rw [h1, h2, h3]

theorem foldl_pickStep_some {x : PA} {l : List PA} (h : ∀ y ∈ l, x.time ≤ y.time) :
    l.foldl pickStep (some x) = some x := by
  induction l with
  | nil => rfl
  | cons a t ih =>
    have ha : ¬ a.time < x.time := by have := h a List.mem_cons_self; omega
    simp only [List.foldl_cons, pickStep, takes, ha, decide_false, Bool.false_eq_true, if_false]
    exact ih (fun y hy => h y (List.mem_cons_of_mem _ hy))

/-- On a list sorted by creation time the loop keeps the first element. -/
theorem pick_sorted {l : List PA} (hs : l.Pairwise (fun a b => cfgLe a b = true)) : pick l = l.head? := by
  cases l with
  | nil => rfl
  | cons a t =>
    rw [List.pairwise_cons] at hs
    simp only [pick, List.foldl_cons, pickStep, takes, if_true, List.head?_cons]
    exact foldl_pickStep_some (fun y hy => cfgLe_time (hs.1 y hy))

theorem pick_toList (o : Option PA) : pick o.toList = o := by
  cases o <;> simp [pick, pickStep, takes]

end IstioModel.C10
