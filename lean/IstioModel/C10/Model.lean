/-
C10 - executable model of the PeerAuthentication precedence code (sidecar / xDS side).

Go sources modelled (istio/istio):
  pilot/pkg/model/config.go            sortConfigByCreationTime, configCompareByCreationTime
  pilot/pkg/model/authentication.go    initAuthenticationPolicies, addPeerAuthentication,
                                       GetNamespaceMutualTLSMode, GetGlobalMutualTLSMode,
                                       GetPeerAuthenticationsForWorkload, getConfigsForWorkload,
                                       ConvertToMutualTLSMode
  pkg/config/labels/instance.go        Instance.SubsetOf
  pkg/slices/slices.go                 FilterDuplicates
  pilot/pkg/security/authn/policy_applier.go
                                       ComposePeerAuthentication, isMtlsModeUnset,
                                       policyApplier.GetMutualTLSModeForPort
  pilot/pkg/model/push_context.go      BestEffortInferServiceMTLSMode (authn part)
  pilot/pkg/xds/endpoints/mtls_checker.go   mtlsChecker.checkMtlsEnabled

Conventions: a nil `*PeerAuthentication_MutualTLS` and mode `UNSET` are the same value
(`PMode.unset`): every modelled function reads them through `isMtlsModeUnset` / `GetMode()`.
Go maps are association lists read with `List.lookup` (first match); the harness only produces
lists with distinct keys, and the theorems that need it say so (`PA.portsNodup`).
`map[string][]config.Config` (configs by namespace) is one list in insertion order read through
`filter (ns = ·)`.
-/
namespace IstioModel.C10

/-- `v1beta1.PeerAuthentication_MutualTLS_Mode` (nil `Mtls` pointer = `unset`). -/
inductive PMode
  | unset | disable | permissive | strict
  deriving DecidableEq, Repr, Inhabited

/-- `model.MutualTLSMode`. -/
inductive MTLS
  | unknown | disable | permissive | strict
  deriving DecidableEq, Repr, Inhabited

/-- `model.ConvertToMutualTLSMode`. -/
def conv : PMode → MTLS
  | .disable => .disable
  | .permissive => .permissive
  | .strict => .strict
  | .unset => .unknown

abbrev Labels := List (String × String)

/-- One PeerAuthentication `config.Config` (fields the precedence logic reads). -/
structure PA where
  name     : String
  ns       : String
  time     : Nat                      -- CreationTimestamp
  selector : Option Labels            -- `spec.Selector` (nil) / its MatchLabels
  mtls     : PMode                    -- `spec.Mtls` (nil or UNSET = unset)
  ports    : List (Nat × PMode)       -- `spec.PortLevelMtls`
  rv       : Nat := 1                 -- `ResourceVersion` (UID is namespace/name); only `GetVersion` reads it
  deriving DecidableEq, Repr, Inhabited

/-- `spec.Selector == nil || len(spec.Selector.MatchLabels) == 0`: mesh- or namespace-level policy. -/
def PA.nsLevel (p : PA) : Bool :=
  match p.selector with
  | none => true
  | some l => l.isEmpty

/-- `spec.GetSelector().GetMatchLabels()`. -/
def PA.matchLabels (p : PA) : Labels :=
  match p.selector with
  | none => []
  | some l => l

/-- `labels.Instance.SubsetOf`. -/
def subsetOf (i that : Labels) : Bool :=
  if i.isEmpty then true
  else if that.isEmpty || that.length < i.length then false
  else i.all (fun kv => that.lookup kv.1 == some kv.2)

/-- A workload as seen by `WorkloadPolicyMatcher`: namespace, labels, namespaces of the services
    added with `WithService` (waypoints). -/
structure Workload where
  ns     : String
  labels : Labels
  svcNs  : List String := []
  deriving DecidableEq, Repr, Inhabited

/-- The PeerAuthentication branch of `getConfigsForWorkload`: selector ⊆ workload labels. -/
def selects (p : PA) (w : Workload) : Bool := subsetOf p.matchLabels w.labels

/-! ## sortConfigByCreationTime -/

/-- `configCompareByCreationTime a b <= 0`: creation time, then name, then namespace. -/
def cfgLe (a b : PA) : Bool :=
  if a.time < b.time then true
  else if b.time < a.time then false
  else if a.name < b.name then true
  else if b.name < a.name then false
  else decide (a.ns ≤ b.ns)

/-- `sortConfigByCreationTime` (`slices.SortFunc` is not stable; on configs with distinct
    (name, namespace) the comparator is a strict total order, so the result is unique). -/
def sortByCreation (l : List PA) : List PA := l.mergeSort cfgLe

/-! ## addPeerAuthentication -/

/-- Loop state of `addPeerAuthentication`. -/
structure AddSt where
  seen   : List String                 -- seenNamespaceOrMeshConfig (keys)
  found  : List (String × PMode)       -- foundNamespaceMTLS
  global : MTLS                        -- policy.globalMutualTLSMode
  kept   : List PA                     -- policy.peerAuthentications (all namespaces, insertion order)
  deriving Repr

def AddSt.init : AddSt := { seen := [], found := [], global := .unknown, kept := [] }

/-- One iteration of the loop over the sorted configs. -/
def addStep (root : String) (st : AddSt) (c : PA) : AddSt :=
  if c.nsLevel then
    if st.seen.contains c.ns then st                                   -- `continue`: not added at all
    else if c.ns = root then
      { seen := c.ns :: st.seen, found := st.found,
        global := if c.mtls = .unset then .permissive else conv c.mtls,
        kept := st.kept ++ [c] }
    else
      { seen := c.ns :: st.seen, found := (c.ns, c.mtls) :: st.found,
        global := st.global, kept := st.kept ++ [c] }
  else
    { st with kept := st.kept ++ [c] }

def addLoop (root : String) (st : AddSt) : List PA → AddSt
  | [] => st
  | c :: cs => addLoop root (addStep root st c) cs

/-- What `aggregateVersion` is a hash of: `UID + "." + ResourceVersion` of a config (the sum of the
    per-config hashes is insensitive to order, so the list is read as a multiset). -/
abbrev VersionKey := String × String × Nat

def versionKeys (l : List PA) : List VersionKey := l.map (fun p => (p.ns, p.name, p.rv))

/-- `AuthenticationPolicies` (peer part). -/
structure Authn where
  peerAuths  : List PA
  nsMode     : List (String × MTLS)     -- namespaceMutualTLSMode
  globalMode : MTLS                     -- globalMutualTLSMode
  rootNs     : String
  version    : List VersionKey := []    -- aggregateVersion (`GetVersion`), before hashing
  deriving Repr

/-- The inherited mode of the second phase of `addPeerAuthentication`. -/
def inheritedOf (g : MTLS) : MTLS := if g = .unknown then .permissive else g

def resolveNs (inherited : MTLS) (e : String × PMode) : String × MTLS :=
  (e.1, if e.2 = .unset then inherited else conv e.2)

/-- `initAuthenticationPolicies` restricted to PeerAuthentication: sort, then `addPeerAuthentication`. -/
def initAuthn (root : String) (configs : List PA) : Authn :=
  let st := addLoop root AddSt.init (sortByCreation configs)
  { peerAuths := st.kept,
    nsMode := st.found.map (resolveNs (inheritedOf st.global)),
    globalMode := st.global,
    rootNs := root,
    -- the hash is accumulated for every config of the loop, also the ones the singleton check skips
    version := versionKeys (sortByCreation configs) }

/-- `AuthenticationPolicies.GetNamespaceMutualTLSMode`. -/
def Authn.namespaceMode (a : Authn) (ns : String) : MTLS :=
  match a.nsMode.lookup ns with
  | some m => m
  | none => a.globalMode

/-! ## getConfigsForWorkload -/

/-- `slices.FilterDuplicates`: first occurrences, order kept. -/
def dedupAux (seen : List String) : List String → List String
  | [] => []
  | x :: xs => if seen.contains x then dedupAux seen xs else x :: dedupAux (x :: seen) xs

def dedup (l : List String) : List String := dedupAux [] l

/-- `configsByNamespace[ns]` filtered by the selector test. -/
def Authn.forNs (a : Authn) (w : Workload) (n : String) : List PA :=
  (a.peerAuths.filter (fun c => c.ns == n)).filter (fun c => selects c w)

/-- `GetPeerAuthenticationsForWorkload` = `getConfigsForWorkload` (PeerAuthentication branch). -/
def Authn.configsFor (a : Authn) (w : Workload) : List PA :=
  (dedup (w.ns :: a.rootNs :: w.svcNs)).flatMap (a.forNs w)

/-! ## ComposePeerAuthentication -/

/-- The three `*config.Config` picked by the loop. -/
structure Sel where
  mesh : Option PA := none
  ns   : Option PA := none
  wl   : Option PA := none
  deriving Repr

/-- `cur == nil || cfg.CreationTimestamp.Before(cur.CreationTimestamp)`. -/
def takes (c : PA) (cur : Option PA) : Bool :=
  match cur with
  | none => true
  | some o => decide (c.time < o.time)

def composeStep (root : String) (s : Sel) (c : PA) : Sel :=
  if c.nsLevel then
    if c.ns = root then (if takes c s.mesh then { s with mesh := some c } else s)
    else (if takes c s.ns then { s with ns := some c } else s)
  else if c.ns ≠ root then (if takes c s.wl then { s with wl := some c } else s)
  else s

def composeSel (root : String) (configs : List PA) : Sel :=
  configs.foldl (composeStep root) {}

/-- `if cfg != nil && !isMtlsModeUnset(cfg.Mtls) { mode = Convert(cfg.Mtls.Mode) }`. -/
def overrideBy (c : Option PA) (parent : MTLS) : MTLS :=
  match c with
  | none => parent
  | some p => if p.mtls = .unset then parent else conv p.mtls

/-- `MergedPeerAuthentication`. -/
structure Merged where
  mode    : MTLS
  perPort : List (Nat × MTLS)
  deriving DecidableEq, Repr

def portEntry (wlMode : MTLS) (e : Nat × PMode) : Nat × MTLS :=
  (e.1, if e.2 = .unset then wlMode else conv e.2)

def compose (root : String) (configs : List PA) : Merged :=
  let s := composeSel root configs
  let m := overrideBy s.wl (overrideBy s.ns (overrideBy s.mesh .permissive))
  { mode := m,
    perPort := match s.wl with
      | none => []
      | some p => p.ports.map (portEntry m) }

/-- `policyApplier.GetMutualTLSModeForPort`. -/
def Merged.modeForPort (m : Merged) (port : Nat) : MTLS :=
  match m.perPort.lookup port with
  | some x => x
  | none => m.mode

/-- `authn.NewMtlsPolicy(push, policies, ns, labels, isWaypoint).GetMutualTLSModeForPort(port)`:
    the resolver used for sidecar inbound listeners and by the EDS mTLS checker. -/
def workloadMode (root : String) (configs : List PA) (w : Workload) (port : Nat) : MTLS :=
  (compose root ((initAuthn root configs).configsFor w)).modeForPort port

/-! ## Client side -/

/-- `AuthenticationPolicies.FilterPeerAuthenticationNamespaces`: the policies and namespace modes of
    the given namespaces only (mesh mode and root namespace name are kept). -/
def Authn.filterNs (a : Authn) (nss : List String) : Authn :=
  { peerAuths := a.peerAuths.filter (fun c => nss.contains c.ns),
    nsMode := a.nsMode.filter (fun e => nss.contains e.1),
    globalMode := a.globalMode,
    rootNs := a.rootNs,
    -- recomputed over the configs of the kept namespaces that are in the map
    version := versionKeys (a.peerAuths.filter (fun c => nss.contains c.ns)) }

/-- `SidecarScope.selectAuthnPolicies`: what a client proxy in `clientNs` whose sidecar scope imports
    services of the namespaces `importedNs` sees (`proxy.SidecarScope.AuthnPolicies`). -/
def sidecarView (root : String) (configs : List PA) (clientNs : String) (importedNs : List String) : Authn :=
  (initAuthn root configs).filterNs (clientNs :: root :: importedNs)

/-- The config dependencies `selectAuthnPolicies` registers for a proxy: one per config of the filtered view. -/
def sidecarDeps (root : String) (ps : List PA) (clientNs : String) (importedNs : List String) : List (String × String) :=
  (sidecarView root ps clientNs importedNs).peerAuths.map (fun p => (p.ns, p.name))

/-- `NewMtlsPolicy(push, view, ns, labels, _).GetMutualTLSModeForPort(port)` on a given view. -/
def Authn.modeFor (a : Authn) (w : Workload) (port : Nat) : MTLS :=
  (compose a.rootNs (a.configsFor w)).modeForPort port

/-- `BestEffortInferServiceMTLSMode` for an in-mesh, non-passthrough service in namespace `ns`. -/
def bestEffortServiceMode (a : Authn) (ns : String) : MTLS :=
  match a.namespaceMode ns with
  | .unknown => .permissive
  | m => m

/-- All branches of `BestEffortInferServiceMTLSMode`: UNKNOWN for a mesh-external service; for a
    passthrough service (resolution NONE or PASSTHROUGH load balancer) DISABLE when it has no endpoint
    on the port or one of them is labelled `tlsMode=disabled`; else the namespace/mesh level. -/
def bestEffortFull (a : Authn) (ns : String) (external passthrough : Bool) (epDisabled : List Bool) : MTLS :=
  if external then .unknown
  else if passthrough && (epDisabled.isEmpty || epDisabled.any id) then .disable
  else bestEffortServiceMode a ns

/-- `networking.ClientTLSSettings_TLSmode`. -/
inductive DRMode
  | disable | simple | mutual | istioMutual
  deriving DecidableEq, Repr, Inhabited

/-- `networking.TrafficPolicy` as far as `trafficPolicyTLSModeForPort` reads it: the `tls` mode (nil =
    none) and the port-level settings (port, `tls` mode or nil). -/
structure TPolicy where
  tls   : Option DRMode
  ports : List (Nat × Option DRMode)
  deriving DecidableEq, Repr

/-- First port-level setting for the port that has TLS settings. -/
def portLevelTLS (port : Nat) : List (Nat × Option DRMode) → Option DRMode
  | [] => none
  | (p, m) :: t => if p == port && m.isSome then m else portLevelTLS port t

/-- `trafficPolicyTLSModeForPort`. -/
def tpolicyMode (tp : Option TPolicy) (port : Nat) : Option DRMode :=
  match tp with
  | none => none
  | some t =>
    match portLevelTLS port t.ports with
    | some m => some m
    | none => t.tls

/-- A DestinationRule: its traffic policy and its subsets (name, traffic policy). -/
structure DRule where
  top     : Option TPolicy
  subsets : List (String × Option TPolicy)
  deriving DecidableEq, Repr

def subsetMode (top : Option TPolicy) (port : Nat) (subset : String) : List (String × Option TPolicy) → Option DRMode
  | [] => none                                  -- no subset of that name: nil
  | (n, tp) :: t =>
    if n == subset then
      match tpolicyMode tp port with
      | some m => some m
      | none => tpolicyMode top port           -- fall back to the rule's own traffic policy
    else subsetMode top port subset t

/-- `tlsModeForDestinationRule(dr, subset, port)`. -/
def drTLSMode (dr : Option DRule) (subset : String) (port : Nat) : Option DRMode :=
  match dr with
  | none => none
  | some r => if subset == "" then tpolicyMode r.top port else subsetMode r.top port subset r.subsets

/-- `mtlsChecker.checkMtlsEnabled`: `dr` is the DestinationRule TLS mode for the port (nil = none),
    `epTLS` is `ep.TLSMode == "istio"`. -/
def checkMtlsEnabled (root : String) (configs : List PA) (dr : Option DRMode) (epTLS : Bool)
    (w : Workload) (port : Nat) : Bool :=
  match dr with
  | some m => m == .istioMutual
  | none =>
    if !epTLS then false
    else workloadMode root configs w port != .disable

/-- `mtlsChecker.checkMtlsEnabled` as production calls it: on the client proxy's scoped view. -/
def checkMtlsEnabledIn (a : Authn) (dr : Option DRMode) (epTLS : Bool) (w : Workload) (port : Nat) : Bool :=
  match dr with
  | some m => m == .istioMutual
  | none =>
    if !epTLS then false
    else a.modeFor w port != .disable

/-- The cluster side of client auto-mTLS (`ClusterBuilder.buildUpstreamTLSSettings` with no
    DestinationRule TLS settings, auto-mTLS on, in-mesh service): the outbound cluster gets the
    `tlsMode=istio` transport-socket match unless the inferred service mode is UNKNOWN or DISABLE
    (`cluster_tls.go`: `serviceMTLSMode == MTLSUnknown || serviceMTLSMode == MTLSDisable` returns nil). -/
def clusterHasAutoMTLS (serviceMode : MTLS) : Bool := serviceMode != .unknown && serviceMode != .disable

/-- **The composed client decision**: the client proxy originates mutual TLS towards an endpoint iff
    the cluster carries the TLS transport-socket match (decided from `BestEffortInferServiceMTLSMode`,
    which sees the namespace and mesh level only) AND the endpoint keeps its `tlsMode=istio` label in
    EDS (`checkMtlsEnabled`, which resolves the workload- and port-level policies).  `w.ns` is the
    namespace of the service and of its endpoint. -/
def clientSendsMTLS (a : Authn) (w : Workload) (port : Nat) : Bool :=
  clusterHasAutoMTLS (bestEffortServiceMode a w.ns) && checkMtlsEnabledIn a none true w port

end IstioModel.C10
