import IstioModel.C10.InboundTheorems
import IstioModel.C10.AmbientLemmas

/-!
# C10 - the listener as Envoy sees it: unique filter chain matches, and the chain selected per client

`matches_nodup`: no two filter chains of a generated inbound listener have the same match (Envoy rejects a
listener with "multiple filter chains with the same matching rules", after which nothing is enforced).  It
holds for the repaired code; on the pinned tree it failed under inbound listener merge (finding F14,
`matches_nodup_witness_unfixed`).

`applicable_is_cell` + `inbound_listener_enforces_per_client`: for every destination port the chains Envoy
considers are exactly ONE cell of the filter-chain table, of the port's effective mode, so the per-client
statement of `inbound_enforces_per_client` (real application-protocol lists, transport and ALPN selection
stages) holds for the whole listener.
-/
set_option linter.unusedSimpArgs false

namespace IstioModel.C10

/-! ## Hypotheses about the chain configs (all discharged for `chainConfigs` / `declaredPorts`) -/

/-- One chain config per target port. -/
def TargetsDistinct (svcPorts : List SvcPort) : Prop := svcPorts.Pairwise (fun a b => a.target ≠ b.target)
/-- Target ports are real ports. -/
def TargetsPos (svcPorts : List SvcPort) : Prop := ∀ sp ∈ svcPorts, sp.target > 0
/-- Every target port counts as declared for `needPerPortPassthroughFilterChain`. -/
def TargetsDeclared (svcPorts : List SvcPort) (declared : List Nat) : Prop := ∀ sp ∈ svcPorts, sp.target ∈ declared

instance (l : List SvcPort) : Decidable (TargetsDistinct l) := by unfold TargetsDistinct; infer_instance
instance (l : List SvcPort) : Decidable (TargetsPos l) := by unfold TargetsPos; infer_instance
instance (l : List SvcPort) (d : List Nat) : Decidable (TargetsDeclared l d) := by unfold TargetsDeclared; infer_instance

theorem TargetsDistinct.eq {l : List SvcPort} (h : TargetsDistinct l) {a b : SvcPort} (ha : a ∈ l) (hb : b ∈ l)
    (ht : a.target = b.target) : a = b := by
  induction l with
  | nil => cases ha
  | cons x xs ih =>
    rw [TargetsDistinct, List.pairwise_cons] at h
    rcases List.mem_cons.mp ha with rfl | ha'
    · rcases List.mem_cons.mp hb with rfl | hb'
      · rfl
      · exact absurd ht (h.1 b hb')
    · rcases List.mem_cons.mp hb with rfl | hb'
      · exact absurd ht.symm (h.1 a ha')
      · exact ih h.2 ha' hb'

/-! ## Selection depends on membership only -/

theorem filter_mem_congr {α : Type} {l l' : List α} (h : ∀ c, c ∈ l ↔ c ∈ l') (p : α → Bool) :
    ∀ c, c ∈ l.filter p ↔ c ∈ l'.filter p := by
  intro c; simp only [List.mem_filter, h c]

theorem isEmpty_mem_congr {α : Type} {l l' : List α} (h : ∀ c, c ∈ l ↔ c ∈ l') : l.isEmpty = l'.isEmpty := by
  cases l with
  | nil =>
    cases l' with
    | nil => rfl
    | cons b t => exact absurd ((h b).mpr List.mem_cons_self) (by simp)
  | cons a t =>
    cases l' with
    | nil => exact absurd ((h a).mp List.mem_cons_self) (by simp)
    | cons b t' => rfl

theorem firstAlpnHit_mem_congr {cs cs' : List Chain} (h : ∀ c, c ∈ cs ↔ c ∈ cs') (alpns : List String) :
    ∀ c, c ∈ firstAlpnHit cs alpns ↔ c ∈ firstAlpnHit cs' alpns := by
  induction alpns with
  | nil => intro c; simp [firstAlpnHit]
  | cons a t ih =>
    intro c
    simp only [firstAlpnHit]
    have hf := filter_mem_congr h (fun c => c.alpn.contains a)
    rw [isEmpty_mem_congr hf]
    split
    · exact ih c
    · exact hf c

/-- Envoy's selection only depends on which chains there are. -/
theorem selectChains_mem_congr {cs cs' : List Chain} (h : ∀ c, c ∈ cs ↔ c ∈ cs') (conn : Conn) :
    ∀ c, c ∈ selectChains cs conn ↔ c ∈ selectChains cs' conn := by
  intro c
  simp only [selectChains]
  have h1 := filter_mem_congr h (fun c => c.transportTLS == conn.tls)
  have h2 := firstAlpnHit_mem_congr h1 conn.alpns
  rw [isEmpty_mem_congr h2]
  split
  · exact filter_mem_congr h1 _ c
  · exact h2 c

theorem ne_nil_mem_congr {α : Type} {l l' : List α} (h : ∀ c, c ∈ l ↔ c ∈ l') : l ≠ [] ↔ l' ≠ [] := by
  have := isEmpty_mem_congr h
  cases l <;> cases l' <;> simp_all

/-! ## The chains considered for a destination port are exactly one cell -/

theorem key_ne_zero_of_lookup_none {β : Type} {l : List (Nat × β)} (h : l.lookup 0 = none) : ∀ e ∈ l, e.1 ≠ 0 := by
  induction l with
  | nil => intro e he; cases he
  | cons a t ih =>
    cases a with
    | mk k v =>
      intro e he
      simp only [List.lookup_cons] at h
      cases hk : (0 : Nat) == k with
      | true => rw [hk] at h; cases h
      | false =>
        rw [hk] at h
        rcases List.mem_cons.mp he with rfl | he'
        · simp only [beq_eq_false_iff_ne, ne_eq] at hk; exact fun e0 => hk e0.symm
        · exact ih h e he'

/-- **applicable_is_cell.**  For every destination port `d` the chains Envoy considers (custom listener
    bound to `d`, or virtualInbound with the most specific destination-port match) are exactly the
    chains of ONE cell `getFilterChainMatchOptions(effectiveMode d, protocol)` of the filter-chain table. -/
theorem applicable_is_cell {ps : List PA} (hu : UniqueKeys ps) (hz : NoPortZero ps) (root : String)
    (w : Workload) (hs : w.svcNs = []) (svcPorts : List SvcPort) (declared : List Nat) (d : Nat) (hd : d > 0)
    (hU : NoUserTLSFor svcPorts d) (hD : DeclaredHaveConfigs svcPorts declared)
    (hT : TargetsDistinct svcPorts) (hP : TargetsPos svcPorts) (hTD : TargetsDeclared svcPorts declared) :
    ∃ proto, ∀ c, c ∈ applicable (inboundChains root ps w svcPorts declared) d ↔
      c ∈ chains (effectiveMode ps root w d) proto := by
  have hmode : ∀ port, (compose root ((initAuthn root ps).configsFor w)).modeForPort port =
      effectiveMode ps root w port := fun port => compose_eq_spec hu root w hs port
  have hzero := merged_lookup_zero hz root w hs
  have hmem : ∀ c, c ∈ inboundChains root ps w svcPorts declared ↔ _ := fun c => mem_inboundChains_iff (c := c)
  generalize hM : compose root ((initAuthn root ps).configsFor w) = m at hmode hzero hmem
  generalize hL : inboundChains root ps w svcPorts declared = l at hmem
  have hne := effectiveMode_total ps root w d
  have hkey0 := key_ne_zero_of_lookup_none hzero
  have hcellne : ∀ proto, chains (effectiveMode ps root w d) proto ≠ [] := fun proto =>
    (chains_enforce _ hne proto).2.2.2.1
  have hreg : ∀ sp ∈ svcPorts, sp.target = d → sp.userTLS = false := by
    intro sp hsp ht
    cases h : sp.userTLS with
    | false => rfl
    | true => exact absurd ht (hU sp hsp h).1
  unfold applicable
  by_cases hex : ∃ sp ∈ svcPorts, sp.target = d
  · -- `d` is the target port of exactly one chain config
    obtain ⟨sp, hsp, htd⟩ := hex
    have huser := hreg sp hsp htd
    have hdecl : d ∈ declared := htd ▸ hTD sp hsp
    refine ⟨sp.proto, ?_⟩
    -- every chain with destination port d (in whichever listener) is a chain of sp
    have hfrom : ∀ lc ∈ l, lc.dst = some d →
        lc.lst = sp.listener ∧ lc.chain ∈ chains (effectiveMode ps root w d) sp.proto := by
      intro lc hlc hdst
      rcases (hmem lc).mp hlc with ⟨sp', hsp', hc⟩ | hc | ⟨e, _, hneed, hc⟩
      · have ht' : sp'.target = d := (dstOf_eq_some hd).mp ((entryChains_dst_lst hc).1 ▸ hdst)
        have : sp' = sp := hT.eq hsp' hsp (ht'.trans htd.symm)
        subst this
        have h := (mem_entryChains_regular huser).mp hc
        refine ⟨h.2.1, ?_⟩
        have := h.2.2; rw [htd, hmode] at this; exact this
      · have h0 : (0 : Nat) = d := (dstOf_eq_some hd).mp ((mem_chainsFor.mp hc).1 ▸ hdst)
        omega
      · have hm := mem_chainsFor.mp hc
        have hed : e.1 = d := (dstOf_eq_some hd).mp (hm.1 ▸ hdst)
        rw [hed] at hneed
        simp [needPerPort, hdecl] at hneed
    have hin : ∀ ch ∈ chains (effectiveMode ps root w d) sp.proto,
        ({ dst := some d, chain := ch, lst := sp.listener } : LChain) ∈ l := by
      intro ch hch
      apply (hmem _).mpr
      left
      refine ⟨sp, hsp, (mem_entryChains_regular huser).mpr ⟨?_, rfl, ?_⟩⟩
      · simp only [htd]; exact ((dstOf_eq_some hd).mpr rfl).symm
      · simp only [htd, hmode]; exact hch
    obtain ⟨ch0, hch0⟩ := List.exists_mem_of_ne_nil _ (hcellne sp.proto)
    intro c
    by_cases hb : sp.bind = true
    · -- its own listener
      have hl : sp.listener = some d := by simp [SvcPort.listener, hb, htd]
      have hownne : ¬ (l.filter (fun c => c.lst == some d)).isEmpty = true := by
        intro h
        have hnil : l.filter (fun c => c.lst == some d) = [] := by simpa using h
        have : ({ dst := some d, chain := ch0, lst := sp.listener } : LChain) ∈ l.filter (fun c => c.lst == some d) :=
          List.mem_filter.mpr ⟨hin ch0 hch0, by simp [hl]⟩
        rw [hnil] at this; cases this
      have hlf : listenerFor l d = l.filter (fun c => c.lst == some d) := by
        simp only [listenerFor]; rw [if_neg hownne]
      rw [hlf, mem_applicableIn]
      have hspne : ¬ ((l.filter (fun c => c.lst == some d)).filter (fun x => x.dst == some d)).isEmpty = true := by
        intro h
        have hnil : (l.filter (fun c => c.lst == some d)).filter (fun x => x.dst == some d) = [] := by simpa using h
        have : ({ dst := some d, chain := ch0, lst := sp.listener } : LChain) ∈
            (l.filter (fun c => c.lst == some d)).filter (fun x => x.dst == some d) :=
          List.mem_filter.mpr ⟨List.mem_filter.mpr ⟨hin ch0 hch0, by simp [hl]⟩, by simp⟩
        rw [hnil] at this; cases this
      rw [if_neg hspne]
      constructor
      · rintro ⟨lc, hlc, hdst, rfl⟩
        exact (hfrom lc (List.mem_filter.mp hlc).1 hdst).2
      · intro hc
        exact ⟨_, List.mem_filter.mpr ⟨hin c hc, by simp [hl]⟩, rfl, rfl⟩
    · -- in the virtualInbound listener
      have hl : sp.listener = none := by simp [SvcPort.listener, hb]
      have hownE : (l.filter (fun c => c.lst == some d)).isEmpty = true := by
        rw [List.isEmpty_iff, List.filter_eq_nil_iff]
        intro lc hlc hlst
        have hlst' : lc.lst = some d := by simpa using hlst
        -- a chain in a listener bound to d has destination port d, hence is a chain of sp: contradiction
        rcases (hmem lc).mp hlc with ⟨sp', hsp', hc⟩ | hc | ⟨e, _, _, hc⟩
        · have h := entryChains_dst_lst hc
          have hl' : sp'.listener = some d := h.2 ▸ hlst'
          unfold SvcPort.listener at hl'
          by_cases hb' : sp'.bind = true
          · simp only [hb', if_true, Option.some.injEq] at hl'
            have : sp' = sp := hT.eq hsp' hsp (hl'.trans htd.symm)
            subst this
            exact hb hb'
          · simp [hb'] at hl'
        · have := (mem_chainsFor.mp hc).2.1; rw [this] at hlst'; cases hlst'
        · have := (mem_chainsFor.mp hc).2.1; rw [this] at hlst'; cases hlst'
      have hlf : listenerFor l d = l.filter (fun c => c.lst == none) := by
        simp only [listenerFor]; rw [if_pos hownE]
      rw [hlf, mem_applicableIn]
      have hspne : ¬ ((l.filter (fun c => c.lst == none)).filter (fun x => x.dst == some d)).isEmpty = true := by
        intro h
        have hnil : (l.filter (fun c => c.lst == none)).filter (fun x => x.dst == some d) = [] := by simpa using h
        have : ({ dst := some d, chain := ch0, lst := sp.listener } : LChain) ∈
            (l.filter (fun c => c.lst == none)).filter (fun x => x.dst == some d) :=
          List.mem_filter.mpr ⟨List.mem_filter.mpr ⟨hin ch0 hch0, by simp [hl]⟩, by simp⟩
        rw [hnil] at this; cases this
      rw [if_neg hspne]
      constructor
      · rintro ⟨lc, hlc, hdst, rfl⟩
        exact (hfrom lc (List.mem_filter.mp hlc).1 hdst).2
      · intro hc
        exact ⟨_, List.mem_filter.mpr ⟨hin c hc, by simp [hl]⟩, rfl, rfl⟩
  · -- `d` is no target port: passthrough chains, protocol auto
    refine ⟨.auto, ?_⟩
    have hnoT : ∀ sp ∈ svcPorts, sp.target ≠ d := fun sp hsp h => hex ⟨sp, hsp, h⟩
    have hnd : d ∉ declared := fun h => by
      obtain ⟨sp, hsp, ht⟩ := hD d h
      exact hnoT sp hsp ht
    have hownE : (l.filter (fun c => c.lst == some d)).isEmpty = true := by
      rw [List.isEmpty_iff, List.filter_eq_nil_iff]
      intro lc hlc hlst
      have hlst' : lc.lst = some d := by simpa using hlst
      rcases (hmem lc).mp hlc with ⟨sp', hsp', hc⟩ | hc | ⟨e, _, _, hc⟩
      · have h := entryChains_dst_lst hc
        have hl' : sp'.listener = some d := h.2 ▸ hlst'
        unfold SvcPort.listener at hl'
        by_cases hb' : sp'.bind = true
        · simp only [hb', if_true, Option.some.injEq] at hl'
          exact hnoT sp' hsp' hl'
        · simp [hb'] at hl'
      · have := (mem_chainsFor.mp hc).2.1; rw [this] at hlst'; cases hlst'
      · have := (mem_chainsFor.mp hc).2.1; rw [this] at hlst'; cases hlst'
    have hlf : listenerFor l d = l.filter (fun c => c.lst == none) := by
      simp only [listenerFor]; rw [if_pos hownE]
    -- the chains with destination port d in virtualInbound: per-port passthrough only
    have hfrom : ∀ lc ∈ l, lc.dst = some d →
        lc.lst = none ∧ lc.chain ∈ chains (effectiveMode ps root w d) .auto ∧ ∃ e ∈ m.perPort, e.1 = d := by
      intro lc hlc hdst
      rcases (hmem lc).mp hlc with ⟨sp', hsp', hc⟩ | hc | ⟨e, he, _, hc⟩
      · exact absurd ((dstOf_eq_some hd).mp ((entryChains_dst_lst hc).1 ▸ hdst)) (hnoT sp' hsp')
      · have h0 : (0 : Nat) = d := (dstOf_eq_some hd).mp ((mem_chainsFor.mp hc).1 ▸ hdst)
        omega
      · have hm := mem_chainsFor.mp hc
        have hed : e.1 = d := (dstOf_eq_some hd).mp (hm.1 ▸ hdst)
        have := hm.2.2; rw [hed, hmode] at this
        exact ⟨hm.2.1, this, e, he, hed⟩
    intro c
    rw [hlf, mem_applicableIn]
    by_cases hpp : ∃ e ∈ m.perPort, e.1 = d
    · obtain ⟨e, he, hed⟩ := hpp
      have hin : ∀ ch ∈ chains (effectiveMode ps root w d) .auto, ({ dst := some d, chain := ch } : LChain) ∈ l := by
        intro ch hch
        apply (hmem _).mpr
        right; right
        refine ⟨e, he, by simp [needPerPort, hed, hnd], mem_chainsFor.mpr ⟨?_, rfl, ?_⟩⟩
        · simp only [hed]; exact ((dstOf_eq_some hd).mpr rfl).symm
        · rw [hed, hmode]; exact hch
      obtain ⟨ch0, hch0⟩ := List.exists_mem_of_ne_nil _ (hcellne .auto)
      have hspne : ¬ ((l.filter (fun c => c.lst == none)).filter (fun x => x.dst == some d)).isEmpty = true := by
        intro h
        have hnil : (l.filter (fun c => c.lst == none)).filter (fun x => x.dst == some d) = [] := by simpa using h
        have : ({ dst := some d, chain := ch0 } : LChain) ∈
            (l.filter (fun c => c.lst == none)).filter (fun x => x.dst == some d) :=
          List.mem_filter.mpr ⟨List.mem_filter.mpr ⟨hin ch0 hch0, by simp⟩, by simp⟩
        rw [hnil] at this; cases this
      rw [if_neg hspne]
      constructor
      · rintro ⟨lc, hlc, hdst, rfl⟩
        exact (hfrom lc (List.mem_filter.mp hlc).1 hdst).2.1
      · intro hc
        exact ⟨_, List.mem_filter.mpr ⟨hin c hc, by simp⟩, rfl, rfl⟩
    · -- no chain for d at all: the catch-all chains, whose mode is the workload mode = mode of d
      have hspE : ((l.filter (fun c => c.lst == none)).filter (fun x => x.dst == some d)).isEmpty = true := by
        rw [List.isEmpty_iff, List.filter_eq_nil_iff]
        intro lc hlc hdst
        have hdst' : lc.dst = some d := by simpa using hdst
        exact hpp (hfrom lc (List.mem_filter.mp hlc).1 hdst').2.2
      rw [if_pos hspE]
      have hd_none : m.perPort.lookup d = none :=
        lookup_none_of_not_key (fun e he hed => hpp ⟨e, he, hed⟩)
      have e0 : m.modeForPort 0 = m.mode := by simp [Merged.modeForPort, hzero]
      have ed : m.modeForPort d = m.mode := by simp [Merged.modeForPort, hd_none]
      have hm0 : m.modeForPort 0 = effectiveMode ps root w d := by rw [e0, ← ed, hmode]
      constructor
      · rintro ⟨lc, hlc, hdst, rfl⟩
        rcases (hmem lc).mp (List.mem_filter.mp hlc).1 with ⟨sp', hsp', hc⟩ | hc | ⟨e, he, _, hc⟩
        · have ht0 : sp'.target = 0 := dstOf_eq_none.mp ((entryChains_dst_lst hc).1 ▸ hdst)
          have := hP sp' hsp'; omega
        · have := (mem_chainsFor.mp hc).2.2; rw [hm0] at this; exact this
        · have he0 : e.1 = 0 := dstOf_eq_none.mp ((mem_chainsFor.mp hc).1 ▸ hdst)
          exact absurd he0 (hkey0 e he)
      · intro hc
        refine ⟨{ dst := none, chain := c }, List.mem_filter.mpr ⟨?_, by simp⟩, rfl, rfl⟩
        apply (hmem _).mpr
        right; left
        exact mem_chainsFor.mpr ⟨by simp [dstOf], rfl, by rw [hm0]; exact hc⟩

/-- **inbound_listener_enforces_per_client.**  For every destination port `d` and every kind of client,
    the chains of the generated listener that Envoy selects for the client's connection to `d`
    (destination port, then transport protocol, then application protocols) do what the port's effective
    mode demands - in particular an Istio mutual-TLS client is, under STRICT and PERMISSIVE, handed only to
    chains terminating mutual TLS and never to the TLS pass-through chain.  `_hown` restricts the claim (the
    model has no blackhole chain for the listener's own port, see `virtualInboundPort`). -/
theorem inbound_listener_enforces_per_client {ps : List PA} (hu : UniqueKeys ps) (hz : NoPortZero ps) (root : String)
    (w : Workload) (hs : w.svcNs = []) (svcPorts : List SvcPort) (declared : List Nat) (d : Nat) (hd : d > 0)
    (_hown : d ∉ proxyOwnPorts) (hU : NoUserTLSFor svcPorts d) (hD : DeclaredHaveConfigs svcPorts declared)
    (hT : TargetsDistinct svcPorts) (hP : TargetsPos svcPorts) (hTD : TargetsDeclared svcPorts declared) (k : Client) :
    let sel := selectChains (applicable (inboundChains root ps w svcPorts declared) d) k.conn
    let mode := effectiveMode ps root w d
    (k.isMTLS = true → mode ≠ .disable → sel ≠ [] ∧ ∀ c ∈ sel, c.terminatesMTLS = true) ∧
    (k.isPlain = true → mode ≠ .strict → sel ≠ [] ∧ ∀ c ∈ sel, c.acceptsPlaintext = true ∧ c.terminatesTLS = false) ∧
    (k.isPlain = true → mode = .strict → sel = []) ∧
    (mode = .strict → ∀ c ∈ sel, c.terminatesMTLS = true) ∧
    (mode = .permissive → k.isMTLS = false → ∀ c ∈ sel, c.terminatesTLS = false) ∧
    (mode = .disable → ∀ c ∈ sel, c.terminatesTLS = false) := by
  intro sel mode
  obtain ⟨proto, hcell⟩ := applicable_is_cell hu hz root w hs svcPorts declared d hd hU hD hT hP hTD
  have hsel := selectChains_mem_congr hcell k.conn
  have hne : mode ≠ .unknown := effectiveMode_total ps root w d
  have hT := inbound_enforces_per_client mode hne proto k
  have hnil : sel ≠ [] ↔ selectChains (chains mode proto) k.conn ≠ [] := ne_nil_mem_congr hsel
  refine ⟨?_, ?_, ?_, ?_, ?_, ?_⟩
  · intro h1 h2
    exact ⟨hnil.mpr (hT.1 h1 h2).1, fun c hc => (hT.1 h1 h2).2 c ((hsel c).mp hc)⟩
  · intro h1 h2
    exact ⟨hnil.mpr (hT.2.1 h1 h2).1, fun c hc => (hT.2.1 h1 h2).2 c ((hsel c).mp hc)⟩
  · intro h1 h2
    have := hT.2.2.1 h1 h2
    cases hs' : sel with
    | nil => rfl
    | cons a t =>
      have : a ∈ selectChains (chains mode proto) k.conn := (hsel a).mp (by show a ∈ sel; rw [hs']; exact List.mem_cons_self)
      rw [hT.2.2.1 h1 h2] at this; cases this
  · intro h1 c hc; exact hT.2.2.2.1 h1 c ((hsel c).mp hc)
  · intro h1 h2 c hc; exact hT.2.2.2.2.1 h1 h2 c ((hsel c).mp hc)
  · intro h1 c hc; exact hT.2.2.2.2.2 h1 c ((hsel c).mp hc)

/-! ## The TLS inspector is on exactly where TLS has to be told from plaintext -/

theorem cell_matches_tls_iff (mode : MTLS) (hm : mode ≠ .unknown) (proto : LProto) :
    (chains mode proto).any (fun c => c.transportTLS) = true ↔ mode ≠ .disable := by
  cases mode with
  | unknown => exact absurd rfl hm
  | disable => cases proto <;> decide
  | permissive => cases proto <;> decide
  | strict => cases proto <;> decide

/-- **tls_inspector_iff.**  `populateListenerFilters` enables the TLS inspector for a destination port iff
    the port's effective mode is not DISABLE: under STRICT and PERMISSIVE the transport protocol is
    detected (without it every connection would look like plaintext and no mutual-TLS chain could ever
    match), under DISABLE it is not (TLS spoken by the application passes through untouched). -/
theorem tls_inspector_iff {ps : List PA} (hu : UniqueKeys ps) (hz : NoPortZero ps) (root : String)
    (w : Workload) (hs : w.svcNs = []) (svcPorts : List SvcPort) (declared : List Nat) (d : Nat) (hd : d > 0)
    (hU : NoUserTLSFor svcPorts d) (hD : DeclaredHaveConfigs svcPorts declared)
    (hT : TargetsDistinct svcPorts) (hP : TargetsPos svcPorts) (hTD : TargetsDeclared svcPorts declared) :
    tlsInspectorOn (inboundChains root ps w svcPorts declared) d = true ↔ effectiveMode ps root w d ≠ .disable := by
  obtain ⟨proto, hcell⟩ := applicable_is_cell hu hz root w hs svcPorts declared d hd hU hD hT hP hTD
  rw [← cell_matches_tls_iff _ (effectiveMode_total ps root w d) proto]
  unfold tlsInspectorOn
  simp only [List.any_eq_true]
  constructor
  · rintro ⟨c, hc, h⟩; exact ⟨c, (hcell c).mp hc, h⟩
  · rintro ⟨c, hc, h⟩; exact ⟨c, (hcell c).mpr hc, h⟩

/-! ## No two filter chains of a listener have the same match -/

/-- Pairwise different filter chain matches (listener, destination port, transport protocol, application protocols). -/
def MatchesNodup (l : List LChain) : Prop := l.Pairwise (fun a b => a.matchKey ≠ b.matchKey)

instance (l : List LChain) : Decidable (MatchesNodup l) := by unfold MatchesNodup; infer_instance

theorem dstOf_inj {a b : Nat} (ha : a > 0) (h : dstOf a = dstOf b) : a = b := by
  unfold dstOf at h
  by_cases hb : b > 0
  · simpa [ha, hb] using h
  · simp [ha, hb] at h

theorem cell_map_matches (mode : MTLS) (proto : LProto) (dst lst : Option Nat) :
    ((chains mode proto).map (fun c => ({ dst := dst, chain := c, lst := lst } : LChain))).Pairwise
      (fun a b => a.matchKey ≠ b.matchKey) := by
  apply List.Pairwise.map _ _ (cell_matches_distinct mode proto)
  intro a b hab hk
  apply hab
  simp only [LChain.matchKey, Prod.mk.injEq] at hk
  exact Prod.ext hk.2.2.1 hk.2.2.2

theorem entryChains_matches (m : Merged) (sp : SvcPort) :
    (entryChains m sp).Pairwise (fun a b => a.matchKey ≠ b.matchKey) := by
  unfold entryChains
  split
  · simp
  · exact cell_map_matches _ _ _ _

theorem chainsFor_matches (m : Merged) (port : Nat) (proto : LProto) :
    (chainsFor m port proto).Pairwise (fun a b => a.matchKey ≠ b.matchKey) := by
  unfold chainsFor
  exact cell_map_matches _ _ _ none

/-- The merged per-port map has distinct keys when the selected workload policy's port-level settings are a map. -/
theorem merged_perPort_keys {ps : List PA} (hp : ∀ p ∈ ps, PortsNodup p.ports) (root : String) (w : Workload)
    (hs : w.svcNs = []) :
    (compose root ((initAuthn root ps).configsFor w)).perPort.Pairwise (fun a b => a.1 ≠ b.1) := by
  rw [compose_perPort, sel_wl root ps w hs]
  cases hw : (if w.ns = root then none else (sortByCreation ps).find? (wlCand w)) with
  | none => simp
  | some p =>
    have hpm : p ∈ ps := by
      by_cases hr : w.ns = root
      · simp [hr] at hw
      · simp only [hr, if_false] at hw
        exact mem_sorted.mp (List.mem_of_find?_eq_some hw)
    have hn := hp p hpm
    unfold PortsNodup at hn
    simp only
    rw [List.pairwise_map]
    have : (p.ports).Pairwise (fun a b => a.1 ≠ b.1) := by
      rw [List.Nodup, List.pairwise_map] at hn; exact hn
    exact this.imp (fun h => by simpa [portEntry] using h)

/-- **matches_nodup.**  No two filter chains of the generated inbound listeners (virtualInbound and the
    listeners bound to a port) have the same filter chain match: Envoy accepts the listener.  Needs one chain
    config per target port and every target port declared - true for `chainConfigs` / `declaredPorts` of the
    repaired code (`chainConfigs_targets_declared`), false for the pinned tree under listener merge (F14). -/
theorem matches_nodup {ps : List PA} (hz : NoPortZero ps) (hp : ∀ p ∈ ps, PortsNodup p.ports) (root : String)
    (w : Workload) (hs : w.svcNs = []) (svcPorts : List SvcPort) (declared : List Nat)
    (hT : TargetsDistinct svcPorts) (hP : TargetsPos svcPorts) (hTD : TargetsDeclared svcPorts declared) :
    MatchesNodup (inboundChains root ps w svcPorts declared) := by
  have hzero := merged_lookup_zero hz root w hs
  have hkeys := merged_perPort_keys hp root w hs
  unfold MatchesNodup inboundChains
  generalize compose root ((initAuthn root ps).configsFor w) = m at hzero hkeys
  have hkey0 := key_ne_zero_of_lookup_none hzero
  simp only
  rw [List.pairwise_append, List.pairwise_append]
  refine ⟨⟨?_, chainsFor_matches m 0 .auto, ?_⟩, ?_, ?_⟩
  · -- the chain configs
    rw [List.pairwise_flatMap]
    refine ⟨fun sp _ => entryChains_matches m sp, ?_⟩
    have hT' : svcPorts.Pairwise (fun a b => a ∈ svcPorts → b ∈ svcPorts → a.target ≠ b.target) :=
      hT.imp (fun h _ _ => h)
    refine (List.Pairwise.and_mem.mp hT).imp ?_
    rintro a b ⟨ha, _, hab⟩ x hx y hy hk
    have hx' := (entryChains_dst_lst hx).1
    have hy' := (entryChains_dst_lst hy).1
    simp only [LChain.matchKey, Prod.mk.injEq] at hk
    exact hab (dstOf_inj (hP a ha) (by rw [← hx', ← hy', hk.2.1]))
  · -- chain configs vs catch-all
    intro x hx y hy hk
    simp only [List.mem_flatMap] at hx
    obtain ⟨sp, hsp, hx⟩ := hx
    have hx' := (entryChains_dst_lst hx).1
    have hy' := (mem_chainsFor.mp hy).1
    simp only [LChain.matchKey, Prod.mk.injEq] at hk
    have : dstOf sp.target = dstOf 0 := by rw [← hx', ← hy', hk.2.1]
    have := dstOf_inj (hP sp hsp) this
    have := hP sp hsp; omega
  · -- the per-port passthrough chains
    rw [List.pairwise_flatMap]
    refine ⟨fun e _ => chainsFor_matches m e.1 .auto, ?_⟩
    refine (List.Pairwise.and_mem.mp (hkeys.filter _)).imp ?_
    rintro a b ⟨ha, _, hab⟩ x hx y hy hk
    have ha' := (List.mem_filter.mp ha).1
    have hx' := (mem_chainsFor.mp hx).1
    have hy' := (mem_chainsFor.mp hy).1
    simp only [LChain.matchKey, Prod.mk.injEq] at hk
    have hapos : a.1 > 0 := by have := hkey0 a ha'; omega
    exact hab (dstOf_inj hapos (by rw [← hx', ← hy', hk.2.1]))
  · -- (chain configs and catch-all) vs per-port passthrough
    intro x hx y hy hk
    simp only [List.mem_flatMap, List.mem_filter] at hy
    obtain ⟨e, ⟨he, hneed⟩, hy⟩ := hy
    have hy' := (mem_chainsFor.mp hy).1
    have hepos : e.1 > 0 := by have := hkey0 e he; omega
    simp only [LChain.matchKey, Prod.mk.injEq] at hk
    rcases List.mem_append.mp hx with hx | hx
    · simp only [List.mem_flatMap] at hx
      obtain ⟨sp, hsp, hx⟩ := hx
      have hx' := (entryChains_dst_lst hx).1
      have : e.1 = sp.target := dstOf_inj hepos (by rw [← hx', ← hy', hk.2.1])
      have hdecl := hTD sp hsp
      rw [← this] at hdecl
      simp [needPerPort, hdecl] at hneed
    · have hx' := (mem_chainsFor.mp hx).1
      have : e.1 = 0 := dstOf_inj hepos (by rw [← hx', ← hy', hk.2.1])
      omega

/-! ### The hypotheses hold for what `buildInboundChainConfigs` produces -/

theorem firstPerTargetAux_sub (seen : List Nat) (l : List SvcPort) :
    ∀ sp ∈ firstPerTargetAux seen l, sp ∈ l ∧ sp.target ∉ seen := by
  induction l generalizing seen with
  | nil => intro sp h; cases h
  | cons a t ih =>
    intro sp h
    unfold firstPerTargetAux at h
    by_cases hc : seen.contains a.target = true
    · simp only [hc, if_true] at h
      exact ⟨List.mem_cons_of_mem _ (ih seen sp h).1, (ih seen sp h).2⟩
    · simp only [hc, Bool.false_eq_true, if_false] at h
      rcases List.mem_cons.mp h with rfl | h'
      · exact ⟨List.mem_cons_self, by simpa using hc⟩
      · have := ih (a.target :: seen) sp h'
        exact ⟨List.mem_cons_of_mem _ this.1, fun hm => this.2 (List.mem_cons_of_mem _ hm)⟩

theorem firstPerTargetAux_distinct (seen : List Nat) (l : List SvcPort) :
    TargetsDistinct (firstPerTargetAux seen l) := by
  induction l generalizing seen with
  | nil => simp [firstPerTargetAux, TargetsDistinct]
  | cons a t ih =>
    unfold firstPerTargetAux
    by_cases hc : seen.contains a.target = true
    · simp only [hc, if_true]; exact ih seen
    · simp only [hc, Bool.false_eq_true, if_false]
      unfold TargetsDistinct
      rw [List.pairwise_cons]
      refine ⟨?_, ih (a.target :: seen)⟩
      intro b hb heq
      exact (firstPerTargetAux_sub (a.target :: seen) t b hb).2 (by rw [← heq]; exact List.mem_cons_self)

/-- One chain config per target port. -/
theorem chainConfigs_targets_distinct (services ingress : List SvcPort) (merge : Bool) :
    TargetsDistinct (chainConfigs services ingress merge) := by
  unfold chainConfigs firstPerTarget
  split
  · exact firstPerTargetAux_distinct _ _
  · split <;> exact firstPerTargetAux_distinct _ _

/-- Every chain config's target port is declared (with the repaired merge rule). -/
theorem chainConfigs_targets_declared (services ingress : List SvcPort) (merge : Bool) :
    TargetsDeclared (chainConfigs services ingress merge) (declaredPorts services ingress merge) := by
  intro sp hsp
  unfold chainConfigs firstPerTarget at hsp
  unfold declaredPorts
  by_cases hi : ingress.isEmpty = true
  · simp only [hi, if_true] at hsp ⊢
    exact List.mem_map.mpr ⟨sp, (firstPerTargetAux_sub [] services sp hsp).1, rfl⟩
  · simp only [hi, Bool.false_eq_true, if_false] at hsp ⊢
    cases merge with
    | false =>
      simp only [Bool.false_and, Bool.false_eq_true, if_false] at hsp ⊢
      exact List.mem_map.mpr ⟨sp, (firstPerTargetAux_sub [] ingress sp hsp).1, rfl⟩
    | true =>
      simp only [Bool.true_and, if_true] at hsp ⊢
      have := (firstPerTargetAux_sub [] _ sp hsp).1
      rcases List.mem_append.mp this with h | h
      · exact List.mem_append_right _ (List.mem_map.mpr ⟨sp, (List.mem_filter.mp h).1, rfl⟩)
      · exact List.mem_append_left _ (List.mem_map.mpr ⟨sp, h, rfl⟩)

/-! ### F14: on the pinned tree the statement failed under inbound listener merge -/

/-- Sidecar ingress on 9000 only, listener merge on, port-level settings for the merged service ports 80 and 8080. -/
def f14Policies : List PA :=
  [ { name := "wl", ns := "ns1", time := 200, selector := some [("app", "a")], mtls := .permissive,
      ports := [(80, .strict), (8080, .permissive)] } ]
def f14Services : List SvcPort :=
  [ { port := 80, target := 80, proto := .http }, { port := 8080, target := 8080, proto := .tcp } ]
def f14Ingress : List SvcPort := [ { port := 9000, target := 9000, proto := .tcp } ]
def f14Workload : Workload := { ns := "ns1", labels := [("app", "a")] }

/-- The chains of the merged service ports and the per-port passthrough chains of the same ports. -/
theorem matches_nodup_witness_unfixed :
    let cfgs := chainConfigs f14Services f14Ingress true
    TargetsDistinct cfgs ∧ TargetsPos cfgs ∧
    ¬ TargetsDeclared cfgs (declaredPorts f14Services f14Ingress true false) ∧
    TargetsDeclared cfgs (declaredPorts f14Services f14Ingress true true) := by
  decide

/-- With the pinned tree's declared ports, two chains for port 8080 (service chain config and per-port
    passthrough) have the same filter chain match whenever the merged map has an entry for 8080. -/
theorem matches_dup_of_undeclared_target (m : Merged) (sp : SvcPort) (hu : sp.userTLS = false) (hb : sp.bind = false)
    (_hpos : sp.target > 0) (e : Nat × MTLS) (_he : e ∈ m.perPort) (hk : e.1 = sp.target) (hproto : sp.proto = .tcp)
    (hmode : m.modeForPort sp.target ≠ .unknown) :
    ∃ x ∈ entryChains m sp, ∃ y ∈ chainsFor m e.1 .auto, x.matchKey = y.matchKey := by
  have hx : ∀ c, c ∈ entryChains m sp ↔ _ := fun c => mem_entryChains_regular hu (c := c)
  cases hm : m.modeForPort sp.target with
  | unknown => exact absurd hm hmode
  | disable =>
    refine ⟨{ dst := dstOf sp.target, chain := mk .disable false false false .any, lst := none },
      (hx _).mpr ⟨rfl, by simp [SvcPort.listener, hb], by rw [hm, hproto]; show mk .disable false false false .any ∈ chains .disable .tcp; decide⟩,
      { dst := dstOf e.1, chain := mk .disable false false false .any },
      mem_chainsFor.mpr ⟨rfl, rfl, by rw [hk, hm]; show mk .disable false false false .any ∈ chains .disable .auto; decide⟩, by simp [LChain.matchKey, hk]⟩
  | permissive =>
    refine ⟨{ dst := dstOf sp.target, chain := mk .permissive false false false .any, lst := none },
      (hx _).mpr ⟨rfl, by simp [SvcPort.listener, hb], by rw [hm, hproto]; show mk .permissive false false false .any ∈ chains .permissive .tcp; decide⟩,
      { dst := dstOf e.1, chain := mk .permissive false false false .any },
      mem_chainsFor.mpr ⟨rfl, rfl, by rw [hk, hm]; show mk .permissive false false false .any ∈ chains .permissive .auto; decide⟩, by simp [LChain.matchKey, hk]⟩
  | strict =>
    refine ⟨{ dst := dstOf sp.target, chain := mk .strict true true false .any, lst := none },
      (hx _).mpr ⟨rfl, by simp [SvcPort.listener, hb], by rw [hm, hproto]; show mk .strict true true false .any ∈ chains .strict .tcp; decide⟩,
      { dst := dstOf e.1, chain := mk .strict true true false .any },
      mem_chainsFor.mpr ⟨rfl, rfl, by rw [hk, hm]; show mk .strict true true false .any ∈ chains .strict .auto; decide⟩, by simp [LChain.matchKey, hk]⟩

end IstioModel.C10
