import IstioModel.C10.Theorems

/-!
# C10 - property theorems, part 2: the generated inbound configuration enforces the mode

Model of `getFilterChainMatchOptions` (pilot/pkg/networking/core/filterchain_options.go) together
with `FilterChainMatchOptions.ToTransportSocket` / `BuildInboundTLS`: for an mTLS mode and a listener
protocol, the list of inbound filter chains as (transport_protocol match, terminates TLS?, HTTP or
TCP proxy, ALPN class, transport socket).  `GenTie.lean` proves this table equal to the one the
harness regenerates from the real functions on every run.

Envoy semantics used (from the Envoy documentation, not observed): a connection is handed to a
filter chain whose `filter_chain_match.transport_protocol` equals what the TLS inspector detected
(`tls` / `raw_buffer`) and, if the chain lists application protocols, whose list contains the
connection's ALPN; a chain with a DownstreamTlsContext with `require_client_certificate` completes
the handshake only with a client certificate (mutual TLS); a chain without transport socket does not
terminate TLS.
-/
namespace IstioModel.C10

/-- `networking.ListenerProtocol`. -/
inductive LProto
  | unknown | tcp | http | auto
  deriving DecidableEq, Repr

def LProto.all : List LProto := [.unknown, .tcp, .http, .auto]
def MTLS.all : List MTLS := [.unknown, .disable, .permissive, .strict]

/-- ALPN class of a chain's `application_protocols`. -/
inductive Alpn
  | any          -- no application_protocols match
  | istio        -- only Istio mTLS ALPNs (istio, istio-peer-exchange, istio-http/1.x, istio-h2)
  | plain        -- plaintext HTTP ALPNs
  deriving DecidableEq, Repr

/-- Transport socket of the chain. -/
inductive Sock
  | none         -- no DownstreamTlsContext: TLS is not terminated
  | tls          -- DownstreamTlsContext without require_client_certificate
  | mtls         -- DownstreamTlsContext with require_client_certificate
  deriving DecidableEq, Repr

/-- One `FilterChainMatchOptions` plus its transport socket. -/
structure Chain where
  transportTLS : Bool      -- filter_chain_match.transport_protocol = "tls" (else "raw_buffer")
  terminate    : Bool      -- `TLS` field: this chain should terminate TLS
  http         : Bool      -- HTTP connection manager (else TCP proxy)
  alpn         : Alpn
  sock         : Sock
  deriving DecidableEq, Repr

/-- `ToTransportSocket` + `BuildInboundTLS`: nil for DISABLE/UNKNOWN, else a context requiring a
    client certificate. -/
def sockFor (mode : MTLS) (terminate : Bool) : Sock :=
  if terminate then
    match mode with
    | .disable | .unknown => .none
    | _ => .mtls
  else .none

def mk (mode : MTLS) (transportTLS terminate http : Bool) (alpn : Alpn) : Chain :=
  { transportTLS := transportTLS, terminate := terminate, http := http, alpn := alpn,
    sock := sockFor mode terminate }

/-- `getFilterChainMatchOptions`. -/
def chains (mode : MTLS) (proto : LProto) : List Chain :=
  match proto with
  | .http =>
    match mode with
    | .strict => [mk mode true true true .any]
    | .permissive => [mk mode true true true .istio, mk mode false false true .any]
    | _ => [mk mode false false true .any]
  | .auto =>
    match mode with
    | .strict => [mk mode true true true .istio, mk mode true true false .any]
    | .permissive =>
      [mk mode true true true .istio, mk mode false false true .plain, mk mode true true false .istio,
       mk mode false false false .any, mk mode true false false .any]
    | _ => [mk mode false false true .plain, mk mode false false false .any]
  | _ =>
    match mode with
    | .strict => [mk mode true true false .any]
    | .permissive => [mk mode true true false .istio, mk mode true false false .any, mk mode false false false .any]
    | _ => [mk mode false false false .any]

/-! ## What a chain does with a connection -/

/-- A chain accepts plaintext: it matches `raw_buffer`. -/
def Chain.acceptsPlaintext (c : Chain) : Bool := !c.transportTLS

/-- A chain terminates TLS (of any kind). -/
def Chain.terminatesTLS (c : Chain) : Bool := c.sock != .none

/-- A chain completes a TLS handshake without a client certificate (one-way TLS termination). -/
def Chain.terminatesOneWayTLS (c : Chain) : Bool := c.sock == .tls

/-- A chain terminates Istio mutual TLS. -/
def Chain.terminatesMTLS (c : Chain) : Bool := c.transportTLS && c.sock == .mtls

/-! ## inbound_enforces -/

/-- **STRICT accepts only mutual TLS**: for HTTP, TCP and sniffed ports every chain matches `tls`
    only, terminates it and requires a client certificate: there is no chain for plaintext and no
    TLS pass-through. -/
theorem inbound_enforces_strict (proto : LProto) :
    ∀ c ∈ chains .strict proto, c.acceptsPlaintext = false ∧ c.terminatesMTLS = true ∧ c.terminate = true := by
  cases proto <;> decide

/-- STRICT has a chain at all (mutual TLS is accepted). -/
theorem inbound_strict_nonempty (proto : LProto) : (chains .strict proto) ≠ [] := by
  cases proto <;> decide

/-- **DISABLE terminates no TLS**: every chain matches `raw_buffer` and has no transport socket. -/
theorem inbound_enforces_disable (proto : LProto) :
    ∀ c ∈ chains .disable proto, c.terminatesTLS = false ∧ c.transportTLS = false ∧ c.acceptsPlaintext = true := by
  cases proto <;> decide

theorem inbound_disable_nonempty (proto : LProto) : (chains .disable proto) ≠ [] := by
  cases proto <;> decide

/-- **PERMISSIVE accepts both**: some chain accepts plaintext without terminating TLS, some chain
    terminates Istio mutual TLS; and every chain that terminates TLS requires a client certificate and
    only takes connections with an Istio ALPN (TLS that is not Istio's is passed through, never
    terminated). -/
theorem inbound_enforces_permissive (proto : LProto) :
    (∃ c ∈ chains .permissive proto, c.acceptsPlaintext = true ∧ c.terminatesTLS = false) ∧
    (∃ c ∈ chains .permissive proto, c.terminatesMTLS = true) ∧
    (∀ c ∈ chains .permissive proto, c.terminatesTLS = true → c.sock = .mtls ∧ c.alpn = .istio ∧ c.transportTLS = true) := by
  cases proto <;> decide

/-- In no mode and for no protocol does a chain terminate TLS without requiring a client certificate. -/
theorem inbound_never_one_way_tls (mode : MTLS) (proto : LProto) :
    ∀ c ∈ chains mode proto, c.terminatesOneWayTLS = false := by
  cases mode <;> cases proto <;> decide

/-- The `TLS` flag and the transport socket are consistent. -/
theorem inbound_terminate_iff_sock (mode : MTLS) (proto : LProto) (h : mode = .strict ∨ mode = .permissive) :
    ∀ c ∈ chains mode proto, c.terminate = c.terminatesTLS := by
  rcases h with rfl | rfl <;> cases proto <;> decide

/-- **inbound_enforces**, tied to the effective mode: the filter chains generated for a workload
    port (mode = the resolver's mode for that port, which is `effectiveMode`) admit plaintext iff
    the effective mode is not STRICT, and terminate mutual TLS iff it is not DISABLE. -/
theorem inbound_enforces {ps : List PA} (hu : UniqueKeys ps) (root : String) (w : Workload)
    (hs : w.svcNs = []) (port : Nat) (proto : LProto) :
    let cs := chains (workloadMode root ps w port) proto
    (cs.any Chain.acceptsPlaintext = true ↔ effectiveMode ps root w port ≠ .strict) ∧
    (cs.any Chain.terminatesMTLS = true ↔ effectiveMode ps root w port ≠ .disable) ∧
    (cs.any Chain.terminatesOneWayTLS = false) := by
  rw [compose_eq_spec hu root w hs]
  have ht := effectiveMode_total ps root w port
  cases hm : effectiveMode ps root w port with
  | unknown => exact absurd hm ht
  | disable => cases proto <;> decide
  | permissive => cases proto <;> decide
  | strict => cases proto <;> decide

end IstioModel.C10
